import CCT.Model.Json
import CCT.Model.Py
import CCT.Model.Time
import CCT.Model.Common
import CCT.Model.Auth
import CCT.Model.Signing
import CCT.Lemmas.JsonParseSer
import CCT.Ref.Crypto
