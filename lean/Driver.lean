import CCT.Model.Signing
import CCT.Model.Keys
import CCT.Model.Construct
import CCT.Model.Cli
import CCT.Model.SignSteps
import CCT.Model.RootSigning
import CCT.Model.GpgSteps
import CCT.Model.CliEdit
import CCT.Model.Reasons
import CCT.Ref.Crypto
import Std.Data.HashMap
import CCT.Model.IntLimit
import CCT.Model.Files
import CCT.Model.Diagnostics
/-!
# Driver — line protocol between the Python harness and the executable model

One request per line, one answer per line.  Values travel in a dedicated prefix encoding (NOT JSON, so
that the JSON model under test is not part of the transport):

    n | t | f | i<dec> | d<codes> | s<codes> | [ v* ] | { (s<codes> v)* } | ( v* ) tuple
    | b<hex> bytes | B<hex> bytearray | K<hex> public-key object | P<hex> private-key object
    | D<int> timedelta(seconds) | O<nat> opaque object
    codes = decimal code points separated by ','   (empty string: just "s")

Answers: `OK` | `T` | `F` | `E <ErrorClass>` | `V <value>` | `B <hex>` | `X <message>` (protocol problem).
-/
open CCT

namespace Drv

abbrev Tok := String

def parseCodes (s : String) : Option (List Nat) :=
  if s.isEmpty then some []
  else (s.splitOn ",").mapM (fun t => t.toNat?)

def hexNib (c : Char) : Option Nat :=
  if '0' ≤ c ∧ c ≤ '9' then some (c.toNat - 48)
  else if 'a' ≤ c ∧ c ≤ 'f' then some (c.toNat - 87)
  else none

def parseHexBytes (s : String) : Option (List Nat) :=
  let rec go : List Char → Option (List Nat)
    | [] => some []
    | a :: b :: r => do
      let h ← hexNib a; let l ← hexNib b; let t ← go r
      pure ((h * 16 + l) :: t)
    | _ => none
  go (match s.toList with | 'x' :: r => r | l => l)     -- an optional leading 'x' lets an empty byte string be a token

mutual
partial def parseJ : List Tok → Option (J × List Tok)
  | [] => none
  | t :: r =>
    if t == "n" then some (.null, r)
    else if t == "t" then some (.bool true, r)
    else if t == "f" then some (.bool false, r)
    else if t == "[" then parseJList r []
    else if t == "{" then parseJMembers r []
    else match t.toList with
      | 'i' :: rest => (String.ofList rest).toInt?.map fun z => (.int z, r)
      | 'd' :: rest => (parseCodes (String.ofList rest)).map fun c => (.flt c, r)
      | 's' :: rest => (parseCodes (String.ofList rest)).map fun c => (.str c, r)
      | _ => none
partial def parseJList : List Tok → List J → Option (J × List Tok)
  | [], _ => none
  | t :: r, acc =>
    if t == "]" then some (.arr acc.reverse, r)
    else match parseJ (t :: r) with
      | some (v, r') => parseJList r' (v :: acc)
      | none => none
partial def parseJMembers : List Tok → List (PStr × J) → Option (J × List Tok)
  | [], _ => none
  | t :: r, acc =>
    if t == "}" then some (.obj acc.reverse, r)
    else match t.toList with
      | 's' :: rest =>
        match parseCodes (String.ofList rest) with
        | some k =>
          match parseJ r with
          | some (v, r') => parseJMembers r' ((k, v) :: acc)
          | none => none
        | none => none
      | _ => none
end

partial def parseTupleElems : List Tok → List J → Option (List J × List Tok)
  | [], _ => none
  | t :: r, acc =>
    if t == ")" then some (acc.reverse, r)
    else match parseJ (t :: r) with
      | some (v, r') => parseTupleElems r' (v :: acc)
      | none => none

def parseAllJ : Nat → List Tok → List J → Option (List J)
  | 0, _, _ => none
  | _, [], acc => some acc.reverse
  | f+1, ts, acc => match parseJ ts with
    | some (v, r) => parseAllJ f r (v :: acc)
    | none => none

def parseVal : List Tok → Option (PyVal × List Tok)
  | [] => none
  | t :: r =>
    if t == "(" then (parseTupleElems r []).map fun (xs, r') => (.tuple xs, r')
    else match t.toList with
      | 'b' :: rest => (parseHexBytes (String.ofList rest)).map fun b => (.bytes b, r)
      | 'B' :: rest => (parseHexBytes (String.ofList rest)).map fun b => (.bytearray b, r)
      | 'K' :: rest => (parseHexBytes (String.ofList rest)).map fun b => (.pubkey b, r)
      | 'P' :: rest => (parseHexBytes (String.ofList rest)).map fun b => (.privkey b, r)
      | 'D' :: rest => (String.ofList rest).toInt?.map fun z => (.timedelta z, r)
      | 'O' :: rest => (String.ofList rest).toNat?.map fun n => (.opaque n, r)
      | _ => (parseJ (t :: r)).map fun (v, r') => (.j v, r')

def codesStr (cs : List Nat) : String := ",".intercalate (cs.map toString)

def hexStr (b : List Nat) : String :=
  String.ofList (b.flatMap fun x => [Char.ofNat (hexDigit (x / 16 % 16)), Char.ofNat (hexDigit (x % 16))])

mutual
partial def showJ : J → String
  | .null => "n"
  | .bool true => "t"
  | .bool false => "f"
  | .int z => "i" ++ toString z
  | .flt t => "d" ++ codesStr t
  | .str s => "s" ++ codesStr s
  | .arr xs => "[ " ++ String.join (xs.map fun x => showJ x ++ " ") ++ "]"
  | .obj kvs => "{ " ++ String.join (kvs.map fun (k, v) => "s" ++ codesStr k ++ " " ++ showJ v ++ " ") ++ "}"
end

def showVal : PyVal → String
  | .j v => showJ v
  | .tuple xs => "( " ++ String.join (xs.map fun x => showJ x ++ " ") ++ ")"
  | .bytes b => "b" ++ hexStr b
  | .bytearray b => "B" ++ hexStr b
  | .pubkey b => "K" ++ hexStr b
  | .privkey b => "P" ++ hexStr b
  | .timedelta z => "D" ++ toString z
  | .opaque n => "O" ++ toString n

def showResVal (r : Res PyVal) : String :=
  match r with
  | .ok v => "V " ++ showVal v
  | .error e => "E " ++ e.name

def showRes (r : Res Unit) : String :=
  match r with
  | .ok _ => "OK"
  | .error e => "E " ++ e.name

def showResBool (r : Res Bool) : String :=
  match r with
  | .ok true => "T"
  | .ok false => "F"
  | .error e => "E " ++ e.name

def showResJ (r : Res J) : String :=
  match r with
  | .ok v => "V " ++ showJ v
  | .error e => "E " ++ e.name

abbrev Memo := Std.HashMap (List Nat × List Nat × List Nat) Bool

def memoCrypto (m : Memo) : CryptoFns :=
  { Ref.refCrypto with
    verify := fun pub msg sig =>
      match m.get? (pub, msg, sig) with
      | some b => b
      | none => Ref.refCrypto.verify pub msg sig }

/-- cache warm-up only: the triples a `verify_signable` call on this envelope may ask about.  A miss
falls back to the real computation, so this affects speed, never results. -/
def warm (m : Memo) (env : J) (gpg : Bool) : Memo := Id.run do
  let mut m := m
  match env with
  | .obj top =>
    match dictGet (ps! "signed") top, dictGet (ps! "signatures") top with
    | some signed, some (.obj entries) =>
      let data := ser signed
      for (k, sig) in entries do
        if k.length == 64 then
          match sig with
          | .obj kvs =>
            match dictGet (ps! "signature") kvs with
            | some (.str sg) =>
              if sg.length == 128 then
                let msg := if gpg then
                    (match dictGet (ps! "other_headers") kvs with
                     | some (.str oh) => gpgDigest Ref.refCrypto data (unhex oh)
                     | _ => data)
                  else data
                let key := (unhex k, msg, unhex sg)
                if !m.contains key then
                  m := m.insert key (Ref.refCrypto.verify key.1 key.2.1 key.2.2)
            | _ => pure ()
          | _ => pure ()
    | _, _ => pure ()
  | _ => pure ()
  return m

def validatorByName (name : String) : Option (J → Res Unit) :=
  match name with
  | "hex_string" => some checkHexStringJ
  | "hex_key" => some checkHexKeyJ
  | "signable" => some checkSignableJ
  | "natural_int" => some checkNaturalIntJ
  | "string" => some checkStringJ
  | "list_of_hex_keys" => some checkListOfHexKeysJ
  | "utc_isoformat" => some checkUtcJ
  | "gpg_fingerprint" => some checkGpgFingerprintJ
  | "gpg_signature" => some checkGpgSignatureJ
  | "signature" => some checkSignatureJ
  | "any_signature" => some checkAnySignatureJ
  | "delegation" => some checkDelegationJ
  | "delegations" => some checkDelegationsJ
  | "delegating_metadata" => some checkDelegatingMdJ
  | _ => none

def checkByName (name : String) (v : PyVal) : Option (Res Unit) :=
  match name with
  | "byteslike" => some (checkBytesLike v)
  | "expiration_distance" => some (checkExpirationDistance v)
  | "key" => some (checkKey v)
  | _ => (validatorByName name).map fun f => liftJ f v

def predByName (name : String) (v : PyVal) : Option (Res Bool) :=
  let onJ (f : J → Res Bool) : Res Bool := match v with | .j x => f x | _ => .ok false
  match name with
  | "hex_string" => some (onJ isHexStringJ)
  | "hex_signature" => some (onJ isHexSignatureJ)
  | "hex_key" => some (onJ isHexKeyJ)
  | "signable" => some (onJ fun x => .ok (isSignableJ x))
  | "gpg_fingerprint" => some (onJ isGpgFingerprintJ)
  | "gpg_signature" => some (onJ isGpgSignatureJ)
  | "signature" => some (onJ isSignatureJ)
  | _ => none

def gpgOf (v : PyVal) : Bool := match v with | .j g => truthyJ g | _ => true

def handle (memo : Memo) (line : String) : Memo × String :=
  let toks := (line.trimAscii.toString.splitOn " ").filter (· ≠ "")
  match toks with
  | [] => (memo, "X empty")
  | op :: args =>
    let C := memoCrypto memo
    match op with
    | "ser" =>
      match parseVal args with
      | some (.j v, []) => (memo, match serPy v with | some b => "B " ++ hexStr b | none => "E ArgError")
      | some (.tuple xs, []) => (memo, match serPy (.arr xs) with | some b => "B " ++ hexStr b | none => "E ArgError")
      | some (_, []) => (memo, "E ArgError")
      | _ => (memo, "X bad-args")
    | "parse" =>
      match args with
      | [h] =>
        match parseHexBytes h with
        | some b => (match loadBytes b with
                     | some v => (memo, "V " ++ showJ v)
                     | none => (memo, "E ArgError"))
        | none => (memo, "X bad-hex")
      | [] => (memo, "E ArgError")
      | _ => (memo, "X bad-args")
    | "check" =>
      match args with
      | name :: rest =>
        match parseVal rest with
        | some (v, []) => (match checkByName name v with
                           | some r => (memo, showRes r)
                           | none => (memo, "X unknown-validator"))
        | _ => (memo, "X bad-args")
      | _ => (memo, "X bad-args")
    | "is" =>
      match args with
      | name :: rest =>
        match parseVal rest with
        | some (v, []) => (match predByName name v with
                           | some r => (memo, showResBool r)
                           | none => (memo, "X unknown-predicate"))
        | _ => (memo, "X bad-args")
      | _ => (memo, "X bad-args")
    | "vsig" =>
      match parseVal args with
      | some (s, r1) => match parseVal r1 with
        | some (k, r2) => match parseVal r2 with
          | some (d, []) => (memo, showRes (verifySignature C s k d))
          | _ => (memo, "X bad-args")
        | _ => (memo, "X bad-args")
      | _ => (memo, "X bad-args")
    | "vgpg" =>
      match parseVal args with
      | some (s, r1) => match parseVal r1 with
        | some (k, r2) => match parseVal r2 with
          | some (d, []) => (memo, showRes (verifyGpgSignature C s k d))
          | _ => (memo, "X bad-args")
        | _ => (memo, "X bad-args")
      | _ => (memo, "X bad-args")
    | "vsignable" =>
      match parseVal args with
      | some (e, r1) => match parseVal r1 with
        | some (k, r2) => match parseVal r2 with
          | some (t, r3) => match parseVal r3 with
            | some (g, []) =>
              let memo' := match e with | .j ej => warm memo ej (gpgOf g) | _ => memo
              (memo', showRes (verifySignablePy (memoCrypto memo') e k t g))
            | _ => (memo, "X bad-args")
          | _ => (memo, "X bad-args")
        | _ => (memo, "X bad-args")
      | _ => (memo, "X bad-args")
    | "vsignableio" =>
      -- verify_signable under a standard output that takes text (ok) / fails on every write (failing) / is absent
      match args with
      | stTok :: rest =>
        match (match stTok with | "ok" => some Stdout.takesText | "failing" => some Stdout.failing | "absent" => some Stdout.absent | _ => none), parseVal rest with
        | some st, some (.j e, r1) => match parseVal r1 with
          | some (.j k, r2) => match parseVal r2 with
            | some (.j t, r3) => match parseVal r3 with
              | some (g, []) =>
                let gpg := gpgOf g
                let memo' := warm memo e gpg
                (memo', showRes (withIntLimit (payloadOf e) (verifySignableUnder (memoCrypto memo') st e k t gpg)))
              | _ => (memo, "X bad-args")
            | _ => (memo, "X other-kinds")
          | _ => (memo, "X other-kinds")
        | _, _ => (memo, "X other-kinds")
      | _ => (memo, "X bad-args")
    | "vclass" =>
      -- per-entry class of every entry of an envelope's signature map, in map order (Model/Auth.lean: entryClass)
      match parseVal args with
      | some (.j (.obj top), r1) => match parseVal r1 with
        | some (.j (.arr ks), r2) => match parseVal r2 with
          | some (g, []) =>
            match dictGet (ps! "signed") top, dictGet (ps! "signatures") top with
            | some signed, some (.obj entries) =>
              let gpg := gpgOf g
              let memo' := warm memo (.obj top) gpg
              let C := memoCrypto memo'
              let data := ser signed
              (memo', "C " ++ String.intercalate "," (entries.map fun (k, sg) => (entryClass C gpg (ks.map strOf) data k sg).name))
            | _, _ => (memo, "C -")
          | _ => (memo, "X bad-args")
        | _ => (memo, "C -")
      | some _ => (memo, "C -")
      | none => (memo, "X bad-args")
    | "vdeleg" =>
      match parseVal args with
      | some (n, r1) => match parseVal r1 with
        | some (u, r2) => match parseVal r2 with
          | some (t, r3) => match parseVal r3 with
            | some (g, []) =>
              let memo' := match u with | .j uj => warm memo uj (gpgOf g) | _ => memo
              (memo', showRes (verifyDelegationPy (memoCrypto memo') n u t g))
            | _ => (memo, "X bad-args")
          | _ => (memo, "X bad-args")
        | _ => (memo, "X bad-args")
      | _ => (memo, "X bad-args")
    | "vrootR" =>
      -- every rejection class applicable to verify_root on these arguments (Model/Reasons.lean; C13.verifyRoot_reports_applicable)
      match parseVal args with
      | some (t, r1) => match parseVal r1 with
        | some (u, []) =>
          match t, u with
          | .j tj, .j uj =>
            let memo' := warm memo uj true
            (memo', "R " ++ ",".intercalate ((verifyRootReasons (memoCrypto memo') tj uj).map (·.name)))
          | _, _ => (memo, "R " ++ PyErr.arg.name)
        | _ => (memo, "X bad-args")
      | _ => (memo, "X bad-args")
    | "vdelegR" =>
      match parseVal args with
      | some (n, r1) => match parseVal r1 with
        | some (u, r2) => match parseVal r2 with
          | some (t, r3) => match parseVal r3 with
            | some (g, []) =>
              match n, u, t, g with
              | .j (.str nm), .j uj, .j tj, .j gj =>
                match gpgFlag gj with
                | some b =>
                  let memo' := warm memo uj b
                  (memo', "R " ++ ",".intercalate ((verifyDelegationReasons (memoCrypto memo') nm uj tj b).map (·.name)))
                | none => (memo, "R " ++ PyErr.arg.name)
              | _, _, _, _ => (memo, "R " ++ PyErr.arg.name)
            | _ => (memo, "X bad-args")
          | _ => (memo, "X bad-args")
        | _ => (memo, "X bad-args")
      | _ => (memo, "X bad-args")
    | "vroot" =>
      match parseVal args with
      | some (t, r1) => match parseVal r1 with
        | some (u, []) =>
          let memo' := match u with | .j uj => warm memo uj true | _ => memo
          (memo', showRes (verifyRootPy (memoCrypto memo') t u))
        | _ => (memo, "X bad-args")
      | _ => (memo, "X bad-args")
    | "chain" =>
      -- chain INIT OFFER* : the client loop of C04; answers the verdict per offer and the index of the root finally held
      match parseAllJ (args.length + 1) args [] with
      | some (init :: offers) =>
        let (memo', _, idx, verdicts) := offers.foldl (fun (st : Memo × J × Nat × List String) (o : J) =>
            let (m, cur, idx, vs) := st
            let m' := warm m o true
            let r := verifyRootJ (memoCrypto m') cur o
            let i := vs.length + 1
            match r with
            | .ok _ => (m', o, i, vs ++ ["OK"])
            | .error e => (m', cur, idx, vs ++ ["E " ++ e.name])) (memo, init, 0, [])
        (memo', "L " ++ ";".intercalate verdicts ++ "|" ++ toString idx)
      | _ => (memo, "X bad-args")
    | "wrap" =>
      match parseVal args with
      | some (v, []) => (memo, showResJ (wrapAsSignable v))
      | _ => (memo, "X bad-args")
    | "sign" =>
      match parseVal args with
      | some (e, r1) => match parseVal r1 with
        | some (k, []) => (memo, showResJ (signSignablePy C e k))
        | _ => (memo, "X bad-args")
      | _ => (memo, "X bad-args")
    | "signrepo" =>
      match parseVal args with
      | some (.j d, r1) => match parseVal r1 with
        | some (.j k, []) => (memo, showResJ (signRepodataJ C d k))
        | some (_, []) => (memo, "E ArgError")
        | _ => (memo, "X bad-args")
      | _ => (memo, "X bad-args")
    | "signrepofile" =>
      match parseVal args with
      | some (.j d, r1) => match parseVal r1 with
        | some (.j k, []) =>
          (match signRepodataJ C d k with
           | .ok v => (memo, "B " ++ hexStr (ser v))
           | .error e => (memo, "E " ++ e.name))
        | some (_, []) => (memo, "E ArgError")
        | _ => (memo, "X bad-args")
      | _ => (memo, "X bad-args")
    | "fsops" =>
      -- a history of operations on named files (Model/Files.lean):  P <name> <x<hex>|->   plant bytes / delete      W <name> <value>   write_metadata_to_file
      --   L <name>   load_metadata_from_file      S <name> <seed hex>   load + sign_signable + write.    Answer: per-operation results, then every file's content.
      let rec go (fuel : Nat) (toks : List Tok) (fs : FS) (names : List PStr) (out : List String) : Option (FS × List PStr × List String) :=
        match fuel with
        | 0 => none
        | fuel + 1 =>
          match toks with
          | [] => some (fs, names, out.reverse)
          | "P" :: n :: c :: r =>
            match parseCodes n with
            | some nm =>
              if c == "-" then go fuel r (fun x => if x = nm then none else fs x) (if names.contains nm then names else names ++ [nm]) ("ok" :: out)
              else match (if c.startsWith "x" then parseHexBytes (c.drop 1).toString else none) with
                | some b => go fuel r (fs.put nm b) (if names.contains nm then names else names ++ [nm]) ("ok" :: out)
                | none => none
            | none => none
          | "W" :: n :: r =>
            match parseCodes n, parseVal r with
            | some nm, some (.j v, r') =>
              (match writeMd fs nm v with
               | some fs' => go fuel r' fs' (if names.contains nm then names else names ++ [nm]) ("ok" :: out)
               | none => go fuel r' fs (if names.contains nm then names else names ++ [nm]) ("E" :: out))
            | _, _ => none
          | "L" :: n :: r =>
            match parseCodes n with
            | some nm =>
              go fuel r fs (if names.contains nm then names else names ++ [nm]) ((match loadMd fs nm with | some v => "V " ++ showJ v | none => "E") :: out)
            | none => none
          | "S" :: n :: sd :: r =>
            match parseCodes n, parseHexBytes sd with
            | some nm, some seed =>
              (match signFile C fs nm seed with
               | some fs' => go fuel r fs' (if names.contains nm then names else names ++ [nm]) ("ok" :: out)
               | none => go fuel r fs (if names.contains nm then names else names ++ [nm]) ("E" :: out))
            | _, _ => none
          | _ => none
      match go (args.length + 1) args (fun _ => none) [] [] with
      | some (fs, names, out) =>
        (memo, "F " ++ String.intercalate " | " out ++ " || " ++
          String.intercalate " " (names.map fun nm => String.intercalate "," (nm.map toString) ++ "=" ++ (match fs nm with | some b => "x" ++ hexStr b | none => "-")))
      | none => (memo, "X bad-args")
    | "cli" =>
      -- cli verify <trusted bytes | -> <untrusted bytes | ->      cli sign <repodata bytes | -> <key text as s-codes | ->
      let optBytes (t : Tok) : Option (Option Bytes) := if t == "-" then some none else (parseHexBytes t).map some
      let showOutcome (o : CliOutcome) : String :=
        match o with
        | .returned none => "R None"
        | .returned (some n) => "R " ++ toString n
        | .raised e => "E " ++ e.name
        | .usage => "U"
      match args with
      | ["verify", t, u] =>
        match optBytes t, optBytes u with
        | some tb, some ub =>
          let memo' := match ub with
            | some b => (match loadBytes b with | some uj => warm (warm memo uj true) uj false | none => memo)
            | none => memo
          let (o, ok) := cliVerifyMetadata (memoCrypto memo') tb ub
          (memo', showOutcome o ++ (if ok then " success" else " -") ++ " exit=" ++ toString (exitStatus .script o))
        | _, _ => (memo, "X bad-args")
      | ["verifyio", stdoutState, t, u] =>
        -- the same command under a standard output that takes text / fails on every write / is absent
        match optBytes t, optBytes u, (match stdoutState with | "ok" => some Stdout.takesText | "failing" => some Stdout.failing | "absent" => some Stdout.absent | _ => none) with
        | some tb, some ub, some st =>
          let memo' := match ub with
            | some b => (match loadBytes b with | some uj => warm (warm memo uj true) uj false | none => memo)
            | none => memo
          let (o, ok) := cliVerifyUnder (memoCrypto memo') st tb ub
          (memo', showOutcome o ++ (if ok then " success" else " -") ++ " exit=" ++ toString (exitStatus .script o))
        | _, _, _ => (memo, "X bad-args")
      | ["sign", r, k] =>
        match optBytes r with
        | some rb =>
          let kt : Option (Option PStr) := if k == "-" then some none else (match k.toList with | 's' :: rest => (parseCodes (String.ofList rest)).map some | _ => none)
          match kt with
          | some ktv =>
            let (o, f) := cliSignArtifacts C rb ktv
            (memo, showOutcome o ++ " exit=" ++ toString (exitStatus .script o) ++ " file=" ++ (match f with | some b => hexStr b | none => "-"))
          | none => (memo, "X bad-args")
        | none => (memo, "X bad-args")
      | _ => (memo, "X bad-args")
    | "signsteps" =>
      -- signsteps <file bytes | -> <key value> <fault index | ->   →  <result> opens=<r/w letters> file=<hex | ->
      match args with
      | f :: rest =>
        let fb : Option (Option Bytes) := if f == "-" then some none else (parseHexBytes f).map some
        match fb, parseVal rest.dropLast, rest.getLast? with
        | some file, some (.j key, []), some flt =>
          let fault : Option Nat := if flt == "-" then none else flt.toNat?
          let (r, st) := runSignRepo C key file fault
          let rs := match r with | .done => "done" | .failed e => "failed:" ++ e.name | .injected i => "injected:" ++ toString i
          let os := String.ofList (st.opens.map fun o => match o with | .read => 'r' | .write => 'w')
          (memo, rs ++ " opens=" ++ os ++ " file=" ++ (match st.file with | some b => hexStr b | none => "-") ++ " steps=" ++ toString (signPlan file).length)
        | some _, some (_, []), some _ => (memo, "failed:ArgError opens= file=" ++ (if f == "-" then "-" else (match f.toList with | 'x' :: r => String.ofList r | l => String.ofList l)) ++ " steps=0")
        | _, _, _ => (memo, "X bad-args")
      | _ => (memo, "X bad-args")
    | "gpg" =>
      -- gpg <dict|file|via|fetch> <sslib t|f> <other_headers> <signature> <q>  (what the signer returns: strings, anything else = it raises ValueError)  <args…>
      match args with
      | fn :: sl :: rest =>
        match parseVal rest with
        | some (oh, r1) => match parseVal r1 with
          | some (sg, r2) => match parseVal r2 with
            | some (q, r3) =>
              let G : GpgBackend :=
                { createSignature := fun _ _ => match oh, sg with | .j (.str a), .j (.str b) => .ok (a, b) | _, _ => .error .arg
                  exportQ := fun _ => match q with | .j (.str a) => .ok a | _ => .error .arg }
              let sslib := sl == "t"
              match fn with
              | "dict" => match parseVal r3 with
                | some (e, r4) => match parseVal r4 with
                  | some (f, []) => (memo, showResJ (signRootMdDictViaGpgV G sslib e f))
                  | _ => (memo, "X bad-args")
                | _ => (memo, "X bad-args")
              | "file" => match r3 with
                | ft :: r4 =>
                  let file : Option (Option Bytes) := if ft == "-" then some none else (parseHexBytes (match ft.toList with | 'x' :: r => String.ofList r | l => String.ofList l)).map some
                  match file, parseVal r4 with
                  | some fl, some (f, []) =>
                    (match signRootMdFileViaGpgV G sslib fl f with
                     | .ok b => (memo, "B " ++ hexStr b)
                     | .error e => (memo, "E " ++ e.name))
                  | _, _ => (memo, "X bad-args")
                | _ => (memo, "X bad-args")
              | "clisign" => match r3 with
                -- gpg clisign … <file bytes | -> <fingerprint argument as typed>: exit status (module entry point) and the file afterwards
                | ft :: r4 =>
                  let file : Option (Option Bytes) := if ft == "-" then some none else (parseHexBytes (match ft.toList with | 'x' :: r => String.ofList r | l => String.ofList l)).map some
                  match file, parseVal r4 with
                  | some fl, some (.j (.str f), []) =>
                    let (o, fl') := cliGpgSign G sslib fl f
                    (memo, "exit=" ++ toString (exitStatus .modulePkg o) ++ " file=" ++ (match fl' with | some b => hexStr b | none => "-"))
                  | _, _ => (memo, "X bad-args")
                | _ => (memo, "X bad-args")
              | "clilookup" => match parseVal r3 with
                | some (.j (.str f), []) =>
                  let (o, q) := cliGpgKeyLookup G sslib f
                  (memo, "exit=" ++ toString (exitStatus .modulePkg o) ++ " q=" ++ (match q with | some s => "s" ++ codesStr s | none => "-"))
                | _ => (memo, "X bad-args")
              | "steps" => match r3 with
                -- gpg steps … <file bytes | -> <fingerprint value> <fault index | ->: the step machine of the file-level GPG signing
                | ft :: r4 =>
                  let file : Option (Option Bytes) := if ft == "-" then some none else (parseHexBytes (match ft.toList with | 'x' :: r => String.ofList r | l => String.ofList l)).map some
                  match file, parseVal r4 with
                  | some fl, some (.j f, [flt]) =>
                    let fault : Option Nat := if flt == "-" then none else flt.toNat?
                    let (r, st) := runGpgSign G sslib f fl fault
                    let rs := match r with | .done => "done" | .failed e => "failed:" ++ e.name | .injected i => "injected:" ++ toString i
                    let os := String.ofList (st.opens.map fun o => match o with | .read => 'r' | .write => 'w')
                    (memo, rs ++ " opens=" ++ os ++ " file=" ++ (match st.file with | some b => hexStr b | none => "-") ++ " steps=" ++ toString gpgPlan.length)
                  | _, _ => (memo, "X bad-args")
                | _ => (memo, "X bad-args")
              | "cliedit" => match r3 with
                -- gpg cliedit … <file bytes | -> <array of the lines typed>: the interactive modify-metadata editor
                | ft :: r4 =>
                  let file : Option (Option Bytes) := if ft == "-" then some none else (parseHexBytes (match ft.toList with | 'x' :: r => String.ofList r | l => String.ofList l)).map some
                  match file, parseVal r4 with
                  | some fl, some (.j (.arr ls), []) =>
                    let inputs := ls.map strOf
                    let r := cliModifyMetadata C G sslib fl inputs
                    let oc := match r.outcome with
                      | .returned none => "R None" | .returned (some n) => "R " ++ toString n | .raised e => "E " ++ e.name | .usage => "usage"
                    let ws := ";".intercalate (r.writes.map fun (n, b) => "s" ++ codesStr n ++ ":" ++ hexStr b)
                    (memo, "exit=" ++ toString (exitStatus .modulePkg r.outcome) ++ " outcome=" ++ oc.replace " " "_" ++ " writes=" ++ ws)
                  | _, _ => (memo, "X bad-args")
                | _ => (memo, "X bad-args")
              | "via" => match parseVal r3 with
                | some (d, r4) => match parseVal r4 with
                  | some (f, [inc]) => (memo, showResJ (signViaGpgV G sslib d f (inc == "t")))
                  | _ => (memo, "X bad-args")
                | _ => (memo, "X bad-args")
              | "fetch" => match parseVal r3 with
                | some (f, []) => (memo, match fetchKeyvalFromGpgV G sslib f with | .ok s => "V s" ++ codesStr s | .error e => "E " ++ e.name)
                | _ => (memo, "X bad-args")
              | _ => (memo, "X bad-args")
            | _ => (memo, "X bad-args")
          | _ => (memo, "X bad-args")
        | _ => (memo, "X bad-args")
      | _ => (memo, "X bad-args")
    | "build" =>
      -- build <which> <y m d H M S>x2 <args as a list value, "O99" standing for an omitted optional argument>
      match args with
      | which :: y1 :: m1 :: d1 :: h1 :: mi1 :: s1 :: y2 :: m2 :: d2 :: h2 :: mi2 :: s2 :: rest =>
        match [y1, m1, d1, h1, mi1, s1, y2, m2, d2, h2, mi2, s2].mapM (·.toNat?) with
        | some [a1, a2, a3, a4, a5, a6, b1, b2, b3, b4, b5, b6] =>
          let nowA : DateTime := ⟨a1, a2, a3, a4, a5, a6⟩
          let nowB : DateTime := ⟨b1, b2, b3, b4, b5, b6⟩
          let rec parseArgs (fuel : Nat) (ts : List Tok) (acc : List PyVal) : Option (List PyVal) :=
            match fuel, ts with
            | _, [] => some acc.reverse
            | 0, _ => none
            | f+1, ts => match parseVal ts with
              | some (v, r) => parseArgs f r (v :: acc)
              | none => none
          let opt (v : PyVal) : Option PyVal := match v with | .opaque 99 => none | x => some x
          match which, parseArgs (rest.length + 1) rest [] with
          | "delegating", some [ty, dels, ver, ts, ex] => (memo, showResJ (buildDelegatingMd nowA nowB ty (opt dels) ver (opt ts) (opt ex)))
          | "root", some [ver, rk, rt, kk, kt, ts, ex] => (memo, showResJ (buildRootMd nowA nowB ver rk rt kk kt (opt ts) (opt ex)))
          | _, _ => (memo, "X bad-args")
        | _ => (memo, "X bad-clock")
      | _ => (memo, "X bad-args")
    | "key" =>
      match args with
      | fn :: rest =>
        match parseVal rest with
        | some (a, r2) =>
          let one (f : PyVal → String) : Memo × String := if r2.isEmpty then (memo, f a) else (memo, "X bad-args")
          match fn with
          | "priv_from_bytes" => one fun a => showResVal (privFromBytes a)
          | "pub_from_bytes" => one fun a => showResVal (pubFromBytes a)
          | "priv_from_hex" => one fun a => showResVal (privFromHex a)
          | "pub_from_hex" => one fun a => showResVal (pubFromHex a)
          | "priv_to_bytes" => one fun a => showResVal ((privToBytes a).map PyVal.bytes)
          | "pub_to_bytes" => one fun a => showResVal ((pubToBytes a).map PyVal.bytes)
          | "priv_to_hex" => one fun a => showResVal ((privToHex a).map fun h => PyVal.j (.str h))
          | "pub_to_hex" => one fun a => showResVal ((pubToHex a).map fun h => PyVal.j (.str h))
          | "public_of" => one fun a => showResVal (publicOf Ref.refCrypto a)
          | "priv_equiv" | "pub_equiv" =>
            match parseVal r2 with
            | some (b, []) => (memo, showResBool (if fn == "priv_equiv" then privIsEquivalent a b else pubIsEquivalent a b))
            | _ => (memo, "X bad-args")
          | _ => (memo, "X unknown-key-fn")
        | none => (memo, "X bad-args")
      | _ => (memo, "X bad-args")
    | "prim" =>
      match args with
      | ["pub", s] => match parseHexBytes s with
        | some b => (memo, "B " ++ hexStr (Ref.refCrypto.pubOf b))
        | none => (memo, "X bad-hex")
      | ["sign", s, m] => match parseHexBytes s, parseHexBytes m with
        | some sb, some mb => (memo, "B " ++ hexStr (Ref.refCrypto.sign sb mb))
        | _, _ => (memo, "X bad-hex")
      | ["verify", p, m, s] => match parseHexBytes p, parseHexBytes m, parseHexBytes s with
        | some pb, some mb, some sb => (memo, if Ref.refCrypto.verify pb mb sb then "T" else "F")
        | _, _, _ => (memo, "X bad-hex")
      | ["sha256", m] => match parseHexBytes m with
        | some mb => (memo, "B " ++ hexStr (Ref.refCrypto.sha256 mb))
        | none => (memo, "X bad-hex")
      | ["sha512", m] => match parseHexBytes m with
        | some mb => (memo, "B " ++ hexStr (Ref.ofB8 (Ref.sha512 (Ref.toB8 mb))))
        | none => (memo, "X bad-hex")
      | ["digest", d, h] => match parseHexBytes d, parseHexBytes h with
        | some db, some hb => (memo, "B " ++ hexStr (gpgDigest Ref.refCrypto db hb))
        | _, _ => (memo, "X bad-hex")
      | _ => (memo, "X bad-args")
    | "strptime" =>
      match parseVal args with
      | some (.j (.str s), []) =>
        (match pyStrptimeUtc s with
         | some d => (memo, s!"V {d.year} {d.month} {d.day} {d.hour} {d.minute} {d.second}")
         | none => (memo, "E ArgError"))
      | _ => (memo, "X bad-args")
    | "nd" =>
      (memo, "V " ++ codesStr ndStarts)
    | _ => (memo, "X unknown-op " ++ op)

partial def loop (stdin : IO.FS.Stream) (stdout : IO.FS.Stream) (memo : Memo) : IO Unit := do
  let line ← stdin.getLine
  if line.isEmpty then return ()
  let (memo', out) := handle memo line
  stdout.putStrLn out
  stdout.flush
  loop stdin stdout memo'

end Drv

def main : IO Unit := do
  let stdin ← IO.getStdin
  let stdout ← IO.getStdout
  Drv.loop stdin stdout {}
  stdout.flush
