import CCT.Ref.Ed25519
import CCT.Ref.Sha256
import CCT.Model.Auth
/-! The `CryptoFns` instance the driver runs the model with. -/
namespace CCT.Ref

def refCrypto : CCT.CryptoFns where
  verify pub msg sig := verify (toB8 pub) (toB8 msg) (toB8 sig)
  sign seed msg := ofB8 (sign (toB8 seed) (toB8 msg))
  pubOf seed := ofB8 (publicKey (toB8 seed))
  sha256 m := ofB8 (sha256 (toB8 m))

end CCT.Ref
