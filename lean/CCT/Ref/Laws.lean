import CCT.Ref.Crypto
/-!
# The structural laws of `Crypto` hold for the Lean reference implementation

`Crypto` (Model/Auth.lean) assumes five laws about the primitives.  Four of them — signature and public-key *shape* — are proved here for the
reference implementation the driver runs (`refCrypto`, RFC 8032 §5.1 transcribed); the fifth, `correct` (a signature verifies under its own
public key), needs the group law of the curve and is left to differential testing against OpenSSL (C19).
-/
namespace CCT.Ref
open CCT

theorem natLE_length (n len : Nat) : (natLE n len).length = len := by simp [natLE]

theorem ofB8_length (b : B8) : (ofB8 b).length = b.length := by simp [ofB8]

theorem ofB8_byte (b : B8) : ∀ x ∈ ofB8 b, x < 256 := by
  intro x hx
  simp only [ofB8, List.mem_map] at hx
  obtain ⟨u, _, rfl⟩ := hx
  exact u.toNat_lt

theorem compressPt_length (P : Pt) : (compressPt P).length = 32 := by simp [compressPt, natLE_length]

theorem ref_pub_len (s : Bytes) : (refCrypto.pubOf s).length = 32 := by
  simp [refCrypto, publicKey, ofB8_length, compressPt_length]

theorem ref_pub_byte (s : Bytes) : ∀ b ∈ refCrypto.pubOf s, b < 256 := ofB8_byte _

theorem ref_sign_len (s m : Bytes) : (refCrypto.sign s m).length = 64 := by
  simp [refCrypto, sign, ofB8_length, compressPt_length, natLE_length]

theorem ref_sign_byte (s m : Bytes) : ∀ b ∈ refCrypto.sign s m, b < 256 := ofB8_byte _

/-- **no malleable signatures**: the reference verification (as OpenSSL's) refuses every signature whose scalar half is not reduced below the group
order `L` — adding `L` to the scalar of a valid signature, the classic way to make a second valid-looking signature, gives a rejected one -/
theorem ref_verify_rejects_unreduced_scalar (pub msg sig : B8) (h : L ≤ leNat (sig.drop 32)) : verify pub msg sig = false := by
  unfold verify
  split
  · rfl
  · simp [h]

/-- verification accepts only 32-byte keys and 64-byte signatures -/
theorem ref_verify_lengths (pub msg sig : B8) (h : verify pub msg sig = true) : pub.length = 32 ∧ sig.length = 64 := by
  unfold verify at h
  split at h
  · cases h
  · rename_i hl
    simp only [bne_iff_ne, ne_eq, Bool.or_eq_true, decide_eq_true_eq, not_or, Decidable.not_not] at hl
    exact hl

/-- the reference implementation is a `Crypto` as soon as its correctness law is granted (the only law not proved here) -/
def refCryptoOf (hc : ∀ s m, s.length = 32 → refCrypto.verify (refCrypto.pubOf s) m (refCrypto.sign s m) = true) : Crypto :=
  { refCrypto with
    sign_len := fun s m _ => ref_sign_len s m
    sign_byte := fun s m _ => ref_sign_byte s m
    pub_len := fun s _ => ref_pub_len s
    pub_byte := fun s _ => ref_pub_byte s
    correct := hc }

end CCT.Ref
