import CCT.Ref.Sha512
/-!
# CCT.Ref.Ed25519 — RFC 8032 §5.1 Ed25519 (reference used by the driver)

Verification follows what OpenSSL's `ossl_ed25519_verify` does (the primitive the library really calls
through `cryptography`): reject `S ≥ L`; decode `A` without a canonicity check on `y` (the value is
reduced mod p) and without rejecting `x = 0` with the sign bit set; compute `R' = [S]B − [h]A` and compare
its *encoding* with the first 32 signature bytes.  Not verified in Lean (needs the Edwards group law);
every answer is cross-checked against `cryptography` by the harness.
-/
namespace CCT.Ref

-- Field / curve -----------------------------------------------------------
def p : Nat := 2^255 - 19
def L : Nat := 2^252 + 27742317777372353535851937790883648493

def powMod (b e m : Nat) : Nat := Id.run do
  let mut r := 1; let mut b := b % m; let mut e := e
  for _ in [0:e.log2 + 1] do
    if e % 2 == 1 then r := r * b % m
    b := b * b % m; e := e / 2
  return r

def inv (x : Nat) : Nat := powMod x (p - 2) p
def d : Nat := (p - 121665 % p) * inv 121666 % p   -- -121665/121666
def sqrtM1 : Nat := powMod 2 ((p - 1) / 4) p

structure Pt where (X Y Z T : Nat)

def Pt.add (a b : Pt) : Pt :=
  let A := (a.Y + p - a.X) * (b.Y + p - b.X) % p
  let B := (a.Y + a.X) * (b.Y + b.X) % p
  let C := 2 * a.T * b.T % p * d % p
  let D := 2 * a.Z * b.Z % p
  let E := (B + p - A) % p; let F := (D + p - C) % p; let G := (D + C) % p; let H := (B + A) % p
  ⟨E * F % p, G * H % p, F * G % p, E * H % p⟩

def Pt.zero : Pt := ⟨0, 1, 1, 0⟩

def Pt.mul (s : Nat) (P : Pt) : Pt := Id.run do
  let mut Q := Pt.zero; let mut P := P; let mut s := s
  for _ in [0:s.log2 + 1] do
    if s % 2 == 1 then Q := Q.add P
    P := P.add P; s := s / 2
  return Q

def Pt.eq (a b : Pt) : Bool :=
  (a.X * b.Z + p * p - b.X * a.Z) % p == 0 && (a.Y * b.Z + p * p - b.Y * a.Z) % p == 0

def recoverX (y : Nat) (sign : Nat) : Option Nat :=
  if y ≥ p then none else
  let x2 := (y * y + p - 1) % p * inv ((d * y % p * y + 1) % p) % p
  if x2 == 0 then (if sign == 1 then none else some 0) else
  let x := powMod x2 ((p + 3) / 8) p
  let x := if (x * x + p - x2) % p != 0 then x * sqrtM1 % p else x
  if (x * x + p - x2) % p != 0 then none else
  some (if x % 2 != sign then p - x else x)

def leNat (bs : B8) : Nat := bs.foldr (fun b a => a * 256 + b.toNat) 0
def natLE (n len : Nat) : B8 := (List.range len).map fun i => UInt8.ofNat (n >>> (8 * i))

def Gy : Nat := 4 * inv 5 % p
def G : Pt := match recoverX Gy 0 with
  | some x => ⟨x, Gy, 1, x * Gy % p⟩
  | none => Pt.zero

def compressPt (P : Pt) : B8 :=
  let zi := inv P.Z; let x := P.X * zi % p; let y := P.Y * zi % p
  natLE (y ||| ((x % 2) <<< 255)) 32

def decompress (bs : B8) : Option Pt :=
  if bs.length != 32 then none else
  let y := leNat bs; let sign := y >>> 255; let y := y &&& (2^255 - 1)
  match recoverX y sign with
  | none => none
  | some x => some ⟨x, y, 1, x * y % p⟩

def expandSecret (seed : B8) : Nat × B8 :=
  let h := sha512 seed
  let a := leNat (h.take 32)
  let a := (a &&& ((2^254 - 1) - 7)) ||| 2^254
  (a, h.drop 32)

def publicKey (seed : B8) : B8 := compressPt (Pt.mul (expandSecret seed).1 G)

def sign (seed msg : B8) : B8 :=
  let (a, prefix_) := expandSecret seed
  let A := compressPt (Pt.mul a G)
  let r := leNat (sha512 (prefix_ ++ msg)) % L
  let Rs := compressPt (Pt.mul r G)
  let h := leNat (sha512 (Rs ++ A ++ msg)) % L
  let s := (r + h * a) % L
  Rs ++ natLE s 32

/-- `ge_frombytes_vartime`: y taken mod p, no canonicity check, `x = 0` with sign bit accepted -/
def recoverXLax (y : Nat) (sign : Nat) : Option Nat :=
  let y := y % p
  let x2 := (y * y + p - 1) % p * inv ((d * y % p * y + 1) % p) % p
  if x2 == 0 then some 0 else
  let x := powMod x2 ((p + 3) / 8) p
  let x := if (x * x + p - x2) % p != 0 then x * sqrtM1 % p else x
  if (x * x + p - x2) % p != 0 then none else
  some (if x % 2 != sign then p - x else x)

def decompressLax (bs : B8) : Option Pt :=
  if bs.length != 32 then none else
  let y := leNat bs; let sign := y >>> 255; let y := (y &&& (2^255 - 1)) % p
  match recoverXLax y sign with
  | none => none
  | some x => some ⟨x, y, 1, x * y % p⟩

def Pt.neg (a : Pt) : Pt := ⟨(p - a.X % p) % p, a.Y, a.Z, (p - a.T % p) % p⟩

def verify (pub msg sig : B8) : Bool :=
  if pub.length != 32 || sig.length != 64 then false else
  let s := leNat (sig.drop 32)
  if s ≥ L then false else
  match decompressLax pub with
  | some A =>
    let h := leNat (sha512 (sig.take 32 ++ pub ++ msg)) % L
    let R' := (Pt.mul s G).add (Pt.mul h A.neg)
    compressPt R' == sig.take 32
  | none => false




end CCT.Ref
