import CCT.Lemmas.JsonParseSer
/-! Lemmas about key order, the insertion sort of object members and `canon`. -/
namespace CCT

-- Python `<` on str is a strict total order -------------------------------------------------------------
theorem strLt_irrefl : ∀ (a : PStr), strLt a a = false
  | [] => rfl
  | x :: r => by simp [strLt, strLt_irrefl r]

theorem strLt_trans : ∀ (a b c : PStr), strLt a b = true → strLt b c = true → strLt a c = true
  | [], [], _, h, _ => by simp [strLt] at h
  | [], _ :: _, [], _, h => by simp [strLt] at h
  | [], _ :: _, _ :: _, _, _ => rfl
  | _ :: _, [], _, h, _ => by simp [strLt] at h
  | _ :: _, _ :: _, [], _, h => by simp [strLt] at h
  | x :: a, y :: b, z :: c, h1, h2 => by
    simp only [strLt, Bool.or_eq_true, decide_eq_true_eq, Bool.and_eq_true, beq_iff_eq] at h1 h2 ⊢
    rcases h1 with h1 | ⟨e1, h1⟩ <;> rcases h2 with h2 | ⟨e2, h2⟩
    · left; omega
    · left; omega
    · left; omega
    · right; exact ⟨by omega, strLt_trans a b c h1 h2⟩

theorem strLt_connected : ∀ (a b : PStr), strLt a b = false → strLt b a = false → a = b
  | [], [], _, _ => rfl
  | [], _ :: _, h, _ => by simp [strLt] at h
  | _ :: _, [], _, h => by simp [strLt] at h
  | x :: a, y :: b, h1, h2 => by
    simp only [strLt, Bool.or_eq_false_iff, decide_eq_false_iff_not, Bool.and_eq_false_iff, beq_eq_false_iff_ne] at h1 h2
    have hxy : x = y := by omega
    subst hxy
    have := strLt_connected a b (by rcases h1.2 with h | h; exact absurd rfl h; exact h)
      (by rcases h2.2 with h | h; exact absurd rfl h; exact h)
    rw [this]

theorem strLt_asymm (a b : PStr) (h : strLt a b = true) : strLt b a = false := by
  cases hb : strLt b a with
  | false => rfl
  | true => have := strLt_trans a b a h hb; rw [strLt_irrefl] at this; cases this

-- sorted member lists --------------------------------------------------------------------------------
def KLt (a b : PStr × J) : Prop := strLt a.1 b.1 = true

def SortedKV (l : List (PStr × J)) : Prop := l.Pairwise KLt

theorem insertKV_perm (k : PStr) (v : J) : ∀ (l : List (PStr × J)), (insertKV k v l).Perm ((k, v) :: l)
  | [] => List.Perm.refl _
  | (k', v') :: r => by
    simp only [insertKV]
    split
    · exact List.Perm.refl _
    · exact ((insertKV_perm k v r).cons (k', v')).trans (List.Perm.swap _ _ _)

theorem insertKV_sorted (k : PStr) (v : J) : ∀ (l : List (PStr × J)), SortedKV l → (∀ p ∈ l, p.1 ≠ k) →
    SortedKV (insertKV k v l)
  | [], _, _ => by simp [insertKV, SortedKV]
  | (k', v') :: r, hs, hne => by
    simp only [insertKV]
    have ⟨h1, h2⟩ := List.pairwise_cons.mp hs
    split
    · rename_i hlt
      refine List.pairwise_cons.mpr ⟨?_, hs⟩
      intro p hp
      rcases List.mem_cons.mp hp with rfl | hp
      · exact hlt
      · exact strLt_trans _ _ _ hlt (h1 p hp)
    · rename_i hlt
      have hlt' : strLt k k' = false := by simpa using hlt
      have hk : strLt k' k = true := by
        cases hb : strLt k' k with
        | true => rfl
        | false => exact absurd (strLt_connected k k' hlt' hb).symm (hne (k', v') (by simp))
      refine List.pairwise_cons.mpr ⟨?_, insertKV_sorted k v r h2 (fun p hp => hne p (by simp [hp]))⟩
      intro p hp
      have := (insertKV_perm k v r).subset hp
      rcases List.mem_cons.mp this with rfl | hp
      · exact hk
      · exact h1 p hp

theorem sortKV_perm : ∀ (l : List (PStr × J)), (sortKV l).Perm l
  | [] => List.Perm.refl _
  | (k, v) :: r => (insertKV_perm k v (sortKV r)).trans ((sortKV_perm r).cons _)

theorem sortKV_sorted : ∀ (l : List (PStr × J)), (l.map (·.1)).Nodup → SortedKV (sortKV l)
  | [], _ => List.Pairwise.nil
  | (k, v) :: r, h => by
    simp only [List.map_cons, List.nodup_cons] at h
    refine insertKV_sorted k v (sortKV r) (sortKV_sorted r h.2) ?_
    intro p hp e
    have := (sortKV_perm r).subset hp
    exact h.1 (e ▸ List.mem_map_of_mem (f := (·.1)) this)

theorem sorted_eq_of_perm {l l' : List (PStr × J)} (h1 : SortedKV l) (h2 : SortedKV l') (hp : l.Perm l') : l = l' :=
  List.Perm.eq_of_pairwise (fun a b _ _ hab hba => by
    have := strLt_asymm _ _ hab; unfold KLt at hba; rw [this] at hba; cases hba) h1 h2 hp

/-- the sorted form depends only on the *set* of members: any permutation sorts to the same list -/
theorem sortKV_congr_perm {l l' : List (PStr × J)} (hp : l.Perm l') (hn : (l.map (·.1)).Nodup) : sortKV l = sortKV l' :=
  sorted_eq_of_perm (sortKV_sorted l hn) (sortKV_sorted l' ((hp.map _).nodup hn))
    ((sortKV_perm l).trans (hp.trans (sortKV_perm l').symm))

theorem sorted_nodup {l : List (PStr × J)} (h : SortedKV l) : (l.map (·.1)).Nodup := by
  induction l with
  | nil => exact List.nodup_nil
  | cons p r ih =>
    have ⟨h1, h2⟩ := List.pairwise_cons.mp h
    refine List.nodup_cons.mpr ⟨?_, ih h2⟩
    intro hm
    obtain ⟨q, hq, e⟩ := List.mem_map.mp hm
    have := h1 q hq
    unfold KLt at this
    rw [e, strLt_irrefl] at this; cases this

theorem sortKV_of_sorted {l : List (PStr × J)} (h : SortedKV l) : sortKV l = l :=
  sorted_eq_of_perm (sortKV_sorted l (sorted_nodup h)) h (sortKV_perm l)

-- WF as a membership statement -------------------------------------------------------------------------
theorem WFm_iff : ∀ (l : List (PStr × J)), WFm l ↔ ∀ p ∈ l, StrOK p.1 ∧ p.2.WF
  | [] => by simp [WFm]
  | (k, v) :: r => by
    simp only [WFm, WFm_iff r, List.mem_cons, forall_eq_or_imp]
    constructor
    · rintro ⟨a, b, c⟩; exact ⟨⟨a, b⟩, c⟩
    · rintro ⟨⟨a, b⟩, c⟩; exact ⟨a, b, c⟩

theorem WFs_iff : ∀ (l : List J), WFs l ↔ ∀ x ∈ l, x.WF
  | [] => by simp [WFs]
  | x :: r => by simp [WFs, WFs_iff r]

theorem canonMembers_keys : ∀ (l : List (PStr × J)), (canonMembers l).map (·.1) = l.map (·.1)
  | [] => rfl
  | (k, v) :: r => by simp [canonMembers, canonMembers_keys r]

theorem mem_canonMembers : ∀ (l : List (PStr × J)) (p : PStr × J), p ∈ canonMembers l → ∃ q ∈ l, p = (q.1, canon q.2)
  | [], p, h => by simp [canonMembers] at h
  | (k, v) :: r, p, h => by
    simp only [canonMembers, List.mem_cons] at h
    rcases h with rfl | h
    · exact ⟨(k, v), by simp, rfl⟩
    · obtain ⟨q, hq, e⟩ := mem_canonMembers r p h
      exact ⟨q, by simp [hq], e⟩

theorem mem_canonList : ∀ (l : List J) (x : J), x ∈ canonList l → ∃ y ∈ l, x = canon y
  | [], x, h => by simp [canonList] at h
  | y :: r, x, h => by
    simp only [canonList, List.mem_cons] at h
    rcases h with rfl | h
    · exact ⟨y, by simp, rfl⟩
    · obtain ⟨z, hz, e⟩ := mem_canonList r x h
      exact ⟨z, by simp [hz], e⟩

mutual
/-- canonicalisation preserves well-formedness -/
theorem canon_wf (v : J) (hv : v.WF) : (canon v).WF := by
  match v with
  | .null => exact hv
  | .bool _ => exact hv
  | .int _ => exact hv
  | .flt _ => exact hv
  | .str _ => exact hv
  | .arr xs =>
    simp only [canon, J.WF]
    simp only [J.WF] at hv
    exact canonList_wf xs hv
  | .obj kvs =>
    simp only [J.WF] at hv
    simp only [canon, J.WF]
    have hm := canonMembers_wf kvs hv.1
    refine ⟨?_, ?_⟩
    · rw [WFm_iff] at hm ⊢
      intro p hp
      exact hm p ((sortKV_perm _).subset hp)
    · exact sorted_nodup (sortKV_sorted _ (by rw [canonMembers_keys]; exact hv.2))
theorem canonList_wf (xs : List J) (h : WFs xs) : WFs (canonList xs) := by
  match xs with
  | [] => trivial
  | x :: r =>
    simp only [WFs] at h
    simp only [canonList, WFs]
    exact ⟨canon_wf x h.1, canonList_wf r h.2⟩
theorem canonMembers_wf (kvs : List (PStr × J)) (h : WFm kvs) : WFm (canonMembers kvs) := by
  match kvs with
  | [] => trivial
  | (k, v) :: r =>
    simp only [WFm] at h
    simp only [canonMembers, WFm]
    exact ⟨h.1, canon_wf v h.2.1, canonMembers_wf r h.2.2⟩
end

-- values whose objects are all sorted by key (what `canon` produces)
mutual
def J.Sorted : J → Prop
  | .arr xs => SortedL xs
  | .obj kvs => SortedKV kvs ∧ SortedM kvs
  | _ => True
def SortedL : List J → Prop
  | [] => True
  | x :: r => x.Sorted ∧ SortedL r
def SortedM : List (PStr × J) → Prop
  | [] => True
  | (_, v) :: r => v.Sorted ∧ SortedM r
end

theorem SortedM_iff : ∀ (l : List (PStr × J)), SortedM l ↔ ∀ p ∈ l, p.2.Sorted
  | [] => by simp [SortedM]
  | (k, v) :: r => by simp [SortedM, SortedM_iff r]

mutual
theorem canon_sorted (v : J) (hv : v.WF) : (canon v).Sorted := by
  match v with
  | .null => trivial
  | .bool _ => trivial
  | .int _ => trivial
  | .flt _ => trivial
  | .str _ => trivial
  | .arr xs =>
    simp only [J.WF] at hv
    simp only [canon, J.Sorted]
    exact canonList_sorted xs hv
  | .obj kvs =>
    simp only [J.WF] at hv
    simp only [canon, J.Sorted]
    refine ⟨sortKV_sorted _ (by rw [canonMembers_keys]; exact hv.2), ?_⟩
    have := canonMembers_sorted kvs hv.1
    rw [SortedM_iff] at this ⊢
    intro p hp
    exact this p ((sortKV_perm _).subset hp)
theorem canonList_sorted (xs : List J) (h : WFs xs) : SortedL (canonList xs) := by
  match xs with
  | [] => trivial
  | x :: r =>
    simp only [WFs] at h
    exact ⟨canon_sorted x h.1, canonList_sorted r h.2⟩
theorem canonMembers_sorted (kvs : List (PStr × J)) (h : WFm kvs) : SortedM (canonMembers kvs) := by
  match kvs with
  | [] => trivial
  | (k, v) :: r =>
    simp only [WFm] at h
    exact ⟨canon_sorted v h.2.1, canonMembers_sorted r h.2.2⟩
end

mutual
/-- `canon` is the identity on values that are already sorted -/
theorem canon_of_sorted (v : J) (hv : v.Sorted) : canon v = v := by
  match v with
  | .null => rfl
  | .bool _ => rfl
  | .int _ => rfl
  | .flt _ => rfl
  | .str _ => rfl
  | .arr xs =>
    simp only [J.Sorted] at hv
    simp only [canon, canonList_of_sorted xs hv]
  | .obj kvs =>
    simp only [J.Sorted] at hv
    simp only [canon, canonMembers_of_sorted kvs hv.2, sortKV_of_sorted hv.1]
theorem canonList_of_sorted (xs : List J) (h : SortedL xs) : canonList xs = xs := by
  match xs with
  | [] => rfl
  | x :: r =>
    simp only [SortedL] at h
    simp only [canonList, canon_of_sorted x h.1, canonList_of_sorted r h.2]
theorem canonMembers_of_sorted (kvs : List (PStr × J)) (h : SortedM kvs) : canonMembers kvs = kvs := by
  match kvs with
  | [] => rfl
  | (k, v) :: r =>
    simp only [SortedM] at h
    simp only [canonMembers, canon_of_sorted v h.1, canonMembers_of_sorted r h.2]
end

theorem canon_idem (v : J) (hv : v.WF) : canon (canon v) = canon v := canon_of_sorted _ (canon_sorted v hv)

end CCT
