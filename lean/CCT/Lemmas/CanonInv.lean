import CCT.Lemmas.Canon
import CCT.Lemmas.Dict
import CCT.Props.C02
/-! Verdicts are invariant under canonical re-ordering (what a write/load cycle does to an envelope). -/
namespace CCT
open Classical
open CCT.C15

theorem dictGet_eq_some_iff : ∀ (l : List (PStr × J)), (l.map (·.1)).Nodup → ∀ k v, dictGet k l = some v ↔ (k, v) ∈ l
  | [], _, k, v => by simp [dictGet]
  | (k', v') :: r, hn, k, v => by
    simp only [List.map_cons, List.nodup_cons] at hn
    simp only [dictGet]
    by_cases e : k' = k
    · subst e
      simp only [if_true, Option.some.injEq, List.mem_cons, Prod.mk.injEq, true_and]
      constructor
      · intro h; exact Or.inl h.symm
      · rintro (h | h)
        · exact h.symm
        · exact absurd (List.mem_map_of_mem (f := (·.1)) h) hn.1
    · simp only [e, if_false, List.mem_cons, Prod.mk.injEq]
      rw [dictGet_eq_some_iff r hn.2 k v]
      constructor
      · intro h; exact Or.inr h
      · rintro (⟨h, _⟩ | h)
        · exact absurd h.symm e
        · exact h

theorem dictGet_perm {l l' : List (PStr × J)} (hp : l.Perm l') (hn : (l.map (·.1)).Nodup) (k : PStr) : dictGet k l' = dictGet k l := by
  have hn' : (l'.map (·.1)).Nodup := (hp.map _).nodup hn
  cases h : dictGet k l with
  | some v => exact (dictGet_eq_some_iff l' hn' k v).mpr (hp.mem_iff.mp ((dictGet_eq_some_iff l hn k v).mp h))
  | none =>
    cases h' : dictGet k l' with
    | none => rfl
    | some v =>
      have := (dictGet_eq_some_iff l hn k v).mpr (hp.mem_iff.mpr ((dictGet_eq_some_iff l' hn' k v).mp h'))
      rw [h] at this; cases this

theorem dictGet_canonMembers (k : PStr) : ∀ (l : List (PStr × J)), dictGet k (canonMembers l) = (dictGet k l).map canon
  | [] => rfl
  | (k', v) :: r => by
    simp only [canonMembers, dictGet]
    by_cases e : k' = k
    · simp [e]
    · simp [e, dictGet_canonMembers k r]

/-- lookups commute with canonicalisation of an object's members -/
theorem dictGet_canonObj (k : PStr) (l : List (PStr × J)) (hn : (l.map (·.1)).Nodup) :
    dictGet k (sortKV (canonMembers l)) = (dictGet k l).map canon := by
  rw [dictGet_perm (sortKV_perm (canonMembers l)).symm ?_ k, dictGet_canonMembers]
  rw [canonMembers_keys]; exact hn

theorem canonObj_keys_perm (l : List (PStr × J)) : ((sortKV (canonMembers l)).map (·.1)).Perm (l.map (·.1)) := by
  have := (sortKV_perm (canonMembers l)).map (·.1)
  rw [canonMembers_keys] at this
  exact this

theorem keysetEq_canonObj (l : List (PStr × J)) (names : List PStr) : keysetEq (sortKV (canonMembers l)) names = keysetEq l names := by
  have hp := canonObj_keys_perm l
  simp only [keysetEq, dictKeys]
  congr 1
  · rw [Bool.eq_iff_iff]
    simp only [List.all_eq_true]
    exact ⟨fun h k hk => h k (hp.mem_iff.mpr hk), fun h k hk => h k (hp.mem_iff.mp hk)⟩
  · rw [Bool.eq_iff_iff]
    simp only [List.all_eq_true, List.contains_iff_mem]
    exact ⟨fun h n hn => hp.mem_iff.mp (h n hn), fun h n hn => hp.mem_iff.mpr (h n hn)⟩

theorem canonMembers_length : ∀ (l : List (PStr × J)), (canonMembers l).length = l.length
  | [] => rfl
  | (k, v) :: r => by simp [canonMembers, canonMembers_length r]

theorem canonObj_length (l : List (PStr × J)) : (sortKV (canonMembers l)).length = l.length := by
  rw [(sortKV_perm (canonMembers l)).length_eq, canonMembers_length]

theorem canon_str_iff (v : J) (s : PStr) : canon v = .str s ↔ v = .str s := by
  cases v <;> simp [canon]

theorem hexN_canon (n : Nat) (v : J) : HexN n (canon v) ↔ HexN n v := by
  constructor
  · rintro ⟨s, e, h⟩; exact ⟨s, (canon_str_iff v s).mp e, h⟩
  · rintro ⟨s, e, h⟩; exact ⟨s, (canon_str_iff v s).mpr e, h⟩

theorem hexStr_canon (v : J) : HexStr (canon v) ↔ HexStr v := by
  constructor
  · rintro ⟨s, e, h⟩; exact ⟨s, (canon_str_iff v s).mp e, h⟩
  · rintro ⟨s, e, h⟩; exact ⟨s, (canon_str_iff v s).mpr e, h⟩

theorem strOf_canon (v : J) : strOf (canon v) = strOf v := by cases v <;> simp [canon, strOf]

/-- keys of the object are distinct (the part of `J.WF` that matters here) -/
def ObjKeysNodup : J → Prop
  | .obj kvs => (kvs.map (·.1)).Nodup
  | _ => True

theorem entryField_canon (n : PStr) (sig : J) (h : ObjKeysNodup sig) : entryField n (canon sig) = canon (entryField n sig) := by
  cases sig with
  | obj kvs =>
    simp only [canon, entryField, dictGet_canonObj n kvs h]
    cases dictGet n kvs <;> simp [canon]
  | _ => simp [canon, entryField]

theorem keysAre_canonObj (l : List (PStr × J)) (names : List PStr) : keysAre (sortKV (canonMembers l)) names = keysAre l names := by
  simp only [keysAre, keysetEq_canonObj, canonObj_length]

theorem rawShape_canon (sig : J) (h : ObjKeysNodup sig) : RawShape (canon sig) ↔ RawShape sig := by
  cases sig with
  | obj kvs =>
    simp only [canon]
    constructor
    · rintro ⟨k', e, hl, g, hg, h128⟩
      cases e
      rw [canonObj_length] at hl
      rw [dictGet_canonObj _ kvs h] at hg
      cases hd : dictGet (ps! "signature") kvs with
      | none => rw [hd] at hg; cases hg
      | some g0 => rw [hd] at hg; simp at hg; subst hg; exact ⟨kvs, rfl, hl, g0, hd, (hexN_canon _ _).mp h128⟩
    · rintro ⟨k', e, hl, g, hg, h128⟩
      cases e
      exact ⟨_, rfl, by rw [canonObj_length]; exact hl, canon g, by rw [dictGet_canonObj _ kvs h, hg]; rfl, (hexN_canon _ _).mpr h128⟩
  | _ => constructor <;> rintro ⟨_, e, _⟩ <;> simp [canon] at e

theorem gpgShape_canon (sig : J) (h : ObjKeysNodup sig) : GpgShape (canon sig) ↔ GpgShape sig := by
  cases sig with
  | obj kvs =>
    simp only [canon]
    constructor
    · rintro ⟨k', e, hk, ⟨oh, hoh, h1⟩, ⟨sg, hsg, h2⟩, h3⟩
      cases e
      rw [keysAre_canonObj, keysAre_canonObj] at hk
      rw [dictGet_canonObj _ kvs h] at hoh hsg
      cases ho : dictGet (ps! "other_headers") kvs with
      | none => rw [ho] at hoh; cases hoh
      | some oh0 =>
        cases hs : dictGet (ps! "signature") kvs with
        | none => rw [hs] at hsg; cases hsg
        | some sg0 =>
          rw [ho] at hoh; rw [hs] at hsg
          simp at hoh hsg; subst hoh; subst hsg
          refine ⟨kvs, rfl, hk, ⟨oh0, ho, (hexStr_canon _).mp h1⟩, ⟨sg0, hs, (hexN_canon _ _).mp h2⟩, ?_⟩
          intro f hf
          have := h3 (canon f) (by rw [dictGet_canonObj _ kvs h, hf]; rfl)
          exact (hexN_canon _ _).mp this
    · rintro ⟨k', e, hk, ⟨oh, hoh, h1⟩, ⟨sg, hsg, h2⟩, h3⟩
      cases e
      refine ⟨_, rfl, by rw [keysAre_canonObj, keysAre_canonObj]; exact hk, ⟨canon oh, by rw [dictGet_canonObj _ kvs h, hoh]; rfl, (hexStr_canon _).mpr h1⟩,
        ⟨canon sg, by rw [dictGet_canonObj _ kvs h, hsg]; rfl, (hexN_canon _ _).mpr h2⟩, ?_⟩
      intro f hf
      rw [dictGet_canonObj _ kvs h] at hf
      cases hd : dictGet (ps! "see_also") kvs with
      | none => rw [hd] at hf; cases hf
      | some f0 => rw [hd] at hf; simp at hf; subst hf; exact (hexN_canon _ _).mpr (h3 f0 hd)
  | _ => constructor <;> rintro ⟨_, e, _⟩ <;> simp [canon] at e

/-- whether an entry counts is unaffected by re-ordering the fields of the entry -/
theorem counts_canon (C : CryptoFns) (gpg : Bool) (auth : List PStr) (data : Bytes) (k : PStr) (sig : J) (h : ObjKeysNodup sig) :
    Counts C gpg auth data k (canon sig) ↔ Counts C gpg auth data k sig := by
  unfold Counts
  rw [gpgShape_canon sig h, rawShape_canon sig h, entryField_canon _ sig h, entryField_canon _ sig h, strOf_canon, strOf_canon]

theorem wf_objKeysNodup {v : J} (h : v.WF) : ObjKeysNodup v := by
  cases v <;> simp [ObjKeysNodup]
  simp only [J.WF] at h; exact h.2

theorem mem_canonObj (l : List (PStr × J)) (k : PStr) (s' : J) :
    (k, s') ∈ sortKV (canonMembers l) ↔ ∃ s, (k, s) ∈ l ∧ s' = canon s := by
  rw [(sortKV_perm (canonMembers l)).mem_iff]
  constructor
  · intro h
    obtain ⟨q, hq, e⟩ := mem_canonMembers l (k, s') h
    cases e
    exact ⟨q.2, hq, rfl⟩
  · rintro ⟨s, hs, rfl⟩
    induction l with
    | nil => cases hs
    | cons p r ih =>
      obtain ⟨k0, v0⟩ := p
      simp only [canonMembers, List.mem_cons] at hs ⊢
      rcases hs with e | hs
      · cases e; exact Or.inl rfl
      · exact Or.inr (ih hs)

/-- the threshold test is unaffected by canonicalising the signature map -/
theorem thresholdMet_canon (C : CryptoFns) (gpg : Bool) (auth : List PStr) (data : Bytes) (entries : List (PStr × J)) (hw : WFm entries) (t : Nat) :
    ThresholdMet C gpg auth data (sortKV (canonMembers entries)) t ↔ ThresholdMet C gpg auth data entries t := by
  have hwf := (WFm_iff entries).mp hw
  constructor
  · rintro ⟨S, hS, hl, hall⟩
    refine ⟨S, hS, hl, fun k hk => ?_⟩
    obtain ⟨sig', hm, hc⟩ := hall k hk
    obtain ⟨s, hs, rfl⟩ := (mem_canonObj entries k sig').mp hm
    exact ⟨s, hs, (counts_canon C gpg auth data k s (wf_objKeysNodup (hwf (k, s) hs).2)).mp hc⟩
  · rintro ⟨S, hS, hl, hall⟩
    refine ⟨S, hS, hl, fun k hk => ?_⟩
    obtain ⟨s, hs, hc⟩ := hall k hk
    exact ⟨canon s, (mem_canonObj entries k _).mpr ⟨s, hs, rfl⟩, (counts_canon C gpg auth data k s (wf_objKeysNodup (hwf (k, s) hs).2)).mpr hc⟩

theorem isSignable_canon (env : J) (h : env.WF) : isSignableJ (canon env) = isSignableJ env := by
  cases env with
  | obj top =>
    simp only [J.WF] at h
    simp only [canon, isSignableJ, keysetEq_canonObj, dictGet_canonObj _ top h.2]
    cases dictGet (ps! "signatures") top with
    | none => rfl
    | some s => cases s <;> simp [canon]
  | _ => simp [canon, isSignableJ]

theorem envParts_canon {env : J} {entries : List (PStr × J)} {signed : J} (h : env.WF) (hp : EnvParts env entries signed) :
    EnvParts (canon env) (sortKV (canonMembers entries)) (canon signed) ∧ WFm entries ∧ signed.WF := by
  obtain ⟨hs, top, rfl, h1, h2⟩ := hp
  have hs' := isSignable_canon _ h
  simp only [J.WF] at h
  have hwf := (WFm_iff top).mp h.1
  have m1 := (dictGet_eq_some_iff top h.2 _ _).mp h1
  have m2 := (dictGet_eq_some_iff top h.2 _ _).mp h2
  have w1 := (hwf _ m1).2
  have w2 := (hwf _ m2).2
  simp only [J.WF] at w1
  refine ⟨⟨by rw [hs']; exact hs, _, rfl, ?_, ?_⟩, w1.1, w2⟩
  · rw [dictGet_canonObj _ top h.2, h1]; rfl
  · rw [dictGet_canonObj _ top h.2, h2]; rfl

/-- **the verdict of `verify_signable` on a reloaded envelope equals the verdict on the envelope in memory** -/
theorem verifySignable_canon (C : CryptoFns) (env keys thr : J) (gpg : Bool) (h : env.WF) :
    verifySignableJ C (canon env) keys thr gpg = verifySignableJ C env keys thr gpg := by
  by_cases hw : WellTyped env keys thr
  · obtain ⟨hs, ⟨ks, rfl, hk⟩, t, ht, hpos⟩ := hw
    obtain ⟨entries, signed, hp⟩ := isSignable_parts hs
    obtain ⟨hp', hwm, hws⟩ := envParts_canon h hp
    rw [verifySignable_welltyped C env _ thr gpg entries signed ks t hp rfl hk ht hpos,
      verifySignable_welltyped C (canon env) _ thr gpg _ _ ks t hp' rfl hk ht hpos]
    have e : ser (canon signed) = ser signed := by simp only [ser, canon_idem signed hws]
    rw [e]
    by_cases hm : ThresholdMet C gpg (ks.map strOf) (ser signed) entries t.toNat
    · simp [hm, (thresholdMet_canon C gpg _ _ entries hwm _).mpr hm]
    · have : ¬ ThresholdMet C gpg (ks.map strOf) (ser signed) (sortKV (canonMembers entries)) t.toNat :=
        fun h' => hm ((thresholdMet_canon C gpg _ _ entries hwm _).mp h')
      simp [hm, this]
  · have hw' : ¬ WellTyped (canon env) keys thr := by
      rintro ⟨a, b, c⟩; exact hw ⟨by rw [← isSignable_canon env h]; exact a, b, c⟩
    rw [verifySignable_illtyped C env keys thr gpg hw, verifySignable_illtyped C (canon env) keys thr gpg hw']

end CCT
