import CCT.Model.Heap
import CCT.Lemmas.JsonWF
/-! Deep copies are fresh and self-contained; old objects are untouched by allocation; reads of closed old trees ignore fresh writes. -/
namespace CCT

theorem push_spec (h : Heap) (o : Obj) :
    (h.push o).2 = h.next ∧ (h.push o).1.next = h.next + 1 ∧ (h.push o).1.get h.next = some o ∧
    ∀ j, j ≠ h.next → (h.push o).1.get j = h.get j := by
  refine ⟨rfl, rfl, by simp [Heap.push], fun j hj => by simp [Heap.push, hj]⟩

/-- `h''` coincides with `h'` on the id range `[lo, hi)` -/
def AgreeOn (h'' h' : Heap) (lo hi : Nat) : Prop := ∀ j, lo ≤ j → j < hi → h''.get j = h'.get j

mutual
theorem alloc_spec (h : Heap) (v : J) :
    h.next ≤ (alloc h v).2 ∧ (alloc h v).2 < (alloc h v).1.next ∧
    (∀ j, j < h.next → (alloc h v).1.get j = h.get j) ∧
    ∀ (h'' : Heap) (f : Nat), AgreeOn h'' (alloc h v).1 h.next (alloc h v).1.next → v.size ≤ f → deref h'' f (alloc h v).2 = some v := by
  match v with
  | .null | .bool _ | .int _ | .flt _ | .str _ =>
    all_goals
      simp only [alloc]
      refine ⟨Nat.le_refl _, by simp [Heap.push], fun j hj => by simp [Heap.push, Nat.ne_of_lt hj], ?_⟩
      intro h'' f hag hf
      match f, hf with
      | 0, hf => simp [J.size] at hf
      | f + 1, _ =>
        have := hag h.next (Nat.le_refl _) (by simp [Heap.push])
        simp only [Heap.push, if_true] at this
        simp [deref, Heap.push, this]
  | .arr xs =>
    have ih := allocList_spec h xs
    simp only [alloc]
    generalize hr : allocList h xs = r at ih
    obtain ⟨h', ids⟩ := r
    dsimp only at ih ⊢
    obtain ⟨ih1, ih2, ih3⟩ := ih
    have ih1' : h.next ≤ h'.next := ih1
    refine ⟨ih1, by simp [Heap.push], fun j hj => ?_, ?_⟩
    · have : j ≠ h'.next := by omega
      simp [Heap.push, this, ih2 j hj]
    · intro h'' f hag hf
      simp only [J.size] at hf
      match f, hf with
      | 0, hf => omega
      | f + 1, hf =>
        have hroot := hag h'.next ih1 (by simp [Heap.push])
        simp only [Heap.push, if_true] at hroot
        have hlist := ih3 h'' f (fun j h1 h2 => by
          have := hag j h1 (by simp [Heap.push]; omega)
          have hne : j ≠ h'.next := by omega
          simpa [Heap.push, hne] using this) (by omega)
        simp [deref, Heap.push, hroot, hlist]
  | .obj kvs =>
    have ih := allocMembers_spec h kvs
    simp only [alloc]
    generalize hr : allocMembers h kvs = r at ih
    obtain ⟨h', ids⟩ := r
    dsimp only at ih ⊢
    obtain ⟨ih1, ih2, ih3⟩ := ih
    have ih1' : h.next ≤ h'.next := ih1
    refine ⟨ih1, by simp [Heap.push], fun j hj => ?_, ?_⟩
    · have : j ≠ h'.next := by omega
      simp [Heap.push, this, ih2 j hj]
    · intro h'' f hag hf
      simp only [J.size] at hf
      match f, hf with
      | 0, hf => omega
      | f + 1, hf =>
        have hroot := hag h'.next ih1 (by simp [Heap.push])
        simp only [Heap.push, if_true] at hroot
        have hlist := ih3 h'' f (fun j h1 h2 => by
          have := hag j h1 (by simp [Heap.push]; omega)
          have hne : j ≠ h'.next := by omega
          simpa [Heap.push, hne] using this) (by omega)
        simp [deref, Heap.push, hroot, hlist]
theorem allocList_spec (h : Heap) (xs : List J) :
    h.next ≤ (allocList h xs).1.next ∧
    (∀ j, j < h.next → (allocList h xs).1.get j = h.get j) ∧
    ∀ (h'' : Heap) (f : Nat), AgreeOn h'' (allocList h xs).1 h.next (allocList h xs).1.next → sizes xs ≤ f →
      derefList h'' f (allocList h xs).2 = some xs := by
  match xs with
  | [] => exact ⟨Nat.le_refl _, fun _ _ => rfl, fun _ _ _ _ => by simp [allocList, derefList]⟩
  | x :: r =>
    have a := alloc_spec h x
    simp only [allocList]
    generalize hx : alloc h x = ax at a
    obtain ⟨h1, i⟩ := ax
    have b := allocList_spec h1 r
    generalize hr : allocList h1 r = ar at b
    obtain ⟨h2, ids⟩ := ar
    dsimp only at a b ⊢
    obtain ⟨a1, a2, a3, a4⟩ := a
    obtain ⟨b1, b2, b3⟩ := b
    have a1' : h.next ≤ i := a1
    have a2' : i < h1.next := a2
    have b1' : h1.next ≤ h2.next := b1
    refine ⟨by omega, fun j hj => by rw [b2 j (by omega), a3 j hj], ?_⟩
    intro h'' f hag hf
    simp only [sizes] at hf
    have e1 := a4 h'' f (fun j l1 l2 => by rw [hag j l1 (by omega), b2 j l2]) (by omega)
    have e2 := b3 h'' f (fun j l1 l2 => hag j (by omega) l2) (by omega)
    simp [derefList, e1, e2]
theorem allocMembers_spec (h : Heap) (kvs : List (PStr × J)) :
    h.next ≤ (allocMembers h kvs).1.next ∧
    (∀ j, j < h.next → (allocMembers h kvs).1.get j = h.get j) ∧
    ∀ (h'' : Heap) (f : Nat), AgreeOn h'' (allocMembers h kvs).1 h.next (allocMembers h kvs).1.next → sizem kvs ≤ f →
      derefMembers h'' f (allocMembers h kvs).2 = some kvs := by
  match kvs with
  | [] => exact ⟨Nat.le_refl _, fun _ _ => rfl, fun _ _ _ _ => by simp [allocMembers, derefMembers]⟩
  | (k, x) :: r =>
    have a := alloc_spec h x
    simp only [allocMembers]
    generalize hx : alloc h x = ax at a
    obtain ⟨h1, i⟩ := ax
    have b := allocMembers_spec h1 r
    generalize hr : allocMembers h1 r = ar at b
    obtain ⟨h2, ids⟩ := ar
    dsimp only at a b ⊢
    obtain ⟨a1, a2, a3, a4⟩ := a
    obtain ⟨b1, b2, b3⟩ := b
    have a1' : h.next ≤ i := a1
    have a2' : i < h1.next := a2
    have b1' : h1.next ≤ h2.next := b1
    refine ⟨by omega, fun j hj => by rw [b2 j (by omega), a3 j hj], ?_⟩
    intro h'' f hag hf
    simp only [sizem] at hf
    have e1 := a4 h'' f (fun j l1 l2 => by rw [hag j l1 (by omega), b2 j l2]) (by omega)
    have e2 := b3 h'' f (fun j l1 l2 => hag j (by omega) l2) (by omega)
    simp [derefMembers, e1, e2]
end

/-- a sequence of in-place modifications of containers -/
def applyWrites (h : Heap) : List (Nat × Obj) → Heap
  | [] => h
  | (i, o) :: r => applyWrites (h.write i o) r

theorem write_get_other (h : Heap) (i j : Nat) (o : Obj) (hne : j ≠ i) : (h.write i o).get j = h.get j := by
  unfold Heap.write; split <;> simp [Heap.set, hne]

theorem write_next (h : Heap) (i : Nat) (o : Obj) : (h.write i o).next = h.next := by
  unfold Heap.write; split <;> rfl

theorem applyWrites_get (ws : List (Nat × Obj)) : ∀ (h : Heap) (j : Nat), (∀ w ∈ ws, w.1 ≠ j) → (applyWrites h ws).get j = h.get j := by
  induction ws with
  | nil => intro h j _; rfl
  | cons w r ih =>
    intro h j hne
    obtain ⟨i, o⟩ := w
    simp only [applyWrites]
    rw [ih _ j (fun w hw => hne w (by simp [hw])), write_get_other h i j o (fun e => hne (i, o) (by simp) e.symm)]

theorem applyWrites_next (ws : List (Nat × Obj)) : ∀ (h : Heap), (applyWrites h ws).next = h.next := by
  induction ws with
  | nil => intro h; rfl
  | cons w r ih => intro h; obtain ⟨i, o⟩ := w; simp only [applyWrites]; rw [ih, write_next]

/-- all objects of the heap, and everything they point to, lie below `next` -/
def Closed (h : Heap) : Prop :=
  ∀ i o, h.get i = some o → i < h.next ∧
    (∀ ids, o = .list ids → ∀ c ∈ ids, c < h.next) ∧ (∀ kvs, o = .dict kvs → ∀ p ∈ kvs, p.2 < h.next)

mutual
theorem deref_agree_below (h h'' : Heap) (n : Nat) (hc : ∀ i o, h.get i = some o → i < n →
      (∀ ids, o = .list ids → ∀ c ∈ ids, c < n) ∧ (∀ kvs, o = .dict kvs → ∀ p ∈ kvs, p.2 < n))
    (hag : ∀ j, j < n → h''.get j = h.get j) (f : Nat) (r : Nat) (hr : r < n) : deref h'' f r = deref h f r := by
  match f with
  | 0 => simp [deref]
  | f + 1 =>
    simp only [deref, hag r hr]
    cases ho : h.get r with
    | none => rfl
    | some o =>
      cases o with
      | atom v => rfl
      | list ids =>
        simp only
        rw [derefList_agree_below h h'' n hc hag f ids (fun c hcm => (hc r _ ho hr).1 ids rfl c hcm)]
      | dict kvs =>
        simp only
        rw [derefMembers_agree_below h h'' n hc hag f kvs (fun p hp => (hc r _ ho hr).2 kvs rfl p hp)]
theorem derefList_agree_below (h h'' : Heap) (n : Nat) (hc : ∀ i o, h.get i = some o → i < n →
      (∀ ids, o = .list ids → ∀ c ∈ ids, c < n) ∧ (∀ kvs, o = .dict kvs → ∀ p ∈ kvs, p.2 < n))
    (hag : ∀ j, j < n → h''.get j = h.get j) (f : Nat) (ids : List Nat) (hr : ∀ c ∈ ids, c < n) :
    derefList h'' f ids = derefList h f ids := by
  match ids with
  | [] => simp [derefList]
  | i :: r =>
    simp only [derefList]
    rw [deref_agree_below h h'' n hc hag f i (hr i (by simp)), derefList_agree_below h h'' n hc hag f r (fun c hcm => hr c (by simp [hcm]))]
theorem derefMembers_agree_below (h h'' : Heap) (n : Nat) (hc : ∀ i o, h.get i = some o → i < n →
      (∀ ids, o = .list ids → ∀ c ∈ ids, c < n) ∧ (∀ kvs, o = .dict kvs → ∀ p ∈ kvs, p.2 < n))
    (hag : ∀ j, j < n → h''.get j = h.get j) (f : Nat) (kvs : List (PStr × Nat)) (hr : ∀ p ∈ kvs, p.2 < n) :
    derefMembers h'' f kvs = derefMembers h f kvs := by
  match kvs with
  | [] => simp [derefMembers]
  | (k, i) :: r =>
    simp only [derefMembers]
    rw [deref_agree_below h h'' n hc hag f i (hr (k, i) (by simp)), derefMembers_agree_below h h'' n hc hag f r (fun p hp => hr p (by simp [hp]))]
end

end CCT
