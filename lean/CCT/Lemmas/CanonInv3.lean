import CCT.Lemmas.CanonInv2
/-! `verify_delegation` and `verify_root` give the same verdict on canonically re-ordered (reloaded) arguments. -/
namespace CCT
open Classical
open CCT.C15

theorem signedOf_canon (m : J) (h : m.WF) : signedOf (canon m) = canon (signedOf m) :=
  entryField_canon _ m (wf_objKeysNodup h)

theorem jget_wf (n : PStr) (m : J) (h : m.WF) : (jget n m).WF := by
  cases m with
  | obj kvs =>
    simp only [jget, entryField]
    cases hd : dictGet n kvs with
    | none => simp [J.WF]
    | some v => simpa using wf_member h hd
  | _ => simp [jget, entryField, J.WF]

theorem signedOf_wf (m : J) (h : m.WF) : (signedOf m).WF := jget_wf _ m h

theorem entriesOf_canon (m : J) (h : m.WF) : entriesOf (canon m) = sortKV (canonMembers (entriesOf m)) := by
  simp only [entriesOf, jget, entryField_canon _ m (wf_objKeysNodup h)]
  cases entryField (ps! "signatures") m <;> simp [canon, sortKV, canonMembers]

theorem entriesOf_wfm (m : J) (h : m.WF) : WFm (entriesOf m) := by
  have := jget_wf (ps! "signatures") m h
  simp only [entriesOf]
  cases hj : jget (ps! "signatures") m with
  | obj e => rw [hj] at this; simp only [J.WF] at this; exact this.1
  | _ => simp [WFm]

theorem typeOf_canon (m : J) (h : m.WF) : typeOf (canon m) = canon (typeOf m) := by
  simp only [typeOf, signedOf_canon m h]
  exact entryField_canon _ _ (wf_objKeysNodup (signedOf_wf m h))

theorem typeMismatch_canon (name : PStr) (u : J) (h : u.WF) : TypeMismatch name (canon u) ↔ TypeMismatch name u := by
  simp only [TypeMismatch, signedOf_canon u h, signedOK_canon _ (signedOf_wf u h), typeOf_canon u h, strOf_canon]

theorem delegationsOf_canon (m : J) (h : m.WF) : delegationsOf (canon m) = sortKV (canonMembers (delegationsOf m)) := by
  simp only [delegationsOf, signedOf_canon m h, jget, entryField_canon _ _ (wf_objKeysNodup (signedOf_wf m h))]
  cases entryField (ps! "delegations") (signedOf m) <;> simp [canon, sortKV, canonMembers]

theorem delegationsOf_nodup (m : J) (h : m.WF) : ((delegationsOf m).map (·.1)).Nodup := by
  have := jget_wf (ps! "delegations") (signedOf m) (signedOf_wf m h)
  simp only [delegationsOf]
  cases hj : jget (ps! "delegations") (signedOf m) with
  | obj e => rw [hj] at this; simp only [J.WF] at this; exact this.2
  | _ => simp

theorem roleOf_canon (m : J) (h : m.WF) (name : PStr) : roleOf (canon m) name = (roleOf m name).map canon := by
  simp only [roleOf, delegationsOf_canon m h, dictGet_canonObj _ _ (delegationsOf_nodup m h)]

theorem roleOf_wf (m : J) (h : m.WF) {name : PStr} {d : J} (hr : roleOf m name = some d) : d.WF := by
  have hw := jget_wf (ps! "delegations") (signedOf m) (signedOf_wf m h)
  simp only [roleOf, delegationsOf] at hr
  cases hj : jget (ps! "delegations") (signedOf m) with
  | obj e => rw [hj] at hr hw; exact wf_member hw hr
  | _ => rw [hj] at hr; simp [dictGet] at hr

theorem keysOf_canon (d : J) (h : d.WF) : keysOf (canon d) = keysOf d := by
  simp only [keysOf, jget, entryField_canon _ d (wf_objKeysNodup h)]
  cases entryField (ps! "pubkeys") d <;> simp [canon, canonList_map_strOf]

theorem thrOf_canon (d : J) (h : d.WF) : thrOf (canon d) = thrOf d := by
  simp only [thrOf, jget, entryField_canon _ d (wf_objKeysNodup h), asInt_canon]

theorem ruleMet_canon (C : CryptoFns) (gpg : Bool) (d u : J) (hd : d.WF) (hu : u.WF) : RuleMet C gpg (canon d) (canon u) ↔ RuleMet C gpg d u := by
  simp only [RuleMet, keysOf_canon d hd, thrOf_canon d hd, signedOf_canon u hu, entriesOf_canon u hu]
  have e : ser (canon (signedOf u)) = ser (signedOf u) := by simp only [ser, canon_idem _ (signedOf_wf u hu)]
  rw [e]
  exact thresholdMet_canon C gpg _ _ _ (entriesOf_wfm u hu) _

/-- **verify_delegation gives the same verdict on reloaded arguments** -/
theorem verifyDelegation_canon (C : CryptoFns) (name : PStr) (u t : J) (gpg : Bool) (hu : u.WF) (ht : t.WF) :
    verifyDelegationJ C name (canon u) (canon t) gpg = verifyDelegationJ C name u t gpg := by
  rw [verifyDelegation_eq, verifyDelegation_eq]
  by_cases h1 : ¬ Schema t ∨ isSignableJ u ≠ true
  · have h1' : ¬ Schema (canon t) ∨ isSignableJ (canon u) ≠ true := by
      rw [schema_canon t ht, isSignable_canon u hu]; exact h1
    rw [if_pos h1, if_pos h1']
  · have h1' : ¬ (¬ Schema (canon t) ∨ isSignableJ (canon u) ≠ true) := by
      rw [schema_canon t ht, isSignable_canon u hu]; exact h1
    rw [if_neg h1, if_neg h1']
    have hT : Schema t := by by_cases h : Schema t; exact h; exact absurd (Or.inl h) h1
    have hU : isSignableJ u = true := by by_cases h : isSignableJ u = true; exact h; exact absurd (Or.inr h) h1
    by_cases h2 : TypeMismatch name u
    · rw [if_pos h2, if_pos ((typeMismatch_canon name u hu).mpr h2)]
    · rw [if_neg h2, if_neg (fun h => h2 ((typeMismatch_canon name u hu).mp h))]
      rw [roleOf_canon t ht]
      cases hr : roleOf t name with
      | none => rfl
      | some d =>
        have hdw := roleOf_wf t ht hr
        have hdok := mem_delegations_ok hT hr
        simp only [Option.map_some]
        rw [rule_verdict C gpg d u hdok hU,
          rule_verdict C gpg (canon d) (canon u) ((delegationOK_canon d (wf_objKeysNodup hdw)).mpr hdok) (by rw [isSignable_canon u hu]; exact hU)]
        by_cases hm : RuleMet C gpg d u
        · simp [hm, (ruleMet_canon C gpg d u hdw hu).mpr hm]
        · have : ¬ RuleMet C gpg (canon d) (canon u) := fun h => hm ((ruleMet_canon C gpg d u hdw hu).mp h)
          simp [hm, this]

theorem versionOf_canon (m : J) (h : m.WF) : versionOf (canon m) = versionOf m := by
  simp only [versionOf, signedOf_canon m h, jget, entryField_canon _ _ (wf_objKeysNodup (signedOf_wf m h)), asInt_canon]

theorem rootRule_canon (m : J) (h : m.WF) : rootRule (canon m) = canon (rootRule m) := by
  simp only [rootRule, roleOf_canon m h]
  cases roleOf m (ps! "root") <;> simp [canon]

theorem isRootMd_canon (m : J) (h : m.WF) : IsRootMd (canon m) ↔ IsRootMd m := by
  simp only [IsRootMd, schema_canon m h, typeOf_canon m h, roleOf_canon m h]
  constructor
  · rintro ⟨a, b, c⟩
    refine ⟨a, (canon_str_iff _ _).mp b, ?_⟩
    cases hr : roleOf m (ps! "root") with
    | none => rw [hr] at c; simp at c
    | some _ => rfl
  · rintro ⟨a, b, c⟩
    refine ⟨a, (canon_str_iff _ _).mpr b, ?_⟩
    cases hr : roleOf m (ps! "root") with
    | none => rw [hr] at c; simp at c
    | some _ => rfl

theorem rootRule_wf (m : J) (h : m.WF) : (rootRule m).WF := by
  simp only [rootRule]
  cases hr : roleOf m (ps! "root") with
  | none => simp [J.WF]
  | some d => simpa using roleOf_wf m h hr

/-- **verify_root gives the same verdict on reloaded arguments** -/
theorem verifyRoot_canon (C : CryptoFns) (t u : J) (ht : t.WF) (hu : u.WF) :
    verifyRootJ C (canon t) (canon u) = verifyRootJ C t u := by
  rw [verifyRoot_eq, verifyRoot_eq]
  by_cases h1 : IsRootMd t ∧ IsRootMd u
  · have h1' : IsRootMd (canon t) ∧ IsRootMd (canon u) := ⟨(isRootMd_canon t ht).mpr h1.1, (isRootMd_canon u hu).mpr h1.2⟩
    have n1 : ¬ ¬ (IsRootMd t ∧ IsRootMd u) := fun h => h h1
    have n1' : ¬ ¬ (IsRootMd (canon t) ∧ IsRootMd (canon u)) := fun h => h h1'
    rw [if_neg n1', if_neg n1]
    simp only [versionOf_canon t ht, versionOf_canon u hu]
    by_cases hv : versionOf t + 1 ≠ versionOf u
    · rw [if_pos hv, if_pos hv]
    · rw [if_neg hv, if_neg hv]
      have sgu : isSignableJ u = true := by obtain ⟨⟨_, _, hp, _⟩, _⟩ := h1.2; exact hp.signable
      have sgu' : isSignableJ (canon u) = true := by rw [isSignable_canon u hu]; exact sgu
      have ok1 : DelegationOK (rootRule t) := by
        obtain ⟨hs, _, hr⟩ := h1.1
        obtain ⟨d, hd⟩ := Option.isSome_iff_exists.mp hr
        simpa [rootRule, hd] using mem_delegations_ok hs hd
      have ok2 : DelegationOK (rootRule u) := by
        obtain ⟨hs, _, hr⟩ := h1.2
        obtain ⟨d, hd⟩ := Option.isSome_iff_exists.mp hr
        simpa [rootRule, hd] using mem_delegations_ok hs hd
      have w1 := rootRule_wf t ht
      have w2 := rootRule_wf u hu
      simp only [bind, Except.bind, rootRule_canon t ht, rootRule_canon u hu,
        rule_verdict C true _ u ok1 sgu, rule_verdict C true _ u ok2 sgu,
        rule_verdict C true _ (canon u) ((delegationOK_canon _ (wf_objKeysNodup w1)).mpr ok1) sgu',
        rule_verdict C true _ (canon u) ((delegationOK_canon _ (wf_objKeysNodup w2)).mpr ok2) sgu']
      have e1 := ruleMet_canon C true (rootRule t) u w1 hu
      have e2 := ruleMet_canon C true (rootRule u) u w2 hu
      by_cases m1 : RuleMet C true (rootRule t) u <;> by_cases m2 : RuleMet C true (rootRule u) u <;>
        simp [m1, m2, e1, e2]
  · have h1' : ¬ (IsRootMd (canon t) ∧ IsRootMd (canon u)) := fun h => h1 ⟨(isRootMd_canon t ht).mp h.1, (isRootMd_canon u hu).mp h.2⟩
    rw [if_pos h1, if_pos h1']

end CCT
