import CCT.Lemmas.Checker
/-! `checkformat_delegating_metadata` = the documented schema. -/
namespace CCT
open Classical
open CCT.C15

theorem dictHas_some {k : PStr} {kvs : List (PStr × J)} {v : J} (h : dictGet k kvs = some v) : dictHas k kvs = true := by
  simp [dictHas, h]
theorem dictHas_none {k : PStr} {kvs : List (PStr × J)} (h : dictGet k kvs = none) : dictHas k kvs = false := by
  simp [dictHas, h]

theorem isRootType_str (s : PStr) : isRootType (.str s) = decide (s = ps! "root") := rfl

set_option maxHeartbeats 1000000 in
theorem checkSignedPart_obj (kvs : List (PStr × J)) :
    checkSignedPart (.obj kvs) = if SignedOK (.obj kvs) then .ok () else .error .arg := by
  unfold checkSignedPart
  simp only [requiredFieldsLoop, pyInStr_obj, pyIndexStr_obj, bind, Except.bind, pure, Except.pure]
  cases hty : dictGet (ps! "type") kvs with
  | none =>
    have : ¬ SignedOK (.obj kvs) := by rintro ⟨k', e, ⟨ty, h, _⟩, _⟩; cases e; rw [hty] at h; cases h
    simp [dictHas_none hty, this]
  | some ty =>
  cases hsv : dictGet (ps! "metadata_spec_version") kvs with
  | none =>
    have : ¬ SignedOK (.obj kvs) := by rintro ⟨k', e, _, ⟨sv, h⟩, _⟩; cases e; rw [hsv] at h; cases h
    simp [dictHas_some hty, dictHas_none hsv, this]
  | some sv =>
  cases hdl : dictGet (ps! "delegations") kvs with
  | none =>
    have : ¬ SignedOK (.obj kvs) := by rintro ⟨k', e, _, _, ⟨d, h, _⟩, _⟩; cases e; rw [hdl] at h; cases h
    simp [dictHas_some hty, dictHas_some hsv, dictHas_none hdl, this]
  | some dl =>
  cases hex : dictGet (ps! "expiration") kvs with
  | none =>
    have : ¬ SignedOK (.obj kvs) := by rintro ⟨k', e, _, _, _, ⟨x, h, _⟩, _⟩; cases e; rw [hex] at h; cases h
    simp [dictHas_some hty, dictHas_some hsv, dictHas_some hdl, dictHas_none hex, this]
  | some ex =>
  simp only [dictHas_some hty, dictHas_some hsv, dictHas_some hdl, dictHas_some hex, Bool.not_true, Bool.false_eq_true, if_false,
    okU, dictIndex_some hty, dictIndex_some hsv, dictIndex_some hdl, dictIndex_some hex, checkString_eq, checkDelegations_eq, checkUtc_eq]
  -- type must be a supported string
  by_cases h1 : ∃ s, ty = .str s
  · obtain ⟨tys, rfl⟩ := h1
    simp only [J.str.injEq, exists_eq', if_true]
    by_cases h2 : tys ∈ supportedDelegatingTypes
    · have c2 : supportedDelegatingTypes.contains tys = true := contains_iff.mpr h2
      simp only [c2, Bool.not_true, Bool.false_eq_true, if_false]
      by_cases h3 : ∃ s, sv = .str s
      · obtain ⟨svs, rfl⟩ := h3
        simp only [J.str.injEq, exists_eq', if_true]
        by_cases h4 : DelegationsOK dl
        · simp only [h4, if_true]
          by_cases h5 : WfUtc ex
          · simp only [h5, if_true, isRootType_str]
            -- timestamp / version
            cases hts : dictGet (ps! "timestamp") kvs with
            | none =>
              cases hvr : dictGet (ps! "version") kvs with
              | none =>
                have : ¬ SignedOK (.obj kvs) := by
                  rintro ⟨k', e, _, _, _, _, h, _⟩; cases e
                  simp [dictHas_none hts, dictHas_none hvr] at h
                simp [dictHas_none hts, dictHas_none hvr, this]
              | some vr =>
                simp only [dictHas_none hts, dictHas_some hvr, Bool.not_false, Bool.not_true, Bool.and_false, Bool.false_eq_true, if_false,
                  dictIndex_some hvr, checkNaturalInt_eq, if_true]
                by_cases h6 : NaturalInt vr
                · have : SignedOK (.obj kvs) := ⟨kvs, rfl, ⟨tys, hty, h2⟩, ⟨svs, hsv⟩, ⟨dl, hdl, h4⟩, ⟨ex, hex, h5⟩,
                    Or.inr (dictHas_some hvr), (fun _ => dictHas_some hvr), (fun t ht => by rw [hts] at ht; cases ht),
                    (fun v hv => by rw [hvr] at hv; cases hv; exact h6)⟩
                  simp [h6, this]
                · have : ¬ SignedOK (.obj kvs) := by
                    rintro ⟨k', e, _, _, _, _, _, _, _, h⟩; cases e; exact h6 (h vr hvr)
                  simp [h6, this]
            | some ts =>
              cases hvr : dictGet (ps! "version") kvs with
              | none =>
                simp only [dictHas_some hts, dictHas_none hvr, Bool.not_true, Bool.not_false, Bool.false_and, Bool.false_eq_true, if_false,
                  Bool.and_true, dictIndex_some hts, checkUtc_eq, if_true]
                by_cases hr : tys = ps! "root"
                · have : ¬ SignedOK (.obj kvs) := by
                    rintro ⟨k', e, _, _, _, _, _, h, _⟩; cases e
                    have := h (by rw [hty, hr]); simp [dictHas_none hvr] at this
                  simp [hr, this]
                · simp only [hr, decide_false, Bool.false_eq_true, if_false]
                  by_cases h6 : WfUtc ts
                  · have : SignedOK (.obj kvs) := ⟨kvs, rfl, ⟨tys, hty, h2⟩, ⟨svs, hsv⟩, ⟨dl, hdl, h4⟩, ⟨ex, hex, h5⟩,
                      Or.inl (dictHas_some hts), (fun h => by rw [hty] at h; cases h; exact absurd rfl hr),
                      (fun t ht => by rw [hts] at ht; cases ht; exact h6), (fun v hv => by rw [hvr] at hv; cases hv)⟩
                    simp [h6, this]
                  · have : ¬ SignedOK (.obj kvs) := by
                      rintro ⟨k', e, _, _, _, _, _, _, h, _⟩; cases e; exact h6 (h ts hts)
                    simp [h6, this]
              | some vr =>
                simp only [dictHas_some hts, dictHas_some hvr, Bool.not_true, Bool.false_and, Bool.and_false, Bool.false_eq_true, if_false,
                  dictIndex_some hts, dictIndex_some hvr, checkUtc_eq, checkNaturalInt_eq, if_true]
                by_cases h6 : WfUtc ts
                · simp only [h6, if_true]
                  by_cases h7 : NaturalInt vr
                  · have : SignedOK (.obj kvs) := ⟨kvs, rfl, ⟨tys, hty, h2⟩, ⟨svs, hsv⟩, ⟨dl, hdl, h4⟩, ⟨ex, hex, h5⟩,
                      Or.inl (dictHas_some hts), (fun _ => dictHas_some hvr),
                      (fun t ht => by rw [hts] at ht; cases ht; exact h6), (fun v hv => by rw [hvr] at hv; cases hv; exact h7)⟩
                    simp [h7, this]
                  · have : ¬ SignedOK (.obj kvs) := by
                      rintro ⟨k', e, _, _, _, _, _, _, _, h⟩; cases e; exact h7 (h vr hvr)
                    simp [h7, this]
                · have : ¬ SignedOK (.obj kvs) := by
                    rintro ⟨k', e, _, _, _, _, _, _, h, _⟩; cases e; exact h6 (h ts hts)
                  simp [h6, this]
          · have : ¬ SignedOK (.obj kvs) := by
              rintro ⟨k', e, _, _, _, ⟨x, hx, hw⟩, _⟩; cases e; rw [hex] at hx; cases hx; exact h5 hw
            simp [h5, this]
        · have : ¬ SignedOK (.obj kvs) := by
            rintro ⟨k', e, _, _, ⟨d, hd, hw⟩, _⟩; cases e; rw [hdl] at hd; cases hd; exact h4 hw
          simp [h4, this]
      · have : ¬ SignedOK (.obj kvs) := by
          rintro ⟨k', e, _, ⟨s, hs⟩, _⟩; cases e; rw [hsv] at hs; cases hs; exact h3 ⟨s, rfl⟩
        simp [h3, this]
    · have c2 : supportedDelegatingTypes.contains tys = false := by
        cases hc : supportedDelegatingTypes.contains tys with
        | false => rfl
        | true => exact absurd (contains_iff.mp hc) h2
      have : ¬ SignedOK (.obj kvs) := by
        rintro ⟨k', e, ⟨t, ht, hm⟩, _⟩; cases e; rw [hty] at ht; cases ht; exact h2 hm
      simp only [c2, Bool.not_false, if_true]
      rw [if_neg this]
  · have : ¬ SignedOK (.obj kvs) := by
      rintro ⟨k', e, ⟨t, ht, _⟩, _⟩; cases e; rw [hty] at ht; cases ht; exact h1 ⟨t, rfl⟩
    simp [h1, this]

theorem checkSignedPart_eq (s : J) : checkSignedPart s = if SignedOK s then .ok () else .error .arg := by
  cases s with
  | obj kvs => exact checkSignedPart_obj kvs
  | _ =>
    rw [requiredFields_nonobj _ (by intro kvs e; cases e), if_neg]
    rintro ⟨_, e, _⟩; cases e

/-- **the documented schema of delegating metadata** -/
def Schema (m : J) : Prop :=
  ∃ entries signed, EnvParts m entries signed ∧ (∀ p ∈ entries, AnySigOK p.2) ∧ SignedOK signed

theorem envParts_unique {m : J} {e1 e2 : List (PStr × J)} {s1 s2 : J} (h1 : EnvParts m e1 s1) (h2 : EnvParts m e2 s2) : e1 = e2 ∧ s1 = s2 := by
  obtain ⟨_, t1, rfl, a1, b1⟩ := h1
  obtain ⟨_, t2, e, a2, b2⟩ := h2
  cases e
  rw [a1] at a2; rw [b1] at b2
  cases a2; cases b2
  exact ⟨rfl, rfl⟩

theorem checkDelegatingMd_eq (m : J) : checkDelegatingMdJ m = if Schema m then .ok () else .error .arg := by
  by_cases hs : isSignableJ m = true
  · obtain ⟨entries, signed, hp⟩ := isSignable_parts hs
    rw [checkDelegatingMd_split m entries signed hp]
    simp only [checkSigValuesLoop_eq, checkSignedPart_eq, bind, Except.bind]
    by_cases h1 : ∀ p ∈ entries, AnySigOK p.2
    · rw [if_pos h1]
      by_cases h2 : SignedOK signed
      · have : Schema m := ⟨entries, signed, hp, h1, h2⟩
        simp [h2, this]
      · have : ¬ Schema m := by
          rintro ⟨e', s', hp', _, h⟩; obtain ⟨_, rfl⟩ := envParts_unique hp hp'; exact h2 h
        simp [h2, this]
    · have : ¬ Schema m := by
        rintro ⟨e', s', hp', h, _⟩; obtain ⟨rfl, _⟩ := envParts_unique hp hp'; exact h1 h
      rw [if_neg h1, if_neg this]
  · have : ¬ Schema m := by rintro ⟨_, _, hp, _⟩; exact hs hp.signable
    have hs' : isSignableJ m = false := by simpa using hs
    simp only [checkDelegatingMdJ, checkSignableJ, hs', Bool.false_eq_true, if_false, bind, Except.bind]
    rw [if_neg this]

end CCT
