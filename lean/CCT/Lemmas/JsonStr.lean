import CCT.Lemmas.JsonWs
namespace CCT

def isHigh (c : Nat) : Prop := 0xd800 ≤ c ∧ c ≤ 0xdbff
def isLow (c : Nat) : Prop := 0xdc00 ≤ c ∧ c ≤ 0xdfff
instance : DecidablePred isHigh := fun c => by unfold isHigh; infer_instance
instance : DecidablePred isLow := fun c => by unfold isLow; infer_instance

def NotLowEsc (t : Txt) : Prop :=
  ∀ r, t = 92 :: 117 :: r → ∀ u r', parseHex4 r = some (u, r') → ¬ isLow u

def StrOK : PStr → Prop
  | [] => True
  | [c] => c < 0x110000
  | c :: d :: r => c < 0x110000 ∧ ¬ (isHigh c ∧ isLow d) ∧ StrOK (d :: r)

/-- classification of a code point by the branch `escChar` takes -/
inductive Cls (c : Nat) : Prop
  | short (e : Nat) (h : escChar c = [92, e]) (he : e ≠ 117)
      (hp : ∀ f r acc, parseStrBody (f+1) (92 :: e :: r) acc = parseStrBody f r (acc ++ [c]))
  | plain (h : escChar c = [c]) (h1 : c ≠ 34) (h2 : c ≠ 92) (h3 : 32 ≤ c)
  | bmp (h : escChar c = uesc c) (hlt : c < 0x10000)
  | astral (h : escChar c = uesc (0xd800 + (c - 0x10000) / 1024) ++ uesc (0xdc00 + (c - 0x10000) % 1024)) (hge : 0x10000 ≤ c)

theorem cls (c : Nat) : Cls c := by
  by_cases h34 : c = 34
  · subst h34; exact .short 34 (by decide) (by decide) (fun f r acc => by simp [parseStrBody, cQuote, cBsl])
  by_cases h92 : c = 92
  · subst h92; exact .short 92 (by decide) (by decide) (fun f r acc => by simp [parseStrBody, cQuote, cBsl])
  by_cases h10 : c = 10
  · subst h10; exact .short 110 (by decide) (by decide) (fun f r acc => by simp [parseStrBody, cQuote, cBsl])
  by_cases h13 : c = 13
  · subst h13; exact .short 114 (by decide) (by decide) (fun f r acc => by simp [parseStrBody, cQuote, cBsl])
  by_cases h9 : c = 9
  · subst h9; exact .short 116 (by decide) (by decide) (fun f r acc => by simp [parseStrBody, cQuote, cBsl])
  by_cases h8 : c = 8
  · subst h8; exact .short 98 (by decide) (by decide) (fun f r acc => by simp [parseStrBody, cQuote, cBsl])
  by_cases h12 : c = 12
  · subst h12; exact .short 102 (by decide) (by decide) (fun f r acc => by simp [parseStrBody, cQuote, cBsl])
  by_cases hp : 32 ≤ c ∧ c < 127
  · exact .plain (by simp [escChar, h34, h92, h10, h13, h9, h8, h12, hp]) h34 h92 hp.1
  by_cases hb : c < 0x10000
  · exact .bmp (by simp [escChar, h34, h92, h10, h13, h9, h8, h12, hp, hb]) hb
  · exact .astral (by simp [escChar, h34, h92, h10, h13, h9, h8, h12, hp, hb]) (by omega)

theorem parse_uesc (u : Nat) (hu : u < 65536) (f : Nat) (t : Txt) (acc : PStr) :
    parseStrBody (f+1) (uesc u ++ t) acc =
      if 0xd800 ≤ u ∧ u ≤ 0xdbff then
        match t with
        | 92 :: 117 :: r'' =>
          match parseHex4 r'' with
          | some (u2, r''') =>
            if 0xdc00 ≤ u2 ∧ u2 ≤ 0xdfff then
              parseStrBody f r''' (acc ++ [0x10000 + (u - 0xd800) * 1024 + (u2 - 0xdc00)])
            else parseStrBody f t (acc ++ [u])
          | none => parseStrBody f t (acc ++ [u])
        | _ => parseStrBody f t (acc ++ [u])
      else parseStrBody f t (acc ++ [u]) := by
  simp only [uesc, List.cons_append, parseStrBody]
  simp only [cBsl, cQuote, show ¬ ((92 : Nat) = 34) by decide, if_false, if_true]
  simp only [show ¬ ((117 : Nat) = 34) by decide, show ¬ ((117 : Nat) = 92) by decide, show ¬ ((117 : Nat) = 47) by decide,
    show ¬ ((117 : Nat) = 110) by decide, show ¬ ((117 : Nat) = 114) by decide, show ¬ ((117 : Nat) = 116) by decide,
    show ¬ ((117 : Nat) = 98) by decide, show ¬ ((117 : Nat) = 102) by decide, if_false]
  rw [parseHex4_hex4 u hu t]
  rfl

/-- one loop iteration consumes exactly `escChar c` -/
theorem step (c : Nat) (hc : c < 0x110000) (f : Nat) (t : Txt) (acc : PStr) (hh : isHigh c → NotLowEsc t) :
    parseStrBody (f+1) (escChar c ++ t) acc = parseStrBody f t (acc ++ [c]) := by
  rcases cls c with ⟨e, h, _, hp⟩ | ⟨h, h1, h2, h3⟩ | ⟨h, hlt⟩ | ⟨h, hge⟩
  · rw [h]; exact hp f t acc
  · rw [h]
    simp only [List.cons_append, List.nil_append, parseStrBody]
    have : ¬ c < 32 := by omega
    simp [h1, h2, this]
  · rw [h, parse_uesc c (by omega)]
    by_cases hhi : 0xd800 ≤ c ∧ c ≤ 0xdbff
    · simp only [hhi, and_self, if_true]
      have hnl := hh hhi
      split
      · rename_i r''
        split
        · rename_i u2 r''' hp
          have := hnl r'' rfl u2 r''' hp
          simp only [isLow] at this
          simp [this]
        · rfl
      · rfl
    · simp [hhi]
  · obtain ⟨hi, hhi⟩ : ∃ hi, hi = 0xd800 + (c - 0x10000) / 1024 := ⟨_, rfl⟩
    obtain ⟨lo, hlo⟩ : ∃ lo, lo = 0xdc00 + (c - 0x10000) % 1024 := ⟨_, rfl⟩
    rw [h, ← hhi, ← hlo, List.append_assoc, parse_uesc hi (by omega)]
    have b1 : 0xd800 ≤ hi ∧ hi ≤ 0xdbff := by omega
    rw [if_pos b1]
    simp only [uesc, List.cons_append]
    rw [parseHex4_hex4 lo (by omega)]
    have b2 : 0xdc00 ≤ lo ∧ lo ≤ 0xdfff := by omega
    simp only []
    rw [if_pos b2]
    have e : 0x10000 + (hi - 0xd800) * 1024 + (lo - 0xdc00) = c := by omega
    rw [e]

theorem escChar_ne_nil (c : Nat) : escChar c ≠ [] := by
  rcases cls c with ⟨e, h, _, _⟩ | ⟨h, _, _, _⟩ | ⟨h, _⟩ | ⟨h, _⟩ <;> rw [h] <;> simp [uesc]

theorem notLowEsc_quote (rest : Txt) : NotLowEsc (34 :: rest) := by
  intro r h; simp at h

theorem notLowEsc_esc (d : Nat) (hd : d < 0x110000) (hl : ¬ isLow d) (u : Txt) : NotLowEsc (escChar d ++ u) := by
  intro r hr v r' hp
  rcases cls d with ⟨e, h, he, _⟩ | ⟨h, h1, h2, _⟩ | ⟨h, hlt⟩ | ⟨h, hge⟩
  · rw [h] at hr; simp at hr; exact absurd hr.1 he
  · rw [h] at hr; simp at hr; exact absurd hr.1 h2
  · rw [h] at hr; simp only [uesc, List.cons_append, List.cons.injEq, true_and] at hr
    rw [← hr, parseHex4_hex4 d (by omega)] at hp
    simp at hp; rw [← hp.1]; exact hl
  · rw [h] at hr; simp only [uesc, List.cons_append, List.cons.injEq, true_and, List.append_assoc] at hr
    rw [← hr, parseHex4_hex4 _ (by omega)] at hp
    simp at hp; rw [← hp.1]; simp only [isLow]; omega

theorem parseStrBody_escStr (s : PStr) (hs : StrOK s) :
    ∀ (f : Nat) (acc : PStr) (rest : Txt), (escStr s).length + 1 ≤ f →
      parseStrBody f (escStr s ++ 34 :: rest) acc = some (acc ++ s, rest) := by
  induction s with
  | nil =>
    intro f acc rest hf
    match f, hf with
    | f+1, _ => simp [escStr, parseStrBody]
  | cons c s' ih =>
    intro f acc rest hf
    simp only [escStr, List.length_append] at hf
    have hne := escChar_ne_nil c
    have hlen : 1 ≤ (escChar c).length := by
      cases h : escChar c with
      | nil => exact absurd h hne
      | cons _ _ => simp
    match f, hf with
    | f+1, hf =>
      simp only [escStr, List.append_assoc]
      have hc : c < 0x110000 := by
        cases s' with
        | nil => exact hs
        | cons d r => exact hs.1
      have hs' : StrOK s' := by
        cases s' with
        | nil => trivial
        | cons d r => exact hs.2.2
      rw [step c hc f _ acc ?_]
      · rw [ih hs' f (acc ++ [c]) rest (by omega)]; simp
      · intro hhi
        cases s' with
        | nil => exact notLowEsc_quote rest
        | cons d r =>
          simp only [escStr, List.append_assoc]
          have hd : d < 0x110000 := by
            cases r with
            | nil => exact hs.2.2
            | cons _ _ => exact hs.2.2.1
          exact notLowEsc_esc d hd (fun hl => hs.2.1 ⟨hhi, hl⟩) _

theorem parseStr_serStr (s : PStr) (hs : StrOK s) (rest : Txt) :
    parseStr (escStr s ++ 34 :: rest) = some (s, rest) := by
  unfold parseStr
  have := parseStrBody_escStr s hs ((escStr s ++ 34 :: rest).length + 1) [] rest (by simp)
  simpa using this

end CCT
