import CCT.Lemmas.Threshold
/-! `verify_signable` in closed form: argument checks, then the threshold test. -/
namespace CCT
open Classical
open CCT.C15

theorem allHexKeys_eq : ∀ (ks : List J), allHexKeys ks = .ok (decide (∀ k ∈ ks, HexN 64 k))
  | [] => by simp [allHexKeys, pure, Except.pure]
  | k :: r => by
    simp only [allHexKeys, isHexKey_eq, allHexKeys_eq r, bind, Except.bind, pure, Except.pure]
    congr 1
    by_cases h1 : HexN 64 k <;> by_cases h2 : ∀ x ∈ r, HexN 64 x <;> simp [h1, h2]

/-- the parts of a signable envelope -/
structure EnvParts (env : J) (entries : List (PStr × J)) (signed : J) : Prop where
  signable : isSignableJ env = true
  top : ∃ top, env = .obj top ∧ dictGet (ps! "signatures") top = some (.obj entries) ∧ dictGet (ps! "signed") top = some signed

theorem isSignable_parts {env : J} (h : isSignableJ env = true) : ∃ entries signed, EnvParts env entries signed := by
  cases env with
  | obj top =>
    simp only [isSignableJ, Bool.and_eq_true] at h
    obtain ⟨sg, hsg⟩ := dictGet_of_keysetEq h.1 (k := ps! "signed") (by simp)
    cases hs : dictGet (ps! "signatures") top with
    | none => rw [hs] at h; simp at h
    | some s =>
      cases s with
      | obj entries => exact ⟨entries, sg, ⟨by simp [isSignableJ, h.1, hs], top, rfl, hs, hsg⟩⟩
      | _ => rw [hs] at h; simp at h
  | _ => simp [isSignableJ] at h

/-- the argument checks of `verify_signable` pass -/
def WellTyped (env keys thr : J) : Prop :=
  isSignableJ env = true ∧ (∃ ks, keys = .arr ks ∧ ∀ k ∈ ks, HexN 64 k) ∧ ∃ t, asInt thr = some t ∧ 0 < t

theorem verifySignable_illtyped (C : CryptoFns) (env keys thr : J) (gpg : Bool) (h : ¬ WellTyped env keys thr) :
    verifySignableJ C env keys thr gpg = .error .arg := by
  unfold verifySignableJ
  by_cases hs : isSignableJ env = true
  · simp only [hs, Bool.not_true, Bool.false_eq_true, if_false]
    cases keys with
    | arr ks =>
      simp only [allHexKeys_eq, bind, Except.bind]
      by_cases hk : ∀ k ∈ ks, HexN 64 k
      · have : decide (∀ k ∈ ks, HexN 64 k) = true := decide_eq_true hk
        simp only [this, Bool.not_true, Bool.false_eq_true, if_false]
        cases ht : asInt thr with
        | none => rfl
        | some t =>
          simp only
          by_cases hp : t ≤ 0
          · simp [hp]
          · exact absurd ⟨hs, ⟨ks, rfl, hk⟩, t, ht, by omega⟩ h
      · have : decide (∀ k ∈ ks, HexN 64 k) = false := decide_eq_false hk
        simp [this]
    | _ => rfl
  · have : isSignableJ env = false := by simpa using hs
    simp [this]

theorem verifySignable_welltyped (C : CryptoFns) (env keys thr : J) (gpg : Bool) (entries : List (PStr × J)) (signed : J)
    (ks : List J) (t : Int) (hp : EnvParts env entries signed) (hkeys : keys = .arr ks) (hk : ∀ k ∈ ks, HexN 64 k)
    (ht : asInt thr = some t) (hpos : 0 < t) :
    verifySignableJ C env keys thr gpg =
      if ThresholdMet C gpg (ks.map strOf) (ser signed) entries t.toNat then .ok () else .error .signature := by
  obtain ⟨hs, top, rfl, hsig, hsgn⟩ := hp
  subst hkeys
  unfold verifySignableJ
  have : decide (∀ k ∈ ks, HexN 64 k) = true := decide_eq_true hk
  have hnp : ¬ t ≤ 0 := by omega
  simp only [hs, Bool.not_true, Bool.false_eq_true, if_false, allHexKeys_eq, bind, Except.bind, this, ht, hnp,
    dictIndex_some hsig, dictIndex_some hsgn, verifyLoop_eq]
  have key := loop_threshold C gpg (ks.map strOf) (ser signed) entries t.toNat
  by_cases hm : ThresholdMet C gpg (ks.map strOf) (ser signed) entries t.toNat
  · have := key.mpr hm
    have h2 : ¬ ((pureLoop C gpg (ks.map strOf) (ser signed) [] entries).length : Int) < t := by omega
    simp [hm, h2, okU]
  · have : ¬ t.toNat ≤ (pureLoop C gpg (ks.map strOf) (ser signed) [] entries).length := fun h => hm (key.mp h)
    have h2 : ((pureLoop C gpg (ks.map strOf) (ser signed) [] entries).length : Int) < t := by omega
    simp [hm, h2]

end CCT
