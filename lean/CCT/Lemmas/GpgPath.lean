import CCT.Model.RootSigning
import CCT.Lemmas.ParseWF
/-! helper lemmas for the GPG signing path theorems (C10, C17) -/
namespace CCT

/-- text made of characters below 0xd800 (in particular ASCII, hex) is a well-formed JSON string -/
theorem strOK_of_small : ∀ (s : PStr), (∀ c ∈ s, c < 0xd800) → StrOK s
  | [], _ => trivial
  | [c], h => by have := h c (by simp); simp only [StrOK]; omega
  | c :: d :: r, h => by
    have hc := h c (by simp)
    refine ⟨by omega, ?_, strOK_of_small (d :: r) (fun x hx => h x (by simp [hx]))⟩
    rintro ⟨hh, _⟩
    simp only [isHigh, Bool.and_eq_true, decide_eq_true_eq] at hh
    omega

theorem strOK_lowerhex (s : PStr) (h : ∀ c ∈ s, isLowerHexDigit c = true) : StrOK s :=
  strOK_of_small s fun c hc => by
    have := h c hc
    simp only [isLowerHexDigit, Bool.or_eq_true, Bool.and_eq_true, decide_eq_true_eq] at this
    omega

/-- a canonical fingerprint is its own normal form -/
theorem normalize_of_hex40 (f : PStr) (h : ∀ c ∈ f, isLowerHexDigit c = true) : normalizeFingerprint f = f := by
  unfold normalizeFingerprint asciiLower
  have h1 : f.map (fun c => if 65 ≤ c ∧ c ≤ 90 then c + 32 else c) = f := by
    conv => rhs; rw [← List.map_id f]
    apply List.map_congr_left
    intro c hc
    have := h c hc
    simp only [isLowerHexDigit, Bool.or_eq_true, Bool.and_eq_true, decide_eq_true_eq] at this
    have : ¬ (65 ≤ c ∧ c ≤ 90) := by omega
    simp [this]
  rw [h1]
  apply List.filter_eq_self.mpr
  intro c hc
  have := h c hc
  simp only [isLowerHexDigit, Bool.or_eq_true, Bool.and_eq_true, decide_eq_true_eq] at this
  simp only [decide_eq_true_eq]
  omega

end CCT
