import CCT.Lemmas.CheckerMain
/-! Closed forms of `verify_delegation` and `verify_root`. -/
namespace CCT
open Classical
open CCT.C15

/-- field access on a JSON value (`null` when absent / not a dict) -/
abbrev jget := entryField

def signedOf (m : J) : J := jget (ps! "signed") m
def entriesOf (m : J) : List (PStr × J) := match jget (ps! "signatures") m with | .obj e => e | _ => []
def typeOf (m : J) : J := jget (ps! "type") (signedOf m)
def delegationsOf (m : J) : List (PStr × J) := match jget (ps! "delegations") (signedOf m) with | .obj d => d | _ => []
def roleOf (m : J) (name : PStr) : Option J := dictGet name (delegationsOf m)
def keysOf (d : J) : List PStr := match jget (ps! "pubkeys") d with | .arr ks => ks.map strOf | _ => []
def thrOf (d : J) : Nat := ((asInt (jget (ps! "threshold") d)).getD 0).toNat
def versionOf (m : J) : Int := (asInt (jget (ps! "version") (signedOf m))).getD 0

theorem mem_of_dictGet {k : PStr} {v : J} : ∀ {kvs : List (PStr × J)}, dictGet k kvs = some v → (k, v) ∈ kvs
  | [], h => by simp [dictGet] at h
  | (k', v') :: r, h => by
    simp only [dictGet] at h
    split at h
    · rename_i e; cases h; subst e; simp
    · exact List.mem_cons_of_mem _ (mem_of_dictGet h)

theorem envParts_accessors {m : J} {entries : List (PStr × J)} {signed : J} (hp : EnvParts m entries signed) :
    signedOf m = signed ∧ entriesOf m = entries := by
  obtain ⟨_, top, rfl, h1, h2⟩ := hp
  simp [signedOf, entriesOf, jget, entryField, h1, h2]

theorem envParts_self {m : J} (h : isSignableJ m = true) : EnvParts m (entriesOf m) (signedOf m) := by
  obtain ⟨e, s, hp⟩ := isSignable_parts h
  obtain ⟨h1, h2⟩ := envParts_accessors hp
  rw [h1, h2]; exact hp

theorem schema_signedOnly (s : J) : Schema (signedOnlyEnvelope s) ↔ SignedOK s := by
  have hp : EnvParts (signedOnlyEnvelope s) [] s :=
    ⟨by simp [signedOnlyEnvelope, isSignableJ, keysetEq, dictKeys, dictGet], _, rfl, by simp [dictGet], by simp [dictGet]⟩
  constructor
  · rintro ⟨e, s', hp', _, h⟩; obtain ⟨_, rfl⟩ := envParts_unique hp hp'; exact h
  · intro h; exact ⟨[], s, hp, by simp, h⟩

/-- the declared type of metadata whose signed part is well-formed is a string -/
theorem signedOK_type {s : J} (h : SignedOK s) : ∃ ty, jget (ps! "type") s = .str ty ∧ ty ∈ supportedDelegatingTypes := by
  obtain ⟨kvs, rfl, ⟨ty, hty, hm⟩, _⟩ := h
  exact ⟨ty, by simp [jget, entryField, hty], hm⟩

/-- a type declared by the signed portion that differs from the role it is presented for -/
def TypeMismatch (name : PStr) (u : J) : Prop := SignedOK (signedOf u) ∧ strOf (typeOf u) ≠ name

theorem verifyDelegation_eq (C : CryptoFns) (name : PStr) (u t : J) (gpg : Bool) :
    verifyDelegationJ C name u t gpg =
      if ¬ Schema t ∨ isSignableJ u ≠ true then .error .arg
      else if TypeMismatch name u then .error .metadataVerification
      else match roleOf t name with
        | none => .error .unknownRole
        | some d => verifySignableJ C u (jget (ps! "pubkeys") d) (jget (ps! "threshold") d) gpg := by
  unfold verifyDelegationJ
  simp only [checkDelegatingMd_eq, bind, Except.bind, checkSignableJ]
  by_cases hT : Schema t
  · by_cases hU : isSignableJ u = true
    · have hc : ¬ (¬ Schema t ∨ isSignableJ u ≠ true) := by simp [hT, hU]
      rw [if_pos hT, if_neg hc]
      simp only [hU, if_true, okU]
      have hpu := envParts_self hU
      obtain ⟨_, utop, hu, husig, husgn⟩ := hpu
      have e_usigned : pyIndexStr (ps! "signed") u = .ok (signedOf u) := by
        generalize signedOf u = su at husgn; rw [hu]; exact dictIndex_some husgn
      obtain ⟨te, ts, hpt, _, hts⟩ := hT
      obtain ⟨_, ttop, ht, htsig, htsgn⟩ := hpt
      obtain ⟨tk, hts', _, _, ⟨dl, hdl, ⟨dels, hdels, hdok⟩⟩, _⟩ := hts
      subst hts' hdels
      have e_tsigned : pyIndexStr (ps! "signed") t = .ok (.obj tk) := by rw [ht]; exact dictIndex_some htsgn
      have e_dels : delegationsOf t = dels := by
        simp [delegationsOf, signedOf, jget, entryField, ht, htsgn, hdl]
      simp only [e_usigned, e_tsigned, pyIndexStr_obj, dictIndex_some hdl, pyInStr_obj, pure, Except.pure]
      by_cases hS : SignedOK (signedOf u)
      · have hsch : Schema (signedOnlyEnvelope (signedOf u)) := (schema_signedOnly _).mpr hS
        obtain ⟨uk, huk, ⟨uty, huty, _⟩, _⟩ := hS
        have hS : SignedOK (signedOf u) := by rw [huk]; exact ⟨uk, rfl, ⟨uty, huty, ‹_›⟩, ‹_›⟩
        rw [if_pos hsch]
        have e_ty : pyIndexStr (ps! "type") (signedOf u) = .ok (.str uty) := by rw [huk]; exact dictIndex_some huty
        have e_tyof : typeOf u = .str uty := by simp [typeOf, jget, entryField, huk, huty]
        simp only [e_ty, strOf_str]
        by_cases hm : uty = name
        · have : ¬ TypeMismatch name u := by rintro ⟨_, h⟩; rw [e_tyof] at h; exact h hm
          simp only [hm, ne_eq, not_true_eq_false, if_false, okU, this, roleOf, e_dels]
          cases hr : dictGet name dels with
          | none => simp [dictHas_none hr]
          | some d =>
            simp only [dictHas_some hr, Bool.not_true, Bool.false_eq_true, if_false, dictIndex_some hr]
            obtain ⟨dk, rfl, hks, ⟨pk, hpk, _⟩, ⟨th, hth, _⟩⟩ := hdok (name, d) (mem_of_dictGet hr)
            simp [pyIndexStr_obj, dictIndex_some hpk, dictIndex_some hth, jget, entryField, hpk, hth]
        · have : TypeMismatch name u := ⟨hS, by rw [e_tyof]; exact hm⟩
          simp [hm, this]
      · have hsch : ¬ Schema (signedOnlyEnvelope (signedOf u)) := fun h => hS ((schema_signedOnly _).mp h)
        have : ¬ TypeMismatch name u := fun h => hS h.1
        rw [if_neg hsch]
        simp only [okU, this, if_false, roleOf, e_dels]
        cases hr : dictGet name dels with
        | none => simp [dictHas_none hr]
        | some d =>
          simp only [dictHas_some hr, Bool.not_true, Bool.false_eq_true, if_false, dictIndex_some hr]
          obtain ⟨dk, rfl, hks, ⟨pk, hpk, _⟩, ⟨th, hth, _⟩⟩ := hdok (name, d) (mem_of_dictGet hr)
          simp [pyIndexStr_obj, dictIndex_some hpk, dictIndex_some hth, jget, entryField, hpk, hth]
    · have hc : (¬ Schema t ∨ isSignableJ u ≠ true) := Or.inr hU
      have : isSignableJ u = false := by simpa using hU
      rw [if_pos hT, if_pos hc]; simp [this]
  · have hc : (¬ Schema t ∨ isSignableJ u ≠ true) := Or.inl hT
    rw [if_neg hT, if_pos hc]

end CCT
