import CCT.Lemmas.JsonNum
namespace CCT

def FltOK (t : Txt) : Prop :=
  t = [110, 97, 110] ∨ t = [105, 110, 102] ∨ t = [45, 105, 110, 102] ∨
  ((∀ c ∈ t, isNumChar c = true) ∧ parseNumTok t = some (.flt t))

mutual
def J.WF : J → Prop
  | .null => True | .bool _ => True
  | .int z => z.natAbs < 10 ^ maxStrDigits        -- CPython's int <-> str conversion limit: larger integers cannot be serialized or loaded
  | .flt t => FltOK t
  | .str s => StrOK s
  | .arr xs => WFs xs
  | .obj kvs => WFm kvs ∧ (kvs.map (·.1)).Nodup
def WFs : List J → Prop
  | [] => True
  | x :: xs => x.WF ∧ WFs xs
def WFm : List (PStr × J) → Prop
  | [] => True
  | (k, v) :: kvs => StrOK k ∧ v.WF ∧ WFm kvs
end

mutual
def J.size : J → Nat
  | .arr xs => 1 + sizes xs
  | .obj kvs => 1 + sizem kvs
  | _ => 1
def sizes : List J → Nat
  | [] => 0
  | x :: xs => x.size + 1 + sizes xs
def sizem : List (PStr × J) → Nat
  | [] => 0
  | (_, v) :: kvs => v.size + 1 + sizem kvs
end

theorem J.size_pos (v : J) : 1 ≤ v.size := by
  cases v <;> simp [J.size] <;> omega

theorem numChar_facts {c : Nat} (h : isNumChar c = true) :
    c ≠ 34 ∧ c ≠ 91 ∧ c ≠ 123 ∧ c ≠ 110 ∧ c ≠ 116 ∧ c ≠ 102 ∧ c ≠ 78 ∧ c ≠ 73 ∧
    isWs c = false ∧ c ≠ 93 ∧ c ≠ 125 := by
  simp [isNumChar, isDigit] at h
  simp [isWs]
  omega

theorem parseNumTok_nil : parseNumTok [] = none := by decide
theorem parseNumTok_minus : parseNumTok [45] = none := by decide

theorem parseValue_num (t : Txt) (v : J) (ht : ∀ c ∈ t, isNumChar c = true) (hp : parseNumTok t = some v)
    (rest : Txt) (hterm : Term rest) (f : Nat) : parseValue (f+1) (t ++ rest) = some (v, rest) := by
  cases t with
  | nil => rw [parseNumTok_nil] at hp; cases hp
  | cons c t' =>
    have hc := numChar_facts (ht c (by simp))
    have h73 : ¬ (c = 45 ∧ (t' ++ rest).head? = some 73) := by
      rintro ⟨rfl, h⟩
      cases t' with
      | nil => rw [parseNumTok_minus] at hp; cases hp
      | cons d _ =>
        have := (numChar_facts (ht d (by simp))).2.2.2.2.2.2.2.1
        simp at h; exact this h
    simp only [List.cons_append, parseValue, hc.1, hc.2.1, hc.2.2.1, hc.2.2.2.1, hc.2.2.2.2.1, hc.2.2.2.2.2.1,
      hc.2.2.2.2.2.2.1, hc.2.2.2.2.2.2.2.1, h73, if_false]
    unfold parseNumber
    rw [← List.cons_append, spanNum_append (c :: t') rest ht hterm]
    simp [hp]

/-- first char of a serialized value: not whitespace, not ']' / '}' -/
def Starts (s : Txt) : Prop := ∃ c r, s = c :: r ∧ isWs c = false ∧ c ≠ 93 ∧ c ≠ 125

theorem starts_of_numtok (t : Txt) (ht : ∀ c ∈ t, isNumChar c = true) (hne : t ≠ []) : Starts t := by
  cases t with
  | nil => exact absurd rfl hne
  | cons c r =>
    have := numChar_facts (ht c (by simp))
    exact ⟨c, r, rfl, this.2.2.2.2.2.2.2.2.1, this.2.2.2.2.2.2.2.2.2.1, this.2.2.2.2.2.2.2.2.2.2⟩

theorem serFlt_ord (t : Txt) (ht : ∀ c ∈ t, isNumChar c = true) : serFlt t = t := by
  unfold serFlt
  have h1 : t ≠ [110, 97, 110] := by
    intro e; subst e; exact absurd (ht 110 (by simp)) (by decide)
  have h2 : t ≠ [105, 110, 102] := by
    intro e; subst e; exact absurd (ht 105 (by simp)) (by decide)
  have h3 : t ≠ [45, 105, 110, 102] := by
    intro e; subst e; exact absurd (ht 105 (by simp)) (by decide)
  simp [h1, h2, h3]

theorem serRaw_starts (lvl : Nat) (v : J) (hv : v.WF) : Starts (serRaw lvl v) := by
  cases v with
  | null => exact ⟨110, _, rfl, by decide, by decide, by decide⟩
  | bool b => cases b <;> exact ⟨_, _, rfl, by decide, by decide, by decide⟩
  | int z =>
    obtain ⟨h1, h2⟩ := parseNumTok_serInt z hv
    simp only [serRaw]
    refine starts_of_numtok _ h2 ?_
    intro e; rw [e, parseNumTok_nil] at h1; cases h1
  | flt t =>
    simp only [J.WF, FltOK] at hv
    rcases hv with rfl | rfl | rfl | ⟨h1, h2⟩
    · exact ⟨78, _, rfl, by decide, by decide, by decide⟩
    · exact ⟨73, _, rfl, by decide, by decide, by decide⟩
    · exact ⟨45, _, rfl, by decide, by decide, by decide⟩
    · simp only [serRaw, serFlt_ord t h1]
      refine starts_of_numtok _ h1 ?_
      intro e; rw [e, parseNumTok_nil] at h2; cases h2
  | str s => exact ⟨34, _, rfl, by decide, by decide, by decide⟩
  | arr xs => cases xs <;> exact ⟨91, _, rfl, by decide, by decide, by decide⟩
  | obj kvs =>
    cases kvs with
    | nil => exact ⟨123, _, rfl, by decide, by decide, by decide⟩
    | cons p r => obtain ⟨k, v⟩ := p; exact ⟨123, _, rfl, by decide, by decide, by decide⟩

theorem skipWs_starts {s : Txt} (h : Starts s) (r : Txt) : skipWs (s ++ r) = s ++ r := by
  obtain ⟨c, t, rfl, hc, _, _⟩ := h
  simp [skipWs, hc]

theorem term_nl (n : Nat) (r : Txt) : Term (nl n ++ r) := by
  intro c hc; simp [nl] at hc; subst hc; decide

theorem term_cons {d : Nat} (h : isNumChar d = false) (r : Txt) : Term (d :: r) := by
  intro c hc; simp at hc; subst hc; exact h

theorem dictSet_append (kvs : List (PStr × J)) (k : PStr) (v : J) (h : k ∉ kvs.map (·.1)) :
    dictSet kvs k v = kvs ++ [(k, v)] := by
  induction kvs with
  | nil => rfl
  | cons p r ih =>
    obtain ⟨k', v'⟩ := p
    simp only [List.map_cons, List.mem_cons, not_or] at h
    have : ¬ k' = k := fun e => h.1 e.symm
    simp [dictSet, this, ih h.2]

end CCT
