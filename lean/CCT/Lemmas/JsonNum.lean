import CCT.Lemmas.JsonStr
namespace CCT

/-- the continuation cannot extend a number token -/
def Term (r : Txt) : Prop := ∀ c ∈ r.head?, isNumChar c = false

theorem spanNum_append (tok rest : Txt) (h1 : ∀ c ∈ tok, isNumChar c = true) (h2 : Term rest) :
    spanNum (tok ++ rest) = (tok, rest) := by
  induction tok with
  | nil =>
    cases rest with
    | nil => simp [spanNum]
    | cons c r =>
      have : isNumChar c = false := h2 c (by simp)
      simp [spanNum, this]
  | cons c t ih =>
    have hc : isNumChar c = true := h1 c (by simp)
    have := ih (fun d hd => h1 d (by simp [hd]))
    simp [spanNum, hc, this]

theorem digitsVal_append (a b : Txt) (acc : Nat) : digitsVal (a ++ b) acc = digitsVal b (digitsVal a acc) := by
  induction a generalizing acc with
  | nil => rfl
  | cons c t ih => simp [digitsVal, ih]

theorem natDigits_spec : ∀ (f n : Nat), n < f →
    digitsVal (natDigits f n) 0 = n ∧ (∀ c ∈ natDigits f n, isDigit c = true) ∧ natDigits f n ≠ [] ∧
    (10 ≤ n → (natDigits f n).head? ≠ some 48 ∧ 2 ≤ (natDigits f n).length) ∧ (n < 10 → natDigits f n = [48 + n]) := by
  intro f
  induction f with
  | zero => intro n h; omega
  | succ f ih =>
    intro n hn
    by_cases h10 : n < 10
    · have e : natDigits (f + 1) n = [48 + n] := by simp [natDigits, h10]
      rw [e]
      refine ⟨by simp [digitsVal], ?_, by simp, by omega, fun _ => rfl⟩
      intro c hc; simp at hc; subst hc; simp [isDigit]; omega
    · have hlt : n / 10 < f := by omega
      obtain ⟨h1, h2, h3, h4, h5⟩ := ih (n / 10) hlt
      have e : natDigits (f + 1) n = natDigits f (n / 10) ++ [48 + n % 10] := by simp [natDigits, h10]
      rw [e]
      refine ⟨?_, ?_, by simp, fun _ => ⟨?_, ?_⟩, fun h => absurd h h10⟩
      · rw [digitsVal_append, h1]; simp [digitsVal]; omega
      · intro c hc
        rcases List.mem_append.mp hc with hc | hc
        · exact h2 c hc
        · simp at hc; subst hc; simp [isDigit]; omega
      · cases hd : natDigits f (n / 10) with
        | nil => exact absurd hd h3
        | cons a t =>
          simp only [List.cons_append, List.head?_cons]
          by_cases h100 : 10 ≤ n / 10
          · have := (h4 h100).1; rw [hd] at this; simpa using this
          · have := h5 (by omega); rw [hd] at this
            simp at this; intro e; simp at e; omega
      · cases hd : natDigits f (n / 10) with
        | nil => exact absurd hd h3
        | cons a t => simp

theorem serNat_spec (n : Nat) :
    validNatTok (serNat n) = true ∧ digitsVal (serNat n) 0 = n ∧ (∀ c ∈ serNat n, isDigit c = true) ∧ serNat n ≠ [] := by
  obtain ⟨h1, h2, h3, h4, h5⟩ := natDigits_spec (n + 1) n (by omega)
  refine ⟨?_, h1, h2, h3⟩
  unfold validNatTok serNat
  have hall : (natDigits (n + 1) n).all isDigit = true := by simpa [List.all_eq_true] using h2
  have hne : (natDigits (n + 1) n).isEmpty = false := by
    cases hd : natDigits (n + 1) n with
    | nil => exact absurd hd h3
    | cons _ _ => rfl
  simp only [hall, hne, Bool.not_false, Bool.true_and]
  by_cases h10 : n < 10
  · rw [h5 h10]; simp
  · have := (h4 (by omega)).1
    simp [this]

theorem isDigit_numChar {c : Nat} (h : isDigit c = true) : isNumChar c = true := by
  simp [isNumChar, h]

theorem parseNumTok_serInt (z : Int) : parseNumTok (serInt z) = some (.int z) ∧ (∀ c ∈ serInt z, isNumChar c = true) := by
  cases z with
  | ofNat n =>
    obtain ⟨h1, h2, h3, h4⟩ := serNat_spec n
    refine ⟨?_, fun c hc => isDigit_numChar (h3 c hc)⟩
    simp only [serInt]
    cases hd : serNat n with
    | nil => exact absurd hd h4
    | cons a t =>
      have ha : a ≠ 45 := by
        have := h3 a (by rw [hd]; simp)
        simp [isDigit] at this; omega
      rw [hd] at h1 h2
      unfold parseNumTok
      split
      · rename_i r heq; simp at heq; exact absurd heq.1 ha
      · simp [h1, h2]
  | negSucc n =>
    obtain ⟨h1, h2, h3, h4⟩ := serNat_spec (n + 1)
    refine ⟨?_, ?_⟩
    · simp only [serInt, parseNumTok, cMinus, h1, if_true, h2]
      congr 1
    · intro c hc
      simp only [serInt, cMinus, List.mem_cons] at hc
      rcases hc with rfl | hc
      · decide
      · exact isDigit_numChar (h3 c hc)

end CCT
