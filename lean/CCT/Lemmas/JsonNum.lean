import CCT.Lemmas.JsonStr
namespace CCT

/-- the continuation cannot extend a number token -/
def Term (r : Txt) : Prop := ∀ c ∈ r.head?, isNumChar c = false

theorem spanNum_append (tok rest : Txt) (h1 : ∀ c ∈ tok, isNumChar c = true) (h2 : Term rest) :
    spanNum (tok ++ rest) = (tok, rest) := by
  induction tok with
  | nil =>
    cases rest with
    | nil => simp [spanNum]
    | cons c r =>
      have : isNumChar c = false := h2 c (by simp)
      simp [spanNum, this]
  | cons c t ih =>
    have hc : isNumChar c = true := h1 c (by simp)
    have := ih (fun d hd => h1 d (by simp [hd]))
    simp [spanNum, hc, this]

theorem digitsVal_append (a b : Txt) (acc : Nat) : digitsVal (a ++ b) acc = digitsVal b (digitsVal a acc) := by
  induction a generalizing acc with
  | nil => rfl
  | cons c t ih => simp [digitsVal, ih]

theorem natDigits_spec : ∀ (f n : Nat), n < f →
    digitsVal (natDigits f n) 0 = n ∧ (∀ c ∈ natDigits f n, isDigit c = true) ∧ natDigits f n ≠ [] ∧
    (10 ≤ n → (natDigits f n).head? ≠ some 48 ∧ 2 ≤ (natDigits f n).length) ∧ (n < 10 → natDigits f n = [48 + n]) := by
  intro f
  induction f with
  | zero => intro n h; omega
  | succ f ih =>
    intro n hn
    by_cases h10 : n < 10
    · have e : natDigits (f + 1) n = [48 + n] := by simp [natDigits, h10]
      rw [e]
      refine ⟨by simp [digitsVal], ?_, by simp, by omega, fun _ => rfl⟩
      intro c hc; simp at hc; subst hc; simp [isDigit]; omega
    · have hlt : n / 10 < f := by omega
      obtain ⟨h1, h2, h3, h4, h5⟩ := ih (n / 10) hlt
      have e : natDigits (f + 1) n = natDigits f (n / 10) ++ [48 + n % 10] := by simp [natDigits, h10]
      rw [e]
      refine ⟨?_, ?_, by simp, fun _ => ⟨?_, ?_⟩, fun h => absurd h h10⟩
      · rw [digitsVal_append, h1]; simp [digitsVal]; omega
      · intro c hc
        rcases List.mem_append.mp hc with hc | hc
        · exact h2 c hc
        · simp at hc; subst hc; simp [isDigit]; omega
      · cases hd : natDigits f (n / 10) with
        | nil => exact absurd hd h3
        | cons a t =>
          simp only [List.cons_append, List.head?_cons]
          by_cases h100 : 10 ≤ n / 10
          · have := (h4 h100).1; rw [hd] at this; simpa using this
          · have := h5 (by omega); rw [hd] at this
            simp at this; intro e; simp at e; omega
      · cases hd : natDigits f (n / 10) with
        | nil => exact absurd hd h3
        | cons a t => simp

theorem serNat_spec (n : Nat) :
    validNatTok (serNat n) = true ∧ digitsVal (serNat n) 0 = n ∧ (∀ c ∈ serNat n, isDigit c = true) ∧ serNat n ≠ [] := by
  obtain ⟨h1, h2, h3, h4, h5⟩ := natDigits_spec (n + 1) n (by omega)
  refine ⟨?_, h1, h2, h3⟩
  unfold validNatTok serNat
  have hall : (natDigits (n + 1) n).all isDigit = true := by simpa [List.all_eq_true] using h2
  have hne : (natDigits (n + 1) n).isEmpty = false := by
    cases hd : natDigits (n + 1) n with
    | nil => exact absurd hd h3
    | cons _ _ => rfl
  simp only [hall, hne, Bool.not_false, Bool.true_and]
  by_cases h10 : n < 10
  · rw [h5 h10]; simp
  · have := (h4 (by omega)).1
    simp [this]

theorem isDigit_numChar {c : Nat} (h : isDigit c = true) : isNumChar c = true := by
  simp [isNumChar, h]

/-- a number below `10^k` has at most `k` decimal digits -/
theorem natDigits_length_le : ∀ (f n k : Nat), n < f → n < 10 ^ k → 0 < k → (natDigits f n).length ≤ k
  | 0, _, _, h, _, _ => by omega
  | f+1, n, k, hf, hn, hk => by
    by_cases h10 : n < 10
    · simp [natDigits, h10]; omega
    · have e : natDigits (f + 1) n = natDigits f (n / 10) ++ [48 + n % 10] := by simp [natDigits, h10]
      rw [e]
      have hk2 : 2 ≤ k := by
        by_cases h1 : k = 1
        · subst h1; simp at hn; omega
        · omega
      have hp : 10 ^ k = 10 * 10 ^ (k - 1) := by
        have : k = (k - 1) + 1 := by omega
        rw [this, Nat.pow_succ, Nat.mul_comm]; simp
      have hdiv : n / 10 < 10 ^ (k - 1) := by
        apply Nat.div_lt_of_lt_mul
        rw [← hp]; exact hn
      have := natDigits_length_le f (n / 10) (k - 1) (by omega) hdiv (by omega)
      simp only [List.length_append, List.length_cons, List.length_nil]
      omega

theorem serNat_length_le (n : Nat) (h : n < 10 ^ maxStrDigits) : (serNat n).length ≤ maxStrDigits :=
  natDigits_length_le (n + 1) n maxStrDigits (by omega) h (by decide)

/-- a string of `len` digits denotes a number below `10^len` -/
theorem digitsVal_lt : ∀ (r : Txt) (acc : Nat), (∀ c ∈ r, isDigit c = true) → digitsVal r acc < (acc + 1) * 10 ^ r.length
  | [], acc, _ => by simp [digitsVal]
  | c :: t, acc, h => by
    have hc : c - 48 ≤ 9 := by
      have := h c (by simp)
      simp [isDigit] at this; omega
    have ih := digitsVal_lt t (acc * 10 + (c - 48)) (fun x hx => h x (by simp [hx]))
    simp only [digitsVal, List.length_cons, Nat.pow_succ]
    have hle : (acc * 10 + (c - 48) + 1) * 10 ^ t.length ≤ (acc + 1) * 10 * 10 ^ t.length :=
      Nat.mul_le_mul_right _ (by omega)
    calc digitsVal t (acc * 10 + (c - 48)) < (acc * 10 + (c - 48) + 1) * 10 ^ t.length := ih
      _ ≤ (acc + 1) * 10 * 10 ^ t.length := hle
      _ = (acc + 1) * (10 ^ t.length * 10) := by rw [Nat.mul_assoc, Nat.mul_comm 10]

theorem digitsVal_lt_limit (r : Txt) (hd : ∀ c ∈ r, isDigit c = true) (hl : r.length ≤ maxStrDigits) : digitsVal r 0 < 10 ^ maxStrDigits := by
  have := digitsVal_lt r 0 hd
  simp only [Nat.zero_add, Nat.one_mul] at this
  exact Nat.lt_of_lt_of_le this (Nat.pow_le_pow_right (by decide) hl)

/-- numbers below `10^k`, `k ≤ 4300`, are within the limit (stated so that no proof has to evaluate `10^4300`) -/
theorem within_limit {n : Nat} (k : Nat) (hk : k ≤ maxStrDigits) (h : n < 10 ^ k) : n < 10 ^ maxStrDigits :=
  Nat.lt_of_lt_of_le h (Nat.pow_le_pow_right (by decide) hk)

theorem parseNumTok_serInt (z : Int) (hz : z.natAbs < 10 ^ maxStrDigits) :
    parseNumTok (serInt z) = some (.int z) ∧ (∀ c ∈ serInt z, isNumChar c = true) := by
  cases z with
  | ofNat n =>
    obtain ⟨h1, h2, h3, h4⟩ := serNat_spec n
    have hlen := serNat_length_le n (by simpa using hz)
    refine ⟨?_, fun c hc => isDigit_numChar (h3 c hc)⟩
    simp only [serInt]
    cases hd : serNat n with
    | nil => exact absurd hd h4
    | cons a t =>
      have ha : a ≠ 45 := by
        have := h3 a (by rw [hd]; simp)
        simp [isDigit] at this; omega
      rw [hd] at h1 h2 hlen
      unfold parseNumTok
      split
      · rename_i r heq; simp at heq; exact absurd heq.1 ha
      · simp only [List.length_cons] at hlen
        simp [h1, h2, hlen]
  | negSucc n =>
    obtain ⟨h1, h2, h3, h4⟩ := serNat_spec (n + 1)
    have hlen := serNat_length_le (n + 1) (by simpa using hz)
    refine ⟨?_, ?_⟩
    · simp only [serInt, parseNumTok, cMinus, h1, if_true, h2, hlen]
      congr 1
    · intro c hc
      simp only [serInt, cMinus, List.mem_cons] at hc
      rcases hc with rfl | hc
      · decide
      · exact isDigit_numChar (h3 c hc)

end CCT
