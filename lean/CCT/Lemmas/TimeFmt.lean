import CCT.Model.Time
/-! `strptime` accepts what `isoformat()+"Z"` prints (for every valid date-time), and parses it back to the same value. -/
namespace CCT

theorem ndVal_ascii (k : Nat) (h : k < 10) : ndVal (48 + k) = some k := by
  unfold ndVal ndStarts ndValIn
  have : 48 ≤ 48 + k ∧ 48 + k < 48 + 10 := by omega
  simp [this]

theorem asciiDigitIn_ok (lo hi k : Nat) (h1 : lo ≤ 48 + k) (h2 : 48 + k ≤ hi) : asciiDigitIn lo hi (48 + k) = some k := by
  simp [asciiDigitIn, h1, h2]

theorem monthVal_pad2 : ∀ m, m < 13 → 1 ≤ m → monthVal (pad2 m) = some m := by decide
theorem dayVal_pad2 : ∀ d, d < 32 → 1 ≤ d → dayVal (pad2 d) = some d := by decide
theorem hourVal_pad2 : ∀ h, h < 24 → hourVal (pad2 h) = some h := by decide
theorem minuteVal_pad2 : ∀ m, m < 60 → minuteVal (pad2 m) = some m := by decide
theorem secondVal_pad2 : ∀ s, s < 60 → secondVal (pad2 s) = some s := by decide

theorem takeField_pad2 (isDelim : Nat → Bool) (n d : Nat) (r : PStr) (hd : isDelim d = true)
    (h1 : isDelim (48 + n / 10 % 10) = false) (h2 : isDelim (48 + n % 10) = false) :
    takeField isDelim (pad2 n ++ d :: r) = some (pad2 n, r) := by
  simp [pad2, takeField, h2, hd]

theorem daysInMonth_le (y m : Nat) : daysInMonth y m ≤ 31 ∧ 28 ≤ daysInMonth y m := by
  unfold daysInMonth
  split
  · split <;> omega
  · split <;> omega

theorem year_digits (y : Nat) (h : y < 10000) : ((y / 1000 % 10 * 10 + y / 100 % 10) * 10 + y / 10 % 10) * 10 + y % 10 = y := by omega

/-- parsing the canonical UTC string of a valid date-time gives the date-time back -/
theorem strptime_isoZ (d : DateTime) (hv : d.valid = true) : pyStrptimeUtc (isoZ d) = some d := by
  simp only [DateTime.valid, Bool.and_eq_true, decide_eq_true_eq] at hv
  obtain ⟨⟨⟨⟨⟨⟨⟨⟨hy1, hy2⟩, hm1⟩, hm2⟩, hd1⟩, hd2⟩, hh⟩, hmi⟩, hs⟩ := hv
  have hd31 := (daysInMonth_le d.year d.month).1
  have e : strptimeFields (isoZ d) = some d := by
    simp only [isoZ, pad4, List.cons_append, List.nil_append, strptimeFields, List.append_assoc]
    rw [ndVal_ascii _ (Nat.mod_lt _ (by decide)), ndVal_ascii _ (Nat.mod_lt _ (by decide)), ndVal_ascii _ (Nat.mod_lt _ (by decide)),
      ndVal_ascii _ (Nat.mod_lt _ (by decide))]
    simp only
    have dig : ∀ n, (48 + n / 10 % 10 = 45) = False ∧ (48 + n % 10 = 45) = False := by intro n; constructor <;> (apply eq_false; omega)
    rw [takeField_pad2 (· = 45) d.month 45 _ (by decide) (by simp; omega) (by simp; omega)]
    simp only
    rw [takeField_pad2 (fun c => c = 84 || c = 116) d.day 84 _ (by decide) (by simp; omega) (by simp; omega)]
    simp only
    rw [takeField_pad2 (· = 58) d.hour 58 _ (by decide) (by simp; omega) (by simp; omega)]
    simp only
    rw [takeField_pad2 (· = 58) d.minute 58 _ (by decide) (by simp; omega) (by simp; omega)]
    simp only
    have : pad2 d.second ++ [90] = pad2 d.second ++ 90 :: [] := rfl
    rw [this, takeField_pad2 (fun c => c = 90 || c = 122) d.second 90 _ (by decide) (by simp; omega) (by simp; omega)]
    simp only [ne_eq, not_true_eq_false, if_false, monthVal_pad2 d.month (by omega) hm1, dayVal_pad2 d.day (by omega) hd1, hourVal_pad2 d.hour (by omega),
      minuteVal_pad2 d.minute (by omega), secondVal_pad2 d.second (by omega)]
    congr 1
    cases d
    simp only [DateTime.mk.injEq, and_true]
    exact year_digits _ (by simp at hy2; omega)
  have hv' : d.valid = true := by
    simp only [DateTime.valid, Bool.and_eq_true, decide_eq_true_eq]
    exact ⟨⟨⟨⟨⟨⟨⟨⟨hy1, hy2⟩, hm1⟩, hm2⟩, hd1⟩, hd2⟩, hh⟩, hmi⟩, hs⟩
  simp [pyStrptimeUtc, e, hv']

theorem nextDay_valid (d : DateTime) (hv : d.valid = true) (hy : d.year < 9999) : (nextDay d).valid = true := by
  simp only [DateTime.valid, Bool.and_eq_true, decide_eq_true_eq] at hv ⊢
  obtain ⟨⟨⟨⟨⟨⟨⟨⟨hy1, hy2⟩, hm1⟩, hm2⟩, hd1⟩, hd2⟩, hh⟩, hmi⟩, hs⟩ := hv
  unfold nextDay
  split
  · rename_i hlt
    exact ⟨⟨⟨⟨⟨⟨⟨⟨hy1, hy2⟩, hm1⟩, hm2⟩, by simp⟩, Nat.succ_le_of_lt hlt⟩, hh⟩, hmi⟩, hs⟩
  · split
    · have := (daysInMonth_le d.year (d.month + 1)).2
      exact ⟨⟨⟨⟨⟨⟨⟨⟨hy1, hy2⟩, by simp⟩, by simp; omega⟩, by simp⟩, by simp; omega⟩, hh⟩, hmi⟩, hs⟩
    · have := (daysInMonth_le (d.year + 1) 1).2
      exact ⟨⟨⟨⟨⟨⟨⟨⟨by simp, by simp; omega⟩, by simp⟩, by simp⟩, by simp⟩, by simp; omega⟩, hh⟩, hmi⟩, hs⟩

theorem nextDay_year (d : DateTime) : (nextDay d).year ≤ d.year + 1 ∧ d.year ≤ (nextDay d).year := by
  unfold nextDay
  split
  · simp
  · split <;> simp

/-- date order (lexicographic on year, month, day) -/
def dateLt (a b : DateTime) : Prop := a.year < b.year ∨ (a.year = b.year ∧ (a.month < b.month ∨ (a.month = b.month ∧ a.day < b.day)))

theorem nextDay_later (d : DateTime) : dateLt d (nextDay d) ∧ (nextDay d).hour = d.hour ∧ (nextDay d).minute = d.minute ∧ (nextDay d).second = d.second := by
  unfold nextDay dateLt
  split
  · exact ⟨Or.inr ⟨rfl, Or.inr ⟨rfl, by simp⟩⟩, rfl, rfl, rfl⟩
  · split
    · exact ⟨Or.inr ⟨rfl, Or.inl (by simp)⟩, rfl, rfl, rfl⟩
    · exact ⟨Or.inl (by simp), rfl, rfl, rfl⟩

theorem dateLt_trans {a b c : DateTime} (h1 : dateLt a b) (h2 : dateLt b c) : dateLt a c := by
  unfold dateLt at *; omega

theorem addDays_later : ∀ (n : Nat) (d : DateTime), dateLt d (addDays (n + 1) d) ∧ (addDays (n + 1) d).hour = d.hour ∧
    (addDays (n + 1) d).minute = d.minute ∧ (addDays (n + 1) d).second = d.second
  | 0, d => by simpa [addDays] using nextDay_later d
  | n + 1, d => by
    have h1 := nextDay_later d
    have h2 := addDays_later n (nextDay d)
    simp only [addDays] at h2 ⊢
    exact ⟨dateLt_trans h1.1 h2.1, by rw [h2.2.1, h1.2.1], by rw [h2.2.2.1, h1.2.2.1], by rw [h2.2.2.2, h1.2.2.2]⟩

theorem addDays_valid : ∀ (n : Nat) (d : DateTime), d.valid = true → d.year + n ≤ 9999 → (addDays n d).valid = true
  | 0, d, hv, _ => hv
  | n + 1, d, hv, hy => by
    simp only [addDays]
    have := nextDay_year d
    exact addDays_valid n (nextDay d) (nextDay_valid d hv (by omega)) (by omega)

end CCT

namespace CCT

theorem nextDay_valid' (d : DateTime) (hv : d.valid = true) (hy : (nextDay d).year ≤ 9999) : (nextDay d).valid = true := by
  by_cases h : d.year < 9999
  · exact nextDay_valid d hv h
  · -- year = 9999: the step did not cross into the next year
    simp only [DateTime.valid, Bool.and_eq_true, decide_eq_true_eq] at hv ⊢
    obtain ⟨⟨⟨⟨⟨⟨⟨⟨hy1, hy2⟩, hm1⟩, hm2⟩, hd1⟩, hd2⟩, hh⟩, hmi⟩, hs⟩ := hv
    unfold nextDay at hy ⊢
    split
    · rename_i hlt
      exact ⟨⟨⟨⟨⟨⟨⟨⟨hy1, hy2⟩, hm1⟩, hm2⟩, by simp⟩, Nat.succ_le_of_lt hlt⟩, hh⟩, hmi⟩, hs⟩
    · rename_i hlt
      simp only [hlt, if_false] at hy
      split
      · have := (daysInMonth_le d.year (d.month + 1)).2
        exact ⟨⟨⟨⟨⟨⟨⟨⟨hy1, hy2⟩, by simp⟩, by simp; omega⟩, by simp⟩, by simp; omega⟩, hh⟩, hmi⟩, hs⟩
      · rename_i hm
        simp only [hm, if_false] at hy
        omega

theorem addDays_year_mono : ∀ (n : Nat) (d : DateTime), d.year ≤ (addDays n d).year
  | 0, _ => Nat.le_refl _
  | n + 1, d => by
    simp only [addDays]
    exact Nat.le_trans (nextDay_year d).2 (addDays_year_mono n (nextDay d))

/-- adding days keeps the date-time valid as long as the resulting year is representable -/
theorem addDays_valid' : ∀ (n : Nat) (d : DateTime), d.valid = true → (addDays n d).year ≤ 9999 → (addDays n d).valid = true
  | 0, _, hv, _ => hv
  | n + 1, d, hv, hy => by
    simp only [addDays] at hy ⊢
    have := addDays_year_mono n (nextDay d)
    exact addDays_valid' n (nextDay d) (nextDay_valid' d hv (by omega)) hy

end CCT
