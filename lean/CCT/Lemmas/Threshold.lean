import CCT.Props.C15
import CCT.Model.Auth
/-! The counting loop of `verify_signable` against the declarative "threshold met". -/
namespace CCT
open Classical
open CCT.C15

/-- a field of a signature entry (`null` when absent or when the entry is not a dict) -/
def entryField (n : PStr) : J → J
  | .obj kvs => (dictGet n kvs).getD .null
  | _ => .null

/-- **an entry counts**: filed under a canonically spelled key that is authorized, of the shape the mode demands, and
cryptographically valid over the payload bytes (raw) or over the RFC 4880 digest of payload and hashed headers (OpenPGP) -/
def Counts (C : CryptoFns) (gpg : Bool) (auth : List PStr) (data : Bytes) (k : PStr) (sig : J) : Prop :=
  HexN 64 (.str k) ∧ k ∈ auth ∧
  (if gpg then
     GpgShape sig ∧
     C.verify (unhex k) (gpgDigest C data (unhex (strOf (entryField (ps! "other_headers") sig))))
       (unhex (strOf (entryField (ps! "signature") sig))) = true
   else
     (RawShape sig ∨ GpgShape sig) ∧
     C.verify (unhex k) data (unhex (strOf (entryField (ps! "signature") sig))) = true)

@[simp] theorem strOf_str (s : PStr) : strOf (.str s) = s := rfl

theorem dictIndex_some {k : PStr} {kvs : List (PStr × J)} {v : J} (h : dictGet k kvs = some v) : dictIndex k kvs = .ok v := by
  simp [dictIndex, h]

theorem contains_iff {l : List PStr} {k : PStr} : l.contains k = true ↔ k ∈ l := by simp

/-- one loop iteration adds the entry to the accumulator exactly when it counts, and never raises -/
theorem verifyEntry_eq (C : CryptoFns) (gpg : Bool) (auth : List PStr) (data : Bytes) (good : List (PStr × J)) (k : PStr) (sig : J) :
    verifyEntry C gpg auth data good k sig = .ok (if Counts C gpg auth data k sig then dictSet good k sig else good) := by
  unfold verifyEntry
  simp only [isHexKey_eq, bind, Except.bind, pure, Except.pure]
  by_cases hk : HexN 64 (.str k)
  · have ek : decide (HexN 64 (.str k)) = true := by simp [hk]
    simp only [ek, Bool.not_true, Bool.false_eq_true, if_false, isGpgSignature_eq]
    by_cases ha : k ∈ auth
    · have ea : auth.contains k = true := contains_iff.mpr ha
      cases gpg with
      | true =>
        simp only [Bool.true_and, Bool.not_true]
        by_cases hg : GpgShape sig
        · have eg : decide (GpgShape sig) = true := by simp [hg]
          simp only [eg, Bool.not_true, Bool.false_eq_true, if_false, ea]
          obtain ⟨kvs, rfl, hkeys, ⟨oh, hoh, _⟩, ⟨sg, hsg, _⟩, _⟩ := hg
          have hg' : GpgShape (.obj kvs) := ⟨kvs, rfl, hkeys, ⟨oh, hoh, ‹_›⟩, ⟨sg, hsg, ‹_›⟩, ‹_›⟩
          simp only [verifyGpgSignatureJ, bind, Except.bind, (checkGpgSignature_iff _).mpr hg', (checkHexKey_iff _).mpr hk,
            dictIndex_some hoh, dictIndex_some hsg, strOf_str]
          by_cases hv : C.verify (unhex k) (gpgDigest C data (unhex (strOf oh))) (unhex (strOf sg)) = true
          · have : Counts C true auth data k (.obj kvs) := ⟨hk, ha, by simp [hg', entryField, hoh, hsg, hv]⟩
            simp [hv, this, okU]
          · have : ¬ Counts C true auth data k (.obj kvs) := by
              rintro ⟨_, _, h3⟩
              simp [entryField, hoh, hsg] at h3
              exact hv h3.2
            simp [hv, this]
        · have eg : decide (GpgShape sig) = false := by simp [hg]
          have : ¬ Counts C true auth data k sig := by rintro ⟨_, _, h3⟩; simp at h3; exact hg h3.1
          simp [eg, this]
      | false =>
        simp only [Bool.false_and, Bool.false_eq_true, if_false, ea, Bool.not_true, Bool.not_false, if_true, isSignature_eq]
        by_cases hs : RawShape sig ∨ GpgShape sig
        · have es : decide (RawShape sig ∨ GpgShape sig) = true := by simp [hs]
          simp only [es, Bool.not_true, Bool.false_eq_true, if_false]
          have hobj : ∃ kvs sg, sig = .obj kvs ∧ dictGet (ps! "signature") kvs = some sg ∧ HexN 128 sg := by
            rcases hs with ⟨kvs, rfl, _, sg, hsg, h128⟩ | ⟨kvs, rfl, _, _, ⟨sg, hsg, h128⟩, _⟩
            · exact ⟨kvs, sg, rfl, hsg, h128⟩
            · exact ⟨kvs, sg, rfl, hsg, h128⟩
          obtain ⟨kvs, sg, rfl, hsg, h128⟩ := hobj
          have e128 : decide (HexN 128 sg) = true := by simp [h128]
          simp only [dictIndex_some hsg, verifySignature, isHexSignature_eq, bind, Except.bind, e128, Bool.not_true,
            Bool.false_eq_true, if_false]
          by_cases hv : C.verify (unhex k) data (unhex (strOf sg)) = true
          · have : Counts C false auth data k (.obj kvs) := ⟨hk, ha, by simp [hs, entryField, hsg, hv]⟩
            simp [hv, this, okU]
          · have : ¬ Counts C false auth data k (.obj kvs) := by
              rintro ⟨_, _, h3⟩
              simp [entryField, hsg] at h3
              exact hv h3.2
            simp [hv, this]
        · have es : decide (RawShape sig ∨ GpgShape sig) = false := by simp [hs]
          have : ¬ Counts C false auth data k sig := by rintro ⟨_, _, h3⟩; simp at h3; exact hs h3.1
          simp [es, this]
    · have ea : auth.contains k = false := by
        cases h : auth.contains k with
        | false => rfl
        | true => exact absurd (contains_iff.mp h) ha
      have : ¬ Counts C gpg auth data k sig := fun h => ha h.2.1
      simp only [ea, Bool.not_false, if_true, this, if_false]
      split <;> rfl
  · have ek : decide (HexN 64 (.str k)) = false := by simp [hk]
    have : ¬ Counts C gpg auth data k sig := fun h => hk h.1
    simp [ek, this]

/-- the pure loop the monadic one computes -/
noncomputable def pureLoop (C : CryptoFns) (gpg : Bool) (auth : List PStr) (data : Bytes) :
    List (PStr × J) → List (PStr × J) → List (PStr × J)
  | good, [] => good
  | good, (k, sig) :: r => pureLoop C gpg auth data (if Counts C gpg auth data k sig then dictSet good k sig else good) r

theorem verifyLoop_eq (C : CryptoFns) (gpg : Bool) (auth : List PStr) (data : Bytes) :
    ∀ (entries good : List (PStr × J)), verifyLoop C gpg auth data good entries = .ok (pureLoop C gpg auth data good entries)
  | [], good => rfl
  | (k, sig) :: r, good => by
    simp only [verifyLoop, verifyEntry_eq, bind, Except.bind, pureLoop]
    exact verifyLoop_eq C gpg auth data r _

theorem keys_dictSet (d : List (PStr × J)) (k : PStr) (v : J) :
    (dictSet d k v).map (·.1) = if k ∈ d.map (·.1) then d.map (·.1) else d.map (·.1) ++ [k] := by
  induction d with
  | nil => simp [dictSet]
  | cons p r ih =>
    obtain ⟨k', v'⟩ := p
    simp only [dictSet]
    by_cases h : k' = k
    · subst h; simp
    · have h' : ¬ k = k' := fun e => h e.symm
      simp [h, h', ih]
      split <;> simp_all

/-- invariant of the loop: accumulator keys are distinct, and are exactly the old ones plus the keys of counting entries seen -/
theorem pureLoop_keys (C : CryptoFns) (gpg : Bool) (auth : List PStr) (data : Bytes) (entries good : List (PStr × J))
    (hg : (good.map (·.1)).Nodup) :
    ((pureLoop C gpg auth data good entries).map (·.1)).Nodup ∧
    ∀ k, k ∈ (pureLoop C gpg auth data good entries).map (·.1) ↔
      k ∈ good.map (·.1) ∨ ∃ s, (k, s) ∈ entries ∧ Counts C gpg auth data k s := by
  induction entries generalizing good with
  | nil => simp [pureLoop, hg]
  | cons p r ih =>
    obtain ⟨k0, s0⟩ := p
    simp only [pureLoop]
    by_cases hc : Counts C gpg auth data k0 s0
    · simp only [hc, if_true]
      have hn : ((dictSet good k0 s0).map (·.1)).Nodup := by
        rw [keys_dictSet]; split
        · exact hg
        · rename_i hnot
          exact List.nodup_append.mpr ⟨hg, by simp, by
            intro a ha b hb; simp at hb; subst hb; intro e; subst e; exact hnot ha⟩
      obtain ⟨h1, h2⟩ := ih (dictSet good k0 s0) hn
      refine ⟨h1, fun k => ?_⟩
      rw [h2 k, keys_dictSet]
      constructor
      · rintro (h | ⟨s, hs, hcs⟩)
        · split at h
          · exact Or.inl h
          · rcases List.mem_append.mp h with h | h
            · exact Or.inl h
            · simp at h; subst h; exact Or.inr ⟨s0, by simp, hc⟩
        · exact Or.inr ⟨s, by simp [hs], hcs⟩
      · rintro (h | ⟨s, hs, hcs⟩)
        · left; split
          · exact h
          · exact List.mem_append.mpr (Or.inl h)
        · simp at hs
          rcases hs with ⟨rfl, rfl⟩ | hs
          · left; split
            · assumption
            · simp
          · exact Or.inr ⟨s, hs, hcs⟩
    · simp only [hc, if_false]
      obtain ⟨h1, h2⟩ := ih good hg
      refine ⟨h1, fun k => ?_⟩
      rw [h2 k]
      constructor
      · rintro (h | ⟨s, hs, hcs⟩)
        · exact Or.inl h
        · exact Or.inr ⟨s, by simp [hs], hcs⟩
      · rintro (h | ⟨s, hs, hcs⟩)
        · exact Or.inl h
        · simp at hs
          rcases hs with ⟨rfl, rfl⟩ | hs
          · exact absurd hcs hc
          · exact Or.inr ⟨s, hs, hcs⟩

/-- **threshold met**: at least `thr` distinct keys each have an entry, filed under that key, that counts -/
def ThresholdMet (C : CryptoFns) (gpg : Bool) (auth : List PStr) (data : Bytes) (entries : List (PStr × J)) (thr : Nat) : Prop :=
  ∃ S : List PStr, S.Nodup ∧ thr ≤ S.length ∧ ∀ k ∈ S, ∃ sig, (k, sig) ∈ entries ∧ Counts C gpg auth data k sig

theorem loop_threshold (C : CryptoFns) (gpg : Bool) (auth : List PStr) (data : Bytes) (entries : List (PStr × J)) (thr : Nat) :
    thr ≤ (pureLoop C gpg auth data [] entries).length ↔ ThresholdMet C gpg auth data entries thr := by
  obtain ⟨h1, h2⟩ := pureLoop_keys C gpg auth data entries [] (by simp)
  constructor
  · intro h
    refine ⟨(pureLoop C gpg auth data [] entries).map (·.1), h1, by simpa using h, fun k hk => ?_⟩
    rcases (h2 k).mp hk with h | ⟨s, hs', hc⟩
    · simp at h
    · exact ⟨s, hs', hc⟩
  · rintro ⟨S, hS, hlen, hall⟩
    have hsub : S ⊆ (pureLoop C gpg auth data [] entries).map (·.1) := by
      intro k hk
      obtain ⟨s, hg, hc⟩ := hall k hk
      exact (h2 k).mpr (Or.inr ⟨s, hg, hc⟩)
    have := List.Nodup.length_le_of_subset hS hsub
    simp only [List.length_map] at this
    omega

end CCT
