import CCT.Lemmas.VerifyDelegation
/-! Closed form of `verify_root`. -/
namespace CCT
open Classical
open CCT.C15

/-- well-formed root-type metadata that declares a rule for the root role -/
def IsRootMd (m : J) : Prop := Schema m ∧ typeOf m = .str (ps! "root") ∧ (roleOf m (ps! "root")).isSome = true

def rootRule (m : J) : J := (roleOf m (ps! "root")).getD .null

/-- everything the code reads from a well-formed document, in one place -/
theorem schema_reads {m : J} (h : Schema m) :
    ∃ top sk ty dels, m = .obj top ∧ dictGet (ps! "signed") top = some (.obj sk) ∧
      dictGet (ps! "type") sk = some (.str ty) ∧ dictGet (ps! "delegations") sk = some (.obj dels) ∧
      typeOf m = .str ty ∧ delegationsOf m = dels ∧ signedOf m = .obj sk ∧ (∀ p ∈ dels, DelegationOK p.2) ∧
      (ty = ps! "root" → ∃ v z, dictGet (ps! "version") sk = some v ∧ asInt v = some z ∧ 1 ≤ z ∧ versionOf m = z) := by
  obtain ⟨e, s, hp, _, hs⟩ := h
  obtain ⟨_, top, rfl, _, hsgn⟩ := hp
  obtain ⟨sk, rfl, ⟨ty, hty, _⟩, _, ⟨dl, hdl, ⟨dels, rfl, hdok⟩⟩, _, _, hroot, _, hver⟩ := hs
  refine ⟨top, sk, ty, dels, rfl, hsgn, hty, hdl, ?_, ?_, ?_, hdok, ?_⟩
  · simp [typeOf, signedOf, jget, entryField, hsgn, hty]
  · simp [delegationsOf, signedOf, jget, entryField, hsgn, hdl]
  · simp [signedOf, jget, entryField, hsgn]
  · intro hr
    subst hr
    obtain ⟨v, hv⟩ := dictHas_iff.mp (hroot hty)
    obtain ⟨z, hz, h1⟩ := hver v hv
    exact ⟨v, z, hv, hz, h1, by simp [versionOf, signedOf, jget, entryField, hsgn, hv, hz]⟩

theorem isRootType_iff (ty : PStr) : isRootType (.str ty) = true ↔ ty = ps! "root" := by simp [isRootType]

theorem verifyRoot_eq (C : CryptoFns) (t u : J) :
    verifyRootJ C t u =
      if ¬ (IsRootMd t ∧ IsRootMd u) then .error .arg
      else if versionOf t + 1 ≠ versionOf u then .error .metadataVerification
      else (do
        verifySignableJ C u (jget (ps! "pubkeys") (rootRule t)) (jget (ps! "threshold") (rootRule t)) true
        verifySignableJ C u (jget (ps! "pubkeys") (rootRule u)) (jget (ps! "threshold") (rootRule u)) true) := by
  unfold verifyRootJ
  simp only [checkDelegatingMd_eq, bind, Except.bind]
  by_cases hT : Schema t
  · by_cases hU : Schema u
    · rw [if_pos hT, if_pos hU]
      obtain ⟨ttop, tsk, tty, tdels, rfl, htsgn, htty, htdl, e_tty, e_tdels, e_tsigned, htok, htver⟩ := schema_reads hT
      obtain ⟨utop, usk, uty, udels, rfl, husgn, huty, hudl, e_uty, e_udels, e_usigned, huok, huver⟩ := schema_reads hU
      simp only [typeOfSigned, pyIndexStr_obj, dictIndex_some htsgn, dictIndex_some husgn, dictIndex_some htty, dictIndex_some huty,
        bind, Except.bind, dictIndex_some htdl, dictIndex_some hudl, pyInStr_obj, pure, Except.pure]
      by_cases hr1 : tty = ps! "root"
      · by_cases hr2 : uty = ps! "root"
        · have c1 : isRootType (.str tty) = true := (isRootType_iff _).mpr hr1
          have c2 : isRootType (.str uty) = true := (isRootType_iff _).mpr hr2
          simp only [c1, c2, Bool.not_true, Bool.or_self, Bool.false_eq_true, if_false]
          cases hrt : dictGet (ps! "root") tdels with
          | none =>
            have : ¬ (IsRootMd (.obj ttop) ∧ IsRootMd (.obj utop)) := by
              rintro ⟨⟨_, _, h⟩, _⟩; simp [roleOf, e_tdels, hrt] at h
            simp only [dictHas_none hrt, Bool.not_false, if_true]; rw [if_pos this]
          | some dt =>
            cases hru : dictGet (ps! "root") udels with
            | none =>
              have : ¬ (IsRootMd (.obj ttop) ∧ IsRootMd (.obj utop)) := by
                rintro ⟨_, ⟨_, _, h⟩⟩; simp [roleOf, e_udels, hru] at h
              simp only [dictHas_some hrt, dictHas_none hru, Bool.not_true, Bool.not_false, Bool.false_eq_true, if_false, if_true,
                dictIndex_some hrt]
              obtain ⟨dk, rfl, hks, ⟨pk, hpk, _⟩, ⟨th, hth, _⟩⟩ := htok (_, dt) (mem_of_dictGet hrt)
              simp only [pyIndexStr_obj, dictIndex_some hpk, dictIndex_some hth]
              rw [if_pos this]
            | some du =>
              have hroot : IsRootMd (.obj ttop) ∧ IsRootMd (.obj utop) :=
                ⟨⟨hT, by rw [e_tty, hr1], by simp [roleOf, e_tdels, hrt]⟩, ⟨hU, by rw [e_uty, hr2], by simp [roleOf, e_udels, hru]⟩⟩
              have hnr : ¬ ¬ (IsRootMd (.obj ttop) ∧ IsRootMd (.obj utop)) := fun h => h hroot
              rw [if_neg hnr]
              obtain ⟨dk, rfl, hks, ⟨pk, hpk, _⟩, ⟨th, hth, _⟩⟩ := htok (_, dt) (mem_of_dictGet hrt)
              obtain ⟨dk2, rfl, hks2, ⟨pk2, hpk2, _⟩, ⟨th2, hth2, _⟩⟩ := huok (_, du) (mem_of_dictGet hru)
              obtain ⟨tv, tz, htv, htz, _, e_tver⟩ := htver hr1
              obtain ⟨uv, uz, huv, huz, _, e_uver⟩ := huver hr2
              have er1 : rootRule (.obj ttop) = .obj dk := by simp [rootRule, roleOf, e_tdels, hrt]
              have er2 : rootRule (.obj utop) = .obj dk2 := by simp [rootRule, roleOf, e_udels, hru]
              simp only [dictHas_some hrt, dictHas_some hru, Bool.not_true, Bool.false_eq_true, if_false, dictIndex_some hrt, dictIndex_some hru,
                pyIndexStr_obj, dictIndex_some hpk, dictIndex_some hth, dictIndex_some hpk2, dictIndex_some hth2, dictIndex_some htv,
                dictIndex_some huv, htz, huz, e_tver, e_uver, er1, er2, jget, entryField, hpk, hth, hpk2, hth2, Option.getD_some]
        · have c2 : isRootType (.str uty) = false := by
            cases h : isRootType (.str uty) with
            | false => rfl
            | true => exact absurd ((isRootType_iff _).mp h) hr2
          have : ¬ (IsRootMd (.obj ttop) ∧ IsRootMd (.obj utop)) := by
            rintro ⟨_, ⟨_, h, _⟩⟩; rw [e_uty] at h; cases h; exact hr2 rfl
          simp only [c2, Bool.not_false, Bool.or_true, if_true]; rw [if_pos this]
      · have c1 : isRootType (.str tty) = false := by
          cases h : isRootType (.str tty) with
          | false => rfl
          | true => exact absurd ((isRootType_iff _).mp h) hr1
        have : ¬ (IsRootMd (.obj ttop) ∧ IsRootMd (.obj utop)) := by
          rintro ⟨⟨_, h, _⟩, _⟩; rw [e_tty] at h; cases h; exact hr1 rfl
        simp only [c1, Bool.not_false, Bool.true_or, if_true]; rw [if_pos this]
    · have : ¬ (IsRootMd t ∧ IsRootMd u) := fun h => hU h.2.1
      rw [if_pos hT, if_neg hU, if_pos this]
  · have : ¬ (IsRootMd t ∧ IsRootMd u) := fun h => hT h.1.1
    rw [if_neg hT, if_pos this]

end CCT
