import CCT.Lemmas.JsonWF
namespace CCT

theorem term_serElems (lvl : Nat) (xs : List J) (r : Txt) : Term (serElems lvl xs ++ r) := by
  cases xs with
  | nil => simp only [serElems, List.append_assoc]; exact term_nl _ _
  | cons x xs => simp only [serElems, List.cons_append]; exact term_cons (by decide) _

theorem term_serMembers (lvl : Nat) (kvs : List (PStr × J)) (r : Txt) : Term (serMembers lvl kvs ++ r) := by
  cases kvs with
  | nil => simp only [serMembers, List.append_assoc]; exact term_nl _ _
  | cons p kvs => obtain ⟨k, v⟩ := p; simp only [serMembers, List.cons_append]; exact term_cons (by decide) _

theorem stripPre_self (p r : Txt) : stripPre p (p ++ r) = some r := by
  induction p with
  | nil => rfl
  | cons a t ih => simp [stripPre, ih]

theorem ws44 : isWs 44 = false := by decide
theorem ws93 : isWs 93 = false := by decide
theorem ws125 : isWs 125 = false := by decide
theorem ws58 : isWs 58 = false := by decide
theorem ws32 : isWs 32 = true := by decide

mutual
theorem parseValue_ser (v : J) (hv : v.WF) (lvl : Nat) (rest : Txt) (f : Nat)
    (hf : v.size ≤ f) (ht : Term rest) :
    parseValue f (serRaw lvl v ++ rest) = some (v, rest) := by
  match v, f with
  | v', 0 => have := J.size_pos v'; omega
  | .null, f+1 => simp [serRaw, parseValue, stripPre, litNull]
  | .bool true, f+1 => simp [serRaw, parseValue, stripPre, litTrue]
  | .bool false, f+1 => simp [serRaw, parseValue, stripPre, litFalse]
  | .int z, f+1 =>
    obtain ⟨h1, h2⟩ := parseNumTok_serInt z hv
    simp only [serRaw]
    exact parseValue_num _ _ h2 h1 rest ht f
  | .flt t, f+1 =>
    simp only [J.WF, FltOK] at hv
    rcases hv with rfl | rfl | rfl | ⟨h1, h2⟩
    · simp [serRaw, serFlt, parseValue, stripPre, litNaN]
    · simp [serRaw, serFlt, parseValue, stripPre, litInf]
    · simp [serRaw, serFlt, parseValue, stripPre, litInf]
    · simp only [serRaw, serFlt_ord t h1]
      exact parseValue_num _ _ h1 h2 rest ht f
  | .str s, f+1 =>
    have := parseStr_serStr s hv rest
    simp only [serRaw, serStr, List.cons_append, List.append_assoc, List.nil_append, parseValue, cQuote, if_true]
    rw [this]; rfl
  | .arr [], f+1 =>
    simp [serRaw, parseValue, cLB, cRB, skipWs, isWs]
  | .arr (x :: xs), f+1 =>
    simp only [J.WF, WFs] at hv
    simp only [J.size, sizes] at hf
    have hx := parseElems_ser xs hv.2 lvl x (fun rest f h1 h2 => parseValue_ser x hv.1 (lvl+1) rest f h1 h2) [] f rest (by omega)
    obtain ⟨c, t, hs, hc, hb, _⟩ := serRaw_starts (lvl+1) x hv.1
    simp only [serRaw, List.cons_append, parseValue, List.append_assoc, skipWs_nl, cLB]
    rw [skipWs_starts (serRaw_starts _ _ hv.1)]
    rw [hs] at hx ⊢
    simp only [List.cons_append] at hx ⊢
    simpa [hb] using hx
  | .obj [], f+1 =>
    simp [serRaw, parseValue, cLC, cRC, skipWs, isWs]
  | .obj ((k, v) :: kvs), f+1 =>
    simp only [J.WF, WFm] at hv
    simp only [J.size, sizem] at hf
    have hx := parseMembers_ser kvs hv.1.2.2 lvl k v hv.1.1 (serRaw_starts _ _ hv.1.2.1)
      (fun rest f h1 h2 => parseValue_ser v hv.1.2.1 (lvl+1) rest f h1 h2) [] (by simpa using hv.2) f rest (by omega)
    simp only [serRaw, List.cons_append, parseValue, List.append_assoc, skipWs_nl, cLC]
    simp only [serStr, List.cons_append, cQuote] at hx ⊢
    rw [skipWs_nonws (by decide : isWs 34 = false)]
    simpa using hx
theorem parseElems_ser (xs : List J) (hxs : WFs xs) (lvl : Nat) (x : J)
    (hx : ∀ rest f, x.size ≤ f → Term rest → parseValue f (serRaw (lvl+1) x ++ rest) = some (x, rest))
    (acc : List J) (f : Nat) (rest : Txt) (hf : x.size + 1 + sizes xs ≤ f) :
    parseElems f (serRaw (lvl+1) x ++ (serElems lvl xs ++ rest)) acc = some (.arr (acc ++ x :: xs), rest) := by
  match xs, f with
  | _, 0 => omega
  | [], f+1 =>
    simp only [sizes] at hf
    simp only [parseElems]
    rw [hx _ f (by omega) (term_serElems _ _ _)]
    have e1 : serElems lvl [] ++ rest = nl lvl ++ (93 :: rest) := by simp [serElems, cRB]
    simp only [e1, skipWs_nl, skipWs_nonws ws93]
    simp
  | y :: ys, f+1 =>
    simp only [sizes] at hf
    simp only [WFs] at hxs
    simp only [parseElems]
    rw [hx _ f (by omega) (term_serElems _ _ _)]
    have ih := parseElems_ser ys hxs.2 lvl y (fun rest f h1 h2 => parseValue_ser y hxs.1 (lvl+1) rest f h1 h2) (acc ++ [x]) f rest (by omega)
    have e1 : serElems lvl (y :: ys) ++ rest = 44 :: (nl (lvl+1) ++ (serRaw (lvl+1) y ++ (serElems lvl ys ++ rest))) := by
      simp [serElems, cComma]
    simp only [e1, skipWs_nonws ws44, if_true, skipWs_nl]
    rw [skipWs_starts (serRaw_starts _ _ hxs.1)]
    simpa using ih
theorem parseMembers_ser (kvs : List (PStr × J)) (hm : WFm kvs) (lvl : Nat) (k : PStr) (v : J) (hk : StrOK k)
    (hst : Starts (serRaw (lvl+1) v))
    (hv : ∀ rest f, v.size ≤ f → Term rest → parseValue f (serRaw (lvl+1) v ++ rest) = some (v, rest))
    (acc : List (PStr × J)) (hnd : ((acc ++ (k, v) :: kvs).map (·.1)).Nodup)
    (f : Nat) (rest : Txt) (hf : v.size + 1 + sizem kvs ≤ f) :
    parseMembers f (serStr k ++ (cColon :: cSp :: (serRaw (lvl+1) v ++ (serMembers lvl kvs ++ rest)))) acc
      = some (.obj (acc ++ (k, v) :: kvs), rest) := by
  have hknot : k ∉ acc.map (·.1) := by
    simp only [List.map_append, List.map_cons] at hnd
    have := (List.nodup_append.mp hnd).2.2
    intro hmem
    exact this k hmem k (by simp) rfl
  have hds : dictSet acc k v = acc ++ [(k, v)] := dictSet_append acc k v hknot
  have hstr : ∀ u, parseStr (escStr k ++ 34 :: u) = some (k, u) := fun u => parseStr_serStr k hk u
  match kvs, f with
  | _, 0 => omega
  | [], f+1 =>
    simp only [sizem] at hf
    simp only [serStr, List.cons_append, List.append_assoc, List.nil_append, parseMembers, cQuote, if_true]
    rw [hstr]
    simp only [cColon, cSp, skipWs_nonws ws58, if_true]
    have e0 : skipWs (32 :: (serRaw (lvl + 1) v ++ (serMembers lvl [] ++ rest))) = serRaw (lvl + 1) v ++ (serMembers lvl [] ++ rest) := by
      simp only [skipWs, ws32, if_true]; exact skipWs_starts hst _
    rw [e0, hv _ f (by omega) (term_serMembers _ _ _)]
    have e1 : serMembers lvl [] ++ rest = nl lvl ++ (125 :: rest) := by simp [serMembers, cRC]
    simp only [e1, skipWs_nl, skipWs_nonws ws125, hds]
    simp
  | (k2, v2) :: kvs', f+1 =>
    simp only [sizem] at hf
    simp only [WFm] at hm
    simp only [serStr, List.cons_append, List.append_assoc, List.nil_append, parseMembers, cQuote, if_true]
    rw [hstr]
    simp only [cColon, cSp, skipWs_nonws ws58, if_true]
    have e0 : skipWs (32 :: (serRaw (lvl + 1) v ++ (serMembers lvl ((k2, v2) :: kvs') ++ rest))) = serRaw (lvl + 1) v ++ (serMembers lvl ((k2, v2) :: kvs') ++ rest) := by
      simp only [skipWs, ws32, if_true]; exact skipWs_starts hst _
    rw [e0, hv _ f (by omega) (term_serMembers _ _ _)]
    have ih := parseMembers_ser kvs' hm.2.2 lvl k2 v2 hm.1 (serRaw_starts _ _ hm.2.1)
      (fun rest f h1 h2 => parseValue_ser v2 hm.2.1 (lvl+1) rest f h1 h2) (acc ++ [(k, v)])
      (by simpa using hnd) f rest (by omega)
    have e1 : serMembers lvl ((k2, v2) :: kvs') ++ rest =
        44 :: (nl (lvl+1) ++ (serStr k2 ++ (cColon :: cSp :: (serRaw (lvl+1) v2 ++ (serMembers lvl kvs' ++ rest))))) := by
      simp [serMembers, cComma]
    simp only [e1, skipWs_nonws ws44, if_true, skipWs_nl, hds]
    have e2 : skipWs (serStr k2 ++ (cColon :: cSp :: (serRaw (lvl+1) v2 ++ (serMembers lvl kvs' ++ rest)))) =
        serStr k2 ++ (cColon :: cSp :: (serRaw (lvl+1) v2 ++ (serMembers lvl kvs' ++ rest))) := by
      simp only [serStr, List.cons_append, cQuote]; exact skipWs_nonws (by decide)
    rw [e2]
    simpa using ih
end

theorem nl_len (n : Nat) : 1 ≤ (nl n).length := by simp [nl]

mutual
theorem size_le_len (lvl : Nat) (v : J) (hv : v.WF) : v.size ≤ (serRaw lvl v).length := by
  match v with
  | .arr [] => simp [J.size, sizes, serRaw]
  | .arr (x :: xs) =>
    simp only [J.WF, WFs] at hv
    have h1 := size_le_len (lvl+1) x hv.1
    have h2 := sizes_le_len lvl xs hv.2
    have := nl_len (lvl+1)
    simp only [J.size, sizes, serRaw, List.length_cons, List.length_append]; omega
  | .obj [] => simp [J.size, sizem, serRaw]
  | .obj ((k, v) :: kvs) =>
    simp only [J.WF, WFm] at hv
    have h1 := size_le_len (lvl+1) v hv.1.2.1
    have h2 := sizem_le_len lvl kvs hv.1.2.2
    have := nl_len (lvl+1)
    simp only [J.size, sizem, serRaw, List.length_cons, List.length_append]; omega
  | .null => simp [J.size, serRaw]
  | .bool true => simp [J.size, serRaw]
  | .bool false => simp [J.size, serRaw]
  | .str s => simp [J.size, serRaw, serStr]
  | .int z =>
    obtain ⟨c, r, h, _⟩ := serRaw_starts lvl (.int z) hv
    rw [h]; simp [J.size]
  | .flt t =>
    obtain ⟨c, r, h, _⟩ := serRaw_starts lvl (.flt t) hv
    rw [h]; simp [J.size]
theorem sizes_le_len (lvl : Nat) (xs : List J) (hxs : WFs xs) : sizes xs ≤ (serElems lvl xs).length := by
  match xs with
  | [] => simp [sizes]
  | y :: ys =>
    simp only [WFs] at hxs
    have h1 := size_le_len (lvl+1) y hxs.1
    have h2 := sizes_le_len lvl ys hxs.2
    simp only [sizes, serElems, List.length_cons, List.length_append]; omega
theorem sizem_le_len (lvl : Nat) (kvs : List (PStr × J)) (hm : WFm kvs) : sizem kvs ≤ (serMembers lvl kvs).length := by
  match kvs with
  | [] => simp [sizem]
  | (k, v) :: kvs' =>
    simp only [WFm] at hm
    have h1 := size_le_len (lvl+1) v hm.2.1
    have h2 := sizem_le_len lvl kvs' hm.2.2
    simp only [sizem, serMembers, List.length_cons, List.length_append]; omega
end

/-- top level: parsing the serialization of a well-formed value returns it -/
theorem parse_serRaw (v : J) (hv : v.WF) : parse (serRaw 0 v) = some v := by
  unfold parse
  have hs : skipWs (serRaw 0 v) = serRaw 0 v := by
    have := skipWs_starts (serRaw_starts 0 v hv) []
    simpa using this
  have hp := parseValue_ser v hv 0 [] ((serRaw 0 v).length + 1)
    (by have := size_le_len 0 v hv; omega) (by intro c hc; simp at hc)
  simp only [List.append_nil] at hp
  rw [hs, hp]
  simp [skipWs]

end CCT
