import CCT.Model.Common
import CCT.Lemmas.JsonWs
/-! Lemmas about `bytes.fromhex`, hex strings and their byte values (used by C15, C01, C19). -/
namespace CCT

/-- the exact grammar the hex validators decide: non-empty, even length, only `0-9a-f` -/
def LowerHex (s : PStr) : Prop := s ≠ [] ∧ s.length % 2 = 0 ∧ ∀ c ∈ s, isLowerHexDigit c = true

instance (s : PStr) : Decidable (LowerHex s) := by unfold LowerHex; infer_instance

theorem hexVal_lower {c : Nat} (h : isLowerHexDigit c = true) : ∃ v, hexVal c = some v ∧ v < 16 := by
  simp only [isLowerHexDigit, Bool.or_eq_true, Bool.and_eq_true, decide_eq_true_eq] at h
  unfold hexVal
  rcases h with h | h
  · exact ⟨c - 48, by simp [h], by omega⟩
  · have : ¬ (48 ≤ c ∧ c ≤ 57) := by omega
    exact ⟨c - 87, by simp [this, h], by omega⟩

theorem hexVal_lt {c v : Nat} (h : hexVal c = some v) : v < 16 := by
  unfold hexVal at h
  split at h
  · simp at h; omega
  · split at h
    · simp at h; omega
    · split at h
      · simp at h; omega
      · simp at h

theorem hexVal_some_ascii {c v : Nat} (h : hexVal c = some v) : c < 128 := by
  unfold hexVal at h
  split at h
  · omega
  · split at h
    · omega
    · split at h
      · omega
      · simp at h

theorem lower_not_space {c : Nat} (h : isLowerHexDigit c = true) : isAsciiSpace c = false := by
  simp only [isLowerHexDigit, Bool.or_eq_true, Bool.and_eq_true, decide_eq_true_eq] at h
  simp only [isAsciiSpace, Bool.or_eq_false_iff, decide_eq_false_iff_not, Bool.and_eq_false_iff]
  omega

/-- `fromhex` succeeds on strings of the grammar and computes `unhex` -/
theorem pyFromHex_lower : ∀ (s : PStr), s.length % 2 = 0 → (∀ c ∈ s, isLowerHexDigit c = true) →
    pyFromHex s = some (unhex s)
  | [], _, _ => rfl
  | [_], h, _ => by simp at h
  | c :: d :: r, h, hall => by
    have hc := hall c (by simp)
    have hd := hall d (by simp)
    obtain ⟨vc, hvc, _⟩ := hexVal_lower hc
    obtain ⟨vd, hvd, _⟩ := hexVal_lower hd
    have ih := pyFromHex_lower r (by simp at h; omega) (fun x hx => hall x (by simp [hx]))
    simp [pyFromHex, lower_not_space hc, hvc, hvd, ih, unhex]

/-- every character of a string `fromhex` accepts is ASCII (so `isalnum`/`lower` are the ASCII ones) -/
theorem pyFromHex_ascii : ∀ (s : PStr) (b : Bytes), pyFromHex s = some b → ∀ c ∈ s, c < 128
  | [], _, _ => by simp
  | [c], b, h => by
    intro x hx
    simp at hx; subst hx
    simp only [pyFromHex] at h
    split at h
    · rename_i hs
      simp only [isAsciiSpace, Bool.or_eq_true, Bool.and_eq_true, decide_eq_true_eq] at hs
      omega
    · simp at h
  | c :: d :: r, b, h => by
    simp only [pyFromHex] at h
    split at h
    · rename_i hs
      have hsp : c < 128 := by
        simp only [isAsciiSpace, Bool.or_eq_true, Bool.and_eq_true, decide_eq_true_eq] at hs
        omega
      have ih := pyFromHex_ascii (d :: r) b h
      intro x hx
      simp only [List.mem_cons] at hx
      rcases hx with rfl | hx
      · exact hsp
      · exact ih x (by simpa using hx)
    · split at h
      · rename_i vh vl hvh hvl
        cases hr : pyFromHex r with
        | none => simp [hr] at h
        | some t =>
          have ih := pyFromHex_ascii r t hr
          intro x hx
          simp only [List.mem_cons] at hx
          rcases hx with rfl | rfl | hx
          · exact hexVal_some_ascii hvh
          · exact hexVal_some_ascii hvl
          · exact ih x hx
      · simp at h

/-- without whitespace, `fromhex` accepts only an even number of hex digits -/
theorem pyFromHex_nospace : ∀ (s : PStr) (b : Bytes), pyFromHex s = some b → (∀ c ∈ s, isAsciiSpace c = false) →
    s.length % 2 = 0 ∧ ∀ c ∈ s, (hexVal c).isSome = true
  | [], _, _, _ => by simp
  | [c], b, h, hn => by
    simp [pyFromHex, hn c (by simp)] at h
  | c :: d :: r, b, h, hn => by
    simp only [pyFromHex, hn c (by simp)] at h
    cases hvh : hexVal c with
    | none => simp [hvh] at h
    | some vh =>
      cases hvl : hexVal d with
      | none => simp [hvh, hvl] at h
      | some vl =>
        cases hr : pyFromHex r with
        | none => simp [hvh, hvl, hr] at h
        | some t =>
          have ih := pyFromHex_nospace r t hr (fun x hx => hn x (by simp [hx]))
          refine ⟨by simp; omega, ?_⟩
          intro x hx
          simp only [List.mem_cons] at hx
          rcases hx with rfl | rfl | hx
          · simp [hvh]
          · simp [hvl]
          · exact ih.2 x hx

theorem alnum_lower_hex {c : Nat} (ha : ((48 ≤ c && c ≤ 57) || (65 ≤ c && c ≤ 90) || (97 ≤ c && c ≤ 122)) = true)
    (hl : (!(65 ≤ c && c ≤ 90)) = true) (hh : (hexVal c).isSome = true) : isLowerHexDigit c = true := by
  simp only [Bool.or_eq_true, Bool.and_eq_true, decide_eq_true_eq, Bool.not_eq_true', Bool.and_eq_false_iff,
    decide_eq_false_iff_not] at ha hl
  unfold hexVal at hh
  simp only [isLowerHexDigit, Bool.or_eq_true, Bool.and_eq_true, decide_eq_true_eq]
  split at hh
  · left; omega
  · split at hh
    · right; omega
    · split at hh
      · omega
      · simp at hh

theorem alnum_not_space {c : Nat} (ha : ((48 ≤ c && c ≤ 57) || (65 ≤ c && c ≤ 90) || (97 ≤ c && c ≤ 122)) = true) :
    isAsciiSpace c = false := by
  simp only [Bool.or_eq_true, Bool.and_eq_true, decide_eq_true_eq] at ha
  simp only [isAsciiSpace, Bool.or_eq_false_iff, decide_eq_false_iff_not, Bool.and_eq_false_iff]
  omega

/-- the three tests of `checkformat_hex_string` together decide exactly the grammar -/
theorem hexString_tests_iff (s : PStr) :
    ((pyFromHex s).isSome = true ∧ asciiIsAlnum s = true ∧ asciiIsLower s = true) ↔ LowerHex s := by
  constructor
  · rintro ⟨h1, h2, h3⟩
    simp only [asciiIsAlnum, Bool.and_eq_true, Bool.not_eq_true', List.isEmpty_eq_false_iff, List.all_eq_true] at h2
    simp only [asciiIsLower, List.all_eq_true] at h3
    obtain ⟨b, hb⟩ := Option.isSome_iff_exists.mp h1
    have := pyFromHex_nospace s b hb (fun c hc => alnum_not_space (h2.2 c hc))
    exact ⟨h2.1, this.1, fun c hc => alnum_lower_hex (h2.2 c hc) (h3 c hc) (this.2 c hc)⟩
  · rintro ⟨hne, hev, hall⟩
    refine ⟨by rw [pyFromHex_lower s hev hall]; rfl, ?_, ?_⟩
    · simp only [asciiIsAlnum, Bool.and_eq_true, Bool.not_eq_true', List.isEmpty_eq_false_iff, List.all_eq_true]
      refine ⟨hne, fun c hc => ?_⟩
      have := hall c hc
      simp only [isLowerHexDigit, Bool.or_eq_true, Bool.and_eq_true, decide_eq_true_eq] at this
      simp only [Bool.or_eq_true, Bool.and_eq_true, decide_eq_true_eq]
      omega
    · simp only [asciiIsLower, List.all_eq_true]
      intro c hc
      have := hall c hc
      simp only [isLowerHexDigit, Bool.or_eq_true, Bool.and_eq_true, decide_eq_true_eq] at this
      simp only [Bool.not_eq_true', Bool.and_eq_false_iff, decide_eq_false_iff_not]
      omega

theorem checkHexStringJ_str (s : PStr) :
    checkHexStringJ (.str s) = if LowerHex s then .ok () else .error .arg := by
  have key := hexString_tests_iff s
  cases hp : pyFromHex s with
  | none =>
    have : ¬ LowerHex s := fun h => by
      have := (key.mpr h).1
      rw [hp] at this; simp at this
    simp [checkHexStringJ, hp, this]
  | some b =>
    by_cases hl : LowerHex s
    · have := key.mpr hl
      simp [checkHexStringJ, hp, hl, this.2.1, this.2.2, okU]
    · have : ¬ (asciiIsAlnum s = true ∧ asciiIsLower s = true) := fun h => hl (key.mp ⟨by rw [hp]; rfl, h.1, h.2⟩)
      by_cases ha : asciiIsAlnum s = true
      · have hb : asciiIsLower s = false := by
          cases hx : asciiIsLower s with
          | false => rfl
          | true => exact absurd ⟨ha, hx⟩ this
        simp [checkHexStringJ, hp, hl, ha, hb]
      · have : asciiIsAlnum s = false := by simpa using ha
        simp [checkHexStringJ, hp, hl, this]

theorem checkHexStringJ_nonstr (v : J) (h : ∀ s, v ≠ .str s) : checkHexStringJ v = .error .arg := by
  cases v <;> first | rfl | exact absurd rfl (h _)

/-- hex digit round trip -/
theorem hexVal_hexDigit' (d : Nat) (h : d < 16) : hexVal (hexDigit d) = some d := hexVal_hexDigit d h

theorem hexDigit_lower (d : Nat) (h : d < 16) : isLowerHexDigit (hexDigit d) = true := by
  unfold hexDigit
  simp only [isLowerHexDigit, Bool.or_eq_true, Bool.and_eq_true, decide_eq_true_eq]
  split <;> omega

theorem hexDigit_hexVal {c v : Nat} (hl : isLowerHexDigit c = true) (hv : hexVal c = some v) : hexDigit v = c := by
  simp only [isLowerHexDigit, Bool.or_eq_true, Bool.and_eq_true, decide_eq_true_eq] at hl
  unfold hexVal at hv
  unfold hexDigit
  split at hv
  · simp at hv; subst hv
    have : c - 48 < 10 := by omega
    simp [this]; omega
  · split at hv
    · simp at hv; subst hv
      have : ¬ c - 87 < 10 := by omega
      simp [this]; omega
    · omega

/-- `unhex (hex b) = b` for byte strings -/
theorem unhex_hexOfBytes : ∀ (b : Bytes), (∀ x ∈ b, x < 256) → unhex (hexOfBytes b) = b
  | [], _ => rfl
  | x :: r, h => by
    have hx := h x (by simp)
    have ih := unhex_hexOfBytes r (fun y hy => h y (by simp [hy]))
    simp only [hexOfBytes, unhex, ih]
    rw [hexVal_hexDigit _ (by omega), hexVal_hexDigit _ (by omega)]
    simp; omega

/-- `hex (unhex s) = s` for strings of the grammar: one spelling per byte string -/
theorem hexOfBytes_unhex : ∀ (s : PStr), s.length % 2 = 0 → (∀ c ∈ s, isLowerHexDigit c = true) → hexOfBytes (unhex s) = s
  | [], _, _ => rfl
  | [_], h, _ => by simp at h
  | c :: d :: r, h, hall => by
    have hc := hall c (by simp)
    have hd := hall d (by simp)
    obtain ⟨vc, hvc, hvc16⟩ := hexVal_lower hc
    obtain ⟨vd, hvd, hvd16⟩ := hexVal_lower hd
    have ih := hexOfBytes_unhex r (by simp at h; omega) (fun x hx => hall x (by simp [hx]))
    simp only [unhex, hvc, hvd, Option.getD_some, hexOfBytes, ih]
    have e1 : (vc * 16 + vd) / 16 % 16 = vc := by omega
    have e2 : (vc * 16 + vd) % 16 = vd := by omega
    rw [e1, e2, hexDigit_hexVal hc hvc, hexDigit_hexVal hd hvd]

theorem unhex_injective (s t : PStr) (hs : LowerHex s) (ht : LowerHex t) (h : unhex s = unhex t) : s = t := by
  rw [← hexOfBytes_unhex s hs.2.1 hs.2.2, ← hexOfBytes_unhex t ht.2.1 ht.2.2, h]

theorem unhex_length : ∀ (s : PStr), s.length % 2 = 0 → (unhex s).length = s.length / 2
  | [], _ => rfl
  | [_], h => by simp at h
  | c :: d :: r, h => by
    have := unhex_length r (by simp at h; omega)
    simp only [unhex, List.length_cons, this]; omega

theorem unhex_byte : ∀ (s : PStr), (∀ c ∈ s, isLowerHexDigit c = true) → ∀ x ∈ unhex s, x < 256
  | [], _ => by simp [unhex]
  | [_], _ => by simp [unhex]
  | c :: d :: r, hall => by
    obtain ⟨vc, hvc, hvc16⟩ := hexVal_lower (hall c (by simp))
    obtain ⟨vd, hvd, hvd16⟩ := hexVal_lower (hall d (by simp))
    have ih := unhex_byte r (fun x hx => hall x (by simp [hx]))
    intro x hx
    simp only [unhex, hvc, hvd, Option.getD_some, List.mem_cons] at hx
    rcases hx with rfl | hx
    · omega
    · exact ih x hx

theorem hexOfBytes_length (b : Bytes) : (hexOfBytes b).length = 2 * b.length := by
  induction b with
  | nil => rfl
  | cons x r ih => simp only [hexOfBytes, List.length_cons, ih]; omega

theorem hexOfBytes_lower : ∀ (b : Bytes), ∀ c ∈ hexOfBytes b, isLowerHexDigit c = true
  | [], c, h => by simp [hexOfBytes] at h
  | x :: r, c, h => by
    simp only [hexOfBytes, List.mem_cons] at h
    rcases h with rfl | rfl | h
    · exact hexDigit_lower _ (Nat.mod_lt _ (by decide))
    · exact hexDigit_lower _ (Nat.mod_lt _ (by decide))
    · exact hexOfBytes_lower r c h

theorem lowerHex_hexOfBytes (b : Bytes) (h : b ≠ []) : LowerHex (hexOfBytes b) := by
  refine ⟨?_, by rw [hexOfBytes_length]; omega, hexOfBytes_lower b⟩
  cases b with
  | nil => exact absurd rfl h
  | cons x r => simp [hexOfBytes]

end CCT
