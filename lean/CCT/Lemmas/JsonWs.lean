import CCT.Model.Json
namespace CCT

-- A. whitespace ---------------------------------------------------------------
theorem skipWs_replicate (n : Nat) (r : Txt) : skipWs (List.replicate n cSp ++ r) = skipWs r := by
  induction n with
  | zero => simp
  | succ k ih => simp [List.replicate_succ, skipWs, isWs, ih]

@[simp] theorem skipWs_nl (n : Nat) (r : Txt) : skipWs (nl n ++ r) = skipWs r := by
  simp [nl, skipWs, isWs, skipWs_replicate]

theorem skipWs_nonws {c : Nat} {r : Txt} (h : isWs c = false) : skipWs (c :: r) = c :: r := by
  simp [skipWs, h]

-- B. hex ----------------------------------------------------------------------
theorem hexVal_hexDigit (d : Nat) (h : d < 16) : hexVal (hexDigit d) = some d := by
  unfold hexDigit hexVal
  by_cases h10 : d < 10
  · simp [h10]; omega
  · simp [h10]
    have : ¬ (48 ≤ 87 + d ∧ 87 + d ≤ 57) := by omega
    simp [this]; omega

theorem parseHex4_hex4 (n : Nat) (h : n < 65536) (r : Txt) : parseHex4 (hex4 n ++ r) = some (n, r) := by
  simp only [hex4, List.cons_append, List.nil_append, parseHex4]
  rw [hexVal_hexDigit _ (by omega), hexVal_hexDigit _ (by omega), hexVal_hexDigit _ (by omega), hexVal_hexDigit _ (by omega)]
  simp only [Option.some.injEq, Prod.mk.injEq, and_true]
  omega

end CCT
