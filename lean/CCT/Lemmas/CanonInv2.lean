import CCT.Lemmas.CanonInv
import CCT.Lemmas.Rules
/-! Schema, `verify_delegation` and `verify_root` are invariant under canonical re-ordering of their (well-formed) arguments. -/
namespace CCT
open Classical
open CCT.C15

theorem asInt_canon (v : J) : asInt (canon v) = asInt v := by cases v <;> simp [canon, asInt]

theorem naturalInt_canon (v : J) : NaturalInt (canon v) ↔ NaturalInt v := by simp [NaturalInt, asInt_canon]

theorem wfUtc_canon (v : J) : WfUtc (canon v) ↔ WfUtc v := by
  constructor
  · rintro ⟨s, e, h⟩; exact ⟨s, (canon_str_iff v s).mp e, h⟩
  · rintro ⟨s, e, h⟩; exact ⟨s, (canon_str_iff v s).mpr e, h⟩

theorem canonList_map_strOf : ∀ (ks : List J), (canonList ks).map strOf = ks.map strOf
  | [] => rfl
  | k :: r => by simp [canonList, strOf_canon, canonList_map_strOf r]

theorem mem_canonList_iff (ks : List J) (x : J) : x ∈ canonList ks ↔ ∃ y ∈ ks, x = canon y := by
  induction ks with
  | nil => simp [canonList]
  | cons k r ih => simp [canonList, ih]

theorem keyListOK_canon (v : J) : KeyListOK (canon v) ↔ KeyListOK v := by
  cases v with
  | arr ks =>
    simp only [canon]
    constructor
    · rintro ⟨ks', e, hall, hnd⟩
      cases e
      refine ⟨ks, rfl, fun k hk => (hexN_canon _ _).mp (hall (canon k) ((mem_canonList_iff ks _).mpr ⟨k, hk, rfl⟩)), ?_⟩
      rw [canonList_map_strOf] at hnd; exact hnd
    · rintro ⟨ks', e, hall, hnd⟩
      cases e
      refine ⟨_, rfl, fun k hk => ?_, by rw [canonList_map_strOf]; exact hnd⟩
      obtain ⟨y, hy, rfl⟩ := (mem_canonList_iff ks k).mp hk
      exact (hexN_canon _ _).mpr (hall y hy)
  | _ => constructor <;> rintro ⟨_, e, _⟩ <;> simp [canon] at e

theorem delegationOK_canon (d : J) (h : ObjKeysNodup d) : DelegationOK (canon d) ↔ DelegationOK d := by
  cases d with
  | obj kvs =>
    simp only [canon]
    constructor
    · rintro ⟨k', e, hk, ⟨pk, hpk, h1⟩, ⟨t, ht, h2⟩⟩
      cases e
      rw [keysetEq_canonObj] at hk
      rw [dictGet_canonObj _ kvs h] at hpk ht
      cases hp : dictGet (ps! "pubkeys") kvs with
      | none => rw [hp] at hpk; cases hpk
      | some pk0 =>
        cases hth : dictGet (ps! "threshold") kvs with
        | none => rw [hth] at ht; cases ht
        | some t0 =>
          rw [hp] at hpk; rw [hth] at ht
          simp at hpk ht; subst hpk; subst ht
          exact ⟨kvs, rfl, hk, ⟨pk0, hp, (keyListOK_canon _).mp h1⟩, ⟨t0, hth, (naturalInt_canon _).mp h2⟩⟩
    · rintro ⟨k', e, hk, ⟨pk, hpk, h1⟩, ⟨t, ht, h2⟩⟩
      cases e
      exact ⟨_, rfl, by rw [keysetEq_canonObj]; exact hk, ⟨canon pk, by rw [dictGet_canonObj _ kvs h, hpk]; rfl, (keyListOK_canon _).mpr h1⟩,
        ⟨canon t, by rw [dictGet_canonObj _ kvs h, ht]; rfl, (naturalInt_canon _).mpr h2⟩⟩
  | _ => constructor <;> rintro ⟨_, e, _⟩ <;> simp [canon] at e

theorem delegationsOK_canon (d : J) (h : d.WF) : DelegationsOK (canon d) ↔ DelegationsOK d := by
  cases d with
  | obj kvs =>
    simp only [J.WF] at h
    have hwf := (WFm_iff kvs).mp h.1
    simp only [canon]
    constructor
    · rintro ⟨k', e, hall⟩
      cases e
      refine ⟨kvs, rfl, fun p hp => ?_⟩
      have := hall (p.1, canon p.2) ((mem_canonObj kvs p.1 _).mpr ⟨p.2, hp, rfl⟩)
      exact (delegationOK_canon p.2 (wf_objKeysNodup (hwf p hp).2)).mp this
    · rintro ⟨k', e, hall⟩
      cases e
      refine ⟨_, rfl, fun p hp => ?_⟩
      obtain ⟨s, hs, e⟩ := (mem_canonObj kvs p.1 p.2).mp hp
      rw [e]
      exact (delegationOK_canon s (wf_objKeysNodup (hwf _ hs).2)).mpr (hall _ hs)
  | _ => constructor <;> rintro ⟨_, e, _⟩ <;> simp [canon] at e

theorem dictHas_canonObj (k : PStr) (l : List (PStr × J)) (hn : (l.map (·.1)).Nodup) : dictHas k (sortKV (canonMembers l)) = dictHas k l := by
  simp only [dictHas, dictGet_canonObj k l hn]
  cases dictGet k l <;> rfl

theorem wf_member {kvs : List (PStr × J)} (h : (J.obj kvs).WF) {k : PStr} {v : J} (hg : dictGet k kvs = some v) : v.WF := by
  simp only [J.WF] at h
  exact ((WFm_iff kvs).mp h.1 _ ((dictGet_eq_some_iff kvs h.2 k v).mp hg)).2

theorem get_canon_some {k : PStr} {l : List (PStr × J)} (hn : (l.map (·.1)).Nodup) {x : J} (h : dictGet k (sortKV (canonMembers l)) = some x) :
    ∃ y, dictGet k l = some y ∧ x = canon y := by
  rw [dictGet_canonObj k l hn] at h
  cases hd : dictGet k l with
  | none => rw [hd] at h; cases h
  | some y => rw [hd] at h; simp at h; exact ⟨y, rfl, h.symm⟩

theorem signedOK_canon (s : J) (h : s.WF) : SignedOK (canon s) ↔ SignedOK s := by
  cases s with
  | obj kvs =>
    have hn : (kvs.map (·.1)).Nodup := by simp only [J.WF] at h; exact h.2
    simp only [canon]
    constructor
    · rintro ⟨k', e, ⟨ty, hty, hm⟩, ⟨sv, hsv⟩, ⟨d, hd, hdok⟩, ⟨ex, hex, hexok⟩, hor, hroot, hts, hver⟩
      cases e
      obtain ⟨ty0, hty0, e1⟩ := get_canon_some hn hty
      obtain ⟨sv0, hsv0, e2⟩ := get_canon_some hn hsv
      obtain ⟨d0, hd0, e3⟩ := get_canon_some hn hd
      obtain ⟨ex0, hex0, e4⟩ := get_canon_some hn hex
      have t1 := (canon_str_iff ty0 ty).mp e1.symm
      have t2 := (canon_str_iff sv0 sv).mp e2.symm
      subst t1 t2 e3 e4
      refine ⟨kvs, rfl, ⟨ty, hty0, hm⟩, ⟨sv, hsv0⟩, ⟨d0, hd0, (delegationsOK_canon d0 (wf_member h hd0)).mp hdok⟩, ⟨ex0, hex0, (wfUtc_canon _).mp hexok⟩, ?_, ?_, ?_, ?_⟩
      · simpa [dictHas_canonObj _ kvs hn] using hor
      · intro hr
        have := hroot (by rw [dictGet_canonObj _ kvs hn, hr]; rfl)
        simpa [dictHas_canonObj _ kvs hn] using this
      · intro t ht; exact (wfUtc_canon _).mp (hts (canon t) (by rw [dictGet_canonObj _ kvs hn, ht]; rfl))
      · intro v hv; exact (naturalInt_canon _).mp (hver (canon v) (by rw [dictGet_canonObj _ kvs hn, hv]; rfl))
    · rintro ⟨k', e, ⟨ty, hty, hm⟩, ⟨sv, hsv⟩, ⟨d, hd, hdok⟩, ⟨ex, hex, hexok⟩, hor, hroot, hts, hver⟩
      cases e
      refine ⟨_, rfl, ⟨ty, by rw [dictGet_canonObj _ kvs hn, hty]; rfl, hm⟩, ⟨sv, by rw [dictGet_canonObj _ kvs hn, hsv]; rfl⟩,
        ⟨canon d, by rw [dictGet_canonObj _ kvs hn, hd]; rfl, (delegationsOK_canon d (wf_member h hd)).mpr hdok⟩,
        ⟨canon ex, by rw [dictGet_canonObj _ kvs hn, hex]; rfl, (wfUtc_canon _).mpr hexok⟩, ?_, ?_, ?_, ?_⟩
      · simpa [dictHas_canonObj _ kvs hn] using hor
      · intro hr
        obtain ⟨y, hy, e⟩ := get_canon_some hn hr
        have := (canon_str_iff y _).mp e.symm
        subst this
        simpa [dictHas_canonObj _ kvs hn] using hroot hy
      · intro t ht
        obtain ⟨y, hy, e⟩ := get_canon_some hn ht
        subst e; exact (wfUtc_canon _).mpr (hts y hy)
      · intro v hv
        obtain ⟨y, hy, e⟩ := get_canon_some hn hv
        subst e; exact (naturalInt_canon _).mpr (hver y hy)
  | _ => constructor <;> rintro ⟨_, e, _⟩ <;> simp [canon] at e

theorem anySigOK_canon (sig : J) (h : ObjKeysNodup sig) : AnySigOK (canon sig) ↔ AnySigOK sig := by
  simp only [AnySigOK, rawShape_canon sig h, gpgShape_canon sig h]

/-- the documented schema does not depend on member order -/
theorem schema_canon (m : J) (h : m.WF) : Schema (canon m) ↔ Schema m := by
  constructor
  · rintro ⟨e', s', hp', hall, hs⟩
    have hsg : isSignableJ m = true := by rw [← isSignable_canon m h]; exact hp'.signable
    obtain ⟨entries, signed, hp⟩ := isSignable_parts hsg
    obtain ⟨hpc, hwm, hws⟩ := envParts_canon h hp
    obtain ⟨rfl, rfl⟩ := envParts_unique hpc hp'
    have hwf := (WFm_iff entries).mp hwm
    refine ⟨entries, signed, hp, fun p hp0 => ?_, (signedOK_canon signed hws).mp hs⟩
    have := hall (p.1, canon p.2) ((mem_canonObj entries p.1 _).mpr ⟨p.2, hp0, rfl⟩)
    exact (anySigOK_canon p.2 (wf_objKeysNodup (hwf p hp0).2)).mp this
  · rintro ⟨entries, signed, hp, hall, hs⟩
    obtain ⟨hpc, hwm, hws⟩ := envParts_canon h hp
    have hwf := (WFm_iff entries).mp hwm
    refine ⟨_, _, hpc, fun p hp0 => ?_, (signedOK_canon signed hws).mpr hs⟩
    obtain ⟨s, hs0, e⟩ := (mem_canonObj entries p.1 p.2).mp hp0
    rw [e]
    exact (anySigOK_canon s (wf_objKeysNodup (hwf _ hs0).2)).mpr (hall _ hs0)

end CCT
