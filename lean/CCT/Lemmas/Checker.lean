import CCT.Lemmas.VerifySignable
/-! Closed forms of the structured validators: delegation(s), delegating metadata. -/
namespace CCT
open Classical
open CCT.C15

/-- an `int` (bool included) that is ≥ 1 -/
def NaturalInt (v : J) : Prop := ∃ z, asInt v = some z ∧ 1 ≤ z

theorem checkNaturalInt_eq (v : J) : checkNaturalIntJ v = if NaturalInt v then .ok () else .error .arg := by
  unfold checkNaturalIntJ
  cases h : asInt v with
  | none =>
    have : ¬ NaturalInt v := by rintro ⟨z, hz, _⟩; rw [h] at hz; cases hz
    simp [this]
  | some z =>
    by_cases hz : z < 1
    · have : ¬ NaturalInt v := by rintro ⟨z', hz', h1⟩; rw [h] at hz'; cases hz'; omega
      simp [hz, this]
    · have : NaturalInt v := ⟨z, h, by omega⟩
      simp [hz, this, okU]

/-- a well-formed UTC timestamp string, as `datetime.strptime(s, "%Y-%m-%dT%H:%M:%SZ")` accepts them -/
def WfUtc (v : J) : Prop := ∃ s, v = .str s ∧ (pyStrptimeUtc s).isSome = true

theorem checkUtc_eq (v : J) : checkUtcJ v = if WfUtc v then .ok () else .error .arg := by
  cases v with
  | str s =>
    by_cases h : (pyStrptimeUtc s).isSome = true
    · have : WfUtc (.str s) := ⟨s, rfl, h⟩
      simp [checkUtcJ, h, this, okU]
    · have : ¬ WfUtc (.str s) := by rintro ⟨t, e, ht⟩; cases e; exact h ht
      simp [checkUtcJ, h, this]
  | _ => simp only [checkUtcJ]; rw [if_neg]; rintro ⟨_, e, _⟩; cases e

theorem checkString_eq (v : J) : checkStringJ v = if (∃ s, v = .str s) then .ok () else .error .arg := by
  cases v <;> simp [checkStringJ, okU]

theorem checkKeysLoop_eq : ∀ (ks : List J), checkKeysLoop ks = if (∀ k ∈ ks, HexN 64 k) then .ok () else .error .arg
  | [] => by simp [checkKeysLoop, okU]
  | k :: r => by
    simp only [checkKeysLoop, bind, Except.bind]
    rcases checkHexKey_total k with e | e
    · have hk := (checkHexKey_iff k).mp e
      rw [e, checkKeysLoop_eq r]
      by_cases h : ∀ x ∈ r, HexN 64 x
      · have : ∀ x ∈ k :: r, HexN 64 x := by intro x hx; rcases List.mem_cons.mp hx with rfl | hx; exact hk; exact h x hx
        rw [if_pos h, if_pos this]
      · have : ¬ ∀ x ∈ k :: r, HexN 64 x := fun h' => h (fun x hx => h' x (by simp [hx]))
        rw [if_neg h, if_neg this]
    · have hk : ¬ HexN 64 k := fun hk => by rw [(checkHexKey_iff k).mpr hk] at e; cases e
      have : ¬ ∀ x ∈ k :: r, HexN 64 x := fun h' => hk (h' k (by simp))
      rw [e, if_neg this]

theorem hasDupStr_iff : ∀ (l : List PStr), hasDupStr l = false ↔ l.Nodup
  | [] => by simp [hasDupStr]
  | x :: r => by
    simp only [hasDupStr, Bool.or_eq_false_iff, List.nodup_cons]
    rw [hasDupStr_iff r]
    have e : r.contains x = false ↔ ¬ x ∈ r := by
      rw [← contains_iff (l := r) (k := x)]; cases r.contains x <;> simp
    rw [e]

/-- a duplicate-free list of well-formed public keys -/
def KeyListOK (v : J) : Prop := ∃ ks, v = .arr ks ∧ (∀ k ∈ ks, HexN 64 k) ∧ (ks.map strOf).Nodup

theorem checkListOfHexKeys_eq (v : J) : checkListOfHexKeysJ v = if KeyListOK v then .ok () else .error .arg := by
  cases v with
  | arr ks =>
    simp only [checkListOfHexKeysJ, checkKeysLoop_eq, bind, Except.bind]
    by_cases h : ∀ k ∈ ks, HexN 64 k
    · rw [if_pos h]
      by_cases hd : (ks.map strOf).Nodup
      · have : hasDupStr (ks.map strOf) = false := (hasDupStr_iff _).mpr hd
        have ok : KeyListOK (.arr ks) := ⟨ks, rfl, h, hd⟩
        simp only [this, Bool.false_eq_true, if_false, okU]
        rw [if_pos ok]
      · have : hasDupStr (ks.map strOf) = true := by
          cases hx : hasDupStr (ks.map strOf) with
          | true => rfl
          | false => exact absurd ((hasDupStr_iff _).mp hx) hd
        have nok : ¬ KeyListOK (.arr ks) := by rintro ⟨ks', e, _, hn⟩; cases e; exact hd hn
        simp only [this, if_true]
        rw [if_neg nok]
    · have nok : ¬ KeyListOK (.arr ks) := by rintro ⟨ks', e, hk, _⟩; cases e; exact h hk
      rw [if_neg h, if_neg nok]
  | _ => simp only [checkListOfHexKeysJ]; rw [if_neg]; rintro ⟨_, e, _⟩; cases e

/-- `{"pubkeys": [distinct well-formed keys], "threshold": int ≥ 1}` and nothing else -/
def DelegationOK (d : J) : Prop :=
  ∃ kvs, d = .obj kvs ∧ keysetEq kvs [ps! "threshold", ps! "pubkeys"] = true ∧
    (∃ pk, dictGet (ps! "pubkeys") kvs = some pk ∧ KeyListOK pk) ∧
    (∃ t, dictGet (ps! "threshold") kvs = some t ∧ NaturalInt t)

theorem pyGeOne_natural {t : J} (h : NaturalInt t) : pyGeOne t = some true := by
  obtain ⟨z, hz, h1⟩ := h
  cases t with
  | int z' => simp only [asInt] at hz; cases hz; simp [pyGeOne, h1]
  | bool b => cases b <;> simp only [asInt] at hz <;> cases hz <;> simp [pyGeOne] at h1 ⊢
  | _ => simp [asInt] at hz

theorem checkDelegation_eq (d : J) : checkDelegationJ d = if DelegationOK d then .ok () else .error .arg := by
  cases d with
  | obj kvs =>
    simp only [checkDelegationJ, bind, Except.bind]
    by_cases hks : keysetEq kvs [ps! "threshold", ps! "pubkeys"] = true
    · obtain ⟨t, ht⟩ := dictGet_of_keysetEq hks (k := ps! "threshold") (by simp)
      obtain ⟨pk, hpk⟩ := dictGet_of_keysetEq hks (k := ps! "pubkeys") (by simp)
      simp only [hks, Bool.not_true, Bool.false_eq_true, if_false, dictIndex_some ht, dictIndex_some hpk,
        checkListOfHexKeys_eq, checkNaturalInt_eq, pure, Except.pure]
      by_cases hok : DelegationOK (.obj kvs)
      · obtain ⟨kvs', e, _, ⟨pk', hpk', hkl⟩, ⟨t', ht', hnat⟩⟩ := hok
        cases e
        rw [hpk] at hpk'; cases hpk'
        rw [ht] at ht'; cases ht'
        have hok : DelegationOK (.obj kvs) := ⟨kvs, rfl, hks, ⟨pk, hpk, hkl⟩, ⟨t, ht, hnat⟩⟩
        obtain ⟨ks, rfl, hall, _⟩ := hkl
        simp only [pyGeOne_natural hnat, allHexKeys_eq, decide_eq_true hall, Bool.not_true, Bool.false_eq_true, if_false,
          hok, if_true]
        have hkl : KeyListOK (.arr ks) := ⟨ks, rfl, hall, ‹_›⟩
        simp [hkl, hnat]
      · simp only [hok, if_false]
        -- whichever branch is taken the result is an argument error
        cases hg : pyGeOne t with
        | none => rfl
        | some b =>
          cases b with
          | false => rfl
          | true =>
            simp only
            cases pk with
            | arr ks =>
              simp only [allHexKeys_eq]
              by_cases hall : ∀ k ∈ ks, HexN 64 k
              · simp only [decide_eq_true hall, Bool.not_true, Bool.false_eq_true, if_false]
                by_cases hkl : KeyListOK (.arr ks)
                · simp only [hkl, if_true]
                  by_cases hnat : NaturalInt t
                  · exact absurd ⟨kvs, rfl, hks, ⟨_, hpk, hkl⟩, ⟨t, ht, hnat⟩⟩ hok
                  · simp [hnat]
                · simp [hkl]
              · simp [decide_eq_false hall]
            | _ => rfl
    · have : keysetEq kvs [ps! "threshold", ps! "pubkeys"] = false := by simpa using hks
      have nok : ¬ DelegationOK (.obj kvs) := by rintro ⟨kvs', e, h, _⟩; cases e; exact hks h
      simp [this, nok, pure, Except.pure]
  | _ => simp only [checkDelegationJ]; rw [if_neg]; rintro ⟨_, e, _⟩; cases e

def DelegationsOK (ds : J) : Prop := ∃ kvs, ds = .obj kvs ∧ ∀ p ∈ kvs, DelegationOK p.2

theorem checkDelegationsLoop_eq : ∀ (kvs : List (PStr × J)),
    checkDelegationsLoop kvs = if (∀ p ∈ kvs, DelegationOK p.2) then .ok () else .error .arg
  | [] => by simp [checkDelegationsLoop, okU]
  | (k, d) :: r => by
    simp only [checkDelegationsLoop, checkDelegation_eq, bind, Except.bind]
    by_cases hd : DelegationOK d
    · simp only [hd, if_true, checkDelegationsLoop_eq r]
      by_cases h : ∀ p ∈ r, DelegationOK p.2
      · have : ∀ p ∈ (k, d) :: r, DelegationOK p.2 := by intro p hp; rcases List.mem_cons.mp hp with rfl | hp; exact hd; exact h p hp
        rw [if_pos h, if_pos this]
      · have : ¬ ∀ p ∈ (k, d) :: r, DelegationOK p.2 := fun h' => h (fun p hp => h' p (by simp [hp]))
        rw [if_neg h, if_neg this]
    · have : ¬ ∀ p ∈ (k, d) :: r, DelegationOK p.2 := fun h' => hd (h' (k, d) (by simp))
      simp only [hd, if_false]; rw [if_neg this]

theorem checkDelegations_eq (ds : J) : checkDelegationsJ ds = if DelegationsOK ds then .ok () else .error .arg := by
  cases ds with
  | obj kvs =>
    simp only [checkDelegationsJ, checkDelegationsLoop_eq]
    by_cases h : ∀ p ∈ kvs, DelegationOK p.2
    · have : DelegationsOK (.obj kvs) := ⟨kvs, rfl, h⟩
      rw [if_pos h, if_pos this]
    · have : ¬ DelegationsOK (.obj kvs) := by rintro ⟨kvs', e, h'⟩; cases e; exact h h'
      rw [if_neg h, if_neg this]
  | _ => simp only [checkDelegationsJ]; rw [if_neg]; rintro ⟨_, e, _⟩; cases e

/-- a well-formed signature entry of either shape -/
def AnySigOK (v : J) : Prop := RawShape v ∨ GpgShape v

theorem checkAnySignature_eq (v : J) : checkAnySignatureJ v = if AnySigOK v then .ok () else .error .arg := by
  simp only [checkAnySignatureJ, isSignature_eq, isGpgSignature_eq, bind, Except.bind]
  by_cases h1 : RawShape v <;> by_cases h2 : GpgShape v <;> simp [h1, h2, AnySigOK, okU]

theorem checkSigValuesLoop_eq : ∀ (kvs : List (PStr × J)),
    checkSigValuesLoop kvs = if (∀ p ∈ kvs, AnySigOK p.2) then .ok () else .error .arg
  | [] => by simp [checkSigValuesLoop, okU]
  | (k, s) :: r => by
    simp only [checkSigValuesLoop, checkAnySignature_eq, bind, Except.bind]
    by_cases hd : AnySigOK s
    · simp only [hd, if_true, checkSigValuesLoop_eq r]
      by_cases h : ∀ p ∈ r, AnySigOK p.2
      · have : ∀ p ∈ (k, s) :: r, AnySigOK p.2 := by intro p hp; rcases List.mem_cons.mp hp with rfl | hp; exact hd; exact h p hp
        rw [if_pos h, if_pos this]
      · have : ¬ ∀ p ∈ (k, s) :: r, AnySigOK p.2 := fun h' => h (fun p hp => h' p (by simp [hp]))
        rw [if_neg h, if_neg this]
    · have : ¬ ∀ p ∈ (k, s) :: r, AnySigOK p.2 := fun h' => hd (h' (k, s) (by simp))
      simp only [hd, if_false]; rw [if_neg this]

/-- the signed portion of delegating metadata, as documented -/
def SignedOK (s : J) : Prop :=
  ∃ kvs, s = .obj kvs ∧
    (∃ ty, dictGet (ps! "type") kvs = some (.str ty) ∧ ty ∈ supportedDelegatingTypes) ∧
    (∃ sv, dictGet (ps! "metadata_spec_version") kvs = some (.str sv)) ∧
    (∃ d, dictGet (ps! "delegations") kvs = some d ∧ DelegationsOK d) ∧
    (∃ e, dictGet (ps! "expiration") kvs = some e ∧ WfUtc e) ∧
    (dictHas (ps! "timestamp") kvs = true ∨ dictHas (ps! "version") kvs = true) ∧
    (dictGet (ps! "type") kvs = some (.str (ps! "root")) → dictHas (ps! "version") kvs = true) ∧
    (∀ t, dictGet (ps! "timestamp") kvs = some t → WfUtc t) ∧
    (∀ v, dictGet (ps! "version") kvs = some v → NaturalInt v)

theorem pyInStr_obj (k : PStr) (kvs : List (PStr × J)) : pyInStr k (.obj kvs) = .ok (dictHas k kvs) := rfl
theorem pyIndexStr_obj (k : PStr) (kvs : List (PStr × J)) : pyIndexStr k (.obj kvs) = dictIndex k kvs := rfl

theorem dictHas_iff {k : PStr} {kvs : List (PStr × J)} : dictHas k kvs = true ↔ ∃ v, dictGet k kvs = some v := by
  simp [dictHas, Option.isSome_iff_exists]

theorem dictIndex_none {k : PStr} {kvs : List (PStr × J)} (h : dictGet k kvs = none) : dictIndex k kvs = .error .key := by
  simp [dictIndex, h]

/-- the field checks of `checkformat_delegating_metadata` (lines 786-832) on the signed portion -/
def checkSignedPart (contents : J) : Res Unit := do
  requiredFieldsLoop contents [ps! "type", ps! "metadata_spec_version", ps! "delegations", ps! "expiration"]
  let ty ← pyIndexStr (ps! "type") contents
  checkStringJ ty
  match ty with
  | .str tys => if !supportedDelegatingTypes.contains tys then .error .arg else okU
  | _ => .error .arg
  checkStringJ (← pyIndexStr (ps! "metadata_spec_version") contents)
  checkDelegationsJ (← pyIndexStr (ps! "delegations") contents)
  checkUtcJ (← pyIndexStr (ps! "expiration") contents)
  let hasTs ← pyInStr (ps! "timestamp") contents
  let hasVer ← pyInStr (ps! "version") contents
  if !hasTs && !hasVer then .error .arg
  else if isRootType ty && !hasVer then .error .arg
  else do
    if hasTs then checkUtcJ (← pyIndexStr (ps! "timestamp") contents) else okU
    if hasVer then checkNaturalIntJ (← pyIndexStr (ps! "version") contents) else okU

theorem checkDelegatingMd_split (m : J) (entries : List (PStr × J)) (signed : J) (hp : EnvParts m entries signed) :
    checkDelegatingMdJ m = (do checkSigValuesLoop entries; checkSignedPart signed) := by
  obtain ⟨hs, top, rfl, hsig, hsgn⟩ := hp
  simp only [checkDelegatingMdJ, checkSignableJ, hs, if_true, okU, bind, Except.bind, dictIndex_some hsig, dictIndex_some hsgn,
    checkSignedPart]
  rfl

theorem requiredFields_nonobj (contents : J) (h : ∀ kvs, contents ≠ .obj kvs) : checkSignedPart contents = .error .arg := by
  -- a non-dict `signed` either misses a required field, or fails the subscript `contents["type"]` (TypeError)
  unfold checkSignedPart
  cases contents with
  | obj kvs => exact absurd rfl (h kvs)
  | null => rfl
  | bool _ => rfl
  | int _ => rfl
  | flt _ => rfl
  | str s =>
    simp only [bind, Except.bind]
    cases hreq : requiredFieldsLoop (.str s) [ps! "type", ps! "metadata_spec_version", ps! "delegations", ps! "expiration"] with
    | ok _ => rfl
    | error e =>
      simp only [requiredFieldsLoop, pyInStr, bind, Except.bind] at hreq
      repeat' split at hreq
      all_goals first
        | (cases hreq; rfl)
        | cases hreq
  | arr xs =>
    simp only [bind, Except.bind]
    cases hreq : requiredFieldsLoop (.arr xs) [ps! "type", ps! "metadata_spec_version", ps! "delegations", ps! "expiration"] with
    | ok _ => rfl
    | error e =>
      simp only [requiredFieldsLoop, pyInStr, bind, Except.bind] at hreq
      repeat' split at hreq
      all_goals first
        | (cases hreq; rfl)
        | cases hreq

end CCT
