import CCT.Model.FileThreads
/-! invariant of in-place file jobs on pairwise different names, under every schedule -/
namespace CCT

theorem FS.get_put_same (fs : FS) (n : PStr) (b : Bytes) : (fs.put n b) n = some b := by simp [FS.put]
theorem FS.get_put_other (fs : FS) (n m : PStr) (b : Bytes) (h : m ≠ n) : (fs.put n b) m = fs m := by simp [FS.put, h]

/-- reachable states of jobs with pairwise different names started on `fs0`: a job's file is untouched until the job's own write, and afterwards holds the
job's result on the *original* content; files that are no job's are untouched -/
structure FInv (jobs : Nat → FileJob) (fs0 fs : FS) (ts : Nat → FLocal) : Prop where
  threads : ∀ i, ((ts i).pc = 0 ∧ fs (jobs i).name = fs0 (jobs i).name)
      ∨ ((ts i).pc = 1 ∧ (ts i).input = some (fs0 (jobs i).name) ∧ fs (jobs i).name = fs0 (jobs i).name)
      ∨ ((ts i).pc = 2 ∧ (ts i).output = some ((jobs i).run (fs0 (jobs i).name)) ∧ fs (jobs i).name = fs0 (jobs i).name)
      ∨ (3 ≤ (ts i).pc ∧ fs (jobs i).name = jobResult (jobs i) fs0)
  others : ∀ x, (∀ j, (jobs j).name ≠ x) → fs x = fs0 x

theorem FInv.init (jobs : Nat → FileJob) (fs0 : FS) (ts : Nat → FLocal) (h0 : ∀ i, (ts i).pc = 0) : FInv jobs fs0 fs0 ts :=
  ⟨fun i => Or.inl ⟨h0 i, rfl⟩, fun _ _ => rfl⟩

theorem FInv.step (jobs : Nat → FileJob) (hd : ∀ i j, (jobs i).name = (jobs j).name → i = j) (fs0 fs : FS) (ts : Nat → FLocal)
    (h : FInv jobs fs0 fs ts) (i : Nat) :
    FInv jobs fs0 (stepJob (jobs i) fs (ts i)).1 (fun j => if j = i then (stepJob (jobs i) fs (ts i)).2 else ts j) := by
  rcases h.threads i with ⟨hpc, hf⟩ | ⟨hpc, hin, hf⟩ | ⟨hpc, hout, hf⟩ | ⟨hpc, hres⟩
  · have e : stepJob (jobs i) fs (ts i) = (fs, { ts i with pc := 1, input := some (fs (jobs i).name) }) := by simp [stepJob, hpc]
    rw [e]
    refine ⟨fun m => ?_, h.others⟩
    by_cases hm : m = i
    · subst hm; simp [hf]
    · simpa [hm] using h.threads m
  · have e : stepJob (jobs i) fs (ts i) = (fs, { ts i with pc := 2, output := (ts i).input.map (jobs i).run }) := by simp [stepJob, hpc]
    rw [e]
    refine ⟨fun m => ?_, h.others⟩
    by_cases hm : m = i
    · subst hm; simp [hin, hf]
    · simpa [hm] using h.threads m
  · -- the write (or, for a failed job, no write)
    cases hr : (jobs i).run (fs0 (jobs i).name) with
    | none =>
      have e : stepJob (jobs i) fs (ts i) = (fs, { ts i with pc := 3 }) := by simp [stepJob, hpc, hout, hr]
      rw [e]
      refine ⟨fun m => ?_, h.others⟩
      by_cases hm : m = i
      · subst hm; simp [jobResult, hr, hf]
      · simpa [hm] using h.threads m
    | some b =>
      have e : stepJob (jobs i) fs (ts i) = (fs.put (jobs i).name b, { ts i with pc := 3 }) := by simp [stepJob, hpc, hout, hr]
      rw [e]
      refine ⟨fun m => ?_, fun x hx => ?_⟩
      · by_cases hm : m = i
        · subst hm; simp [jobResult, hr, FS.get_put_same]
        · have hne : (jobs m).name ≠ (jobs i).name := fun e' => hm (hd m i e')
          simp only [if_neg hm, FS.get_put_other _ _ _ _ hne]
          exact h.threads m
      · show (fs.put (jobs i).name b) x = fs0 x
        rw [FS.get_put_other _ _ _ _ (fun e' => hx i e'.symm)]
        exact h.others x hx
  · obtain ⟨n, hn⟩ : ∃ n, (ts i).pc = n + 3 := ⟨(ts i).pc - 3, by omega⟩
    have e : stepJob (jobs i) fs (ts i) = (fs, ts i) := by simp [stepJob, hn]
    rw [e]
    have hts : (fun j => if j = i then (fs, ts i).2 else ts j) = ts := by
      funext j; by_cases hji : j = i <;> simp [hji]
    rw [hts]
    exact h

theorem FInv.run (jobs : Nat → FileJob) (hd : ∀ i j, (jobs i).name = (jobs j).name → i = j) (fs0 : FS) : ∀ (sched : List Nat) (fs : FS) (ts : Nat → FLocal),
    FInv jobs fs0 fs ts → FInv jobs fs0 (runJobs jobs fs ts sched).1 (runJobs jobs fs ts sched).2
  | [], _, _, h => h
  | i :: r, fs, ts, h => by
    simp only [runJobs]
    exact FInv.run jobs hd fs0 r _ _ (FInv.step jobs hd fs0 fs ts h i)

end CCT
