import CCT.Lemmas.VerifyDelegation
/-! Dictionary (association list) lemmas: `d[k] = v` then lookups. -/
namespace CCT

theorem dictGet_dictSet_same (k : PStr) (v : J) : ∀ (d : List (PStr × J)), dictGet k (dictSet d k v) = some v
  | [] => by simp [dictSet, dictGet]
  | (k', v') :: r => by
    simp only [dictSet]
    by_cases h : k' = k
    · simp [h, dictGet]
    · simp [h, dictGet, dictGet_dictSet_same k v r]

theorem dictGet_dictSet_other (k k2 : PStr) (v : J) (hne : k2 ≠ k) : ∀ (d : List (PStr × J)), dictGet k2 (dictSet d k v) = dictGet k2 d
  | [] => by
    have : ¬ k = k2 := fun e => hne e.symm
    simp [dictSet, dictGet, this]
  | (k', v') :: r => by
    simp only [dictSet]
    by_cases h : k' = k
    · subst h
      have : ¬ k' = k2 := fun e => hne e.symm
      simp [dictGet, this]
    · simp only [h, if_false, dictGet, dictGet_dictSet_other k k2 v hne r]

theorem dictKeys_dictSet_mem (k : PStr) (v : J) (d : List (PStr × J)) (x : PStr) :
    x ∈ (dictSet d k v).map (·.1) ↔ x = k ∨ x ∈ d.map (·.1) := by
  rw [keys_dictSet]
  split
  · rename_i h; constructor
    · intro hx; exact Or.inr hx
    · rintro (rfl | hx); exact h; exact hx
  · simp only [List.mem_append, List.mem_cons, List.mem_nil_iff, or_false]
    constructor
    · rintro (hx | hx); exact Or.inr hx; exact Or.inl hx
    · rintro (hx | hx); exact Or.inr hx; exact Or.inl hx

theorem keysetEq_dictSet_existing (d : List (PStr × J)) (names : List PStr) (k : PStr) (v : J)
    (h : keysetEq d names = true) (hk : k ∈ names) : keysetEq (dictSet d k v) names = true := by
  simp only [keysetEq, Bool.and_eq_true, List.all_eq_true, dictKeys, List.contains_iff_mem] at h ⊢
  constructor
  · intro x hx
    rcases (dictKeys_dictSet_mem k v d x).mp hx with rfl | hx
    · exact hk
    · exact h.1 x hx
  · intro n hn
    exact (dictKeys_dictSet_mem k v d n).mpr (Or.inr (h.2 n hn))

theorem mem_dictSet_self (k : PStr) (v : J) : ∀ (d : List (PStr × J)), (k, v) ∈ dictSet d k v
  | [] => by simp [dictSet]
  | (k', v') :: r => by
    simp only [dictSet]
    by_cases e : k' = k
    · simp [e]
    · simp only [e, if_false]; exact List.mem_cons_of_mem _ (mem_dictSet_self k v r)

theorem mem_dictSet_of_mem_ne (k : PStr) (v : J) : ∀ (d : List (PStr × J)) (p : PStr × J), p ∈ d → p.1 ≠ k → p ∈ dictSet d k v
  | [], p, h, _ => by cases h
  | (k', v') :: r, p, h, hne => by
    simp only [dictSet]
    by_cases e : k' = k
    · simp only [e, if_true]
      rcases List.mem_cons.mp h with rfl | h
      · exact absurd e hne
      · exact List.mem_cons_of_mem _ h
    · simp only [e, if_false]
      rcases List.mem_cons.mp h with rfl | h
      · simp
      · exact List.mem_cons_of_mem _ (mem_dictSet_of_mem_ne k v r p h hne)

theorem dictSet_overwrite (k : PStr) (v w : J) : ∀ (d : List (PStr × J)), dictSet (dictSet d k v) k w = dictSet d k w
  | [] => by simp [dictSet]
  | (k', v') :: r => by
    simp only [dictSet]
    by_cases e : k' = k
    · simp [e, dictSet]
    · simp [e, dictSet, dictSet_overwrite k v w r]

theorem dictSet_nodup (k : PStr) (v : J) (d : List (PStr × J)) (h : (d.map (·.1)).Nodup) : ((dictSet d k v).map (·.1)).Nodup := by
  rw [keys_dictSet]
  split
  · exact h
  · rename_i hnot
    exact List.nodup_append.mpr ⟨h, by simp, by intro a ha b hb; simp at hb; subst hb; intro e; subst e; exact hnot ha⟩

end CCT
