import CCT.Lemmas.VerifyRoot
/-! A delegation rule applied to an envelope: `verify_signable` with keys and threshold read from well-formed metadata. -/
namespace CCT
open Classical
open CCT.C15

/-- the rule `d` (a delegation: keys + threshold) is met by the signatures on `u` in the given mode -/
def RuleMet (C : CryptoFns) (gpg : Bool) (d u : J) : Prop :=
  ThresholdMet C gpg (keysOf d) (ser (signedOf u)) (entriesOf u) (thrOf d)

theorem rule_verdict (C : CryptoFns) (gpg : Bool) (d u : J) (hd : DelegationOK d) (hu : isSignableJ u = true) :
    verifySignableJ C u (jget (ps! "pubkeys") d) (jget (ps! "threshold") d) gpg =
      if RuleMet C gpg d u then .ok () else .error .signature := by
  obtain ⟨dk, rfl, _, ⟨pk, hpk, ⟨ks, rfl, hall, _⟩⟩, ⟨th, hth, ⟨z, hz, h1⟩⟩⟩ := hd
  have e1 : jget (ps! "pubkeys") (.obj dk) = .arr ks := by simp [jget, entryField, hpk]
  have e2 : jget (ps! "threshold") (.obj dk) = th := by simp [jget, entryField, hth]
  rw [verifySignable_welltyped C u _ _ gpg (entriesOf u) (signedOf u) ks z (envParts_self hu) e1 hall (by rw [e2]; exact hz) (by omega)]
  simp only [RuleMet, keysOf, thrOf, e1, e2, hz, Option.getD_some]

theorem mem_delegations_ok {m : J} (h : Schema m) {name : PStr} {d : J} (hr : roleOf m name = some d) : DelegationOK d := by
  obtain ⟨_, _, _, dels, _, _, _, _, _, e, _, hok, _⟩ := schema_reads h
  rw [roleOf, e] at hr
  exact hok (name, d) (mem_of_dictGet hr)

end CCT
