import CCT.Lemmas.JsonWF
import CCT.Lemmas.Dict
import CCT.Lemmas.Hex
/-!
# Parser soundness: whatever `parse` returns for text without raw surrogate code points is a well-formed JSON value (`J.WF`)

Every file the library writes is ASCII, and every valid UTF-8 file decodes to text without surrogates; so every value that was loaded from
such a file meets the `WF` hypothesis of the persistence theorems (C07, C08, C04).
-/
namespace CCT

/-- a code point that strict UTF-8 can carry: below 0x110000 and not a surrogate -/
def OKc (c : Nat) : Prop := c < 0xd800 ∨ (0xe000 ≤ c ∧ c < 0x110000)
def AllOK (s : Txt) : Prop := ∀ c ∈ s, OKc c

theorem AllOK.tail {c : Nat} {s : Txt} (h : AllOK (c :: s)) : AllOK s := fun x hx => h x (by simp [hx])
theorem AllOK.head {c : Nat} {s : Txt} (h : AllOK (c :: s)) : OKc c := h c (by simp)

theorem strOK_append_one : ∀ (s : PStr) (x : Nat), StrOK s → x < 0x110000 → (∀ h, s.getLast? = some h → ¬ (isHigh h ∧ isLow x)) → StrOK (s ++ [x])
  | [], x, _, hx, _ => by simpa [StrOK] using hx
  | [c], x, hs, hx, hl => by
    have hc : c < 0x110000 := by simpa [StrOK] using hs
    exact ⟨hc, hl c (by simp), by simpa [StrOK] using hx⟩
  | c :: d :: r, x, hs, hx, hl => by
    obtain ⟨h1, h2, h3⟩ := hs
    refine ⟨h1, h2, ?_⟩
    exact strOK_append_one (d :: r) x h3 hx (fun h hh => hl h (by simpa using hh))

theorem getLast_append_one (s : PStr) (x : Nat) : (s ++ [x]).getLast? = some x := by simp

/-- the rest of the text starts with an escaped low surrogate -/
def StartsLowEsc (t : Txt) : Prop := ∃ r u r', t = 92 :: 117 :: r ∧ parseHex4 r = some (u, r') ∧ 0xdc00 ≤ u ∧ u ≤ 0xdfff

/-- accumulator invariant of the string-body parser -/
def Good (acc : PStr) (rest : Txt) : Prop := StrOK acc ∧ ∀ h, acc.getLast? = some h → isHigh h → ¬ StartsLowEsc rest

theorem parseHex4_spec {t : Txt} {u : Nat} {r : Txt} (h : parseHex4 t = some (u, r)) :
    u < 65536 ∧ ∃ a b c d, t = a :: b :: c :: d :: r := by
  match t, h with
  | a :: b :: c :: d :: r0, h =>
    simp only [parseHex4] at h
    split at h
    · rename_i va vb vc vd ha hb hc hd
      cases h
      have := hexVal_lt ha; have := hexVal_lt hb; have := hexVal_lt hc; have := hexVal_lt hd
      exact ⟨by omega, a, b, c, d, rfl⟩
    · cases h

theorem allOK_hex4_rest {t : Txt} {u : Nat} {r : Txt} (h : parseHex4 t = some (u, r)) (ht : AllOK t) : AllOK r := by
  obtain ⟨_, a, b, c, d, rfl⟩ := parseHex4_spec h
  exact ht.tail.tail.tail.tail

theorem good_push (acc : PStr) (x : Nat) (rest : Txt) (hs : StrOK acc) (hx : x < 0x110000)
    (hl : ∀ h, acc.getLast? = some h → ¬ (isHigh h ∧ isLow x)) (hh : isHigh x → ¬ StartsLowEsc rest) : Good (acc ++ [x]) rest :=
  ⟨strOK_append_one acc x hs hx hl, fun h e hi => by
    rw [getLast_append_one] at e; cases e; exact hh hi⟩

/-- pushing a character that is neither kind of surrogate -/
theorem good_push_plain (acc : PStr) (x : Nat) (s rest : Txt) (hg : Good acc s) (hx : x < 0x110000) (hn : ¬ isHigh x ∧ ¬ isLow x) :
    Good (acc ++ [x]) rest :=
  good_push acc x rest hg.1 hx (fun _ _ hc => hn.2 hc.2) (fun hi => absurd hi hn.1)

theorem okc_plain {c : Nat} (h : OKc c) : c < 0x110000 ∧ ¬ isHigh c ∧ ¬ isLow c := by
  unfold OKc at h; unfold isHigh isLow; omega

theorem parseStrBody_sound : ∀ (f : Nat) (s : Txt) (acc out : PStr) (rest : Txt), AllOK s → Good acc s →
    parseStrBody f s acc = some (out, rest) → StrOK out ∧ AllOK rest
  | 0, _, _, _, _, _, _, h => by simp [parseStrBody] at h
  | _+1, [], _, _, _, _, _, h => by simp [parseStrBody] at h
  | f+1, c :: cs, acc, out, rest, hs, hg, h => by
    have ih := parseStrBody_sound f
    unfold parseStrBody at h
    by_cases hq : c = cQuote
    · rw [if_pos hq] at h; cases h; exact ⟨hg.1, hs.tail⟩
    rw [if_neg hq] at h
    by_cases hb : c = cBsl
    · rw [if_pos hb] at h
      cases cs with
      | nil => cases h
      | cons e r =>
        simp only at h
        have hr : AllOK r := hs.tail.tail
        have simple : ∀ x, x < 0xd800 → Good (acc ++ [x]) r := fun x hx =>
          good_push_plain acc x _ r hg (by omega) (by unfold isHigh isLow; omega)
        by_cases e1 : e = 34
        · rw [if_pos e1] at h; exact ih r _ out rest hr (simple 34 (by omega)) h
        rw [if_neg e1] at h
        by_cases e2 : e = 92
        · rw [if_pos e2] at h; exact ih r _ out rest hr (simple 92 (by omega)) h
        rw [if_neg e2] at h
        by_cases e3 : e = 47
        · rw [if_pos e3] at h; exact ih r _ out rest hr (simple 47 (by omega)) h
        rw [if_neg e3] at h
        by_cases e4 : e = 110
        · rw [if_pos e4] at h; exact ih r _ out rest hr (simple 10 (by omega)) h
        rw [if_neg e4] at h
        by_cases e5 : e = 114
        · rw [if_pos e5] at h; exact ih r _ out rest hr (simple 13 (by omega)) h
        rw [if_neg e5] at h
        by_cases e6 : e = 116
        · rw [if_pos e6] at h; exact ih r _ out rest hr (simple 9 (by omega)) h
        rw [if_neg e6] at h
        by_cases e7 : e = 98
        · rw [if_pos e7] at h; exact ih r _ out rest hr (simple 8 (by omega)) h
        rw [if_neg e7] at h
        by_cases e8 : e = 102
        · rw [if_pos e8] at h; exact ih r _ out rest hr (simple 12 (by omega)) h
        rw [if_neg e8] at h
        by_cases e9 : e = 117
        · rw [if_pos e9] at h
          subst e9
          have hb' : c = 92 := hb
          subst hb'
          cases hp : parseHex4 r with
          | none => rw [hp] at h; cases h
          | some p =>
            obtain ⟨u, r1⟩ := p
            rw [hp] at h
            simp only at h
            obtain ⟨hu, _⟩ := parseHex4_spec hp
            have hr1 : AllOK r1 := allOK_hex4_rest hp hr
            -- pushing `u` itself (lone surrogate or BMP character) in front of `r1`
            have pushU : (isHigh u → ¬ StartsLowEsc r1) → Good (acc ++ [u]) r1 := fun hh =>
              good_push acc u r1 hg.1 (by omega)
                (fun hlast el hc => hg.2 hlast el hc.1 ⟨r, u, r1, rfl, hp, hc.2.1, hc.2.2⟩) hh
            by_cases hhi : 0xd800 ≤ u ∧ u ≤ 0xdbff
            · rw [if_pos hhi] at h
              split at h
              · rename_i r2
                split at h
                · rename_i u2 r3 hp2
                  by_cases hlo : 0xdc00 ≤ u2 ∧ u2 ≤ 0xdfff
                  · rw [if_pos hlo] at h
                    have hr3 : AllOK r3 := allOK_hex4_rest hp2 hr1.tail.tail
                    refine ih r3 _ out rest hr3 (good_push_plain acc _ _ r3 hg (by omega) (by unfold isHigh isLow; omega)) h
                  · rw [if_neg hlo] at h
                    refine ih _ _ out rest hr1 (pushU ?_) h
                    rintro _ ⟨q, u', q', e, hq, hl⟩
                    cases e
                    rw [hp2] at hq; cases hq
                    exact hlo hl
                · rename_i hp2
                  refine ih _ _ out rest hr1 (pushU ?_) h
                  rintro _ ⟨q, u', q', e, hq, _⟩
                  cases e
                  rw [hp2] at hq; cases hq
              · rename_i hns
                refine ih _ _ out rest hr1 (pushU ?_) h
                rintro _ ⟨q, u', q', e, _, _⟩
                exact hns q e
            · rw [if_neg hhi] at h
              exact ih _ _ out rest hr1 (pushU (fun hi => absurd hi hhi)) h
        · rw [if_neg e9] at h; cases h
    rw [if_neg hb] at h
    by_cases hlt : c < 32
    · rw [if_pos hlt] at h; cases h
    rw [if_neg hlt] at h
    have hc := okc_plain hs.head
    exact ih cs _ out rest hs.tail (good_push_plain acc c _ cs hg hc.1 hc.2) h

theorem parseStr_sound {s : Txt} {out : PStr} {rest : Txt} (hs : AllOK s) (h : parseStr s = some (out, rest)) : StrOK out ∧ AllOK rest :=
  parseStrBody_sound _ s [] out rest hs ⟨trivial, fun _ e => by simp at e⟩ h

theorem allOK_skipWs : ∀ {s : Txt}, AllOK s → AllOK (skipWs s)
  | [], h => h
  | c :: cs, h => by
    simp only [skipWs]
    split
    · exact allOK_skipWs h.tail
    · exact h

theorem allOK_stripPre : ∀ {p s r : Txt}, stripPre p s = some r → AllOK s → AllOK r
  | [], _, _, h, hs => by simp only [stripPre] at h; cases h; exact hs
  | _ :: _, [], _, h, _ => by simp [stripPre] at h
  | p :: ps, c :: cs, r, h, hs => by
    simp only [stripPre] at h
    split at h
    · exact allOK_stripPre h hs.tail
    · cases h

theorem spanNum_spec : ∀ (s : Txt), (∀ c ∈ (spanNum s).1, isNumChar c = true) ∧ (AllOK s → AllOK (spanNum s).2)
  | [] => ⟨by simp [spanNum], fun h => by simpa [spanNum] using h⟩
  | c :: cs => by
    simp only [spanNum]
    split
    · rename_i hc
      obtain ⟨i1, i2⟩ := spanNum_spec cs
      refine ⟨?_, fun h => i2 h.tail⟩
      intro x hx
      simp only [List.mem_cons] at hx
      rcases hx with rfl | hx
      · exact hc
      · exact i1 x hx
    · exact ⟨by simp, fun h => h⟩

theorem validNatTok_digits {t : Txt} (h : validNatTok t = true) : ∀ c ∈ t, isDigit c = true := by
  unfold validNatTok at h
  simp only [Bool.and_eq_true, List.all_eq_true] at h
  exact h.1.1

theorem parseNumTok_wf {t : Txt} {v : J} (ht : ∀ c ∈ t, isNumChar c = true) (h : parseNumTok t = some v) : v.WF := by
  unfold parseNumTok at h
  split at h
  · rename_i r
    by_cases hv : validNatTok r = true
    · rw [if_pos hv] at h
      by_cases hl : r.length ≤ maxStrDigits
      · rw [if_pos hl] at h; cases h
        show (-(digitsVal r 0 : Int)).natAbs < 10 ^ maxStrDigits
        rw [Int.natAbs_neg, Int.natAbs_natCast]
        exact digitsVal_lt_limit r (validNatTok_digits hv) hl
      · rw [if_neg hl] at h; cases h
    · rw [if_neg hv] at h
      by_cases hf : validFloatTok (45 :: r) = true
      · rw [if_pos hf] at h; cases h
        refine Or.inr (Or.inr (Or.inr ⟨ht, ?_⟩))
        unfold parseNumTok
        simp only [hv, hf, if_true]
        rfl
      · rw [if_neg hf] at h; cases h
  · rename_i r hne
    by_cases hv : validNatTok t = true
    · rw [if_pos hv] at h
      by_cases hl : t.length ≤ maxStrDigits
      · rw [if_pos hl] at h; cases h
        show ((digitsVal t 0 : Nat) : Int).natAbs < 10 ^ maxStrDigits
        rw [Int.natAbs_natCast]
        exact digitsVal_lt_limit t (validNatTok_digits hv) hl
      · rw [if_neg hl] at h; cases h
    · rw [if_neg hv] at h
      by_cases hf : validFloatTok t = true
      · rw [if_pos hf] at h; cases h
        refine Or.inr (Or.inr (Or.inr ⟨ht, ?_⟩))
        unfold parseNumTok
        split
        · rename_i r' ; exact absurd rfl (hne r')
        · simp only [hv, hf, if_true]; rfl
      · rw [if_neg hf] at h; cases h

theorem wfs_append_one : ∀ (acc : List J) (v : J), WFs acc → v.WF → WFs (acc ++ [v])
  | [], _, _, hv => ⟨hv, trivial⟩
  | _ :: r, v, ⟨h1, h2⟩, hv => ⟨h1, wfs_append_one r v h2 hv⟩

theorem wfm_dictSet (k : PStr) (v : J) (hk : StrOK k) (hv : v.WF) : ∀ (d : List (PStr × J)), WFm d → WFm (dictSet d k v)
  | [], _ => ⟨hk, hv, trivial⟩
  | (k', v') :: r, h => by
    obtain ⟨h1, h2, h3⟩ := h
    simp only [dictSet]
    split
    · exact ⟨hk, hv, h3⟩
    · exact ⟨h1, h2, wfm_dictSet k v hk hv r h3⟩

theorem parse_sound_fuel : ∀ (f : Nat),
    (∀ s v r, AllOK s → parseValue f s = some (v, r) → v.WF ∧ AllOK r) ∧
    (∀ s acc v r, AllOK s → WFs acc → parseElems f s acc = some (v, r) → v.WF ∧ AllOK r) ∧
    (∀ s acc v r, AllOK s → WFm acc → (acc.map (·.1)).Nodup → parseMembers f s acc = some (v, r) → v.WF ∧ AllOK r)
  | 0 => ⟨fun _ _ _ _ h => by simp [parseValue] at h, fun _ _ _ _ _ _ h => by simp [parseElems] at h,
          fun _ _ _ _ _ _ _ h => by simp [parseMembers] at h⟩
  | f+1 => by
    obtain ⟨ihV, ihE, ihM⟩ := parse_sound_fuel f
    refine ⟨?_, ?_, ?_⟩
    · -- parseValue
      intro s v r hs h
      cases s with
      | nil => simp [parseValue] at h
      | cons c cs =>
        unfold parseValue at h
        have hcs : AllOK cs := hs.tail
        by_cases c1 : c = 34
        · rw [if_pos c1] at h
          cases hp : parseStr cs with
          | none => rw [hp] at h; cases h
          | some p =>
            obtain ⟨st, r'⟩ := p
            rw [hp] at h; cases h
            exact parseStr_sound hcs hp
        rw [if_neg c1] at h
        by_cases c2 : c = 91
        · rw [if_pos c2] at h
          have hw := allOK_skipWs hcs
          cases hk : skipWs cs with
          | nil => rw [hk] at h; cases h
          | cons d r' =>
            rw [hk] at h hw
            simp only at h
            by_cases d1 : d = 93
            · rw [if_pos d1] at h; cases h; exact ⟨trivial, hw.tail⟩
            · rw [if_neg d1] at h; exact ihE _ [] _ _ hw trivial h
        rw [if_neg c2] at h
        by_cases c3 : c = 123
        · rw [if_pos c3] at h
          have hw := allOK_skipWs hcs
          cases hk : skipWs cs with
          | nil => rw [hk] at h; cases h
          | cons d r' =>
            rw [hk] at h hw
            simp only at h
            by_cases d1 : d = 125
            · rw [if_pos d1] at h; cases h; exact ⟨⟨trivial, by simp⟩, hw.tail⟩
            · rw [if_neg d1] at h; exact ihM _ [] _ _ hw trivial (by simp) h
        rw [if_neg c3] at h
        have lit : ∀ (p : Txt) (w : J), w.WF → (stripPre p cs).map (fun r' => (w, r')) = some (v, r) → v.WF ∧ AllOK r := by
          intro p w hw hm
          cases hsp : stripPre p cs with
          | none => rw [hsp] at hm; cases hm
          | some r' => rw [hsp] at hm; cases hm; exact ⟨hw, allOK_stripPre hsp hcs⟩
        by_cases c4 : c = 110
        · rw [if_pos c4] at h; exact lit litNull .null trivial h
        rw [if_neg c4] at h
        by_cases c5 : c = 116
        · rw [if_pos c5] at h; exact lit litTrue (.bool true) trivial h
        rw [if_neg c5] at h
        by_cases c6 : c = 102
        · rw [if_pos c6] at h; exact lit litFalse (.bool false) trivial h
        rw [if_neg c6] at h
        by_cases c7 : c = 78
        · rw [if_pos c7] at h; exact lit litNaN (.flt [110, 97, 110]) (Or.inl rfl) h
        rw [if_neg c7] at h
        by_cases c8 : c = 73
        · rw [if_pos c8] at h; exact lit litInf (.flt [105, 110, 102]) (Or.inr (Or.inl rfl)) h
        rw [if_neg c8] at h
        by_cases c9 : c = 45 ∧ cs.head? = some 73
        · rw [if_pos c9] at h
          cases hsp : stripPre litInf cs.tail with
          | none => rw [hsp] at h; cases h
          | some r' =>
            rw [hsp] at h; cases h
            refine ⟨Or.inr (Or.inr (Or.inl rfl)), allOK_stripPre hsp ?_⟩
            cases cs with
            | nil => exact hcs
            | cons _ _ => exact hcs.tail
        rw [if_neg c9] at h
        unfold parseNumber at h
        obtain ⟨n1, n2⟩ := spanNum_spec (c :: cs)
        cases hn : parseNumTok (spanNum (c :: cs)).1 with
        | none => simp [hn] at h
        | some w =>
          simp only [hn, Option.map_some, Option.some.injEq, Prod.mk.injEq] at h
          obtain ⟨rfl, rfl⟩ := h
          exact ⟨parseNumTok_wf n1 hn, n2 hs⟩
    · -- parseElems
      intro s acc v r hs hacc h
      unfold parseElems at h
      cases hv : parseValue f s with
      | none => rw [hv] at h; cases h
      | some p =>
        obtain ⟨x, r1⟩ := p
        rw [hv] at h
        simp only at h
        obtain ⟨hx, hr1⟩ := ihV _ _ _ hs hv
        have hw := allOK_skipWs hr1
        cases hk : skipWs r1 with
        | nil => rw [hk] at h; cases h
        | cons d r2 =>
          rw [hk] at h hw
          simp only at h
          by_cases d1 : d = 44
          · rw [if_pos d1] at h
            exact ihE _ _ _ _ (allOK_skipWs hw.tail) (wfs_append_one _ _ hacc hx) h
          rw [if_neg d1] at h
          by_cases d2 : d = 93
          · rw [if_pos d2] at h; cases h; exact ⟨wfs_append_one _ _ hacc hx, hw.tail⟩
          · rw [if_neg d2] at h; cases h
    · -- parseMembers
      intro s acc v r hs hacc hnd h
      cases s with
      | nil => simp [parseMembers] at h
      | cons c cs =>
        unfold parseMembers at h
        by_cases c1 : c = 34
        · rw [if_pos c1] at h
          cases hp : parseStr cs with
          | none => rw [hp] at h; cases h
          | some p =>
            obtain ⟨k, r1⟩ := p
            rw [hp] at h
            simp only at h
            obtain ⟨hk, hr1⟩ := parseStr_sound hs.tail hp
            have hw1 := allOK_skipWs hr1
            cases hk1 : skipWs r1 with
            | nil => rw [hk1] at h; cases h
            | cons d r2 =>
              rw [hk1] at h hw1
              simp only at h
              by_cases d1 : d = 58
              · rw [if_pos d1] at h
                cases hv : parseValue f (skipWs r2) with
                | none => rw [hv] at h; cases h
                | some p =>
                  obtain ⟨x, r3⟩ := p
                  rw [hv] at h
                  simp only at h
                  obtain ⟨hx, hr3⟩ := ihV _ _ _ (allOK_skipWs hw1.tail) hv
                  have hw3 := allOK_skipWs hr3
                  cases hk3 : skipWs r3 with
                  | nil => rw [hk3] at h; cases h
                  | cons e r4 =>
                    rw [hk3] at h hw3
                    simp only at h
                    have hacc' := wfm_dictSet k x hk hx acc hacc
                    have hnd' := dictSet_nodup k x acc hnd
                    by_cases e1 : e = 44
                    · rw [if_pos e1] at h
                      exact ihM _ _ _ _ (allOK_skipWs hw3.tail) hacc' hnd' h
                    rw [if_neg e1] at h
                    by_cases e2 : e = 125
                    · rw [if_pos e2] at h; cases h; exact ⟨⟨hacc', hnd'⟩, hw3.tail⟩
                    · rw [if_neg e2] at h; cases h
              · rw [if_neg d1] at h; cases h
        · rw [if_neg c1] at h; cases h

/-- **parser soundness**: text without surrogate code points parses — if at all — to a well-formed value -/
theorem parse_wf {s : Txt} {v : J} (hs : AllOK s) (h : parse s = some v) : v.WF := by
  unfold parse at h
  cases hv : parseValue (s.length + 1) (skipWs s) with
  | none => rw [hv] at h; cases h
  | some p =>
    obtain ⟨x, r⟩ := p
    rw [hv] at h
    simp only at h
    split at h
    · cases h; exact ((parse_sound_fuel _).1 _ _ _ (allOK_skipWs hs) hv).1
    · cases h

-- bytes → text --------------------------------------------------------------------------------------------------------

/-- no UTF-8 lead byte `ED` is followed by `A0..BF`: the byte string does not encode a surrogate (what strict UTF-8 forbids) -/
def NoSurLead : List Nat → Prop
  | [] => True
  | [_] => True
  | x :: y :: r => (x = 0xed → y < 0xa0) ∧ NoSurLead (y :: r)

theorem NoSurLead.tail : ∀ {x : Nat} {r : List Nat}, NoSurLead (x :: r) → NoSurLead r
  | _, [], _ => trivial
  | _, _ :: _, h => h.2

theorem noSurLead_ascii : ∀ (b : List Nat), (∀ x ∈ b, x < 128) → NoSurLead b
  | [], _ => trivial
  | [_], _ => trivial
  | x :: y :: r, h => ⟨fun e => by have := h x (by simp); omega, noSurLead_ascii (y :: r) (fun z hz => h z (by simp [hz]))⟩

theorem allOK_cons {c : Nat} {t : Txt} (hc : OKc c) (ht : AllOK t) : AllOK (c :: t) := by
  intro x hx
  simp only [List.mem_cons] at hx
  rcases hx with rfl | hx
  · exact hc
  · exact ht x hx

/-- **decoding strict UTF-8 yields no surrogate code points** -/
theorem utf8Decode_allOK : ∀ (f : Nat) (b : List Nat) (t : Txt), NoSurLead b → utf8Decode f b = some t → AllOK t
  | 0, _, _, _, h => by simp [utf8Decode] at h
  | _+1, [], t, _, h => by simp only [utf8Decode] at h; cases h; intro x hx; cases hx
  | f+1, b :: r, t, hn, h => by
    have ih := utf8Decode_allOK f
    unfold utf8Decode at h
    by_cases h1 : b < 0x80
    · rw [if_pos h1] at h
      cases hd : utf8Decode f r with
      | none => rw [hd] at h; cases h
      | some t' =>
        rw [hd] at h; cases h
        exact allOK_cons (Or.inl (by omega)) (ih r t' hn.tail hd)
    rw [if_neg h1] at h
    by_cases h2 : 0xc2 ≤ b ∧ b ≤ 0xdf
    · rw [if_pos h2] at h
      cases r with
      | nil => cases h
      | cons b1 r' =>
        simp only at h
        by_cases hc : 0x80 ≤ b1 ∧ b1 ≤ 0xbf
        · rw [if_pos hc] at h
          cases hd : utf8Decode f r' with
          | none => rw [hd] at h; cases h
          | some t' =>
            rw [hd] at h; cases h
            exact allOK_cons (Or.inl (by omega)) (ih r' t' hn.tail.tail hd)
        · rw [if_neg hc] at h; cases h
    rw [if_neg h2] at h
    by_cases h3 : 0xe0 ≤ b ∧ b ≤ 0xef
    · rw [if_pos h3] at h
      match r, hn, h with
      | [], _, h => cases h
      | [_], _, h => cases h
      | b1 :: b2 :: r', hn, h =>
        simp only at h
        by_cases hc : 0x80 ≤ b1 ∧ b1 ≤ 0xbf ∧ 0x80 ≤ b2 ∧ b2 ≤ 0xbf ∧ (b = 0xe0 → 0xa0 ≤ b1)
        · rw [if_pos hc] at h
          cases hd : utf8Decode f r' with
          | none => rw [hd] at h; cases h
          | some t' =>
            rw [hd] at h; cases h
            have hs : b = 0xed → b1 < 0xa0 := hn.1
            refine allOK_cons ?_ (ih r' t' hn.tail.tail.tail hd)
            unfold OKc
            by_cases he : b = 0xed
            · have := hs he; left; omega
            · by_cases hlt : b < 0xed
              · left; omega
              · right; omega
        · rw [if_neg hc] at h; cases h
    rw [if_neg h3] at h
    by_cases h4 : 0xf0 ≤ b ∧ b ≤ 0xf4
    · rw [if_pos h4] at h
      match r, hn, h with
      | [], _, h => cases h
      | [_], _, h => cases h
      | [_, _], _, h => cases h
      | b1 :: b2 :: b3 :: r', hn, h =>
        simp only at h
        by_cases hc : 0x80 ≤ b1 ∧ b1 ≤ 0xbf ∧ 0x80 ≤ b2 ∧ b2 ≤ 0xbf ∧ 0x80 ≤ b3 ∧ b3 ≤ 0xbf ∧ (b = 0xf0 → 0x90 ≤ b1) ∧ (b = 0xf4 → b1 ≤ 0x8f)
        · rw [if_pos hc] at h
          cases hd : utf8Decode f r' with
          | none => rw [hd] at h; cases h
          | some t' =>
            rw [hd] at h; cases h
            refine allOK_cons ?_ (ih r' t' hn.tail.tail.tail.tail hd)
            unfold OKc
            right
            obtain ⟨c1, c2, c3, c4, c5, c6, c7, c8⟩ := hc
            by_cases e0 : b = 0xf0
            · have := c7 e0; omega
            · by_cases e4 : b = 0xf4
              · have := c8 e4; omega
              · omega
        · rw [if_neg hc] at h; cases h
    · rw [if_neg h4] at h; cases h

def stripBom (b : List Nat) : List Nat := match b with | 0xef :: 0xbb :: 0xbf :: r => r | r => r

theorem loadBytes_eq (b : List Nat) :
    loadBytes b = match utf8Decode ((stripBom b).length + 1) (stripBom b) with | none => none | some t => parse t := rfl

theorem noSurLead_stripBom {b : List Nat} (h : NoSurLead b) : NoSurLead (stripBom b) := by
  unfold stripBom
  split
  · exact h.tail.tail.tail
  · exact h

/-- **every value loaded from a strict-UTF-8 file is well-formed** (in particular from every ASCII file, hence from every file the library
wrote): the `WF` hypothesis of the persistence theorems holds for anything that came out of `load_metadata_from_file` on such a file -/
theorem load_wf {b : List Nat} {v : J} (hb : NoSurLead b) (h : loadBytes b = some v) : v.WF := by
  rw [loadBytes_eq] at h
  cases hd : utf8Decode ((stripBom b).length + 1) (stripBom b) with
  | none => rw [hd] at h; cases h
  | some t => rw [hd] at h; exact parse_wf (utf8Decode_allOK _ _ _ (noSurLead_stripBom hb) hd) h

theorem load_wf_ascii {b : List Nat} {v : J} (hb : ∀ x ∈ b, x < 128) (h : loadBytes b = some v) : v.WF :=
  load_wf (noSurLead_ascii _ hb) h

end CCT
