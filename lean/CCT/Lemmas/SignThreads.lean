import CCT.Lemmas.Dict
import CCT.Model.SignThreads
/-! invariant of in-place signer threads under every schedule -/
namespace CCT

/-- what holds in every reachable state of a family of in-place signers started on payload `p0` and signature map `sigs0` -/
structure SInv (signers : Nat → Signer) (p0 : J) (sigs0 : List (PStr × J)) (sh : Envelope) (ts : Nat → SLocal) : Prop where
  signed : sh.signed = p0
  threads : ∀ i, (ts i).pc = 0 ∨ ((ts i).pc = 1 ∧ (ts i).payload = some p0) ∨ ((ts i).pc = 2 ∧ (ts i).entry = some ((signers i).entryOf p0))
      ∨ (3 ≤ (ts i).pc ∧ ∃ j, (signers j).key = (signers i).key ∧ dictGet (signers i).key sh.sigs = some ((signers j).entryOf p0))
  others : ∀ x, dictGet x sh.sigs = dictGet x sigs0 ∨ ∃ j, (signers j).key = x ∧ dictGet x sh.sigs = some ((signers j).entryOf p0)

theorem SInv.init (signers : Nat → Signer) (p0 : J) (sigs0 : List (PStr × J)) (ts : Nat → SLocal) (h0 : ∀ i, (ts i).pc = 0) :
    SInv signers p0 sigs0 { sigs := sigs0, signed := p0 } ts :=
  ⟨rfl, fun i => Or.inl (h0 i), fun _ => Or.inl rfl⟩

theorem SInv.step (signers : Nat → Signer) (p0 : J) (sigs0 : List (PStr × J)) (sh : Envelope) (ts : Nat → SLocal)
    (h : SInv signers p0 sigs0 sh ts) (i : Nat) :
    SInv signers p0 sigs0 (stepInPlace (signers i) sh (ts i)).1 (fun j => if j = i then (stepInPlace (signers i) sh (ts i)).2 else ts j) := by
  rcases h.threads i with hpc | ⟨hpc, hpl⟩ | ⟨hpc, hen⟩ | ⟨hpc, _⟩
  · -- reads the payload
    have e : stepInPlace (signers i) sh (ts i) = (sh, { ts i with pc := 1, payload := some sh.signed }) := by simp [stepInPlace, hpc]
    rw [e]
    refine ⟨h.signed, fun m => ?_, h.others⟩
    by_cases hm : m = i
    · subst hm; simp [h.signed]
    · simpa [hm] using h.threads m
  · -- computes its entry
    have e : stepInPlace (signers i) sh (ts i) = (sh, { ts i with pc := 2, entry := (ts i).payload.map (signers i).entryOf }) := by simp [stepInPlace, hpc]
    rw [e]
    refine ⟨h.signed, fun m => ?_, h.others⟩
    by_cases hm : m = i
    · subst hm; simp [hpl]
    · simpa [hm] using h.threads m
  · -- stores its entry into the shared map
    have e : stepInPlace (signers i) sh (ts i)
        = ({ sh with sigs := dictSet sh.sigs (signers i).key ((signers i).entryOf p0) }, { ts i with pc := 3 }) := by simp [stepInPlace, hpc, hen]
    rw [e]
    refine ⟨h.signed, fun m => ?_, fun x => ?_⟩
    · by_cases hm : m = i
      · subst hm
        simp only [if_true]
        exact Or.inr (Or.inr (Or.inr ⟨Nat.le_refl 3, m, rfl, dictGet_dictSet_same _ _ _⟩))
      · simp only [if_neg hm]
        rcases h.threads m with h0 | h1 | h2 | ⟨h3, j, hj, hg⟩
        · exact Or.inl h0
        · exact Or.inr (Or.inl h1)
        · exact Or.inr (Or.inr (Or.inl h2))
        · refine Or.inr (Or.inr (Or.inr ⟨h3, ?_⟩))
          by_cases hk : (signers m).key = (signers i).key
          · exact ⟨i, hk.symm, by rw [hk]; exact dictGet_dictSet_same _ _ _⟩
          · exact ⟨j, hj, by rw [dictGet_dictSet_other _ _ _ hk]; exact hg⟩
    · by_cases hx : x = (signers i).key
      · exact Or.inr ⟨i, hx.symm, by rw [hx]; exact dictGet_dictSet_same _ _ _⟩
      · rw [dictGet_dictSet_other _ _ _ hx]
        exact h.others x
  · -- finished: no step left
    obtain ⟨n, hn⟩ : ∃ n, (ts i).pc = n + 3 := ⟨(ts i).pc - 3, by omega⟩
    have e : stepInPlace (signers i) sh (ts i) = (sh, ts i) := by simp [stepInPlace, hn]
    rw [e]
    refine ⟨h.signed, fun m => ?_, h.others⟩
    by_cases hm : m = i
    · subst hm; simpa using h.threads m
    · simpa [hm] using h.threads m

theorem SInv.run (signers : Nat → Signer) (p0 : J) (sigs0 : List (PStr × J)) : ∀ (sched : List Nat) (sh : Envelope) (ts : Nat → SLocal),
    SInv signers p0 sigs0 sh ts → SInv signers p0 sigs0 (runSigners stepInPlace signers sh ts sched).1 (runSigners stepInPlace signers sh ts sched).2
  | [], _, _, h => h
  | i :: r, sh, ts, h => by
    simp only [runSigners]
    exact SInv.run signers p0 sigs0 r _ _ (SInv.step signers p0 sigs0 sh ts h i)

end CCT
