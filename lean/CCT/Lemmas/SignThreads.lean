import CCT.Lemmas.Dict
import CCT.Model.SignThreads
/-! invariant of in-place signer threads under every schedule -/
namespace CCT

/-- "every entry of the shared map is an original one or the entry of a signer that has finished" -/
def SOthers (signers : Nat → Signer) (p0 : J) (sigs0 sigs : List (PStr × J)) (ts : Nat → SLocal) : Prop :=
  ∀ x, dictGet x sigs = dictGet x sigs0 ∨ ∃ j, 3 ≤ (ts j).pc ∧ (signers j).key = x ∧ dictGet x sigs = some ((signers j).entryOf p0)

/-- what holds in every reachable state of a family of in-place signers started on payload `p0` and signature map `sigs0` -/
structure SInv (signers : Nat → Signer) (p0 : J) (sigs0 : List (PStr × J)) (sh : Envelope) (ts : Nat → SLocal) : Prop where
  signed : sh.signed = p0
  threads : ∀ i, (ts i).pc = 0 ∨ ((ts i).pc = 1 ∧ (ts i).payload = some p0) ∨ ((ts i).pc = 2 ∧ (ts i).entry = some ((signers i).entryOf p0))
      ∨ (3 ≤ (ts i).pc ∧ ∃ j, (signers j).key = (signers i).key ∧ dictGet (signers i).key sh.sigs = some ((signers j).entryOf p0))
  others : SOthers signers p0 sigs0 sh.sigs ts

theorem SOthers.mono {signers : Nat → Signer} {p0 : J} {sigs0 sigs : List (PStr × J)} {ts ts' : Nat → SLocal}
    (hm : ∀ j, 3 ≤ (ts j).pc → 3 ≤ (ts' j).pc) (h : SOthers signers p0 sigs0 sigs ts) : SOthers signers p0 sigs0 sigs ts' := by
  intro x
  rcases h x with h | ⟨j, hj, hk, hg⟩
  · exact Or.inl h
  · exact Or.inr ⟨j, hm j hj, hk, hg⟩

theorem SInv.init (signers : Nat → Signer) (p0 : J) (sigs0 : List (PStr × J)) (ts : Nat → SLocal) (h0 : ∀ i, (ts i).pc = 0) :
    SInv signers p0 sigs0 { sigs := sigs0, signed := p0 } ts :=
  ⟨rfl, fun i => Or.inl (h0 i), fun _ => Or.inl rfl⟩

theorem SInv.step (signers : Nat → Signer) (p0 : J) (sigs0 : List (PStr × J)) (sh : Envelope) (ts : Nat → SLocal)
    (h : SInv signers p0 sigs0 sh ts) (i : Nat) :
    SInv signers p0 sigs0 (stepInPlace (signers i) sh (ts i)).1 (fun j => if j = i then (stepInPlace (signers i) sh (ts i)).2 else ts j) := by
  rcases h.threads i with hpc | ⟨hpc, hpl⟩ | ⟨hpc, hen⟩ | ⟨hpc, hfin⟩
  · -- reads the payload
    have e : stepInPlace (signers i) sh (ts i) = (sh, { ts i with pc := 1, payload := some sh.signed }) := by simp [stepInPlace, hpc]
    rw [e]
    refine ⟨h.signed, fun m => ?_, h.others.mono fun j hj => ?_⟩
    · by_cases hm : m = i
      · subst hm; simp [h.signed]
      · simpa [hm] using h.threads m
    · by_cases hji : j = i
      · subst hji; omega
      · simpa [hji] using hj
  · -- computes its entry
    have e : stepInPlace (signers i) sh (ts i) = (sh, { ts i with pc := 2, entry := (ts i).payload.map (signers i).entryOf }) := by simp [stepInPlace, hpc]
    rw [e]
    refine ⟨h.signed, fun m => ?_, h.others.mono fun j hj => ?_⟩
    · by_cases hm : m = i
      · subst hm; simp [hpl]
      · simpa [hm] using h.threads m
    · by_cases hji : j = i
      · subst hji; omega
      · simpa [hji] using hj
  · -- stores its entry into the shared map
    have e : stepInPlace (signers i) sh (ts i)
        = ({ sh with sigs := dictSet sh.sigs (signers i).key ((signers i).entryOf p0) }, { ts i with pc := 3 }) := by simp [stepInPlace, hpc, hen]
    rw [e]
    have hpc3 : ∀ j, 3 ≤ (ts j).pc → 3 ≤ ((fun j => if j = i then ({ ts i with pc := 3 } : SLocal) else ts j) j).pc := by
      intro j hj
      by_cases hji : j = i
      · subst hji; omega
      · simpa [hji] using hj
    refine ⟨h.signed, fun m => ?_, fun x => ?_⟩
    · by_cases hm : m = i
      · subst hm
        simp only [if_true]
        exact Or.inr (Or.inr (Or.inr ⟨Nat.le_refl 3, m, rfl, dictGet_dictSet_same _ _ _⟩))
      · simp only [if_neg hm]
        rcases h.threads m with h0 | h1 | h2 | ⟨h3, j, hj, hg⟩
        · exact Or.inl h0
        · exact Or.inr (Or.inl h1)
        · exact Or.inr (Or.inr (Or.inl h2))
        · refine Or.inr (Or.inr (Or.inr ⟨h3, ?_⟩))
          by_cases hk : (signers m).key = (signers i).key
          · exact ⟨i, hk.symm, by rw [hk]; exact dictGet_dictSet_same _ _ _⟩
          · exact ⟨j, hj, by rw [dictGet_dictSet_other _ _ _ hk]; exact hg⟩
    · by_cases hx : x = (signers i).key
      · exact Or.inr ⟨i, by simp, hx.symm, by rw [hx]; exact dictGet_dictSet_same _ _ _⟩
      · rcases h.others x with ho | ⟨j, hj, hk, hg⟩
        · exact Or.inl (by rw [dictGet_dictSet_other _ _ _ hx]; exact ho)
        · exact Or.inr ⟨j, hpc3 j hj, hk, by rw [dictGet_dictSet_other _ _ _ hx]; exact hg⟩
  · -- finished: no step left
    obtain ⟨n, hn⟩ : ∃ n, (ts i).pc = n + 3 := ⟨(ts i).pc - 3, by omega⟩
    have e : stepInPlace (signers i) sh (ts i) = (sh, ts i) := by simp [stepInPlace, hn]
    rw [e]
    have hts : (fun j => if j = i then (sh, ts i).2 else ts j) = ts := by
      funext j; by_cases hji : j = i <;> simp [hji]
    rw [hts]
    exact ⟨h.signed, h.threads, h.others⟩

theorem SInv.run (signers : Nat → Signer) (p0 : J) (sigs0 : List (PStr × J)) : ∀ (sched : List Nat) (sh : Envelope) (ts : Nat → SLocal),
    SInv signers p0 sigs0 sh ts → SInv signers p0 sigs0 (runSigners stepInPlace signers sh ts sched).1 (runSigners stepInPlace signers sh ts sched).2
  | [], _, _, h => h
  | i :: r, sh, ts, h => by
    simp only [runSigners]
    exact SInv.run signers p0 sigs0 r _ _ (SInv.step signers p0 sigs0 sh ts h i)

/-- a thread that is never scheduled stays where it is -/
theorem runSigners_untouched (step : Signer → Envelope → SLocal → Envelope × SLocal) (signers : Nat → Signer) (m : Nat) :
    ∀ (sched : List Nat) (sh : Envelope) (ts : Nat → SLocal), m ∉ sched → (runSigners step signers sh ts sched).2 m = ts m
  | [], _, _, _ => rfl
  | i :: r, sh, ts, h => by
    simp only [runSigners]
    rw [runSigners_untouched step signers m r _ _ (fun hm => h (List.mem_cons_of_mem _ hm))]
    have : m ≠ i := fun e => h (e ▸ List.mem_cons_self)
    simp [this]

end CCT
