import CCT.Model.Cli
/-!
# CCT.Model.SignSteps — the step sequence of in-place repodata signing with fault injection (C18)

`sign_all_in_repodata(fname, key)` (`signing.py:148-213`) followed through `write_metadata_to_file` (`common.py:151-164`), one step per
group of source lines; the state holds the target file's bytes, the log of `open()` calls on it and the working memory.  A fault plan
`some k` raises an exception *instead of* executing step number `k` (a hardware key unplugged, a full disk, Ctrl-C, a bug …).
-/
namespace CCT

inductive OpenEv where
  | read | write
  deriving DecidableEq, Repr

structure SignSt where
  file : Option Bytes                 -- bytes of the target file (`none` = does not exist)
  opens : List OpenEv                 -- every open() of the target so far
  doc : J                             -- working copy of the parsed document
  sigs : List (PStr × J)              -- the new "signatures" section being accumulated
  out : Option Bytes                  -- serialized result, once computed

inductive SignStep where
  | validate                          -- 160-165: argument checks, key objects
  | openRead                          -- 169 → common.py:143 open(fname, "rb")
  | parse                             -- common.py:144 json.load
  | checkPackages                     -- 175
  | reset                             -- 184: repodata["signatures"] = {}
  | signOne (name : PStr) (md : J)    -- 193-203 / 207-210: one artifact
  | finish                            -- the accumulated section is part of the document
  | serialize                         -- common.py:161 canonserialize
  | openTrunc                         -- common.py:163 open(filename, "wb")  — truncates
  | write                             -- common.py:164 fobj.write(...)
  deriving Repr

/-- the two steps of the output phase -/
def SignStep.isOutput : SignStep → Bool
  | .openTrunc | .write => true
  | _ => false

def execStep (C : CryptoFns) (key : J) (st : SignSt) : SignStep → Res SignSt
  | .validate => do checkHexKeyJ key; pure st
  | .openRead =>
    match st.file with
    | some _ => .ok { st with opens := st.opens ++ [.read] }
    | none => .error .os
  | .parse =>
    match loadFile st.file with
    | .ok d => .ok { st with doc := d }
    | .error e => .error e
  | .checkPackages => do
    if !(← pyInStr (ps! "packages") st.doc) then .error .arg else pure st
  | .reset =>
    match st.doc with
    | .obj top => .ok { st with doc := .obj (dictSet top (ps! "signatures") (.obj [])), sigs := [] }
    | _ => .error .arg
  | .signOne name md =>
    let seed := unhex (strOf key)
    .ok { st with sigs := dictSet st.sigs name (.obj [(hexOfBytes (C.pubOf seed), sigDictOf (serializeAndSign C md seed))]) }
  | .finish =>
    match st.doc with
    | .obj top => .ok { st with doc := .obj (dictSet top (ps! "signatures") (.obj st.sigs)) }
    | _ => .error .arg
  | .serialize => .ok { st with out := some (ser st.doc) }
  | .openTrunc => .ok { st with opens := st.opens ++ [.write], file := some [] }
  | .write => .ok { st with file := st.out }

inductive RunResult where
  | done
  | failed (e : PyErr)                -- the library's own error (bad key, malformed input, …)
  | injected (at_ : Nat)              -- the injected fault
  deriving DecidableEq, Repr

/-- run the steps from index `i`, raising the injected fault at step `fault` -/
def runSteps (C : CryptoFns) (key : J) (fault : Option Nat) : Nat → List SignStep → SignSt → RunResult × SignSt
  | _, [], st => (.done, st)
  | i, s :: r, st =>
    if fault = some i then (.injected i, st)
    else match execStep C key st s with
      | .ok st' => runSteps C key fault (i + 1) r st'
      | .error e => (.failed e, st)

/-- the artifacts of both sections, in signing order (empty when the document has no such objects: the run fails earlier) -/
def artifactsOf (doc : J) : Res (List (PStr × J)) :=
  match doc with
  | .obj top =>
    match dictGet (ps! "packages") top with
    | some (.obj a) =>
      match dictGet (ps! "packages.conda") top with
      | none => .ok a
      | some (.obj b) => .ok (a ++ b)
      | some _ => .error .attribute
    | some _ => .error .attribute
    | none => .ok []
  | _ => .ok []

/-- the step sequence for a given file content (the artifact steps are those of the document in the file) -/
def planArts (file : Option Bytes) : List (PStr × J) :=
  match loadFile file with
  | .ok d => (match artifactsOf d with | .ok a => a | .error _ => [])
  | .error _ => []

def signPlan (file : Option Bytes) : List SignStep :=
  [.validate, .openRead, .parse, .checkPackages, .reset] ++ (planArts file).map (fun a => .signOne a.1 a.2) ++ [.finish, .serialize, .openTrunc, .write]

def initSt (file : Option Bytes) : SignSt := { file := file, opens := [], doc := .null, sigs := [], out := none }

/-- `sign_all_in_repodata` on a file with these bytes, under a fault plan.  (A `packages` / `packages.conda` value that is not a dict
makes `.items()` fail with `AttributeError` when the loop is reached: modelled by `artifactsOf` failing at the `reset` step.) -/
def runSignRepo (C : CryptoFns) (key : J) (file : Option Bytes) (fault : Option Nat) : RunResult × SignSt :=
  match loadFile file with
  | .ok d =>
    match artifactsOf d with
    | .error e =>
      -- the run proceeds through validate / load / checkPackages / reset and then fails inside the loop header
      let r := runSteps C key fault 0 [.validate, .openRead, .parse, .checkPackages, .reset] (initSt file)
      (match r.1 with | .done => (.failed e, r.2) | x => (x, r.2))
    | .ok _ => runSteps C key fault 0 (signPlan file) (initSt file)
  | .error _ => runSteps C key fault 0 (signPlan file) (initSt file)

end CCT
