import CCT.Model.Signing
/-!
# CCT.Model.IntLimit — the verifiers and the signer as CPython runs them on payloads with huge integers

`verify_signable` serializes the payload (`canonserialize(signable["signed"])`, `authentication.py:379`) after its argument checks and before it looks at any
signature; `sign_signable` serializes it (`signing.py:125`) after its own.  CPython's encoder raises `ValueError` for an integer of more than 4300 digits
(`serPy`), an argument error.  The models in `Model/Auth.lean` / `Model/Signing.lean` serialize with the total `ser`; this layer adds the refusal: whenever the
underlying model gets as far as serializing (its outcome is acceptance or a signature error — every other outcome is raised before), a payload that the encoder
refuses turns the outcome into an argument error.  `verify_delegation` and `verify_root` reach `verify_signable` last, on the untrusted envelope.
-/
namespace CCT

/-- the payload of an envelope-shaped value (`null` otherwise: such values never reach serialization) -/
def payloadOf : J → J
  | .obj top => (dictGet (ps! "signed") top).getD .null
  | _ => .null

/-- the refusal of the encoder laid over an outcome of a verifier -/
def withIntLimit (payload : J) (r : Res Unit) : Res Unit :=
  match r with
  | .ok _ => if payload.intsOK then r else .error .arg
  | .error .signature => if payload.intsOK then r else .error .arg
  | _ => r

def verifySignablePy (C : CryptoFns) (signable keys thr gpg : PyVal) : Res Unit :=
  match signable with
  | .j s => withIntLimit (payloadOf s) (verifySignable C signable keys thr gpg)
  | _ => verifySignable C signable keys thr gpg

def verifyDelegationPy (C : CryptoFns) (name untrusted trusted gpg : PyVal) : Res Unit :=
  match untrusted with
  | .j u => withIntLimit (payloadOf u) (verifyDelegation C name untrusted trusted gpg)
  | _ => verifyDelegation C name untrusted trusted gpg

def verifyRootPy (C : CryptoFns) (trusted untrusted : PyVal) : Res Unit :=
  match untrusted with
  | .j u => withIntLimit (payloadOf u) (verifyRoot C trusted untrusted)
  | _ => verifyRoot C trusted untrusted

/-- `sign_signable`: a refused payload is an argument error (nothing is signed) -/
def signSignablePy (C : CryptoFns) (env key : PyVal) : Res J :=
  match env, signSignable C env key with
  | .j e, .ok r => if (payloadOf e).intsOK then .ok r else .error .arg
  | _, r => r

end CCT
