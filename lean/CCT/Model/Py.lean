import CCT.Model.Json
/-!
# CCT.Model.Py — the slice of Python semantics the library relies on

* `PyErr`: exception *classes* as the properties observe them.  `TypeError` and `ValueError` (and their
  subclasses `UnicodeError`, `JSONDecodeError`) are one class `arg`: no caller and no property
  distinguishes them (every `except` in the library that names one names both).
* `PyVal`: what an argument position can hold: a JSON-compatible value `J`, or one of the non-JSON kinds
  the public functions are typed against (tuple, bytes, bytearray, key objects, timedelta, anything else).
* hex helpers: `bytes.fromhex`, `str.isalnum`/`str.lower` on the strings that reach them, `bytes.hex`.
-/
namespace CCT

abbrev Bytes := List Nat         -- each element < 256 wherever it matters (stated in lemmas)

inductive PyErr where
  | arg                          -- TypeError | ValueError (incl. UnicodeError, JSONDecodeError)
  | signature                    -- conda_content_trust.common.SignatureError
  | metadataVerification         -- MetadataVerificationError
  | unknownRole                  -- UnknownRoleError
  | invalidSignature             -- cryptography.exceptions.InvalidSignature
  | key                          -- KeyError            (internal: never to escape)
  | attribute                    -- AttributeError      (internal)
  | overflow                     -- OverflowError       (internal)
  | assertion                    -- AssertionError      (internal)
  | struct_                      -- struct.error        (internal; needs a ≥ 4 GiB header)
  | importErr                    -- ImportError (missing optional dependency)
  | os                           -- OSError (file system)
  | eof                          -- EOFError (`input()` at end of input; interactive editor only)
  deriving DecidableEq, Repr, Inhabited

/-- the library's own hierarchy `CCT_Error` -/
def PyErr.isCct : PyErr → Bool
  | .signature | .metadataVerification | .unknownRole => true
  | _ => false

/-- "documented families" of C13 for validators and verifiers -/
def PyErr.documented : PyErr → Bool
  | .arg | .signature | .metadataVerification | .unknownRole => true
  | _ => false

def PyErr.name : PyErr → String
  | .arg => "ArgError" | .signature => "SignatureError" | .metadataVerification => "MetadataVerificationError"
  | .unknownRole => "UnknownRoleError" | .invalidSignature => "InvalidSignature" | .key => "KeyError"
  | .attribute => "AttributeError" | .overflow => "OverflowError" | .assertion => "AssertionError"
  | .struct_ => "StructError" | .importErr => "ImportError" | .os => "OSError" | .eof => "EOFError"

abbrev Res (α : Type) := Except PyErr α

instance {α : Type} [DecidableEq α] : DecidableEq (Res α) := fun a b =>
  match a, b with
  | .ok x, .ok y => if h : x = y then isTrue (by rw [h]) else isFalse (by intro e; cases e; exact h rfl)
  | .error e, .error f => if h : e = f then isTrue (by rw [h]) else isFalse (by intro x; cases x; exact h rfl)
  | .ok _, .error _ => isFalse (by intro x; cases x)
  | .error _, .ok _ => isFalse (by intro x; cases x)

def Res.isOk {α} : Res α → Bool
  | .ok _ => true
  | .error _ => false

/-- `try: f(x); return True  except (TypeError, ValueError): return False` — any other exception
propagates, which is what the `is_*` predicates of `common.py` do. -/
def predOf (r : Res Unit) : Res Bool :=
  match r with
  | .ok _ => .ok true
  | .error .arg => .ok false
  | .error e => .error e

/-- kinds of Python object a public function may be handed -/
inductive PyVal where
  | j (v : J)                    -- dict / list / str / int / float / bool / None, nested arbitrarily
  | tuple (xs : List J)
  | bytes (b : Bytes)
  | bytearray (b : Bytes)
  | pubkey (raw : Bytes)         -- an Ed25519PublicKey object holding these 32 bytes
  | privkey (seed : Bytes)       -- an Ed25519PrivateKey object holding this 32-byte seed
  | timedelta (secs : Int)
  | opaque (tag : Nat)           -- object(), set(), complex, function, module, … : no `decode`, not a str/dict/list/number
  deriving Repr, Inhabited

-- dict helpers (association list in insertion order, keys distinct for every dict Python can build) ----

def dictGet (k : PStr) : List (PStr × J) → Option J
  | [] => none
  | (k', v) :: r => if k' = k then some v else dictGet k r

def dictHas (k : PStr) (kvs : List (PStr × J)) : Bool := (dictGet k kvs).isSome

def dictKeys (kvs : List (PStr × J)) : List PStr := kvs.map (·.1)

/-- `set(d) == {names…}` -/
def keysetEq (kvs : List (PStr × J)) (names : List PStr) : Bool :=
  (dictKeys kvs).all (fun k => names.contains k) && names.all (fun n => (dictKeys kvs).contains n)

def dictDel (k : PStr) : List (PStr × J) → List (PStr × J)
  | [] => []
  | (k', v) :: r => if k' = k then r else (k', v) :: dictDel k r

/-- Python `d[k]` on a dict: `KeyError` when absent -/
def dictIndex (k : PStr) (kvs : List (PStr × J)) : Res J :=
  match dictGet k kvs with
  | some v => .ok v
  | none => .error .key

/-- Python `x[k]` with a `str` subscript on an arbitrary JSON value -/
def pyIndexStr (k : PStr) : J → Res J
  | .obj kvs => dictIndex k kvs
  | _ => .error .arg          -- list/str: "indices must be integers"; None/number/bool: "not subscriptable" (TypeError)

/-- is `needle` a contiguous sub-list of `hay` (Python `needle in hay` for `str`) -/
def isInfix (needle : PStr) : PStr → Bool
  | [] => needle.isEmpty
  | c :: r => needle.isPrefixOf (c :: r) || isInfix needle r

/-- Python `k in x` with a `str` left operand on an arbitrary JSON value -/
def pyInStr (k : PStr) : J → Res Bool
  | .obj kvs => .ok (dictHas k kvs)
  | .arr xs => .ok (xs.any fun x => match x with | .str s => s == k | _ => false)
  | .str s => .ok (isInfix k s)
  | _ => .error .arg          -- "argument of type 'int' is not iterable"

/-- the code points of a `str` value (`[]` for anything else; only used after a type check) -/
def strOf : J → PStr
  | .str s => s
  | _ => []

/-- int-ness as `isinstance(x, int)` sees it: `bool` is an `int` -/
def asInt : J → Option Int
  | .int z => some z
  | .bool true => some 1
  | .bool false => some 0
  | _ => none

-- hex ---------------------------------------------------------------------------------------------

def isAsciiSpace (c : Nat) : Bool := c = 32 || (9 ≤ c && c ≤ 13)

def isLowerHexDigit (c : Nat) : Bool := (48 ≤ c && c ≤ 57) || (97 ≤ c && c ≤ 102)

/-- `bytes.fromhex(s)` for a `str` (CPython 3.12 `_PyBytes_FromHex`): ASCII whitespace is skipped
between byte pairs, never inside one; anything else that is not a hex digit is a `ValueError`. -/
def pyFromHex : PStr → Option Bytes
  | [] => some []
  | [c] => if isAsciiSpace c then some [] else none
  | c :: d :: r =>
    if isAsciiSpace c then pyFromHex (d :: r)
    else match hexVal c, hexVal d with
      | some h, some l => (pyFromHex r).map (fun t => (h * 16 + l) :: t)
      | _, _ => none

/-- `str.isalnum()` restricted to ASCII strings (only reached after `fromhex` succeeded, see
`pyFromHex_ascii`): non-empty and every character a letter or digit -/
def asciiIsAlnum (s : PStr) : Bool :=
  !s.isEmpty && s.all fun c => (48 ≤ c && c ≤ 57) || (65 ≤ c && c ≤ 90) || (97 ≤ c && c ≤ 122)

/-- `s.lower() == s` on ASCII strings -/
def asciiIsLower (s : PStr) : Bool := s.all fun c => !(65 ≤ c && c ≤ 90)

/-- `bytes.hex()` / `binascii.hexlify(...).decode()` -/
def hexOfBytes : Bytes → PStr
  | [] => []
  | b :: r => hexDigit (b / 16 % 16) :: hexDigit (b % 16) :: hexOfBytes r

/-- strict decoder used once a string is known to be a lowercase hex string -/
def unhex : PStr → Bytes
  | c :: d :: r => ((hexVal c).getD 0 * 16 + (hexVal d).getD 0) :: unhex r
  | _ => []

/-- big-endian 32-bit, `struct.pack(">I", n)` -/
def be32 (n : Nat) : Bytes := [n / 16777216 % 256, n / 65536 % 256, n / 256 % 256, n % 256]

end CCT
