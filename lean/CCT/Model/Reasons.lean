import CCT.Lemmas.VerifyRoot
/-!
# CCT.Model.Reasons — the set of rejection classes that *apply* to a call of `verify_root` / `verify_delegation`

The verifiers report the first failing check; which one comes first is an accident of statement order that no property
fixes (C13 names the class for each *reason*, not a priority among reasons that hold at once).  The functions below
compute, independently of any order, every rejection class whose reason holds for the arguments; `Props/C13.lean` proves
that the model verifier's answer is always one of them and that the set is empty exactly on acceptance.  The
correspondence check uses them to tell a re-ordering of independent checks (harmless) from a wrong class.
-/
namespace CCT

def resOk (r : Res Unit) : Bool := match r with | .ok _ => true | .error _ => false

/-- executable form of `IsRootMd` -/
def rootMdB (m : J) : Bool :=
  resOk (checkDelegatingMdJ m) &&
  (match typeOf m with | .str ty => ty == ps! "root" | _ => false) &&
  (roleOf m (ps! "root")).isSome

def ruleOkB (C : CryptoFns) (gpg : Bool) (d u : J) : Bool :=
  resOk (verifySignableJ C u (jget (ps! "pubkeys") d) (jget (ps! "threshold") d) gpg)

/-- every rejection class applicable to `verify_root(t, u)`; `[]` = nothing to object to -/
def verifyRootReasons (C : CryptoFns) (t u : J) : List PyErr :=
  if !(rootMdB t && rootMdB u) then [.arg]
  else
    (if versionOf t + 1 ≠ versionOf u then [.metadataVerification] else []) ++
    (if ruleOkB C true (rootRule t) u && ruleOkB C true (rootRule u) u then [] else [.signature])

/-- executable form of `TypeMismatch` -/
def typeMismatchB (name : PStr) (u : J) : Bool :=
  resOk (checkDelegatingMdJ (signedOnlyEnvelope (signedOf u))) && strOf (typeOf u) != name

/-- every rejection class applicable to `verify_delegation(name, u, t, gpg)` -/
def verifyDelegationReasons (C : CryptoFns) (name : PStr) (u t : J) (gpg : Bool) : List PyErr :=
  if !(resOk (checkDelegatingMdJ t) && isSignableJ u) then [.arg]
  else
    (if typeMismatchB name u then [.metadataVerification] else []) ++
    (match roleOf t name with
     | none => [.unknownRole]
     | some d => if ruleOkB C gpg d u then [] else [.signature])

end CCT
