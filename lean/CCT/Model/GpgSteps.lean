import CCT.Model.RootSigning
import CCT.Model.SignSteps
/-!
# the step sequence of `sign_root_metadata_via_gpg(fname, fingerprint)` (`root_signing.py:260-274`) with fault injection (C18, GPG path)
-/
namespace CCT

structure GpgSt where
  file : Option Bytes
  opens : List OpenEv
  env : J                      -- the loaded envelope
  data : Bytes                 -- canonical bytes of its signed part
  sig : J                      -- the transcribed signature entry
  q : PStr                     -- raw public key value under which it is filed
  out : Option Bytes

inductive GpgStep where
  | openRead | parse           -- load_metadata_from_file
  | checkDep                   -- _check_sslib_available (214)
  | checkSignable              -- 217
  | serializeSigned            -- 225
  | callSigner                 -- sign_via_gpg: argument checks + the external signer (165-203)
  | fetchKey                   -- fetch_keyval_from_gpg (247)
  | attach                     -- 255
  | serialize | openTrunc | write   -- write_metadata_to_file
  deriving Repr, DecidableEq

def GpgStep.isOutput : GpgStep → Bool
  | .openTrunc | .write => true
  | _ => false

def gpgPlan : List GpgStep := [.openRead, .parse, .checkDep, .checkSignable, .serializeSigned, .callSigner, .fetchKey, .attach, .serialize, .openTrunc, .write]

def execGpgStep (G : GpgBackend) (sslib : Bool) (fpr : J) (st : GpgSt) : GpgStep → Res GpgSt
  | .openRead => match st.file with
    | some _ => .ok { st with opens := st.opens ++ [.read] }
    | none => .error .os
  | .parse => match loadFile st.file with
    | .ok d => .ok { st with env := d }
    | .error e => .error e
  | .checkDep => do checkSslib sslib; pure st
  | .checkSignable => if isSignableJ st.env then .ok st else .error .arg
  | .serializeSigned => match st.env with
    | .obj top => do let s ← dictIndex (ps! "signed") top; pure { st with data := ser s }
    | _ => .error .arg
  | .callSigner => do
    let s ← signViaGpg G sslib (.bytes st.data) fpr false
    pure { st with sig := s }
  | .fetchKey => do
    let q ← fetchKeyvalFromGpg G sslib fpr
    pure { st with q := q }
  | .attach => match st.env with
    | .obj top => do
      let sigs ← dictIndex (ps! "signatures") top
      match sigs with
      | .obj entries => pure { st with env := .obj (dictSet top (ps! "signatures") (.obj (dictSet entries st.q st.sig))) }
      | _ => .error .attribute
    | _ => .error .arg
  | .serialize => .ok { st with out := some (ser st.env) }
  | .openTrunc => .ok { st with opens := st.opens ++ [.write], file := some [] }
  | .write => .ok { st with file := st.out }

def runGpgSteps (G : GpgBackend) (sslib : Bool) (fpr : J) (fault : Option Nat) : Nat → List GpgStep → GpgSt → RunResult × GpgSt
  | _, [], st => (.done, st)
  | i, s :: r, st =>
    if fault = some i then (.injected i, st)
    else match execGpgStep G sslib fpr st s with
      | .ok st' => runGpgSteps G sslib fpr fault (i + 1) r st'
      | .error e => (.failed e, st)

def initGpgSt (file : Option Bytes) : GpgSt := { file := file, opens := [], env := .null, data := [], sig := .null, q := [], out := none }

def runGpgSign (G : GpgBackend) (sslib : Bool) (fpr : J) (file : Option Bytes) (fault : Option Nat) : RunResult × GpgSt :=
  runGpgSteps G sslib fpr fault 0 gpgPlan (initGpgSt file)

end CCT
