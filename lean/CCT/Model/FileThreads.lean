import CCT.Model.Files
/-!
# CCT.Model.FileThreads — several in-place file jobs at the same time (C11, C18)

An in-place job on a named file (`sign_all_in_repodata(fname, key)`, `sign_root_metadata_via_gpg(fname, …)`, load + `sign_signable` + write) reads the
file, computes the new content without touching anything shared, and — if that succeeded — ends with one write of the *named* file.  A job is that program:
three atomic steps over a shared file system.  Jobs run as threads; a schedule is the list of thread numbers in the order in which they take one step each.
`Props/C11.lean` proves that jobs on different names do not disturb one another under any schedule.
-/
namespace CCT

/-- an in-place job: the file it works on and what it makes of the file's content (`none` = the job fails: nothing is written) -/
structure FileJob where
  name : PStr
  run : Option Bytes → Option Bytes

structure FLocal where
  pc : Nat := 0
  input : Option (Option Bytes) := none
  output : Option (Option Bytes) := none

def stepJob (jb : FileJob) (fs : FS) (st : FLocal) : FS × FLocal :=
  match st.pc with
  | 0 => (fs, { st with pc := 1, input := some (fs jb.name) })
  | 1 => (fs, { st with pc := 2, output := st.input.map jb.run })
  | 2 => match st.output with
         | some (some b) => (fs.put jb.name b, { st with pc := 3 })
         | _ => (fs, { st with pc := 3 })
  | _ => (fs, st)

def runJobs (jobs : Nat → FileJob) : FS → (Nat → FLocal) → List Nat → FS × (Nat → FLocal)
  | fs, ts, [] => (fs, ts)
  | fs, ts, i :: r =>
    let (fs', st') := stepJob (jobs i) fs (ts i)
    runJobs jobs fs' (fun j => if j = i then st' else ts j) r

/-- what the job leaves in its file when it runs alone on `fs` -/
def jobResult (jb : FileJob) (fs : FS) : Option Bytes :=
  match jb.run (fs jb.name) with
  | some b => some b
  | none => fs jb.name

end CCT
