import CCT.Model.Signing
/-!
# CCT.Model.Files — named files (C08, C18)

`write_metadata_to_file(metadata, filename)` (`common.py:151-164`) serializes first and then opens the named file for writing, truncating it; the named
file afterwards holds the serialization, whatever it held before, and no other file is touched.  `load_metadata_from_file(fname)` (`common.py:139-148`)
parses what the named file holds.  A file system is a function from names to contents; names are compared as given (the kernel resolves them — the
library never rewrites a name).
-/
namespace CCT

abbrev FS := PStr → Option Bytes

def FS.put (fs : FS) (name : PStr) (b : Bytes) : FS := fun n => if n = name then some b else fs n

/-- `write_metadata_to_file`: `none` when CPython's encoder refuses the value (nothing is opened then) -/
def writeMd (fs : FS) (name : PStr) (v : J) : Option FS := (serPy v).map (fs.put name)

/-- `load_metadata_from_file`: `none` = no such file, or not JSON -/
def loadMd (fs : FS) (name : PStr) : Option J := (fs name).bind loadBytes

/-- load, `sign_signable`, write back under the same name (what `sign-artifacts`-style tools and the GPG path do around the in-memory signing) -/
def signFile (C : CryptoFns) (fs : FS) (name : PStr) (seed : Bytes) : Option FS :=
  match loadMd fs name with
  | none => none
  | some env => match signSignableJ C env seed with
    | .ok env' => writeMd fs name env'
    | .error _ => none

end CCT
