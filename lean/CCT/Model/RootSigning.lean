import CCT.Model.Cli
/-!
# CCT.Model.RootSigning — `conda_content_trust/root_signing.py` (GPG signing path)

`sign_via_gpg` (50-205), `sign_root_metadata_dict_via_gpg` (208-257), `fetch_keyval_from_gpg` (277-304), `sign_root_metadata_via_gpg` (260-274).
The optional dependency `securesystemslib.gpg.functions` is a *parameter* (`GpgBackend`): `create_signature(data, keyid)` returns the
hashed-header bytes and the 64-byte signature as hex strings, `export_pubkey(keyid)` the raw public value `q` as hex.
-/
namespace CCT

structure GpgBackend where
  /-- `create_signature(data, keyid)`: `(other_headers hex, signature hex)` -/
  createSignature : (data : Bytes) → (fpr : PStr) → Res (PStr × PStr)
  /-- `export_pubkey(keyid)["keyval"]["public"]["q"]` -/
  exportQ : (fpr : PStr) → Res PStr

/-- `_check_sslib_available()` (43-47) -/
def checkSslib (available : Bool) : Res Unit := if available then okU else .error .importErr

/-- `sign_via_gpg(data_to_sign, gpg_key_fingerprint, include_fingerprint)` (50-205) -/
def signViaGpg (G : GpgBackend) (sslib : Bool) (data : PyVal) (fpr : J) (includeFingerprint : Bool) : Res J := do
  checkSslib sslib                                  -- 165
  checkGpgFingerprintJ fpr                          -- 168
  checkBytesLike data                               -- 169
  match data with
  | .bytes d | .bytearray d =>
    let (oh, sg) ← G.createSignature d (strOf fpr)  -- 171
    -- {'keyid': fpr, 'other_headers': oh, 'signature': sg}; optionally sig["see_also"] = sig["keyid"]; del sig["keyid"]   (198-203)
    if includeFingerprint then
      pure (.obj [(ps! "other_headers", .str oh), (ps! "signature", .str sg), (ps! "see_also", fpr)])
    else
      pure (.obj [(ps! "other_headers", .str oh), (ps! "signature", .str sg)])
  | _ => .error .arg

/-- `fingerprint.lower().replace(" ", "").replace("\xa0", "")` (296-298), on the hex alphabet and the two space characters -/
def normalizeFingerprint (s : PStr) : PStr := (asciiLower s).filter (fun c => c ≠ 32 ∧ c ≠ 0xa0)

/-- `fetch_keyval_from_gpg(fingerprint)` (277-304) -/
def fetchKeyvalFromGpg (G : GpgBackend) (sslib : Bool) (fpr : J) : Res PStr := do
  checkSslib sslib                                  -- 294
  match fpr with
  | .str s =>
    let f := normalizeFingerprint s
    checkGpgFingerprintJ (.str f)                   -- 300
    G.exportQ f                                     -- 302-304
  | _ => .error .attribute                          -- `.lower()` on a non-str

/-- `sign_root_metadata_dict_via_gpg(root_signable, gpg_key_fingerprint)` (208-257): the new envelope -/
def signRootMdDictViaGpg (G : GpgBackend) (sslib : Bool) (env fpr : J) : Res J := do
  checkSslib sslib                                  -- 214
  if !isSignableJ env then .error .arg              -- 217
  else match env with
    | .obj top =>
      let signed ← dictIndex (ps! "signed") top
      let sigDict ← signViaGpg G sslib (.bytes (ser signed)) fpr false      -- 225-227
      let rawPub ← fetchKeyvalFromGpg G sslib fpr                           -- 247
      let sigs ← dictIndex (ps! "signatures") top
      match sigs with
      | .obj entries => pure (.obj (dictSet top (ps! "signatures") (.obj (dictSet entries rawPub sigDict))))   -- 255
      | _ => .error .attribute
    | _ => .error .arg

/-- `sign_root_metadata_via_gpg(fname, fingerprint)` (260-274) on the bytes of the file: the new file content -/
def signRootMdFileViaGpg (G : GpgBackend) (sslib : Bool) (file : Option Bytes) (fpr : J) : Res Bytes := do
  let md ← loadFile file                            -- 267
  let env' ← signRootMdDictViaGpg G sslib md fpr     -- 269
  pure (ser env')                                   -- 274

/-- arguments of any Python kind: everything outside the JSON universe fails the first format check it meets (all argument errors) -/
def signRootMdDictViaGpgV (G : GpgBackend) (sslib : Bool) (env fpr : PyVal) : Res J := do
  checkSslib sslib
  match env, fpr with
  | .j e, .j f => signRootMdDictViaGpg G sslib e f
  | _, _ => .error .arg

/-- the file-level function with a fingerprint argument of any kind: the file is read first (255-267), then the dict-level function runs -/
def signRootMdFileViaGpgV (G : GpgBackend) (sslib : Bool) (file : Option Bytes) (fpr : PyVal) : Res Bytes := do
  let md ← loadFile file
  let env' ← signRootMdDictViaGpgV G sslib (.j md) fpr
  pure (ser env')

def signViaGpgV (G : GpgBackend) (sslib : Bool) (data fpr : PyVal) (includeFingerprint : Bool) : Res J := do
  checkSslib sslib
  match fpr with
  | .j f => signViaGpg G sslib data f includeFingerprint
  | _ => .error .arg

def fetchKeyvalFromGpgV (G : GpgBackend) (sslib : Bool) (fpr : PyVal) : Res PStr := do
  checkSslib sslib
  match fpr with
  | .j f => fetchKeyvalFromGpg G sslib f
  | .bytes _ | .bytearray _ => .error .arg     -- bytes.replace(" ", "") : TypeError
  | _ => .error .attribute

-- CLI front ends (`cli.py:180-191, 211-214`) ---------------------------------------------------------------

/-- `"".join(s.split()).lower()` (`cli.py:186, 212`): all whitespace removed, lower-cased (on the hex alphabet) -/
def stripAllSpaceLower (s : PStr) : PStr := asciiLower (s.filter fun c => !isPySpace c)

/-- `cli_gpg_sign` (180-191): outcome and the file afterwards -/
def cliGpgSign (G : GpgBackend) (sslib : Bool) (file : Option Bytes) (fprArg : PStr) : CliOutcome × Option Bytes :=
  match signRootMdFileViaGpg G sslib file (.str (stripAllSpaceLower fprArg)) with
  | .ok b => (.returned none, some b)
  | .error e => (.raised e, file)

/-- `cli_gpg_key_lookup` (211-214): outcome and the key value printed -/
def cliGpgKeyLookup (G : GpgBackend) (sslib : Bool) (fprArg : PStr) : CliOutcome × Option PStr :=
  match fetchKeyvalFromGpg G sslib (.str (stripAllSpaceLower fprArg)) with
  | .ok q => (.returned none, some q)
  | .error e => (.raised e, none)

end CCT
