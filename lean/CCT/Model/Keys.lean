import CCT.Model.Auth
/-!
# CCT.Model.Keys — the key helper classes `PrivateKey` / `PublicKey` / `MixinKey` (`common.py:167-273`), `checkformat_key` (885-899)

A key object is `PyVal.privkey seed` / `PyVal.pubkey raw`.  `Ed25519PrivateKey.from_private_bytes` and
`Ed25519PublicKey.from_public_bytes` accept exactly 32 bytes (`ValueError` otherwise; any 32 bytes are accepted by OpenSSL).
-/
namespace CCT

/-- `PrivateKey.to_bytes(key)`: `key.private_bytes(Raw, Raw, NoEncryption())`; a public key object has no such method -/
def privToBytes : PyVal → Res Bytes
  | .privkey s => .ok s
  | .pubkey _ => .error .attribute
  | _ => .error .attribute

/-- `PublicKey.to_bytes(key)`: `key.public_bytes(Raw, Raw)`; a private key object has no `public_bytes` -/
def pubToBytes : PyVal → Res Bytes
  | .pubkey p => .ok p
  | _ => .error .attribute

/-- `PrivateKey.from_bytes(b)` -/
def privFromBytes : PyVal → Res PyVal
  | .bytes b | .bytearray b => if b.length = 32 then .ok (.privkey b) else .error .arg
  | _ => .error .arg                    -- checkformat_byteslike

/-- `PublicKey.from_bytes(b)` -/
def pubFromBytes : PyVal → Res PyVal
  | .bytes b | .bytearray b => if b.length = 32 then .ok (.pubkey b) else .error .arg
  | _ => .error .arg

/-- `cls.to_hex(key)` = `hexlify(cls.to_bytes(key)).decode()` -/
def privToHex (k : PyVal) : Res PStr := do let b ← privToBytes k; pure (hexOfBytes b)
def pubToHex (k : PyVal) : Res PStr := do let b ← pubToBytes k; pure (hexOfBytes b)

/-- `cls.from_hex(s)`: `checkformat_hex_key`, `unhexlify`, `from_bytes`, `checkformat_key` -/
def privFromHex : PyVal → Res PyVal
  | .j v => do checkHexKeyJ v; privFromBytes (.bytes (unhex (strOf v)))
  | _ => .error .arg
def pubFromHex : PyVal → Res PyVal
  | .j v => do checkHexKeyJ v; pubFromBytes (.bytes (unhex (strOf v)))
  | _ => .error .arg

/-- `private_key.public_key()` -/
def publicOf (C : CryptoFns) : PyVal → Res PyVal
  | .privkey s => .ok (.pubkey (C.pubOf s))
  | _ => .error .attribute

/-- `cls.is_equivalent_to(k1, k2)` for `cls = PrivateKey`: `checkformat_key(k2)`, different kinds are not equivalent, else byte equality -/
def privIsEquivalent (k1 k2 : PyVal) : Res Bool := do
  checkKey k2
  match k1, k2 with
  | .privkey a, .privkey b => pure (a == b)
  | .pubkey _, .pubkey _ => .error .attribute        -- same type, but PrivateKey.to_bytes needs private_bytes
  | .privkey _, .pubkey _ | .pubkey _, .privkey _ => pure false
  | _, _ => pure false                               -- type(k1) is not type(k2)

def pubIsEquivalent (k1 k2 : PyVal) : Res Bool := do
  checkKey k2
  match k1, k2 with
  | .pubkey a, .pubkey b => pure (a == b)
  | .privkey _, .privkey _ => .error .attribute
  | .privkey _, .pubkey _ | .pubkey _, .privkey _ => pure false
  | _, _ => pure false

end CCT
