import CCT.Model.Cli
/-!
# CCT.Model.Diagnostics — `verify_signable` and the standard output it prints its notes to (C01, C02, C12)

The counting loop prints an "Ignoring …" note for every entry it skips for a *structural* reason (index that is no key, value of the wrong shape for the
mode, key not authorized; `authentication.py:406-437`) — not for an entry whose signature merely does not verify.  On a standard output that cannot take text
(`Stdout.failing`: a dead pipe, a full device, a closed file object) the first such `print` raises and the error escapes; without a standard output object
(`Stdout.absent`) `print` does nothing.  Argument errors are raised before the loop and so before any note.
-/
namespace CCT

/-- the loop prints a note for this entry -/
def entryPrints (C : CryptoFns) (gpg : Bool) (auth : List PStr) (data : Bytes) (k : PStr) (sig : J) : Bool :=
  match entryClass C gpg auth data k sig with
  | .notKey | .wrongShape | .unauthorized => true
  | _ => false

/-- some entry of the envelope's signature map makes the loop print -/
def anyNote (C : CryptoFns) (env keys : J) (gpg : Bool) : Bool :=
  match env, keys with
  | .obj top, .arr ks =>
    match dictGet (ps! "signed") top, dictGet (ps! "signatures") top with
    | some signed, some (.obj entries) => entries.any fun (k, sg) => entryPrints C gpg (ks.map strOf) (ser signed) k sg
    | _, _ => false
  | _, _ => false

/-- `verify_signable` under a given standard output -/
def verifySignableUnder (C : CryptoFns) (st : Stdout) (env keys thr : J) (gpg : Bool) : Res Unit :=
  match st, verifySignableJ C env keys thr gpg with
  | .failing, .error .arg => .error .arg
  | .failing, r => if anyNote C env keys gpg then .error .os else r
  | _, r => r

end CCT
