import CCT.Model.Py
import CCT.Model.Time
/-!
# CCT.Model.Common — the validators of `conda_content_trust/common.py:286-846`

Every function mirrors the statement order of the Python source and returns the error the code would
raise first (`Res Unit`); raw subscripts are modelled by `dictIndex`, which *can* return `KeyError`, so
"no internal error escapes" (C13) is a theorem about these definitions and not built into them.
The `is_*` predicates are `predOf (check…)`: they swallow `TypeError`/`ValueError` only.
-/
namespace CCT

def okU : Res Unit := .ok ()

-- common.py:301-314 -------------------------------------------------------------------------------
/-- `checkformat_hex_string` -/
def checkHexStringJ : J → Res Unit
  | .str s =>
    match pyFromHex s with                        -- bytes.fromhex(hex_string)
    | none => .error .arg
    | some _ =>
      if !asciiIsAlnum s || !asciiIsLower s then .error .arg else okU
  | _ => .error .arg                              -- bytes.fromhex(non-str) → TypeError

/-- `is_hex_string` (286-295) -/
def isHexStringJ (v : J) : Res Bool := predOf (checkHexStringJ v)

/-- `len(x)` for the JSON kinds: `TypeError` for numbers, bools, None -/
def pyLenJ : J → Res Nat
  | .str s => .ok s.length
  | .arr xs => .ok xs.length
  | .obj kvs => .ok kvs.length
  | _ => .error .arg

/-- `is_hex_signature` (317-328): `is_hex_string(x) and len(x) == 128` -/
def isHexSignatureJ (v : J) : Res Bool := do
  if (← isHexStringJ v) then
    let n ← pyLenJ v
    pure (n == 128)
  else pure false

/-- `checkformat_hex_key` (422-428) -/
def checkHexKeyJ (v : J) : Res Unit := do
  checkHexStringJ v
  let n ← pyLenJ v
  if n ≠ 64 then .error .arg else okU

/-- `is_hex_key` (331-343) -/
def isHexKeyJ (v : J) : Res Bool := predOf (checkHexKeyJ v)

/-- `is_signable` (346-359).  `type(signable["signed"]) in SUPPORTED_SERIALIZABLE_TYPES` is true for
every JSON kind. -/
def isSignableJ : J → Bool
  | .obj kvs =>
    keysetEq kvs [ps! "signatures", ps! "signed"] &&
    (match dictGet (ps! "signatures") kvs with
     | some (.obj _) => true
     | _ => false)
  | _ => false

/-- `checkformat_signable` (367-378) -/
def checkSignableJ (v : J) : Res Unit := if isSignableJ v then okU else .error .arg

/-- `checkformat_natural_int` (392-397): an `int` (bool included, as `isinstance` has it) that is ≥ 1 -/
def checkNaturalIntJ (v : J) : Res Unit :=
  match asInt v with
  | some z => if z < 1 then .error .arg else okU
  | none => .error .arg

/-- `checkformat_string` (402-406) -/
def checkStringJ : J → Res Unit
  | .str _ => okU
  | _ => .error .arg

/-- `checkformat_list_of_hex_keys` (431-449) -/
def checkKeysLoop : List J → Res Unit
  | [] => okU
  | k :: r => do checkHexKeyJ k; checkKeysLoop r

/-- `len(set(l)) != len(l)` for a list of strings -/
def hasDupStr : List PStr → Bool
  | [] => false
  | x :: r => r.contains x || hasDupStr r

def checkListOfHexKeysJ : J → Res Unit
  | .arr ks => do
    checkKeysLoop ks                                -- every element is a str afterwards
    if hasDupStr (ks.map strOf) then .error .arg else okU
  | _ => .error .arg

/-- `checkformat_utc_isoformat` (452-463) -/
def checkUtcJ : J → Res Unit
  | .str s => if (pyStrptimeUtc s).isSome then okU else .error .arg
  | _ => .error .arg                               -- strptime(non-str) → TypeError

/-- `checkformat_gpg_fingerprint` (481-505) -/
def checkGpgFingerprintJ (v : J) : Res Unit := do
  let n ← pyLenJ v                                 -- len(gpg_fingerprint)
  if n ≠ 40 then .error .arg
  else match v with
    | .str s =>
      match pyFromHex s with
      | none => .error .arg
      | some _ => if !asciiIsAlnum s || !asciiIsLower s then .error .arg else okU
    | _ => .error .arg                             -- bytes.fromhex(list/dict) → TypeError

/-- `is_gpg_fingerprint` (466-475) -/
def isGpgFingerprintJ (v : J) : Res Bool := predOf (checkGpgFingerprintJ v)

/-- `sorted(list(d.keys())) in [[…], […]]` for string keys: same key *list* up to order; for a dict
(distinct keys) this is set equality plus equal length -/
def keysAre (kvs : List (PStr × J)) (names : List PStr) : Bool :=
  keysetEq kvs names && kvs.length == names.length

/-- `checkformat_gpg_signature` (521-569) -/
def checkGpgSignatureJ : J → Res Unit
  | .obj kvs => do
    if !(keysAre kvs [ps! "other_headers", ps! "signature"] ||
         keysAre kvs [ps! "other_headers", ps! "see_also", ps! "signature"]) then .error .arg
    else
      let oh ← dictIndex (ps! "other_headers") kvs
      if !(← isHexStringJ oh) then .error .arg
      else
        let sg ← dictIndex (ps! "signature") kvs
        if !(← isHexSignatureJ sg) then .error .arg
        else if dictHas (ps! "see_also") kvs then do
          let sa ← dictIndex (ps! "see_also") kvs
          checkGpgFingerprintJ sa
        else okU
  | _ => .error .arg

/-- `is_gpg_signature` (508-515) -/
def isGpgSignatureJ (v : J) : Res Bool := predOf (checkGpgSignatureJ v)

/-- `checkformat_signature` (590-643) -/
def checkSignatureJ : J → Res Unit
  | .obj kvs => do
    let okSig ← (if dictHas (ps! "signature") kvs then do
                   let sg ← dictIndex (ps! "signature") kvs
                   isHexSignatureJ sg
                 else pure false)
    if !okSig then .error .arg
    else if kvs.length == 1 then okU
    else if (← isGpgSignatureJ (.obj kvs)) then okU
    else .error .arg
  | _ => .error .arg

/-- `is_signature` (572-584) -/
def isSignatureJ (v : J) : Res Bool := predOf (checkSignatureJ v)

/-- `checkformat_any_signature` (837-846) -/
def checkAnySignatureJ (v : J) : Res Unit := do
  if !(← isSignatureJ v) && !(← isGpgSignatureJ v) then .error .arg else okU

/-- `x >= 1` for an arbitrary JSON value; only the outcome class matters afterwards:
`none` = raises `TypeError` (str, None, list, dict).  Floats compare but are rejected by the
natural-int check that follows, so their truth value is immaterial and reported as `true`. -/
def pyGeOne : J → Option Bool
  | .int z => some (decide (1 ≤ z))
  | .bool b => some b
  | .flt _ => some true
  | _ => none

def allHexKeys : List J → Res Bool
  | [] => pure true
  | k :: r => do
    let a ← isHexKeyJ k
    let b ← allHexKeys r                      -- `all([...])` evaluates the whole list first
    pure (a && b)

/-- `checkformat_delegation` (649-685) -/
def checkDelegationJ : J → Res Unit
  | .obj kvs => do
    let guard ← (
      if !keysetEq kvs [ps! "threshold", ps! "pubkeys"] then pure false
      else do
        let t ← dictIndex (ps! "threshold") kvs
        match pyGeOne t with
        | none => .error .arg
        | some false => pure false
        | some true =>
          let pk ← dictIndex (ps! "pubkeys") kvs
          match pk with
          | .arr ks => allHexKeys ks
          | _ => pure false)
    if !guard then .error .arg
    else do
      checkListOfHexKeysJ (← dictIndex (ps! "pubkeys") kvs)
      checkNaturalIntJ (← dictIndex (ps! "threshold") kvs)
  | _ => .error .arg

/-- `checkformat_delegations` (688-710): keys of a JSON object are strings, so `checkformat_string(index)`
cannot fail -/
def checkDelegationsLoop : List (PStr × J) → Res Unit
  | [] => okU
  | (_, d) :: r => do checkDelegationJ d; checkDelegationsLoop r

def checkDelegationsJ : J → Res Unit
  | .obj kvs => checkDelegationsLoop kvs
  | _ => .error .arg

def supportedDelegatingTypes : List PStr := [ps! "root", ps! "key_mgr"]

/-- `x == "root"` -/
def isRootType : J → Bool
  | .str s => s = ps! "root"
  | _ => false

def checkSigValuesLoop : List (PStr × J) → Res Unit
  | [] => okU
  | (_, s) :: r => do checkAnySignatureJ s; checkSigValuesLoop r

def requiredFieldsLoop (contents : J) : List PStr → Res Unit
  | [] => okU
  | f :: r => do
    if !(← pyInStr f contents) then .error .arg else requiredFieldsLoop contents r

/-- `checkformat_delegating_metadata` (716-834) -/
def checkDelegatingMdJ (m : J) : Res Unit := do
  checkSignableJ m                                                   -- 781
  match m with
  | .obj top =>
    let sigs ← dictIndex (ps! "signatures") top
    match sigs with
    | .obj sigkvs => checkSigValuesLoop sigkvs                       -- 783-784
    | _ => .error .attribute                                         -- unreachable after 781 (theorem)
    let contents ← dictIndex (ps! "signed") top                      -- 786
    requiredFieldsLoop contents
      [ps! "type", ps! "metadata_spec_version", ps! "delegations", ps! "expiration"]   -- 788-798
    let ty ← pyIndexStr (ps! "type") contents
    checkStringJ ty                                                  -- 800
    match ty with
    | .str tys => if !supportedDelegatingTypes.contains tys then .error .arg else okU   -- 801
    | _ => .error .arg
    checkStringJ (← pyIndexStr (ps! "metadata_spec_version") contents)   -- 807
    checkDelegationsJ (← pyIndexStr (ps! "delegations") contents)        -- 812
    checkUtcJ (← pyIndexStr (ps! "expiration") contents)                 -- 814
    let hasTs ← pyInStr (ps! "timestamp") contents
    let hasVer ← pyInStr (ps! "version") contents
    if !hasTs && !hasVer then .error .arg                            -- 817
    else if isRootType ty && !hasVer then .error .arg                -- 823
    else do
      if hasTs then checkUtcJ (← pyIndexStr (ps! "timestamp") contents) else okU     -- 829
      if hasVer then checkNaturalIntJ (← pyIndexStr (ps! "version") contents) else okU  -- 831
  | _ => .error .arg

-- PyVal-level entry points: every non-JSON kind is rejected with an argument error by the first
-- builtin that touches it (bytes.fromhex / isinstance / len / strptime …), except where noted -------------

def liftJ (f : J → Res Unit) : PyVal → Res Unit
  | .j v => f v
  | _ => .error .arg

/-- `checkformat_byteslike` (385-389): `hasattr(x, "decode")` -/
def checkBytesLike : PyVal → Res Unit
  | .bytes _ | .bytearray _ => okU
  | _ => .error .arg

/-- `checkformat_expiration_distance` (409-416) -/
def checkExpirationDistance : PyVal → Res Unit
  | .timedelta _ => okU
  | _ => .error .arg

/-- `checkformat_key` (885-899) -/
def checkKey : PyVal → Res Unit
  | .pubkey _ | .privkey _ => okU
  | _ => .error .arg

end CCT
