import CCT.Model.Py
/-!
# CCT.Model.Time — `datetime.strptime(s, "%Y-%m-%dT%H:%M:%SZ")` and `datetime.isoformat() + "Z"`

`checkformat_utc_isoformat` (common.py:452-463) accepts exactly the strings CPython 3.12's `_strptime`
accepts for that format.  The regex `_strptime` builds is (with `re.IGNORECASE`, Unicode mode):

    (?P<Y>\d\d\d\d)-(?P<m>1[0-2]|0[1-9]|[1-9])-(?P<d>3[0-1]|[1-2]\d|0[1-9]|[1-9]| [1-9])T
    (?P<H>2[0-3]|[0-1]\d|\d):(?P<M>[0-5]\d|\d):(?P<S>6[0-1]|[0-5]\d|\d)Z

followed by the "unconverted data remains" length check and the calendar validation of
`datetime(year, month, day, hour, minute, second)` (year 1..9999, day ≤ days in month, second ≤ 59).
`\d` matches every Unicode decimal digit (category Nd); `int()` then reads its digit value.
-/
namespace CCT

/-- first code point of every run of ten Unicode 15.0 `Nd` characters (value 0..9 in order); the
harness compares this table with `unicodedata` of the running interpreter on every run -/
def ndStarts : List Nat :=
  [48, 1632, 1776, 1984, 2406, 2534, 2662, 2790, 2918, 3046, 3174, 3302, 3430, 3558, 3664, 3792, 3872,
   4160, 4240, 6112, 6160, 6470, 6608, 6784, 6800, 6992, 7088, 7232, 7248, 42528, 43216, 43264, 43472,
   43504, 43600, 44016, 65296, 66720, 68912, 69734, 69872, 69942, 70096, 70384, 70736, 70864, 71248,
   71360, 71472, 71904, 72016, 72784, 73040, 73120, 73552, 92768, 92864, 93008, 120782, 120792, 120802,
   120812, 120822, 123200, 123632, 124144, 125264, 130032]

/-- digit value of a Unicode decimal digit -/
def ndValIn : List Nat → Nat → Option Nat
  | [], _ => none
  | s :: r, c => if s ≤ c ∧ c < s + 10 then some (c - s) else ndValIn r c

def ndVal (c : Nat) : Option Nat := ndValIn ndStarts c

structure DateTime where
  (year month day hour minute second : Nat)
  deriving DecidableEq, Repr

def isLeap (y : Nat) : Bool := y % 4 == 0 && (y % 100 != 0 || y % 400 == 0)

def daysInMonth (y m : Nat) : Nat :=
  if m = 2 then (if isLeap y then 29 else 28)
  else if m = 4 ∨ m = 6 ∨ m = 9 ∨ m = 11 then 30 else 31

/-- the constructor check of `datetime.datetime(...)` -/
def DateTime.valid (d : DateTime) : Bool :=
  1 ≤ d.year && d.year ≤ 9999 && 1 ≤ d.month && d.month ≤ 12 && 1 ≤ d.day && d.day ≤ daysInMonth d.year d.month
  && d.hour ≤ 23 && d.minute ≤ 59 && d.second ≤ 59

/-- a field of one or two characters followed by a delimiter -/
def takeField (isDelim : Nat → Bool) : PStr → Option (PStr × PStr)
  | a :: d :: r =>
    if isDelim d then some ([a], r)
    else match r with
      | e :: r' => if isDelim e then some ([a, d], r') else none
      | [] => none
  | _ => none

def asciiDigitIn (lo hi c : Nat) : Option Nat := if lo ≤ c ∧ c ≤ hi then some (c - 48) else none

/-- `1[0-2]|0[1-9]|[1-9]` -/
def monthVal : PStr → Option Nat
  | [a] => asciiDigitIn 49 57 a
  | [a, b] =>
    if a = 49 then (asciiDigitIn 48 50 b).map (10 + ·)
    else if a = 48 then asciiDigitIn 49 57 b
    else none
  | _ => none

/-- `3[0-1]|[1-2]\d|0[1-9]|[1-9]| [1-9]` -/
def dayVal : PStr → Option Nat
  | [a] => asciiDigitIn 49 57 a
  | [a, b] =>
    if a = 51 then (asciiDigitIn 48 49 b).map (30 + ·)
    else if a = 49 ∨ a = 50 then (ndVal b).map ((a - 48) * 10 + ·)
    else if a = 48 ∨ a = 32 then asciiDigitIn 49 57 b
    else none
  | _ => none

/-- `2[0-3]|[0-1]\d|\d` -/
def hourVal : PStr → Option Nat
  | [a] => ndVal a
  | [a, b] =>
    if a = 50 then (asciiDigitIn 48 51 b).map (20 + ·)
    else if a = 48 ∨ a = 49 then (ndVal b).map ((a - 48) * 10 + ·)
    else none
  | _ => none

/-- `[0-5]\d|\d` -/
def minuteVal : PStr → Option Nat
  | [a] => ndVal a
  | [a, b] => if 48 ≤ a ∧ a ≤ 53 then (ndVal b).map ((a - 48) * 10 + ·) else none
  | _ => none

/-- `6[0-1]|[0-5]\d|\d` -/
def secondVal : PStr → Option Nat
  | [a] => ndVal a
  | [a, b] =>
    if a = 54 then (asciiDigitIn 48 49 b).map (60 + ·)
    else if 48 ≤ a ∧ a ≤ 53 then (ndVal b).map ((a - 48) * 10 + ·)
    else none
  | _ => none

/-- the regex match + full-length check of `_strptime` for `%Y-%m-%dT%H:%M:%SZ` (no calendar check) -/
def strptimeFields (s : PStr) : Option DateTime :=
  match s with
  | y1 :: y2 :: y3 :: y4 :: 45 :: r =>
    match ndVal y1, ndVal y2, ndVal y3, ndVal y4 with
    | some a, some b, some c, some d =>
      match takeField (· = 45) r with
      | none => none
      | some (fm, r) =>
      match takeField (fun c => c = 84 || c = 116) r with
      | none => none
      | some (fd, r) =>
      match takeField (· = 58) r with
      | none => none
      | some (fh, r) =>
      match takeField (· = 58) r with
      | none => none
      | some (fmi, r) =>
      match takeField (fun c => c = 90 || c = 122) r with
      | none => none
      | some (fs, r) =>
        if r ≠ [] then none else
        match monthVal fm, dayVal fd, hourVal fh, minuteVal fmi, secondVal fs with
        | some mo, some da, some ho, some mi, some se =>
          some ⟨((a * 10 + b) * 10 + c) * 10 + d, mo, da, ho, mi, se⟩
        | _, _, _, _, _ => none
    | _, _, _, _ => none
  | _ => none

/-- `datetime.strptime(s, "%Y-%m-%dT%H:%M:%SZ")` succeeds and yields this value -/
def pyStrptimeUtc (s : PStr) : Option DateTime :=
  match strptimeFields s with
  | some d => if d.valid then some d else none
  | none => none

-- formatting: `datetime.isoformat()` with microsecond = 0, then "Z" --------------------------------

def pad2 (n : Nat) : PStr := [48 + n / 10 % 10, 48 + n % 10]
def pad4 (n : Nat) : PStr := [48 + n / 1000 % 10, 48 + n / 100 % 10, 48 + n / 10 % 10, 48 + n % 10]

def isoZ (d : DateTime) : PStr :=
  pad4 d.year ++ [45] ++ pad2 d.month ++ [45] ++ pad2 d.day ++ [84] ++ pad2 d.hour ++ [58] ++ pad2 d.minute
    ++ [58] ++ pad2 d.second ++ [90]

-- adding whole days (timedelta(days=n)) ----------------------------------------------------------------

def nextDay (d : DateTime) : DateTime :=
  if d.day < daysInMonth d.year d.month then { d with day := d.day + 1 }
  else if d.month < 12 then { d with month := d.month + 1, day := 1 }
  else { d with year := d.year + 1, month := 1, day := 1 }

def addDays : Nat → DateTime → DateTime
  | 0, d => d
  | n+1, d => addDays n (nextDay d)

/-- days since 0001-01-01 (proleptic Gregorian ordinal − 1), as `date.toordinal` -/
def daysBeforeYear (y : Nat) : Nat := let y := y - 1; y * 365 + y / 4 - y / 100 + y / 400
def daysBeforeMonth : Nat → Nat → Nat
  | _, 0 => 0
  | y, m+1 => if m = 0 then 0 else daysBeforeMonth y m + daysInMonth y m
def DateTime.ordinal (d : DateTime) : Nat := daysBeforeYear d.year + daysBeforeMonth d.year d.month + d.day
def DateTime.secondsOfDay (d : DateTime) : Nat := (d.hour * 60 + d.minute) * 60 + d.second

end CCT
