/-!
# CCT.Model.Json — JSON values, `json.dumps(indent=2)` text format, `json.loads` model, canonical form

Models `conda_content_trust/common.py:112-164` (`canonserialize`, `load_metadata_from_file`,
`write_metadata_to_file`) together with the parts of CPython's `json` package they call.
Text is `List Nat` (code points / ASCII bytes), never `Char`, so lone surrogates are representable
and proofs are arithmetic.  No Mathlib import: this file is compiled into the native driver.
-/
namespace CCT

open Lean in
/-- `ps! "abc"` is the list of code points `[97, 98, 99]` -/
macro "ps!" s:str : term => do
  let cs : Array (TSyntax `term) := (s.getString.toList.map fun c => Syntax.mkNumLit (toString c.toNat)).toArray
  `(([$cs,*] : List Nat))

abbrev PStr := List Nat          -- Python str: code points
abbrev Txt := List Nat           -- text: code points of the JSON document

inductive J where
  | null
  | bool (b : Bool)
  | int (z : Int)
  | flt (tok : Txt)              -- float as its canonical repr token
  | str (s : PStr)
  | arr (xs : List J)
  | obj (kvs : List (PStr × J))
  deriving Repr, BEq, Inhabited

-- character codes
abbrev cQuote := 34   -- "
abbrev cBsl := 92     -- \
abbrev cComma := 44
abbrev cColon := 58
abbrev cLB := 91      -- [
abbrev cRB := 93      -- ]
abbrev cLC := 123     -- {
abbrev cRC := 125     -- }
abbrev cMinus := 45
abbrev cSp := 32
abbrev cNl := 10

-- string escaping (ensure_ascii=True) -------------------------------------
def hexDigit (n : Nat) : Nat := if n < 10 then 48 + n else 87 + n
def hex4 (n : Nat) : Txt := [hexDigit (n / 4096 % 16), hexDigit (n / 256 % 16), hexDigit (n / 16 % 16), hexDigit (n % 16)]
def uesc (n : Nat) : Txt := cBsl :: 117 :: hex4 n

def escChar (c : Nat) : Txt :=
  if c = 34 then [cBsl, 34] else if c = 92 then [cBsl, 92]
  else if c = 10 then [cBsl, 110] else if c = 13 then [cBsl, 114] else if c = 9 then [cBsl, 116]
  else if c = 8 then [cBsl, 98] else if c = 12 then [cBsl, 102]
  else if 32 ≤ c ∧ c < 127 then [c]
  else if c < 0x10000 then uesc c
  else uesc (0xd800 + (c - 0x10000) / 1024) ++ uesc (0xdc00 + (c - 0x10000) % 1024)

def escStr : PStr → Txt
  | [] => []
  | c :: cs => escChar c ++ escStr cs

def serStr (s : PStr) : Txt := cQuote :: (escStr s ++ [cQuote])

-- ints ---------------------------------------------------------------------
def natDigits : Nat → Nat → Txt
  | 0, _ => []
  | f+1, n => if n < 10 then [48 + n] else natDigits f (n / 10) ++ [48 + n % 10]
def serNat (n : Nat) : Txt := natDigits (n + 1) n
def serInt : Int → Txt
  | .ofNat n => serNat n
  | .negSucc n => cMinus :: serNat (n + 1)

def serFlt (tok : Txt) : Txt :=
  if tok = [110, 97, 110] then [78, 97, 78]                                   -- nan -> NaN
  else if tok = [105, 110, 102] then [73, 110, 102, 105, 110, 105, 116, 121]  -- inf -> Infinity
  else if tok = [45, 105, 110, 102] then [45, 73, 110, 102, 105, 110, 105, 116, 121]
  else tok

def nl (lvl : Nat) : Txt := cNl :: List.replicate (2 * lvl) cSp

mutual
def serRaw (lvl : Nat) : J → Txt
  | .null => [110, 117, 108, 108]
  | .bool true => [116, 114, 117, 101]
  | .bool false => [102, 97, 108, 115, 101]
  | .int z => serInt z
  | .flt t => serFlt t
  | .str s => serStr s
  | .arr [] => [cLB, cRB]
  | .arr (x :: xs) => cLB :: (nl (lvl+1) ++ (serRaw (lvl+1) x ++ serElems lvl xs))
  | .obj [] => [cLC, cRC]
  | .obj ((k, v) :: kvs) => cLC :: (nl (lvl+1) ++ (serStr k ++ (cColon :: cSp :: (serRaw (lvl+1) v ++ serMembers lvl kvs))))
def serElems (lvl : Nat) : List J → Txt
  | [] => nl lvl ++ [cRB]
  | x :: xs => cComma :: (nl (lvl+1) ++ (serRaw (lvl+1) x ++ serElems lvl xs))
def serMembers (lvl : Nat) : List (PStr × J) → Txt
  | [] => nl lvl ++ [cRC]
  | (k, v) :: kvs => cComma :: (nl (lvl+1) ++ (serStr k ++ (cColon :: cSp :: (serRaw (lvl+1) v ++ serMembers lvl kvs))))
end

-- parser ---------------------------------------------------------------------
def isWs (c : Nat) : Bool := c = 32 || c = 9 || c = 10 || c = 13
def skipWs : Txt → Txt
  | [] => []
  | c :: cs => if isWs c then skipWs cs else c :: cs

def hexVal (c : Nat) : Option Nat :=
  if 48 ≤ c ∧ c ≤ 57 then some (c - 48) else if 97 ≤ c ∧ c ≤ 102 then some (c - 87)
  else if 65 ≤ c ∧ c ≤ 70 then some (c - 55) else none

def parseHex4 : Txt → Option (Nat × Txt)
  | a :: b :: c :: d :: r =>
    match hexVal a, hexVal b, hexVal c, hexVal d with
    | some a, some b, some c, some d => some (((a * 16 + b) * 16 + c) * 16 + d, r)
    | _, _, _, _ => none
  | _ => none

/-- body of a string literal after the opening quote -/
def parseStrBody : Nat → Txt → PStr → Option (PStr × Txt)
  | 0, _, _ => none
  | _+1, [], _ => none
  | f+1, c :: cs, acc =>
    if c = cQuote then some (acc, cs)
    else if c = cBsl then
      match cs with
      | [] => none
      | e :: r =>
        if e = 34 then parseStrBody f r (acc ++ [34])
        else if e = 92 then parseStrBody f r (acc ++ [92])
        else if e = 47 then parseStrBody f r (acc ++ [47])
        else if e = 110 then parseStrBody f r (acc ++ [10])
        else if e = 114 then parseStrBody f r (acc ++ [13])
        else if e = 116 then parseStrBody f r (acc ++ [9])
        else if e = 98 then parseStrBody f r (acc ++ [8])
        else if e = 102 then parseStrBody f r (acc ++ [12])
        else if e = 117 then
          match parseHex4 r with
          | none => none
          | some (u, r') =>
            if 0xd800 ≤ u ∧ u ≤ 0xdbff then
              match r' with
              | 92 :: 117 :: r'' =>
                match parseHex4 r'' with
                | some (u2, r''') =>
                  if 0xdc00 ≤ u2 ∧ u2 ≤ 0xdfff then
                    parseStrBody f r''' (acc ++ [0x10000 + (u - 0xd800) * 1024 + (u2 - 0xdc00)])
                  else parseStrBody f r' (acc ++ [u])
                | none => parseStrBody f r' (acc ++ [u])
              | _ => parseStrBody f r' (acc ++ [u])
            else parseStrBody f r' (acc ++ [u])
        else none
    else if c < 32 then none
    else parseStrBody f cs (acc ++ [c])

def parseStr (r : Txt) : Option (PStr × Txt) := parseStrBody (r.length + 1) r []

-- numbers: maximal run of number characters, then validate
def isDigit (c : Nat) : Bool := 48 ≤ c && c ≤ 57
def isNumChar (c : Nat) : Bool := isDigit c || c = 43 || c = 45 || c = 46 || c = 101 || c = 69

def spanNum : Txt → Txt × Txt
  | [] => ([], [])
  | c :: cs => if isNumChar c then let (a, b) := spanNum cs; (c :: a, b) else ([], c :: cs)

def digitsVal : Txt → Nat → Nat
  | [], acc => acc
  | c :: cs, acc => digitsVal cs (acc * 10 + (c - 48))

/-- `0|[1-9][0-9]*` -/
def validNatTok (t : Txt) : Bool :=
  t.all isDigit && !t.isEmpty && (t.length == 1 || t.head? != some 48)

def allDigits1 (t : Txt) : Bool := !t.isEmpty && t.all isDigit

/-- split at first occurrence of a char satisfying p -/
def splitAt1 (p : Nat → Bool) : Txt → Txt × Option (Nat × Txt)
  | [] => ([], none)
  | c :: cs => if p c then ([], some (c, cs)) else let (a, b) := splitAt1 p cs; (c :: a, b)

/-- float form: intpart (frac)? (exp)? with at least one of frac/exp -/
def validFloatTok (t : Txt) : Bool :=
  let t := match t with | 45 :: r => r | r => r
  let (mant, ex) := splitAt1 (fun c => c = 101 || c = 69) t
  let (ip, fr) := splitAt1 (fun c => c = 46) mant
  let okInt := validNatTok ip
  let okFr := match fr with | none => true | some (_, f) => allDigits1 f
  let okEx := match ex with
    | none => true
    | some (_, e) => match e with
      | 43 :: d => allDigits1 d
      | 45 :: d => allDigits1 d
      | d => allDigits1 d
  okInt && okFr && okEx && (fr.isSome || ex.isSome)

/-- CPython's `sys.int_info.default_max_str_digits`: `int(str)` (and so `json.load`) raises `ValueError` for an integer literal with more
decimal digits; `str(int)` (and so `json.dumps`) likewise for an integer that needs more -/
def maxStrDigits : Nat := 4300

def parseNumTok (t : Txt) : Option J :=
  match t with
  | 45 :: r =>
    if validNatTok r then (if r.length ≤ maxStrDigits then some (.int (-(digitsVal r 0 : Int))) else none)
    else if validFloatTok t then some (.flt t) else none
  | r =>
    if validNatTok r then (if r.length ≤ maxStrDigits then some (.int (digitsVal r 0)) else none)
    else if validFloatTok t then some (.flt t) else none

def dictSet (kvs : List (PStr × J)) (k : PStr) (v : J) : List (PStr × J) :=
  match kvs with
  | [] => [(k, v)]
  | (k', v') :: r => if k' = k then (k, v) :: r else (k', v') :: dictSet r k v

def litNull : Txt := [117, 108, 108]
def litTrue : Txt := [114, 117, 101]
def litFalse : Txt := [97, 108, 115, 101]
def litNaN : Txt := [97, 78]
def litInf : Txt := [110, 102, 105, 110, 105, 116, 121]

/-- strip prefix -/
def stripPre : Txt → Txt → Option Txt
  | [], r => some r
  | _ :: _, [] => none
  | p :: ps, c :: cs => if p = c then stripPre ps cs else none

def parseNumber (s : Txt) : Option (J × Txt) :=
  let (tok, r) := spanNum s; (parseNumTok tok).map fun v => (v, r)

mutual
def parseValue : Nat → Txt → Option (J × Txt)
  | 0, _ => none
  | _+1, [] => none
  | f+1, c :: r =>
    if c = 34 then (parseStr r).map fun (st, r') => (.str st, r')
    else if c = 91 then
      match skipWs r with
      | [] => none
      | d :: r' => if d = 93 then some (.arr [], r') else parseElems f (d :: r') []
    else if c = 123 then
      match skipWs r with
      | [] => none
      | d :: r' => if d = 125 then some (.obj [], r') else parseMembers f (d :: r') []
    else if c = 110 then (stripPre litNull r).map fun r' => (.null, r')
    else if c = 116 then (stripPre litTrue r).map fun r' => (.bool true, r')
    else if c = 102 then (stripPre litFalse r).map fun r' => (.bool false, r')
    else if c = 78 then (stripPre litNaN r).map fun r' => (.flt [110, 97, 110], r')
    else if c = 73 then (stripPre litInf r).map fun r' => (.flt [105, 110, 102], r')
    else if c = 45 ∧ r.head? = some 73 then (stripPre litInf r.tail).map fun r' => (.flt [45, 105, 110, 102], r')
    else parseNumber (c :: r)
def parseElems : Nat → Txt → List J → Option (J × Txt)
  | 0, _, _ => none
  | f+1, s, acc =>
    match parseValue f s with
    | none => none
    | some (v, r) =>
      match skipWs r with
      | [] => none
      | d :: r' =>
        if d = 44 then parseElems f (skipWs r') (acc ++ [v])
        else if d = 93 then some (.arr (acc ++ [v]), r')
        else none
def parseMembers : Nat → Txt → List (PStr × J) → Option (J × Txt)
  | 0, _, _ => none
  | _+1, [], _ => none
  | f+1, c :: r, acc =>
    if c = 34 then
      match parseStr r with
      | none => none
      | some (k, r1) =>
        match skipWs r1 with
        | [] => none
        | d :: r2 =>
          if d = 58 then
            match parseValue f (skipWs r2) with
            | none => none
            | some (v, r3) =>
              match skipWs r3 with
              | [] => none
              | e :: r4 =>
                if e = 44 then parseMembers f (skipWs r4) (dictSet acc k v)
                else if e = 125 then some (.obj (dictSet acc k v), r4)
                else none
          else none
    else none
end

def parse (s : Txt) : Option J :=
  match parseValue (s.length + 1) (skipWs s) with
  | some (v, r) => if skipWs r = [] then some v else none
  | none => none



-- canonical form: keys sorted by code point order (Python `str <`), recursively ---------------

/-- Python's `<` on `str`: lexicographic by code point -/
def strLt : PStr → PStr → Bool
  | [], [] => false
  | [], _ :: _ => true
  | _ :: _, [] => false
  | a :: as, b :: bs => decide (a < b) || (a == b && strLt as bs)

def insertKV (k : PStr) (v : J) : List (PStr × J) → List (PStr × J)
  | [] => [(k, v)]
  | (k', v') :: r => if strLt k k' then (k, v) :: (k', v') :: r else (k', v') :: insertKV k v r

def sortKV : List (PStr × J) → List (PStr × J)
  | [] => []
  | (k, v) :: r => insertKV k v (sortKV r)

mutual
/-- what `sort_keys=True` does to the value before printing: every object's members sorted by key -/
def canon : J → J
  | .arr xs => .arr (canonList xs)
  | .obj kvs => .obj (sortKV (canonMembers kvs))
  | .null => .null
  | .bool b => .bool b
  | .int z => .int z
  | .flt t => .flt t
  | .str s => .str s
def canonList : List J → List J
  | [] => []
  | x :: xs => canon x :: canonList xs
def canonMembers : List (PStr × J) → List (PStr × J)
  | [] => []
  | (k, v) :: r => (k, canon v) :: canonMembers r
end

/-- `json.dumps(obj, indent=2, sort_keys=True)`; the result is pure ASCII, so `.encode("utf-8")`
is the identity on codes and this is also the byte string `canonserialize` returns. -/
def ser (v : J) : Txt := serRaw 0 (canon v)

-- UTF-8 decoding with `surrogatepass`, as `json.loads(bytes)` does for UTF-8 input ---------------

/-- decode UTF-8 (errors='surrogatepass'): `none` on malformed input -/
def utf8Decode : Nat → List Nat → Option (List Nat)
  | 0, _ => none
  | _+1, [] => some []
  | f+1, b :: r =>
    if b < 0x80 then (utf8Decode f r).map (b :: ·)
    else if 0xc2 ≤ b ∧ b ≤ 0xdf then
      match r with
      | b1 :: r' => if 0x80 ≤ b1 ∧ b1 ≤ 0xbf then (utf8Decode f r').map (((b - 0xc0) * 64 + (b1 - 0x80)) :: ·) else none
      | _ => none
    else if 0xe0 ≤ b ∧ b ≤ 0xef then
      match r with
      | b1 :: b2 :: r' =>
        if 0x80 ≤ b1 ∧ b1 ≤ 0xbf ∧ 0x80 ≤ b2 ∧ b2 ≤ 0xbf ∧ (b = 0xe0 → 0xa0 ≤ b1) then
          (utf8Decode f r').map (((b - 0xe0) * 4096 + (b1 - 0x80) * 64 + (b2 - 0x80)) :: ·)
        else none
      | _ => none
    else if 0xf0 ≤ b ∧ b ≤ 0xf4 then
      match r with
      | b1 :: b2 :: b3 :: r' =>
        if 0x80 ≤ b1 ∧ b1 ≤ 0xbf ∧ 0x80 ≤ b2 ∧ b2 ≤ 0xbf ∧ 0x80 ≤ b3 ∧ b3 ≤ 0xbf ∧ (b = 0xf0 → 0x90 ≤ b1) ∧ (b = 0xf4 → b1 ≤ 0x8f) then
          (utf8Decode f r').map (((b - 0xf0) * 262144 + (b1 - 0x80) * 4096 + (b2 - 0x80) * 64 + (b3 - 0x80)) :: ·)
        else none
      | _ => none
    else none

/-- `json.load` on the bytes of a file that is UTF-8 (the only encoding the library ever writes;
UTF-16/32 auto-detection of `json.detect_encoding` is not modelled: inputs starting with a NUL
pattern are answered `none` here and never generated by the harness). -/
def loadBytes (b : List Nat) : Option J :=
  let b := match b with | 0xef :: 0xbb :: 0xbf :: r => r | r => r     -- utf-8-sig
  match utf8Decode (b.length + 1) b with
  | none => none
  | some t => parse t

-- what CPython's encoder refuses -------------------------------------------------------------------------------------------

mutual
/-- no integer anywhere in the value needs more than `maxStrDigits` decimal digits (`str(int)` raises `ValueError` beyond that, and with it
`json.dumps` / `canonserialize`) -/
def J.intsOK : J → Bool
  | .int z => decide (z.natAbs < 10 ^ maxStrDigits)
  | .arr xs => intsOKs xs
  | .obj kvs => intsOKm kvs
  | _ => true
def intsOKs : List J → Bool
  | [] => true
  | x :: xs => x.intsOK && intsOKs xs
def intsOKm : List (PStr × J) → Bool
  | [] => true
  | (_, v) :: kvs => v.intsOK && intsOKm kvs
end

/-- `canonserialize(v)` as CPython runs it: `none` = `ValueError` ("Exceeds the limit (4300 digits) for integer string conversion") -/
def serPy (v : J) : Option Txt := if v.intsOK then some (ser v) else none

end CCT
