import CCT.Model.Signing
/-!
# CCT.Model.SignThreads — several signers at work on one envelope at the same time (C09, C12)

`sign_signable(signable, key)` reads the payload of the shared envelope object, computes its entry without touching anything shared, and ends with one
item assignment `signable["signatures"][pubkey_hex] = entry` on the shared signature map — a single bytecode-level store under the GIL.  A signer thread is
that program: three atomic steps (`stepInPlace`).  Threads are scheduled as in `Model/Threads.lean`: a schedule is the list of thread numbers in the order
in which they take one step each; every interleaving is a schedule.

`stepCopying` is the variant that copies the map, adds its entry to the copy and assigns the copy back (`signable["signatures"] = new_map`): four steps, the
first a read and the last a write of the *whole* map.  `Props/C09.lean` proves that under every schedule the in-place signers leave exactly the entries that
sequential signing leaves, and exhibits the schedule on which the copying variant loses a signature.
-/
namespace CCT

/-- what the threads share: the envelope object's two members -/
structure Envelope where
  sigs : List (PStr × J)
  signed : J

/-- a signer: the key id it files under and the entry it computes from the payload it has read -/
structure Signer where
  key : PStr
  entryOf : J → J

/-- the signer holding the private key `seed` (`signing.py:125-145`) -/
def signerOf (C : CryptoFns) (seed : Bytes) : Signer :=
  { key := hexOfBytes (C.pubOf seed), entryOf := fun p => sigDictOf (serializeAndSign C p seed) }

/-- private state of a signer thread -/
structure SLocal where
  pc : Nat := 0
  payload : Option J := none
  entry : Option J := none
  copy : Option (List (PStr × J)) := none

/-- `sign_signable` as the code has it: read the payload, compute, store the own entry into the shared map -/
def stepInPlace (sg : Signer) (sh : Envelope) (st : SLocal) : Envelope × SLocal :=
  match st.pc with
  | 0 => (sh, { st with pc := 1, payload := some sh.signed })
  | 1 => (sh, { st with pc := 2, entry := st.payload.map sg.entryOf })
  | 2 => match st.entry with
         | some e => ({ sh with sigs := dictSet sh.sigs sg.key e }, { st with pc := 3 })
         | none => (sh, { st with pc := 3 })
  | _ => (sh, st)

/-- the copying variant: copy the map, read the payload, compute, add to the copy, assign the copy back -/
def stepCopying (sg : Signer) (sh : Envelope) (st : SLocal) : Envelope × SLocal :=
  match st.pc with
  | 0 => (sh, { st with pc := 1, copy := some sh.sigs })
  | 1 => (sh, { st with pc := 2, payload := some sh.signed })
  | 2 => (sh, { st with pc := 3, entry := st.payload.map sg.entryOf })
  | 3 => match st.entry, st.copy with
         | some e, some c => ({ sh with sigs := dictSet c sg.key e }, { st with pc := 4 })
         | _, _ => (sh, { st with pc := 4 })
  | _ => (sh, st)

/-- one schedule: thread `i` takes one step of `step (signers i)` -/
def runSigners (step : Signer → Envelope → SLocal → Envelope × SLocal) (signers : Nat → Signer) :
    Envelope → (Nat → SLocal) → List Nat → Envelope × (Nat → SLocal)
  | sh, ts, [] => (sh, ts)
  | sh, ts, i :: r =>
    let (sh', st') := step (signers i) sh (ts i)
    runSigners step signers sh' (fun j => if j = i then st' else ts j) r

end CCT
