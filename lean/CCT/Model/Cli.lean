import CCT.Model.Signing
/-!
# CCT.Model.Cli — `cli.py:28-31, 193-208, 217-280, 555-559`, `__main__.py`, `pyproject.toml [project.scripts]`

A command's run is a `Res Int`-like outcome: the value `cli()` returns (`none` = Python `None`), or the exception that escapes it.
Each entry point maps it to a process exit status with CPython's rule.  Files are given by their bytes (`none` = missing / unreadable).
-/
namespace CCT

/-- what `cli(args)` does: returns a value or lets an exception escape -/
inductive CliOutcome where
  | returned (code : Option Int)      -- `None` or an int
  | raised (e : PyErr)                -- uncaught exception (traceback)
  | usage                             -- argparse error: wrong arguments
  deriving DecidableEq, Repr

/-- the three ways the tool can be started; all of them pass the return value of `cli()` to `sys.exit` -/
inductive EntryPoint where
  | script        -- console script `conda-content-trust` = `sys.exit(cli())`
  | moduleCli     -- `python -m conda_content_trust.cli` = `sys.exit(cli(sys.argv[1:]))`
  | modulePkg     -- `python -m conda_content_trust` (`__main__.py`)
  deriving DecidableEq, Repr

/-- CPython: `sys.exit(None)` → 0, `sys.exit(n)` → n mod 256, uncaught exception → 1, argparse usage error → 2 -/
def exitStatus (_ep : EntryPoint) : CliOutcome → Nat
  | .returned none => 0
  | .returned (some n) => (n % 256).toNat
  | .raised _ => 1
  | .usage => 2

def loadFile : Option Bytes → Res J
  | none => .error .os
  | some b => match loadBytes b with
    | some v => .ok v
    | none => .error .arg          -- JSONDecodeError / UnicodeDecodeError

/-- `cli_verify_metadata` (217-280): (outcome, whether a success line was printed) -/
def cliVerifyMetadata (C : CryptoFns) (trustedFile untrustedFile : Option Bytes) : CliOutcome × Bool :=
  match loadFile untrustedFile with                                           -- 238
  | .error e => (.raised e, false)
  | .ok untrusted =>
    match loadFile trustedFile with                                           -- 240
    | .error e => (.raised e, false)
    | .ok trusted =>
      match (do let s ← pyIndexStr (ps! "signed") untrusted; pyIndexStr (ps! "type") s) with   -- 244
      | .error e => (.raised e, false)
      | .ok ty =>
        if isRootType ty then
          match verifyRootJ C trusted untrusted with                          -- 249
          | .ok _ => (.returned (some 0), true)                               -- 252-253
          | .error e => if e.isCct then (.returned (some 10), false) else (.raised e, false)   -- 255-257, 276-280
        else
          match ty with
          | .str name =>
            match verifyDelegationJ C name untrusted trusted false with        -- 263
            | .ok _ => (.returned (some 0), true)                             -- 268-269
            | .error e => if e.isCct then (.returned (some 20), false) else (.raised e, false)
          | _ => (.raised .arg, false)                                        -- delegation_name must be a string (186)

/-- how standard output behaves for the process: it takes text; every write fails (`OSError`: a pipe whose reader has gone, a full device — the
interpreter's `print` raises); there is no standard output object at all (`sys.stdout is None`, file descriptor 1 closed at start-up: `print` does nothing) -/
inductive Stdout where
  | takesText | failing | absent
  deriving DecidableEq, Repr

/-- `verify-metadata` under a given standard output.  The command reports with `print` immediately before it returns (252, 268, 276); on a failing stdout
that `print` raises and the error escapes `cli()`; on an absent one nothing is reported and the return value is unaffected. -/
def cliVerifyUnder (C : CryptoFns) (st : Stdout) (trustedFile untrustedFile : Option Bytes) : CliOutcome × Bool :=
  match st, cliVerifyMetadata C trustedFile untrustedFile with
  | .takesText, r => r
  | .failing, (.returned _, _) => (.raised .os, false)
  | .failing, (o, _) => (o, false)
  | .absent, (o, _) => (o, false)

/-- Python `str.strip()` whitespace (the characters with `str.isspace()` true) -/
def isPySpace (c : Nat) : Bool :=
  (9 ≤ c && c ≤ 13) || (28 ≤ c && c ≤ 32) || c = 0x85 || c = 0xa0 || c = 0x1680 || (0x2000 ≤ c && c ≤ 0x200a) ||
  c = 0x2028 || c = 0x2029 || c = 0x202f || c = 0x205f || c = 0x3000

def stripLeft : PStr → PStr
  | [] => []
  | c :: r => if isPySpace c then stripLeft r else c :: r

def pyStrip (s : PStr) : PStr := (stripLeft (stripLeft s).reverse).reverse

/-- `str.lower()` restricted to its effect on the hex alphabet: `A-Z` → `a-z` (no other character lower-cases into `0-9a-f`) -/
def asciiLower (s : PStr) : PStr := s.map fun c => if 65 ≤ c ∧ c ≤ 90 then c + 32 else c

/-- `cli_sign_artifacts` (193-208): outcome and the repodata file afterwards.  `keyText` is the decoded content of the key file. -/
def cliSignArtifacts (C : CryptoFns) (repodata : Option Bytes) (keyText : Option PStr) : CliOutcome × Option Bytes :=
  match keyText with
  | none => (.raised .os, repodata)
  | some t =>
    let keyHex := asciiLower (pyStrip t)                                      -- 197
    match isHexKeyJ (.str keyHex) with
    | .ok true =>
      match loadFile repodata with
      | .error e => (.raised e, repodata)
      | .ok doc =>
        match signRepodataJ C doc (.str keyHex) with                          -- 206
        | .ok doc' => (.returned none, some (ser doc'))
        | .error e => (.raised e, repodata)
    | _ => (.returned (some 1), repodata)                                     -- 199-204: ABORTED, nothing signed, failure status

end CCT
