import CCT.Model.Auth
/-!
# CCT.Model.Signing — `conda_content_trust/signing.py`

`serialize_and_sign` (31-58), `wrap_as_signable` (61-91), `sign_signable` (94-145),
`sign_all_in_repodata` (148-213; value level here, file level in `SignSteps`).
Python mutates the envelope in place; the model returns the new value.
-/
namespace CCT

/-- `serialize_and_sign(obj, private_key)` as a hex string -/
def serializeAndSign (C : CryptoFns) (obj : J) (seed : Bytes) : PStr := hexOfBytes (C.sign seed (ser obj))

/-- `wrap_as_signable(obj)`: a deep copy inside a fresh two-field envelope.  A tuple is a supported
type; its copy serializes as a JSON array, which is how the value model represents it. -/
def wrapAsSignable : PyVal → Res J
  | .j v => .ok (.obj [(ps! "signatures", .obj []), (ps! "signed", v)])
  | .tuple xs => .ok (.obj [(ps! "signatures", .obj []), (ps! "signed", .arr xs)])
  | _ => .error .arg

def sigDictOf (sigHex : PStr) : J := .obj [(ps! "signature", .str sigHex)]

/-- `sign_signable(signable, private_key)` with a private key object holding `seed` -/
def signSignableJ (C : CryptoFns) (env : J) (seed : Bytes) : Res J := do
  checkSignableJ env                                                   -- 117
  match env with
  | .obj top =>
    let signed ← dictIndex (ps! "signed") top
    let sigHex := serializeAndSign C signed seed                       -- 125
    let pubHex := hexOfBytes (C.pubOf seed)                            -- 127
    let sigDict := sigDictOf sigHex                                    -- 133
    checkSignatureJ sigDict                                            -- 135
    let sigs ← dictIndex (ps! "signatures") top
    match sigs with
    | .obj entries =>
      pure (.obj (dictSet top (ps! "signatures") (.obj (dictSet entries pubHex sigDict))))   -- 145
    | _ => .error .attribute
  | _ => .error .arg

def signSignable (C : CryptoFns) (env key : PyVal) : Res J :=
  match key with
  | .privkey seed =>
    match env with
    | .j e => signSignableJ C e seed
    | _ => .error .arg
  | .pubkey _ =>                      -- passes checkformat_key (116); `.sign` does not exist on a public key
    match env with
    | .j e => do checkSignableJ e; .error .attribute
    | _ => .error .arg
  | _ => .error .arg

/-- the loops at 186-210: one `{pubhex: {"signature": …}}` entry per artifact -/
def signEntries (C : CryptoFns) (seed : Bytes) (pubHex : PStr) :
    List (PStr × J) → List (PStr × J) → List (PStr × J)
  | sigs, [] => sigs
  | sigs, (name, md) :: r =>
    signEntries C seed pubHex
      (dictSet sigs name (.obj [(pubHex, sigDictOf (serializeAndSign C md seed))])) r

/-- value-level effect of `sign_all_in_repodata` on the parsed document (`seedHex` is the key string) -/
def signRepodataJ (C : CryptoFns) (doc : J) (seedHex : J) : Res J := do
  checkHexKeyJ seedHex                                                 -- 160
  let seed := unhex (strOf seedHex)                                    -- 164
  let pubHex := hexOfBytes (C.pubOf seed)                              -- 165
  if !(← pyInStr (ps! "packages") doc) then .error .arg                -- 175
  else match doc with
    | .obj top =>
      let top1 := dictSet top (ps! "signatures") (.obj [])             -- 184
      let pk ← dictIndex (ps! "packages") top1
      match pk with
      | .obj arts =>
        let sigs1 := signEntries C seed pubHex [] arts                 -- 186-203
        match dictGet (ps! "packages.conda") top1 with                 -- 206
        | none => pure (.obj (dictSet top1 (ps! "signatures") (.obj sigs1)))
        | some (.obj arts2) =>
          pure (.obj (dictSet top1 (ps! "signatures") (.obj (signEntries C seed pubHex sigs1 arts2))))
        | some _ => .error .attribute                                  -- `.items()` on a non-dict
      | _ => .error .attribute
    | _ => .error .arg                                                 -- item assignment on list / str

end CCT
