import CCT.Model.Auth
/-!
# CCT.Model.Construct — `metadata_construction.py:36-164` and `common.iso8601_time_plus_delta` (902-918)

The wall clock is a parameter: `build_delegating_metadata` reads `datetime.utcnow()` once per defaulted field.  Optional arguments are
`Option`s (`None` = not given).  Only whole-day deltas occur (`timedelta(0)` and `timedelta(days=365)`).
-/
namespace CCT

def specVersion : PStr := ps! "0.6.0"

/-- `iso8601_time_plus_delta(timedelta(days=n))` at clock reading `now` (microseconds already stripped) -/
def isoNowPlusDays (now : DateTime) (n : Nat) : PStr := isoZ (addDays n now)

/-- `build_delegating_metadata(metadata_type, delegations, version, timestamp, expiration)`; `now1`, `now2` are the clock readings used for
a defaulted timestamp and a defaulted expiration -/
def buildDelegatingMd (now1 now2 : DateTime) (ty : PyVal) (dels : Option PyVal) (ver : PyVal) (ts exp : Option PyVal) : Res J := do
  let delegations : PyVal := dels.getD (.j (.obj []))                                     -- 80-81
  let timestamp : PyVal := ts.getD (.j (.str (isoNowPlusDays now1 0)))                    -- 82-83
  let expiration : PyVal := exp.getD (.j (.str (isoNowPlusDays now2 365)))                -- 84-85
  liftJ checkStringJ ty                                                                   -- 92
  liftJ checkUtcJ timestamp                                                               -- 96
  liftJ checkUtcJ expiration                                                              -- 97
  liftJ checkNaturalIntJ ver                                                              -- 98
  liftJ checkDelegationsJ delegations                                                     -- 99
  match ty, ver, timestamp, expiration, delegations with
  | .j t, .j v, .j tsv, .j ex, .j d =>
    pure (.obj [(ps! "type", t), (ps! "version", v), (ps! "metadata_spec_version", .str specVersion),
                (ps! "timestamp", tsv), (ps! "expiration", ex), (ps! "delegations", d)])     -- 101-108
  | _, _, _, _, _ => .error .arg

/-- `build_root_metadata(root_version, root_pubkeys, root_threshold, key_mgr_pubkeys, key_mgr_threshold, root_timestamp, root_expiration)`;
`now0` is the clock reading for a defaulted expiration (taken first), `now1` for a defaulted timestamp -/
def buildRootMd (now0 now1 : DateTime) (ver rootKeys rootThr kmKeys kmThr : PyVal) (ts exp : Option PyVal) : Res J :=
  let expiration : PyVal := exp.getD (.j (.str (isoNowPlusDays now0 365)))                -- 144-145
  match rootKeys, rootThr, kmKeys, kmThr with
  | .j rk, .j rt, .j kk, .j kt =>
    let delegations : J := .obj [(ps! "root", .obj [(ps! "pubkeys", rk), (ps! "threshold", rt)]),
                                 (ps! "key_mgr", .obj [(ps! "pubkeys", kk), (ps! "threshold", kt)])]    -- 151-154
    buildDelegatingMd now1 now1 (.j (.str (ps! "root"))) (some (.j delegations)) ver ts (some expiration)   -- 156-162
  | _, _, _, _ =>
    -- a non-JSON kind inside the delegations dict: rejected by checkformat_delegations (after the cheaper checks, same class)
    .error .arg

end CCT
