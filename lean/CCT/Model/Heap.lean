import CCT.Model.Signing
/-!
# CCT.Model.Heap — object identity and aliasing (C12)

Python containers are mutable objects with identity.  A heap maps ids to objects; lists and dicts hold the *ids* of their items, leaves
(None / bool / int / float / str) are immutable values.  `copy.deepcopy(x)` is modelled as "read the value tree of `x`, allocate it afresh"
(`alloc`), a shallow copy (`shallowCopy`) allocates only a new top-level container that shares the children.
-/
namespace CCT



inductive Obj where
  | atom (v : J)                           -- an immutable leaf
  | list (items : List Nat)
  | dict (items : List (PStr × Nat))
  deriving Inhabited

structure Heap where
  get : Nat → Option Obj
  next : Nat                               -- ids `≥ next` are unallocated

def Heap.set (h : Heap) (i : Nat) (o : Obj) : Heap := { h with get := fun j => if j = i then some o else h.get j }

def Heap.push (h : Heap) (o : Obj) : Heap × Nat :=
  ({ get := fun j => if j = h.next then some o else h.get j, next := h.next + 1 }, h.next)

mutual
/-- allocate a fresh tree for a value: every container and leaf gets a new id (children first) -/
def alloc (h : Heap) : J → Heap × Nat
  | .arr xs => let (h', ids) := allocList h xs; h'.push (.list ids)
  | .obj kvs => let (h', ids) := allocMembers h kvs; h'.push (.dict ids)
  | .null => h.push (.atom .null)
  | .bool b => h.push (.atom (.bool b))
  | .int z => h.push (.atom (.int z))
  | .flt t => h.push (.atom (.flt t))
  | .str s => h.push (.atom (.str s))
def allocList (h : Heap) : List J → Heap × List Nat
  | [] => (h, [])
  | x :: r => let (h1, i) := alloc h x; let (h2, ids) := allocList h1 r; (h2, i :: ids)
def allocMembers (h : Heap) : List (PStr × J) → Heap × List (PStr × Nat)
  | [] => (h, [])
  | (k, v) :: r => let (h1, i) := alloc h v; let (h2, ids) := allocMembers h1 r; (h2, (k, i) :: ids)
end

mutual
/-- read the value tree below an id (fuel bounds the depth: heaps built by mutation may be cyclic) -/
def deref (h : Heap) : Nat → Nat → Option J
  | 0, _ => none
  | f + 1, i =>
    match h.get i with
    | none => none
    | some (.atom v) => some v
    | some (.list ids) => (derefList h f ids).map .arr
    | some (.dict kvs) => (derefMembers h f kvs).map .obj
def derefList (h : Heap) : Nat → List Nat → Option (List J)
  | _, [] => some []
  | f, i :: r => match deref h f i, derefList h f r with
    | some v, some vs => some (v :: vs)
    | _, _ => none
def derefMembers (h : Heap) : Nat → List (PStr × Nat) → Option (List (PStr × J))
  | _, [] => some []
  | f, (k, i) :: r => match deref h f i, derefMembers h f r with
    | some v, some vs => some ((k, v) :: vs)
    | _, _ => none
end

/-- `d[k] = <object j>` / `l[n] = <object j>` / `l.append`, … : any replacement of the contents of container `i` -/
def Heap.write (h : Heap) (i : Nat) (o : Obj) : Heap := if i < h.next then h.set i o else h

/-- a shallow copy: a new top-level container sharing the children -/
def shallowCopy (h : Heap) (i : Nat) : Heap × Nat :=
  match h.get i with
  | some o => h.push o
  | none => h.push (.atom .null)

/-- `wrap_as_signable(obj)` on the heap: `{"signatures": {}, "signed": deepcopy(obj)}`; `depth` bounds the read of `obj` -/
def wrapOnHeap (h : Heap) (depth : Nat) (obj : Nat) : Option (Heap × Nat) :=
  match deref h depth obj with
  | none => none
  | some v =>
    let (h1, signed) := alloc h v
    let (h2, sigs) := h1.push (.dict [])
    some (h2.push (.dict [(ps! "signatures", sigs), (ps! "signed", signed)]))

end CCT
