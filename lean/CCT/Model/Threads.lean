import CCT.Model.Heap
import CCT.Model.Auth
/-!
# CCT.Model.Threads — threads over a shared heap (C12)

CPython runs one thread at a time and may switch between any two bytecodes.  A thread is modelled as the list of atomic steps it
still has to execute plus its private state (locals); a step may read and write the shared heap.  A *schedule* is the list of thread
numbers in the order in which the interpreter lets them take one step each (a number whose thread has finished is a no-op), so every
interleaving of every granularity finer than the steps is a schedule.

A verifier call is the thread `verifierThread`: it reads its three argument objects from the heap, one per step (between which other
threads run), and then evaluates.  `Props/C12.lean` proves that threads whose steps never write the heap obtain, under every schedule,
exactly what they obtain alone — and shows with a concrete schedule that one writing step (an in-place `sort()` of the shared key list,
a module-level tally) breaks this.
-/
namespace CCT

structure Thread (σ : Type) where
  steps : List (Heap → σ → Heap × σ)
  loc : σ

/-- thread `i` takes one step -/
def stepThread {σ : Type} (h : Heap) (ts : Nat → Thread σ) (i : Nat) : Heap × (Nat → Thread σ) :=
  match (ts i).steps with
  | [] => (h, ts)
  | f :: rest =>
    let (h', s') := f h (ts i).loc
    (h', fun j => if j = i then { steps := rest, loc := s' } else ts j)

def runSched {σ : Type} : Heap → (Nat → Thread σ) → List Nat → Heap × (Nat → Thread σ)
  | h, ts, [] => (h, ts)
  | h, ts, i :: r => let (h', ts') := stepThread h ts i; runSched h' ts' r

/-- a thread run alone, to completion -/
def runAlone {σ : Type} : Heap → List (Heap → σ → Heap × σ) → σ → Heap × σ
  | h, [], s => (h, s)
  | h, f :: r, s => let (h', s') := f h s; runAlone h' r s'

/-- the private state of a verifier thread: what it has read so far, and its verdict once computed -/
structure VLocal where
  env : Option J := none
  keys : Option J := none
  thr : Option J := none
  verdict : Option (Res Unit) := none

/-- the evaluation proper, once the three arguments have been read -/
def verdictOf (C : CryptoFns) (gpg : Bool) : Option J → Option J → Option J → Option (Res Unit)
  | some e, some k, some t => some (verifySignableJ C e k t gpg)
  | _, _, _ => none

/-- `verify_signable(env, keys, thr, gpg)` on heap objects as four atomic steps -/
def verifierSteps (C : CryptoFns) (depth env keys thr : Nat) (gpg : Bool) : List (Heap → VLocal → Heap × VLocal) :=
  [ fun h s => (h, { s with env := deref h depth env }),
    fun h s => (h, { s with keys := deref h depth keys }),
    fun h s => (h, { s with thr := deref h depth thr }),
    fun h s => (h, { s with verdict := verdictOf C gpg s.env s.keys s.thr }) ]

def verifierThread (C : CryptoFns) (depth env keys thr : Nat) (gpg : Bool) : Thread VLocal :=
  { steps := verifierSteps C depth env keys thr gpg, loc := {} }

end CCT
