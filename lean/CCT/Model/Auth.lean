import CCT.Model.Common
/-!
# CCT.Model.Auth — `conda_content_trust/authentication.py`

`verify_signature` (253-298), `verify_gpg_signature` (467-541), `verify_signable` (301-464),
`verify_delegation` (142-244), `verify_root` (40-111).  Cryptography is a parameter (`CryptoFns`); the
theorems quantify over it, the driver instantiates it with the RFC 8032 / FIPS 180-4 reference.
-/
namespace CCT

/-- the primitives the library calls -/
structure CryptoFns where
  /-- `Ed25519PublicKey.from_public_bytes(pub).verify(sig, msg)` returns (true) or raises InvalidSignature (false) -/
  verify : (pub msg sig : Bytes) → Bool
  /-- `Ed25519PrivateKey.from_private_bytes(seed).sign(msg)` -/
  sign : (seed msg : Bytes) → Bytes
  /-- raw bytes of `private_key.public_key()` -/
  pubOf : (seed : Bytes) → Bytes
  sha256 : Bytes → Bytes

/-- primitives together with the only laws ever assumed about them (no unforgeability, no binding) -/
structure Crypto extends CryptoFns where
  sign_len : ∀ s m, s.length = 32 → (sign s m).length = 64
  sign_byte : ∀ s m, s.length = 32 → ∀ b ∈ sign s m, b < 256
  pub_len : ∀ s, s.length = 32 → (pubOf s).length = 32
  pub_byte : ∀ s, s.length = 32 → ∀ b ∈ pubOf s, b < 256
  correct : ∀ s m, s.length = 32 → verify (pubOf s) m (sign s m) = true

/-- RFC 4880 §5.2.4 hashed data for a v4 signature: payload ‖ hashed headers ‖ 04 ff ‖ be32(len headers) -/
def gpgDigestInput (data hdr : Bytes) : Bytes := data ++ hdr ++ [4, 255] ++ be32 hdr.length

def gpgDigest (C : CryptoFns) (data hdr : Bytes) : Bytes := C.sha256 (gpgDigestInput data hdr)

/-- `verify_signature(signature, public_key, data)` (253-298) -/
def verifySignature (C : CryptoFns) (signature public_key data : PyVal) : Res Unit :=
  match public_key with
  | .pubkey pk =>
    match signature with
    | .j sg => do
      if !(← isHexSignatureJ sg) then .error .arg
      else match data with
        | .bytes d => if C.verify pk d (unhex (strOf sg)) then okU else .error .invalidSignature
        | _ => .error .arg
    | _ => .error .arg
  | _ => .error .arg

/-- `verify_gpg_signature(signature, key_value, data)` (467-541) with JSON arguments for the first two -/
def verifyGpgSignatureJ (C : CryptoFns) (signature key_value : J) (data : Bytes) : Res Unit := do
  checkGpgSignatureJ signature                    -- 493
  checkHexKeyJ key_value                          -- 494
  match signature with
  | .obj kvs =>
    let oh ← dictIndex (ps! "other_headers") kvs  -- 517
    let hdr := unhex (strOf oh)
    -- (pack(">I", len(hdr)) at 528 raises struct.error for a header of 4 GiB or more: not modelled)
    let sg ← dictIndex (ps! "signature") kvs      -- 537
    if C.verify (unhex (strOf key_value)) (gpgDigest C data hdr) (unhex (strOf sg)) then okU
    else .error .invalidSignature                 -- 538
  | _ => .error .arg

def verifyGpgSignature (C : CryptoFns) (signature key_value data : PyVal) : Res Unit :=
  match signature, key_value with
  | .j sg, .j kv => do
    checkGpgSignatureJ sg
    checkHexKeyJ kv
    checkBytesLike data                           -- 495
    match data with
    | .bytes d | .bytearray d => verifyGpgSignatureJ C sg kv d
    | _ => .error .arg
  | .j sg, _ => do checkGpgSignatureJ sg; .error .arg
  | _, _ => .error .arg

/-- one iteration of the loop at 387-446: the new accumulator (a dict keyed by the key string) -/
def verifyEntry (C : CryptoFns) (gpg : Bool) (auth : List PStr) (data : Bytes)
    (good : List (PStr × J)) (k : PStr) (sig : J) : Res (List (PStr × J)) := do
  if !(← isHexKeyJ (.str k)) then pure good                           -- 389-395
  else if gpg && !(← isGpgSignatureJ sig) then pure good              -- 397-403
  else if !auth.contains k then pure good                      -- 405-412
  else if !gpg then
    if !(← isSignatureJ sig) then pure good                           -- 415-421
    else match sig with
      | .obj kvs =>
        let sg ← dictIndex (ps! "signature") kvs                      -- 426
        -- PublicKey.from_hex(pubkey_hex) (423) cannot fail: the string passed is_hex_key
        match verifySignature C (.j sg) (.pubkey (unhex k)) (.bytes data) with
        | .ok _ => pure (dictSet good k sig)                          -- 433
        | .error .invalidSignature => pure good                       -- 428-430
        | .error e => .error e
      | _ => .error .arg
  else
    match verifyGpgSignatureJ C sig (.str k) data with                -- 439
    | .ok _ => pure (dictSet good k sig)                              -- 446
    | .error .invalidSignature => pure good                           -- 441-443
    | .error e => .error e

/-- which branch of the loop body an entry takes (for the correspondence: the model's own case split, reported entry by entry) -/
inductive EntryClass where
  | notKey | unauthorized | wrongShape | invalid | counts | error
  deriving DecidableEq, Repr

def EntryClass.name : EntryClass → String
  | .notKey => "not-a-key" | .unauthorized => "unauthorized" | .wrongShape => "wrong-shape" | .invalid => "invalid" | .counts => "counts" | .error => "error"

/-- the entry is run through one iteration of the loop with an empty accumulator: it counts iff it was added; otherwise the first test it fails names the class -/
def entryClass (C : CryptoFns) (gpg : Bool) (auth : List PStr) (data : Bytes) (k : PStr) (sig : J) : EntryClass :=
  match verifyEntry C gpg auth data [] k sig with
  | .ok (_ :: _) => .counts
  | .error _ => .error
  | .ok [] =>
    if isHexKeyJ (.str k) != .ok true then .notKey
    else if gpg && isGpgSignatureJ sig != .ok true then .wrongShape
    else if !auth.contains k then .unauthorized
    else if !gpg && isSignatureJ sig != .ok true then .wrongShape
    else .invalid

def verifyLoop (C : CryptoFns) (gpg : Bool) (auth : List PStr) (data : Bytes) :
    List (PStr × J) → List (PStr × J) → Res (List (PStr × J))
  | good, [] => pure good
  | good, (k, sig) :: r => do
    let good' ← verifyEntry C gpg auth data good k sig
    verifyLoop C gpg auth data good' r

/-- truthiness of the `gpg` argument of `verify_signable` (never validated there) -/
def truthyJ : J → Bool
  | .null => false
  | .bool b => b
  | .int z => z ≠ 0
  | .flt t => !(t == ps! "0.0" || t == ps! "-0.0")
  | .str s => !s.isEmpty
  | .arr xs => !xs.isEmpty
  | .obj kvs => !kvs.isEmpty

/-- `verify_signable(signable, authorized_pub_keys, threshold, gpg)` (301-464) on JSON arguments -/
def verifySignableJ (C : CryptoFns) (signable keys thr : J) (gpg : Bool) : Res Unit := do
  if !isSignableJ signable then .error .arg                            -- 346
  else match keys with
    | .arr ks =>
      if !(← allHexKeys ks) then .error .arg                           -- 351-355
      else match asInt thr with                                        -- 361
        | none => .error .arg
        | some t =>
          if t ≤ 0 then .error .arg
          else match signable with
            | .obj top =>
              let signed ← dictIndex (ps! "signed") top
              let data := ser signed                                   -- 379
              let sigs ← dictIndex (ps! "signatures") top
              match sigs with
              | .obj entries =>
                let good ← verifyLoop C gpg (ks.map strOf) data [] entries         -- 385-446
                if (good.length : Int) < t then .error .signature      -- 449
                else okU
              | _ => .error .attribute
            | _ => .error .arg
    | _ => .error .arg

def verifySignable (C : CryptoFns) (signable keys thr gpg : PyVal) : Res Unit :=
  match signable, keys, thr, gpg with
  | .j s, .j k, .j t, .j g => verifySignableJ C s k t (truthyJ g)
  | .j s, .j k, _, _ => do
    -- threshold is not an int → TypeError (after the first two checks, which raise the same class)
    if !isSignableJ s then .error .arg else .error .arg
  | _, _, _, _ => .error .arg

/-- `gpg not in [True, False]` (191): passes for anything `==` to True or False -/
def gpgFlag : J → Option Bool
  | .bool b => some b
  | .int 0 => some false
  | .int 1 => some true
  | .flt t => if t == ps! "0.0" || t == ps! "-0.0" then some false else if t == ps! "1.0" then some true else none
  | _ => none

def typeOfSigned (env : J) : Res J := do
  let s ← pyIndexStr (ps! "signed") env
  pyIndexStr (ps! "type") s

/-- the envelope the delegating-metadata checker is run on when deciding whether the untrusted
metadata is itself delegating metadata: its *signed* portion alone (the signature map is attacker
controlled and must not influence the type check — property C06) -/
def signedOnlyEnvelope (signed : J) : J :=
  .obj [(ps! "signatures", .obj []), (ps! "signed", signed)]

/-- `verify_delegation(delegation_name, untrusted, trusted, gpg)` (142-244) -/
def verifyDelegationJ (C : CryptoFns) (name : PStr) (untrusted trusted : J) (gpg : Bool) : Res Unit := do
  checkDelegatingMdJ trusted                                            -- 196
  checkSignableJ untrusted                                              -- 208
  let usigned ← pyIndexStr (ps! "signed") untrusted
  match checkDelegatingMdJ (signedOnlyEnvelope usigned) with            -- 209-216
  | .error .arg => okU
  | .error e => .error e
  | .ok _ =>
    let ty ← pyIndexStr (ps! "type") usigned
    if strOf ty ≠ name then .error .metadataVerification else okU      -- 220-225 (ty is a str: checker passed)
  let tsigned ← pyIndexStr (ps! "signed") trusted
  let delegations ← pyIndexStr (ps! "delegations") tsigned              -- 228
  if !(← pyInStr name delegations) then .error .unknownRole             -- 230-234
  else
    let d ← pyIndexStr name delegations
    let expectedKeys ← pyIndexStr (ps! "pubkeys") d                     -- 236
    let threshold ← pyIndexStr (ps! "threshold") d                      -- 237
    verifySignableJ C untrusted expectedKeys threshold gpg              -- 239

def verifyDelegation (C : CryptoFns) (name untrusted trusted gpg : PyVal) : Res Unit :=
  match name with
  | .j (.str n) =>
    match gpg with
    | .j g =>
      match gpgFlag g with
      | none => .error .arg                                             -- 191
      | some b =>
        match trusted, untrusted with
        | .j t, .j u => verifyDelegationJ C n u t b
        | .j t, _ => do checkDelegatingMdJ t; .error .arg
        | _, _ => .error .arg
    | _ => .error .arg
  | _ => .error .arg                                                    -- 186

/-- `verify_root(trusted_current_root_metadata, untrusted_new_root_metadata)` (40-111) -/
def verifyRootJ (C : CryptoFns) (trusted untrusted : J) : Res Unit := do
  checkDelegatingMdJ trusted                                            -- 55
  checkDelegatingMdJ untrusted                                          -- 56
  let tty ← typeOfSigned trusted
  let uty ← typeOfSigned untrusted
  if !isRootType tty || !isRootType uty then .error .arg               -- 58-66
  else
    let tsigned ← pyIndexStr (ps! "signed") trusted
    let tdel ← pyIndexStr (ps! "delegations") tsigned
    if !(← pyInStr (ps! "root") tdel) then .error .arg                  -- root metadata must delegate "root"
    else
    let rootExp ← pyIndexStr (ps! "root") tdel                          -- 69
    let expectedThreshold ← pyIndexStr (ps! "threshold") rootExp
    let authorized ← pyIndexStr (ps! "pubkeys") rootExp
    let usigned ← pyIndexStr (ps! "signed") untrusted
    let udel ← pyIndexStr (ps! "delegations") usigned
    if !(← pyInStr (ps! "root") udel) then .error .arg
    else
    let newExp ← pyIndexStr (ps! "root") udel                           -- 78
    let newThreshold ← pyIndexStr (ps! "threshold") newExp
    let newAuthorized ← pyIndexStr (ps! "pubkeys") newExp
    let tv ← pyIndexStr (ps! "version") tsigned                         -- 82
    let uv ← pyIndexStr (ps! "version") usigned
    match asInt tv, asInt uv with
    | some a, some b =>
      if a + 1 ≠ b then .error .metadataVerification                    -- 85-96
      else do
        verifySignableJ C untrusted authorized expectedThreshold true   -- 99
        verifySignableJ C untrusted newAuthorized newThreshold true     -- 106
    | _, _ => .error .arg        -- unreachable: the checker admits only ints as versions (theorem)

def verifyRoot (C : CryptoFns) (trusted untrusted : PyVal) : Res Unit :=
  match trusted, untrusted with
  | .j t, .j u => verifyRootJ C t u
  | _, _ => .error .arg

end CCT
