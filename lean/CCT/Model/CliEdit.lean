import CCT.Model.RootSigning
import CCT.Model.Time
/-!
# CCT.Model.CliEdit — the interactive `modify-metadata` editor (`cli.py:283-531`)

The editor is a loop reading lines from standard input.  The model takes the list of lines the user will type (`none` after the last one:
`input()` raises `EOFError`) and returns the outcome of the command, the files written and the metadata at the end.  What is printed
(pretty-printed metadata, prompts, colours) is not modelled.
-/
namespace CCT

/-- digits with single underscores between them, after `_PyUnicode_TransformDecimalAndSpaceToASCII` (any Unicode decimal digit counts) -/
def intBody : PStr → Bool → List Nat → Option (List Nat)
  | [], prevDigit, acc => if prevDigit then some acc.reverse else none
  | c :: r, prevDigit, acc =>
    if c = 95 then (if prevDigit ∧ !r.isEmpty then intBody r false acc else none)
    else match ndVal c with
      | some d => intBody r true (d :: acc)
      | none => none

/-- Python `int(s)` for a `str` (base 10): surrounding whitespace, an optional sign, digits; at most 4300 digits -/
def pyIntOfStr (s : PStr) : Option Int :=
  let t := pyStrip s
  let (neg, body) : Bool × PStr := match t with
    | 45 :: r => (true, r)
    | 43 :: r => (false, r)
    | r => (false, r)
  match intBody body false [] with
  | some ds =>
    if ds.length > maxStrDigits then none
    else
      let n : Nat := ds.foldl (fun a d => a * 10 + d) 0
      some (if neg then -(n : Int) else (n : Int))
  | none => none

structure EditRes where
  outcome : CliOutcome
  writes : List (PStr × Bytes)       -- (file name as typed, bytes written), in order
  md : J

/-- option 7, "change the threshold of a delegation" (426-460): the new metadata, or the exception that escapes; `none` = nothing changed
(unknown delegation / invalid value).  Consumes up to two input lines; returns the remaining ones. -/
def editThresh (md : J) : List PStr → Option (Res (Option J) × List PStr)
  | [] => none                         -- EOF at the first prompt
  | name :: rest =>
    some <|
    match (do let s ← pyIndexStr (ps! "signed") md; let d ← pyIndexStr (ps! "delegations") s; let b ← pyInStr name d; pure (s, d, b)) with
    | .error e => (.error e, rest)
    | .ok (_, _, false) => (.ok none, rest)
    | .ok (s, d, true) =>
      -- the prompt text needs str(metadata["signed"]["delegations"][name]["threshold"])
      match (do let dl ← pyIndexStr name d; let _ ← pyIndexStr (ps! "threshold") dl; pure dl) with
      | .error e => (.error e, rest)
      | .ok dl =>
        match rest with
        | [] => (.error .eof, [])
        | v :: rest' =>
          match pyIntOfStr v with
          | some z =>
            if z ≥ 1 then
              match md, s, d, dl with
              | .obj top, .obj sk, .obj dk, .obj dlk =>
                (.ok (some (.obj (dictSet top (ps! "signed") (.obj (dictSet sk (ps! "delegations") (.obj (dictSet dk name (.obj (dictSet dlk (ps! "threshold") (.int z)))))))))), rest')
              | _, _, _, _ => (.error .arg, rest')
            else (.ok none, rest')
          | none => (.ok none, rest')

/-- option 2, "add a signature" (371-412) -/
def editAddSig (C : CryptoFns) (G : GpgBackend) (sslib : Bool) (md : J) (keyText : PStr) : Res J :=
  let key := stripAllSpaceLower keyText
  match isHexKeyJ (.str key) with
  | .ok true => signSignableJ C md (unhex key)
  | _ =>
    match isGpgFingerprintJ (.str key) with
    | .ok true =>
      match signRootMdDictViaGpg G sslib md (.str key) with
      | .ok md' => .ok md'
      | .error .arg => .ok md                 -- except (ValueError, TypeError, ImportError): "Signing FAILED"
      | .error .importErr => .ok md
      | .error e => .error e
    | _ => .ok md                              -- "Unable to recognize key"

/-- the loop (510-531) -/
def editLoop (C : CryptoFns) (G : GpgBackend) (sslib : Bool) : Nat → J → List PStr → List (PStr × Bytes) → EditRes
  | 0, md, _, w => ⟨.raised .eof, w, md⟩
  | _, md, [], w => ⟨.raised .eof, w, md⟩                       -- input() at end of input
  | f+1, md, sel :: rest, w =>
    match pyIntOfStr sel with
    | none => editLoop C G sslib f md rest w
    | some n =>
      if n = 0 then
        match rest with
        | [] => ⟨.raised .eof, w, md⟩
        | fname :: _ => ⟨.returned none, w ++ [(fname, ser md)], md⟩
      else if n = 1 then ⟨.returned none, w, md⟩
      else if n = 2 then
        match rest with
        | [] => ⟨.raised .eof, w, md⟩
        | key :: rest' =>
          match editAddSig C G sslib md key with
          | .ok md' => editLoop C G sslib f md' rest' w
          | .error e => ⟨.raised e, w, md⟩
      else if n = 7 then
        match editThresh md rest with
        | none => ⟨.raised .eof, w, md⟩
        | some (.error e, _) => ⟨.raised e, w, md⟩
        | some (.ok none, rest') => editLoop C G sslib f md rest' w
        | some (.ok (some md'), rest') => editLoop C G sslib f md' rest' w
      else editLoop C G sslib f md rest w                        -- 3, 4, 5, 6, 8, 9: not implemented; anything else: "Invalid entry"

/-- `cli_modify_metadata` (283-308) on the bytes of the file named on the command line -/
def cliModifyMetadata (C : CryptoFns) (G : GpgBackend) (sslib : Bool) (file : Option Bytes) (inputs : List PStr) : EditRes :=
  match loadFile file with
  | .error e => ⟨.raised e, [], .null⟩
  | .ok md =>
    let r := editLoop C G sslib (inputs.length + 1) md inputs []
    -- cli() returns what the handler returned: None
    r

end CCT
