import CCT.Lemmas.Dict
import CCT.Model.Signing
import CCT.Props.C02
/-!
# C09 — sign-then-verify round trip, signer binding, determinism, order independence

Model: `wrapAsSignable`, `signSignableJ` (`signing.py:61-145`).  `C : Crypto` carries the only laws assumed of the scheme
(signature and key lengths, bytes are bytes, `verify (pubOf s) m (sign s m)`); nothing about unforgeability.
-/
namespace CCT.C09
open CCT CCT.C15
open Classical

def pubHex (C : CryptoFns) (seed : Bytes) : PStr := hexOfBytes (C.pubOf seed)
def sigEntry (C : CryptoFns) (seed : Bytes) (signed : J) : J := sigDictOf (serializeAndSign C signed seed)

/-- wrapping carries the payload unchanged inside a fresh envelope with no signatures -/
theorem wrap_parts (v : J) : ∃ env, wrapAsSignable (.j v) = .ok env ∧ EnvParts env [] v :=
  ⟨_, rfl, ⟨by simp [isSignableJ, keysetEq, dictKeys, dictGet], _, rfl, by simp [dictGet], by simp [dictGet]⟩⟩

theorem pubHex_key (C : Crypto) (seed : Bytes) (h : seed.length = 32) : HexN 64 (.str (pubHex C.toCryptoFns seed)) :=
  ⟨_, rfl, by rw [pubHex, hexOfBytes_length, C.pub_len seed h], hexOfBytes_lower _⟩

theorem sig_hex (C : Crypto) (seed : Bytes) (h : seed.length = 32) (signed : J) :
    HexN 128 (.str (serializeAndSign C.toCryptoFns signed seed)) :=
  ⟨_, rfl, by rw [serializeAndSign, hexOfBytes_length, C.sign_len seed _ h], hexOfBytes_lower _⟩

/-- the entry the library files is a well-formed raw signature entry -/
theorem sigEntry_raw (C : Crypto) (seed : Bytes) (h : seed.length = 32) (signed : J) : RawShape (sigEntry C.toCryptoFns seed signed) :=
  ⟨_, rfl, rfl, _, by simp [dictGet], sig_hex C seed h signed⟩

/-- **signing**: succeeds on every signable envelope, leaves the payload and every other signer's entry untouched, and files a
well-formed entry under the hex of the signer's public key -/
theorem sign_ok (C : Crypto) (env : J) (entries : List (PStr × J)) (signed : J) (hp : EnvParts env entries signed) (seed : Bytes)
    (hs : seed.length = 32) :
    ∃ env', signSignableJ C.toCryptoFns env seed = .ok env' ∧
      EnvParts env' (dictSet entries (pubHex C.toCryptoFns seed) (sigEntry C.toCryptoFns seed signed)) signed := by
  obtain ⟨hsg, top, rfl, h1, h2⟩ := hp
  have hchk : checkSignatureJ (sigDictOf (serializeAndSign C.toCryptoFns signed seed)) = .ok () :=
    (checkSignature_iff _).mpr (Or.inl (sigEntry_raw C seed hs signed))
  have hcomp : signSignableJ C.toCryptoFns (.obj top) seed = .ok (.obj (dictSet top (ps! "signatures")
      (.obj (dictSet entries (pubHex C.toCryptoFns seed) (sigEntry C.toCryptoFns seed signed))))) := by
    simp only [signSignableJ, checkSignableJ, hsg, if_true, okU, bind, Except.bind, dictIndex_some h1, dictIndex_some h2, hchk, pure, Except.pure,
      pubHex, sigEntry]
  refine ⟨_, hcomp, ?_, _, rfl, dictGet_dictSet_same _ _ _, ?_⟩
  · simp only [isSignableJ, Bool.and_eq_true] at hsg ⊢
    exact ⟨keysetEq_dictSet_existing _ _ _ _ hsg.1 (by simp), by rw [dictGet_dictSet_same]⟩
  · rw [dictGet_dictSet_other _ _ _ (by decide)]; exact h2

/-- touches only the signer's own entry -/
theorem sign_other_entries (k : PStr) (entries : List (PStr × J)) (C : CryptoFns) (seed : Bytes) (signed : J) (h : k ≠ pubHex C seed) :
    dictGet k (dictSet entries (pubHex C seed) (sigEntry C seed signed)) = dictGet k entries :=
  dictGet_dictSet_other _ _ _ h _

theorem dictSet_idem (k : PStr) (v : J) : ∀ (d : List (PStr × J)), dictSet (dictSet d k v) k v = dictSet d k v
  | [] => by simp [dictSet]
  | (k', v') :: r => by
    simp only [dictSet]
    by_cases h : k' = k
    · simp [h, dictSet]
    · simp [h, dictSet, dictSet_idem k v r]

/-- **deterministic and idempotent**: signing again with the same key changes nothing (the signature is a function of key and payload) -/
theorem sign_idempotent (entries : List (PStr × J)) (C : CryptoFns) (seed : Bytes) (signed : J) :
    dictSet (dictSet entries (pubHex C seed) (sigEntry C seed signed)) (pubHex C seed) (sigEntry C seed signed)
      = dictSet entries (pubHex C seed) (sigEntry C seed signed) := dictSet_idem _ _ _

/-- **order independent**: two signers in either order leave the same signature map (as a mapping) -/
theorem sign_commute (entries : List (PStr × J)) (k1 k2 : PStr) (v1 v2 : J) (h : k1 ≠ k2) (x : PStr) :
    dictGet x (dictSet (dictSet entries k1 v1) k2 v2) = dictGet x (dictSet (dictSet entries k2 v2) k1 v1) := by
  by_cases h1 : x = k1
  · subst h1
    rw [dictGet_dictSet_other _ _ _ h, dictGet_dictSet_same, dictGet_dictSet_same]
  · by_cases h2 : x = k2
    · subst h2
      rw [dictGet_dictSet_same, dictGet_dictSet_other _ _ _ h1, dictGet_dictSet_same]
    · rw [dictGet_dictSet_other _ _ _ h2, dictGet_dictSet_other _ _ _ h1, dictGet_dictSet_other _ _ _ h1, dictGet_dictSet_other _ _ _ h2]

/-- the library's own entry counts for its signer whenever that key is authorized -/
theorem own_entry_counts (C : Crypto) (seed : Bytes) (hs : seed.length = 32) (signed : J) (auth : List PStr)
    (ha : pubHex C.toCryptoFns seed ∈ auth) :
    Counts C.toCryptoFns false auth (ser signed) (pubHex C.toCryptoFns seed) (sigEntry C.toCryptoFns seed signed) := by
  refine ⟨pubHex_key C seed hs, ha, ?_⟩
  simp only [Bool.false_eq_true, if_false]
  refine ⟨Or.inl (sigEntry_raw C seed hs signed), ?_⟩
  simp only [sigEntry, sigDictOf, entryField, dictGet, if_true, Option.getD_some, strOf_str, pubHex, serializeAndSign]
  rw [unhex_hexOfBytes _ (C.pub_byte seed hs), unhex_hexOfBytes _ (C.sign_byte seed _ hs)]
  exact C.correct seed _ hs

/-- signing by a list of seeds, as repeated `sign_signable` -/
def signAll (C : CryptoFns) (signed : J) (entries : List (PStr × J)) (seeds : List Bytes) : List (PStr × J) :=
  seeds.foldl (fun e s => dictSet e (pubHex C s) (sigEntry C s signed)) entries

theorem signAll_mem (C : CryptoFns) (signed : J) (seeds : List Bytes) (hn : (seeds.map (pubHex C)).Nodup) :
    ∀ (entries : List (PStr × J)), ∀ s ∈ seeds, (pubHex C s, sigEntry C s signed) ∈ signAll C signed entries seeds := by
  induction seeds with
  | nil => intro _ s hs; cases hs
  | cons s0 r ih =>
    intro entries s hs
    simp only [List.map_cons, List.nodup_cons] at hn
    simp only [signAll, List.foldl_cons]
    rcases List.mem_cons.mp hs with rfl | hs
    · -- later signers have other keys, so this entry survives
      have : ∀ (r' : List Bytes) (e : List (PStr × J)), (∀ x ∈ r', pubHex C x ≠ pubHex C s) → (pubHex C s, sigEntry C s signed) ∈ e →
          (pubHex C s, sigEntry C s signed) ∈ r'.foldl (fun e s => dictSet e (pubHex C s) (sigEntry C s signed)) e := by
        intro r'
        induction r' with
        | nil => intro e _ h; exact h
        | cons y r'' ih2 =>
          intro e hne h
          simp only [List.foldl_cons]
          exact ih2 _ (fun x hx => hne x (by simp [hx])) (mem_dictSet_of_mem_ne _ _ _ _ h (fun e' => hne y (by simp) e'.symm))
      exact this r _ (fun x hx e => hn.1 (e ▸ List.mem_map_of_mem (f := pubHex C) hx)) (mem_dictSet_self _ _ _)
    · exact ih hn.2 _ s hs

theorem signAll_keys (C : CryptoFns) (signed : J) : ∀ (seeds : List Bytes) (entries : List (PStr × J)) (k : PStr),
    k ∈ (signAll C signed entries seeds).map (·.1) → k ∈ entries.map (·.1) ∨ k ∈ seeds.map (pubHex C)
  | [], entries, k, h => Or.inl h
  | s :: r, entries, k, h => by
    simp only [signAll, List.foldl_cons] at h
    rcases signAll_keys C signed r _ k h with h | h
    · rcases (dictKeys_dictSet_mem _ _ _ _).mp h with rfl | h
      · exact Or.inr (by simp)
      · exact Or.inl h
    · exact Or.inr (by simp [h])

/-- **threshold boundary**: an envelope wrapped and signed by `n` distinct keys, all authorized, verifies for every threshold
`1 ≤ t ≤ n` and for none above `n` -/
theorem threshold_boundary (C : Crypto) (signed : J) (seeds : List Bytes) (hlen : ∀ s ∈ seeds, s.length = 32)
    (hn : (seeds.map (pubHex C.toCryptoFns)).Nodup) (auth : List PStr) (ha : ∀ s ∈ seeds, pubHex C.toCryptoFns s ∈ auth) (t : Nat) :
    ThresholdMet C.toCryptoFns false auth (ser signed) (signAll C.toCryptoFns signed [] seeds) t ↔ t ≤ seeds.length := by
  constructor
  · rintro ⟨S, hS, hl, hall⟩
    have hsub : S ⊆ seeds.map (pubHex C.toCryptoFns) := by
      intro k hk
      obtain ⟨sig, hm, _⟩ := hall k hk
      rcases signAll_keys C.toCryptoFns signed seeds [] k (List.mem_map_of_mem (f := (·.1)) hm) with h | h
      · cases h
      · exact h
    have := List.Nodup.length_le_of_subset hS hsub
    simp only [List.length_map] at this
    omega
  · intro ht
    refine ⟨seeds.map (pubHex C.toCryptoFns), hn, by simpa using ht, ?_⟩
    intro k hk
    obtain ⟨s, hs, rfl⟩ := List.mem_map.mp hk
    exact ⟨_, signAll_mem C.toCryptoFns signed seeds hn [] s hs, own_entry_counts C s (hlen s hs) signed auth (ha s hs)⟩

/-- **any later change of the payload makes every earlier signature stop counting — or exhibits a forgery**: if an entry made by the
library for payload `p` still counts after the payload was replaced by `p'`, then the scheme accepts one signature for two
different byte strings (`ser p' ≠ ser p` whenever the JSON values differ, by C07) -/
theorem edit_invalidates_or_forgery (C : Crypto) (seed : Bytes) (hs : seed.length = 32) (p p' : J) (auth : List PStr)
    (h : Counts C.toCryptoFns false auth (ser p') (pubHex C.toCryptoFns seed) (sigEntry C.toCryptoFns seed p)) :
    C.verify (C.pubOf seed) (ser p') (C.sign seed (ser p)) = true := by
  have := h.2.2
  simp only [Bool.false_eq_true, if_false] at this
  have hv := this.2
  simp only [sigEntry, sigDictOf, entryField, dictGet, if_true, Option.getD_some, strOf_str, pubHex, serializeAndSign] at hv
  rwa [unhex_hexOfBytes _ (C.pub_byte seed hs), unhex_hexOfBytes _ (C.sign_byte seed _ hs)] at hv

/-- end to end for one signer: wrap, sign, verify with that key authorized -/
theorem wrap_sign_verify (C : Crypto) (v : J) (seed : Bytes) (hs : seed.length = 32) :
    ∃ env env', wrapAsSignable (.j v) = .ok env ∧ signSignableJ C.toCryptoFns env seed = .ok env' ∧
      verifySignableJ C.toCryptoFns env' (.arr [.str (pubHex C.toCryptoFns seed)]) (.int 1) false = .ok () := by
  obtain ⟨env, hw, hp⟩ := wrap_parts v
  obtain ⟨env', hsig, hp'⟩ := sign_ok C env [] v hp seed hs
  refine ⟨env, env', hw, hsig, ?_⟩
  refine C02.verifySignable_complete C.toCryptoFns env' _ _ false _ v [.str (pubHex C.toCryptoFns seed)] 1 hp' rfl ?_ rfl (by decide) ?_
  · intro k hk; simp at hk; subst hk; exact pubHex_key C seed hs
  · refine ⟨[pubHex C.toCryptoFns seed], by simp, by simp, ?_⟩
    intro k hk; simp at hk; subst hk
    exact ⟨_, mem_dictSet_self _ _ _, own_entry_counts C seed hs v _ (by simp)⟩

-- non-vacuity: the laws are satisfiable (a toy scheme with 32-byte keys and 64-byte tags)
def toyCrypto : Crypto where
  verify pub msg sig := sig == List.replicate 64 ((pub.foldl (· + ·) 0 + msg.foldl (· + ·) 0) % 256)
  sign seed msg := List.replicate 64 (((seed.map (· % 256)).foldl (· + ·) 0 + msg.foldl (· + ·) 0) % 256)
  pubOf seed := seed.map (· % 256)
  sha256 m := List.replicate 32 (m.foldl (· + ·) 0 % 256)
  sign_len := by intros; simp
  sign_byte := by intro s m _ b hb; simp at hb; omega
  pub_len := by intro s h; simp [h]
  pub_byte := by intro s _ b hb; simp at hb; obtain ⟨a, _, rfl⟩ := hb; omega
  correct := by intros; simp

end CCT.C09
