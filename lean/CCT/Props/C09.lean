import CCT.Lemmas.Dict
import CCT.Lemmas.SignThreads
import CCT.Model.Signing
import CCT.Props.C02
/-!
# C09 — sign-then-verify round trip, signer binding, determinism, order independence

Model: `wrapAsSignable`, `signSignableJ` (`signing.py:61-145`).  `C : Crypto` carries the only laws assumed of the scheme
(signature and key lengths, bytes are bytes, `verify (pubOf s) m (sign s m)`); nothing about unforgeability.
-/
namespace CCT.C09
open CCT CCT.C15
open Classical

def pubHex (C : CryptoFns) (seed : Bytes) : PStr := hexOfBytes (C.pubOf seed)
def sigEntry (C : CryptoFns) (seed : Bytes) (signed : J) : J := sigDictOf (serializeAndSign C signed seed)

/-- wrapping carries the payload unchanged inside a fresh envelope with no signatures -/
theorem wrap_parts (v : J) : ∃ env, wrapAsSignable (.j v) = .ok env ∧ EnvParts env [] v :=
  ⟨_, rfl, ⟨by simp [isSignableJ, keysetEq, dictKeys, dictGet], _, rfl, by simp [dictGet], by simp [dictGet]⟩⟩

theorem pubHex_key (C : Crypto) (seed : Bytes) (h : seed.length = 32) : HexN 64 (.str (pubHex C.toCryptoFns seed)) :=
  ⟨_, rfl, by rw [pubHex, hexOfBytes_length, C.pub_len seed h], hexOfBytes_lower _⟩

theorem sig_hex (C : Crypto) (seed : Bytes) (h : seed.length = 32) (signed : J) :
    HexN 128 (.str (serializeAndSign C.toCryptoFns signed seed)) :=
  ⟨_, rfl, by rw [serializeAndSign, hexOfBytes_length, C.sign_len seed _ h], hexOfBytes_lower _⟩

/-- the entry the library files is a well-formed raw signature entry -/
theorem sigEntry_raw (C : Crypto) (seed : Bytes) (h : seed.length = 32) (signed : J) : RawShape (sigEntry C.toCryptoFns seed signed) :=
  ⟨_, rfl, rfl, _, by simp [dictGet], sig_hex C seed h signed⟩

/-- **signing**: succeeds on every signable envelope, leaves the payload and every other signer's entry untouched, and files a
well-formed entry under the hex of the signer's public key -/
theorem sign_ok (C : Crypto) (env : J) (entries : List (PStr × J)) (signed : J) (hp : EnvParts env entries signed) (seed : Bytes)
    (hs : seed.length = 32) :
    ∃ env', signSignableJ C.toCryptoFns env seed = .ok env' ∧
      EnvParts env' (dictSet entries (pubHex C.toCryptoFns seed) (sigEntry C.toCryptoFns seed signed)) signed := by
  obtain ⟨hsg, top, rfl, h1, h2⟩ := hp
  have hchk : checkSignatureJ (sigDictOf (serializeAndSign C.toCryptoFns signed seed)) = .ok () :=
    (checkSignature_iff _).mpr (Or.inl (sigEntry_raw C seed hs signed))
  have hcomp : signSignableJ C.toCryptoFns (.obj top) seed = .ok (.obj (dictSet top (ps! "signatures")
      (.obj (dictSet entries (pubHex C.toCryptoFns seed) (sigEntry C.toCryptoFns seed signed))))) := by
    simp only [signSignableJ, checkSignableJ, hsg, if_true, okU, bind, Except.bind, dictIndex_some h1, dictIndex_some h2, hchk, pure, Except.pure,
      pubHex, sigEntry]
  refine ⟨_, hcomp, ?_, _, rfl, dictGet_dictSet_same _ _ _, ?_⟩
  · simp only [isSignableJ, Bool.and_eq_true] at hsg ⊢
    exact ⟨keysetEq_dictSet_existing _ _ _ _ hsg.1 (by simp), by rw [dictGet_dictSet_same]⟩
  · rw [dictGet_dictSet_other _ _ _ (by decide)]; exact h2

/-- touches only the signer's own entry -/
theorem sign_other_entries (k : PStr) (entries : List (PStr × J)) (C : CryptoFns) (seed : Bytes) (signed : J) (h : k ≠ pubHex C seed) :
    dictGet k (dictSet entries (pubHex C seed) (sigEntry C seed signed)) = dictGet k entries :=
  dictGet_dictSet_other _ _ _ h _

theorem dictSet_idem (k : PStr) (v : J) : ∀ (d : List (PStr × J)), dictSet (dictSet d k v) k v = dictSet d k v
  | [] => by simp [dictSet]
  | (k', v') :: r => by
    simp only [dictSet]
    by_cases h : k' = k
    · simp [h, dictSet]
    · simp [h, dictSet, dictSet_idem k v r]

/-- **deterministic and idempotent**: signing again with the same key changes nothing (the signature is a function of key and payload) -/
theorem sign_idempotent (entries : List (PStr × J)) (C : CryptoFns) (seed : Bytes) (signed : J) :
    dictSet (dictSet entries (pubHex C seed) (sigEntry C seed signed)) (pubHex C seed) (sigEntry C seed signed)
      = dictSet entries (pubHex C seed) (sigEntry C seed signed) := dictSet_idem _ _ _

/-- **order independent**: two signers in either order leave the same signature map (as a mapping) -/
theorem sign_commute (entries : List (PStr × J)) (k1 k2 : PStr) (v1 v2 : J) (h : k1 ≠ k2) (x : PStr) :
    dictGet x (dictSet (dictSet entries k1 v1) k2 v2) = dictGet x (dictSet (dictSet entries k2 v2) k1 v1) := by
  by_cases h1 : x = k1
  · subst h1
    rw [dictGet_dictSet_other _ _ _ h, dictGet_dictSet_same, dictGet_dictSet_same]
  · by_cases h2 : x = k2
    · subst h2
      rw [dictGet_dictSet_same, dictGet_dictSet_other _ _ _ h1, dictGet_dictSet_same]
    · rw [dictGet_dictSet_other _ _ _ h2, dictGet_dictSet_other _ _ _ h1, dictGet_dictSet_other _ _ _ h1, dictGet_dictSet_other _ _ _ h2]

/-- the library's own entry counts for its signer whenever that key is authorized -/
theorem own_entry_counts (C : Crypto) (seed : Bytes) (hs : seed.length = 32) (signed : J) (auth : List PStr)
    (ha : pubHex C.toCryptoFns seed ∈ auth) :
    Counts C.toCryptoFns false auth (ser signed) (pubHex C.toCryptoFns seed) (sigEntry C.toCryptoFns seed signed) := by
  refine ⟨pubHex_key C seed hs, ha, ?_⟩
  simp only [Bool.false_eq_true, if_false]
  refine ⟨Or.inl (sigEntry_raw C seed hs signed), ?_⟩
  simp only [sigEntry, sigDictOf, entryField, dictGet, if_true, Option.getD_some, strOf_str, pubHex, serializeAndSign]
  rw [unhex_hexOfBytes _ (C.pub_byte seed hs), unhex_hexOfBytes _ (C.sign_byte seed _ hs)]
  exact C.correct seed _ hs

/-- signing by a list of seeds, as repeated `sign_signable` -/
def signAll (C : CryptoFns) (signed : J) (entries : List (PStr × J)) (seeds : List Bytes) : List (PStr × J) :=
  seeds.foldl (fun e s => dictSet e (pubHex C s) (sigEntry C s signed)) entries

theorem signAll_mem (C : CryptoFns) (signed : J) (seeds : List Bytes) (hn : (seeds.map (pubHex C)).Nodup) :
    ∀ (entries : List (PStr × J)), ∀ s ∈ seeds, (pubHex C s, sigEntry C s signed) ∈ signAll C signed entries seeds := by
  induction seeds with
  | nil => intro _ s hs; cases hs
  | cons s0 r ih =>
    intro entries s hs
    simp only [List.map_cons, List.nodup_cons] at hn
    simp only [signAll, List.foldl_cons]
    rcases List.mem_cons.mp hs with rfl | hs
    · -- later signers have other keys, so this entry survives
      have : ∀ (r' : List Bytes) (e : List (PStr × J)), (∀ x ∈ r', pubHex C x ≠ pubHex C s) → (pubHex C s, sigEntry C s signed) ∈ e →
          (pubHex C s, sigEntry C s signed) ∈ r'.foldl (fun e s => dictSet e (pubHex C s) (sigEntry C s signed)) e := by
        intro r'
        induction r' with
        | nil => intro e _ h; exact h
        | cons y r'' ih2 =>
          intro e hne h
          simp only [List.foldl_cons]
          exact ih2 _ (fun x hx => hne x (by simp [hx])) (mem_dictSet_of_mem_ne _ _ _ _ h (fun e' => hne y (by simp) e'.symm))
      exact this r _ (fun x hx e => hn.1 (e ▸ List.mem_map_of_mem (f := pubHex C) hx)) (mem_dictSet_self _ _ _)
    · exact ih hn.2 _ s hs

theorem signAll_keys (C : CryptoFns) (signed : J) : ∀ (seeds : List Bytes) (entries : List (PStr × J)) (k : PStr),
    k ∈ (signAll C signed entries seeds).map (·.1) → k ∈ entries.map (·.1) ∨ k ∈ seeds.map (pubHex C)
  | [], entries, k, h => Or.inl h
  | s :: r, entries, k, h => by
    simp only [signAll, List.foldl_cons] at h
    rcases signAll_keys C signed r _ k h with h | h
    · rcases (dictKeys_dictSet_mem _ _ _ _).mp h with rfl | h
      · exact Or.inr (by simp)
      · exact Or.inl h
    · exact Or.inr (by simp [h])

/-- **threshold boundary**: an envelope wrapped and signed by `n` distinct keys, all authorized, verifies for every threshold
`1 ≤ t ≤ n` and for none above `n` -/
theorem threshold_boundary (C : Crypto) (signed : J) (seeds : List Bytes) (hlen : ∀ s ∈ seeds, s.length = 32)
    (hn : (seeds.map (pubHex C.toCryptoFns)).Nodup) (auth : List PStr) (ha : ∀ s ∈ seeds, pubHex C.toCryptoFns s ∈ auth) (t : Nat) :
    ThresholdMet C.toCryptoFns false auth (ser signed) (signAll C.toCryptoFns signed [] seeds) t ↔ t ≤ seeds.length := by
  constructor
  · rintro ⟨S, hS, hl, hall⟩
    have hsub : S ⊆ seeds.map (pubHex C.toCryptoFns) := by
      intro k hk
      obtain ⟨sig, hm, _⟩ := hall k hk
      rcases signAll_keys C.toCryptoFns signed seeds [] k (List.mem_map_of_mem (f := (·.1)) hm) with h | h
      · cases h
      · exact h
    have := List.Nodup.length_le_of_subset hS hsub
    simp only [List.length_map] at this
    omega
  · intro ht
    refine ⟨seeds.map (pubHex C.toCryptoFns), hn, by simpa using ht, ?_⟩
    intro k hk
    obtain ⟨s, hs, rfl⟩ := List.mem_map.mp hk
    exact ⟨_, signAll_mem C.toCryptoFns signed seeds hn [] s hs, own_entry_counts C s (hlen s hs) signed auth (ha s hs)⟩

/-- **any later change of the payload makes every earlier signature stop counting — or exhibits a forgery**: if an entry made by the
library for payload `p` still counts after the payload was replaced by `p'`, then the scheme accepts one signature for two
different byte strings (`ser p' ≠ ser p` whenever the JSON values differ, by C07) -/
theorem edit_invalidates_or_forgery (C : Crypto) (seed : Bytes) (hs : seed.length = 32) (p p' : J) (auth : List PStr)
    (h : Counts C.toCryptoFns false auth (ser p') (pubHex C.toCryptoFns seed) (sigEntry C.toCryptoFns seed p)) :
    C.verify (C.pubOf seed) (ser p') (C.sign seed (ser p)) = true := by
  have := h.2.2
  simp only [Bool.false_eq_true, if_false] at this
  have hv := this.2
  simp only [sigEntry, sigDictOf, entryField, dictGet, if_true, Option.getD_some, strOf_str, pubHex, serializeAndSign] at hv
  rwa [unhex_hexOfBytes _ (C.pub_byte seed hs), unhex_hexOfBytes _ (C.sign_byte seed _ hs)] at hv

/-- end to end for one signer: wrap, sign, verify with that key authorized -/
theorem wrap_sign_verify (C : Crypto) (v : J) (seed : Bytes) (hs : seed.length = 32) :
    ∃ env env', wrapAsSignable (.j v) = .ok env ∧ signSignableJ C.toCryptoFns env seed = .ok env' ∧
      verifySignableJ C.toCryptoFns env' (.arr [.str (pubHex C.toCryptoFns seed)]) (.int 1) false = .ok () := by
  obtain ⟨env, hw, hp⟩ := wrap_parts v
  obtain ⟨env', hsig, hp'⟩ := sign_ok C env [] v hp seed hs
  refine ⟨env, env', hw, hsig, ?_⟩
  refine C02.verifySignable_complete C.toCryptoFns env' _ _ false _ v [.str (pubHex C.toCryptoFns seed)] 1 hp' rfl ?_ rfl (by decide) ?_
  · intro k hk; simp at hk; subst hk; exact pubHex_key C seed hs
  · refine ⟨[pubHex C.toCryptoFns seed], by simp, by simp, ?_⟩
    intro k hk; simp at hk; subst hk
    exact ⟨_, mem_dictSet_self _ _ _, own_entry_counts C seed hs v _ (by simp)⟩

-- ---------------------------------------------------------------------------------------------------------------------
-- several signers at work on one envelope at the same time (Model/SignThreads.lean)

/-- one signer thread run alone does what `sign_signable` does to the signature map: `entries[pubhex] = entry` -/
theorem signer_alone (sg : Signer) (sigs0 : List (PStr × J)) (p0 : J) (ts : Nat → SLocal) (h0 : (ts 0).pc = 0) :
    (runSigners stepInPlace (fun _ => sg) ⟨sigs0, p0⟩ ts [0, 0, 0]).1.sigs = dictSet sigs0 sg.key (sg.entryOf p0) := by
  simp [runSigners, stepInPlace, h0]

/-- the signer thread of a key is the model of `sign_signable` with that key (same index, same entry) -/
theorem signerOf_is_sign_signable (C : CryptoFns) (seed : Bytes) (signed : J) :
    (signerOf C seed).key = pubHex C seed ∧ (signerOf C seed).entryOf signed = sigEntry C seed signed := ⟨rfl, rfl⟩

/-- **signing touches only the signer's own entry — also when signers run concurrently.**  Any family of signer threads started on one shared envelope,
under *every* schedule (any interleaving of their reads, computations and stores, threads finished or not): the payload is untouched; every thread that has
finished finds, under its key id, the entry it computed (when signers filing under one key id compute one entry — e.g. distinct keys, or the same key
twice); every index that is no signer's key id holds what it held before. -/
theorem concurrent_signers (signers : Nat → Signer) (p0 : J) (sigs0 : List (PStr × J)) (sched : List Nat) (ts0 : Nat → SLocal)
    (h0 : ∀ i, (ts0 i).pc = 0) (hsame : ∀ i j, (signers i).key = (signers j).key → (signers i).entryOf p0 = (signers j).entryOf p0) :
    (runSigners stepInPlace signers ⟨sigs0, p0⟩ ts0 sched).1.signed = p0 ∧
    (∀ i, 3 ≤ ((runSigners stepInPlace signers ⟨sigs0, p0⟩ ts0 sched).2 i).pc →
        dictGet (signers i).key (runSigners stepInPlace signers ⟨sigs0, p0⟩ ts0 sched).1.sigs = some ((signers i).entryOf p0)) ∧
    (∀ x, (∀ j, (signers j).key ≠ x) → dictGet x (runSigners stepInPlace signers ⟨sigs0, p0⟩ ts0 sched).1.sigs = dictGet x sigs0) := by
  have inv := SInv.run signers p0 sigs0 sched _ _ (SInv.init signers p0 sigs0 ts0 h0)
  refine ⟨inv.signed, fun i hi => ?_, fun x hx => ?_⟩
  · rcases inv.threads i with h | ⟨h, _⟩ | ⟨h, _⟩ | ⟨_, j, hj, hg⟩
    · omega
    · omega
    · omega
    · rw [hg, hsame j i hj]
  · rcases inv.others x with h | ⟨j, _, hj, _⟩
    · exact h
    · exact absurd hj (hx j)

/-- **not even transiently**: no single step of a signer changes what any index other than its own key id holds, nor the payload — at every intermediate
state of every schedule the other entries are there, unaltered (what the harness observes with a logging dict subclass in place of the map) -/
theorem inPlace_step_frame (sg : Signer) (sh : Envelope) (st : SLocal) (x : PStr) (hx : x ≠ sg.key) :
    dictGet x (stepInPlace sg sh st).1.sigs = dictGet x sh.sigs ∧ (stepInPlace sg sh st).1.signed = sh.signed := by
  unfold stepInPlace
  split
  · exact ⟨rfl, rfl⟩
  · exact ⟨rfl, rfl⟩
  · split
    · exact ⟨dictGet_dictSet_other _ _ _ hx _, rfl⟩
    · exact ⟨rfl, rfl⟩
  · exact ⟨rfl, rfl⟩

/-- sequential signing by the signers numbered in `l`, one after the other -/
def signSeq (signers : Nat → Signer) (p0 : J) (sigs0 : List (PStr × J)) (l : List Nat) : List (PStr × J) :=
  l.foldl (fun e i => dictSet e (signers i).key ((signers i).entryOf p0)) sigs0

theorem signSeq_get_notin (signers : Nat → Signer) (p0 : J) (x : PStr) : ∀ (l : List Nat) (sigs0 : List (PStr × J)),
    (∀ i ∈ l, (signers i).key ≠ x) → dictGet x (signSeq signers p0 sigs0 l) = dictGet x sigs0
  | [], _, _ => rfl
  | i :: r, sigs0, h => by
    simp only [signSeq, List.foldl_cons]
    have := signSeq_get_notin signers p0 x r (dictSet sigs0 (signers i).key ((signers i).entryOf p0)) (fun j hj => h j (List.mem_cons_of_mem _ hj))
    simp only [signSeq] at this
    rw [this, dictGet_dictSet_other _ _ _ (fun e => h i List.mem_cons_self e.symm)]

theorem signSeq_get_in (signers : Nat → Signer) (p0 : J) : ∀ (l : List Nat) (sigs0 : List (PStr × J)) (i : Nat), i ∈ l →
    (∀ a ∈ l, ∀ b ∈ l, (signers a).key = (signers b).key → (signers a).entryOf p0 = (signers b).entryOf p0) →
    dictGet (signers i).key (signSeq signers p0 sigs0 l) = some ((signers i).entryOf p0)
  | [], _, _, h, _ => by cases h
  | a :: r, sigs0, i, hi, hs => by
    simp only [signSeq, List.foldl_cons]
    by_cases hir : i ∈ r
    · have := signSeq_get_in signers p0 r (dictSet sigs0 (signers a).key ((signers a).entryOf p0)) i hir
        (fun x hx y hy => hs x (List.mem_cons_of_mem _ hx) y (List.mem_cons_of_mem _ hy))
      simpa only [signSeq] using this
    · have hia : i = a := by rcases List.mem_cons.mp hi with h | h; exact h; exact absurd h hir
      subst hia
      by_cases hk : ∃ b ∈ r, (signers b).key = (signers i).key
      · obtain ⟨b, hb, hkb⟩ := hk
        have := signSeq_get_in signers p0 r (dictSet sigs0 (signers i).key ((signers i).entryOf p0)) b hb
          (fun x hx y hy => hs x (List.mem_cons_of_mem _ hx) y (List.mem_cons_of_mem _ hy))
        simp only [signSeq] at this
        rw [hkb] at this
        rw [this, hs b (List.mem_cons_of_mem _ hb) i List.mem_cons_self hkb]
      · have := signSeq_get_notin signers p0 (signers i).key r (dictSet sigs0 (signers i).key ((signers i).entryOf p0))
          (fun b hb e => hk ⟨b, hb, e⟩)
        simp only [signSeq] at this
        rw [this, dictGet_dictSet_same]

/-- **concurrent = sequential.**  Threads `0 … n-1` sign one envelope concurrently under any schedule that names only them; once all have finished, the
shared signature map answers every lookup exactly like the map obtained by letting them sign one after the other (in any order: `sign_commute`). -/
theorem concurrent_eq_sequential (signers : Nat → Signer) (p0 : J) (sigs0 : List (PStr × J)) (n : Nat) (sched : List Nat) (ts0 : Nat → SLocal)
    (h0 : ∀ i, (ts0 i).pc = 0) (hsched : ∀ i ∈ sched, i < n)
    (hsame : ∀ i j, (signers i).key = (signers j).key → (signers i).entryOf p0 = (signers j).entryOf p0)
    (hfin : ∀ i, i < n → 3 ≤ ((runSigners stepInPlace signers ⟨sigs0, p0⟩ ts0 sched).2 i).pc) (x : PStr) :
    dictGet x (runSigners stepInPlace signers ⟨sigs0, p0⟩ ts0 sched).1.sigs = dictGet x (signSeq signers p0 sigs0 (List.range n)) := by
  have inv := SInv.run signers p0 sigs0 sched _ _ (SInv.init signers p0 sigs0 ts0 h0)
  obtain ⟨_, hmine, _⟩ := concurrent_signers signers p0 sigs0 sched ts0 h0 hsame
  by_cases hx : ∃ i, i < n ∧ (signers i).key = x
  · obtain ⟨i, hi, rfl⟩ := hx
    rw [hmine i (hfin i hi), signSeq_get_in signers p0 (List.range n) sigs0 i (List.mem_range.mpr hi) (fun a _ b _ => hsame a b)]
  · rw [signSeq_get_notin signers p0 x (List.range n) sigs0 (fun i hi e => hx ⟨i, List.mem_range.mp hi, e⟩)]
    rcases inv.others x with h | ⟨j, hj3, hj, _⟩
    · exact h
    · -- a finished signer filing under `x` would be one of the first `n`: the others never ran
      exfalso
      by_cases hjn : j < n
      · exact hx ⟨j, hjn, hj⟩
      · have := runSigners_untouched stepInPlace signers j sched ⟨sigs0, p0⟩ ts0 (fun hm => hjn (hsched j hm))
        rw [this, h0 j] at hj3
        omega

/-- the copying variant (`new = dict(signable["signatures"]); …; signable["signatures"] = new`) is *not* safe: on the schedule in which the second signer
copies the map before the first has stored its entry and assigns it back afterwards, the first signer's entry is gone although both have finished -/
theorem copying_signers_lose_entry :
    let a : Signer := { key := [97], entryOf := fun _ => .str [49] }
    let b : Signer := { key := [98], entryOf := fun _ => .str [50] }
    let fin := runSigners stepCopying (fun i => if i = 0 then a else b) ⟨[], .null⟩ (fun _ => {}) [0, 1, 0, 0, 0, 1, 1, 1]
    (fin.2 0).pc = 4 ∧ (fin.2 1).pc = 4 ∧ dictKeys fin.1.sigs = [[98]] := by
  decide

-- the same two signers, same schedule, as the code has it: both entries are there
example :
    let a : Signer := { key := [97], entryOf := fun _ => .str [49] }
    let b : Signer := { key := [98], entryOf := fun _ => .str [50] }
    let fin := runSigners stepInPlace (fun i => if i = 0 then a else b) ⟨[], .null⟩ (fun _ => {}) [0, 1, 0, 0, 1, 1]
    dictKeys fin.1.sigs = [[97], [98]] := by
  decide

-- non-vacuity: the laws are satisfiable (a toy scheme with 32-byte keys and 64-byte tags)
def toyCrypto : Crypto where
  verify pub msg sig := sig == List.replicate 64 ((pub.foldl (· + ·) 0 + msg.foldl (· + ·) 0) % 256)
  sign seed msg := List.replicate 64 (((seed.map (· % 256)).foldl (· + ·) 0 + msg.foldl (· + ·) 0) % 256)
  pubOf seed := seed.map (· % 256)
  sha256 m := List.replicate 32 (m.foldl (· + ·) 0 % 256)
  sign_len := by intros; simp
  sign_byte := by intro s m _ b hb; simp at hb; omega
  pub_len := by intro s h; simp [h]
  pub_byte := by intro s _ b hb; simp at hb; obtain ⟨a, _, rfl⟩ := hb; omega
  correct := by intros; simp

end CCT.C09
