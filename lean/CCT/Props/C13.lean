import CCT.Model.Auth
/-! # C13 (theorems; work in progress) -/
namespace CCT.C13
open CCT
theorem placeholder : okU = .ok () := rfl
end CCT.C13
