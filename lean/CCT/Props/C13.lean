import CCT.Props.C14
import CCT.Props.C06
/-!
# C13 — failures are fail-closed and use the documented error families

The model functions use raw dictionary subscripts (`dictIndex`, which *can* yield `KeyError`) wherever the Python code does, so the
statements below are real theorems about guards, not consequences of the result type: no `KeyError`, `AttributeError`,
`OverflowError`, `AssertionError` is reachable for any argument.  Termination: every model function is total (structural or
fuel-bounded recursion accepted by Lean's termination checker).
-/
namespace CCT.C13
open CCT CCT.C15
open Classical

def OkOrArg (r : Res Unit) : Prop := r = .ok () ∨ r = .error .arg

theorem okOrArg_ite (p : Prop) [Decidable p] : OkOrArg (if p then .ok () else .error .arg) := by
  by_cases h : p <;> simp [OkOrArg, h]

/-- **every public validator, on every JSON value, either accepts or raises TypeError/ValueError** -/
theorem validators_families (v : J) :
    OkOrArg (checkHexStringJ v) ∧ OkOrArg (checkHexKeyJ v) ∧ OkOrArg (checkSignableJ v) ∧ OkOrArg (checkNaturalIntJ v) ∧
    OkOrArg (checkStringJ v) ∧ OkOrArg (checkListOfHexKeysJ v) ∧ OkOrArg (checkUtcJ v) ∧ OkOrArg (checkGpgFingerprintJ v) ∧
    OkOrArg (checkGpgSignatureJ v) ∧ OkOrArg (checkSignatureJ v) ∧ OkOrArg (checkAnySignatureJ v) ∧ OkOrArg (checkDelegationJ v) ∧
    OkOrArg (checkDelegationsJ v) ∧ OkOrArg (checkDelegatingMdJ v) := by
  refine ⟨checkHexString_total v, checkHexKey_total v, ?_, ?_, ?_, ?_, ?_, checkGpgFingerprint_total v, checkGpgSignature_total v,
    checkSignature_total v, ?_, ?_, ?_, ?_⟩
  · unfold checkSignableJ okU; exact okOrArg_ite _
  · rw [checkNaturalInt_eq]; exact okOrArg_ite _
  · rw [checkString_eq]; exact okOrArg_ite _
  · rw [checkListOfHexKeys_eq]; exact okOrArg_ite _
  · rw [checkUtc_eq]; exact okOrArg_ite _
  · rw [checkAnySignature_eq]; exact okOrArg_ite _
  · rw [checkDelegation_eq]; exact okOrArg_ite _
  · rw [checkDelegations_eq]; exact okOrArg_ite _
  · rw [checkDelegatingMd_eq]; exact okOrArg_ite _

/-- … and on every other kind of Python value in the argument position -/
theorem validators_families_anykind (f : J → Res Unit) (hf : ∀ v, OkOrArg (f v)) (v : PyVal) : OkOrArg (liftJ f v) := by
  cases v with
  | j x => exact hf x
  | _ => right; rfl

theorem kind_validators_families (v : PyVal) : OkOrArg (checkBytesLike v) ∧ OkOrArg (checkExpirationDistance v) ∧ OkOrArg (checkKey v) := by
  cases v <;> simp [OkOrArg, checkBytesLike, checkExpirationDistance, checkKey, okU]

/-- the predicates never raise (C15.pred_agrees) -/
theorem predicates_never_raise (v : J) : (∃ b, isHexStringJ v = .ok b) ∧ (∃ b, isHexKeyJ v = .ok b) ∧ (∃ b, isHexSignatureJ v = .ok b) ∧
    (∃ b, isGpgFingerprintJ v = .ok b) ∧ (∃ b, isGpgSignatureJ v = .ok b) ∧ (∃ b, isSignatureJ v = .ok b) :=
  (pred_agrees v).2.2.2.2.2

/-- `verify_signable`: accept, argument error, or signature error -/
theorem verifySignable_families (C : CryptoFns) (s k t g : PyVal) :
    verifySignable C s k t g = .ok () ∨ verifySignable C s k t g = .error .arg ∨ verifySignable C s k t g = .error .signature := by
  unfold verifySignable
  split
  · exact C01.verifySignable_outcomes C _ _ _ _
  · right; left; split <;> rfl
  · right; left; rfl

/-- `verify_delegation`: accept, or argument / metadata-verification / unknown-role / signature error -/
theorem verifyDelegationJ_families (C : CryptoFns) (name : PStr) (u t : J) (gpg : Bool) :
    verifyDelegationJ C name u t gpg = .ok () ∨ ∃ e, verifyDelegationJ C name u t gpg = .error e ∧
      (e = .arg ∨ e = .metadataVerification ∨ e = .unknownRole ∨ e = .signature) := by
  rw [verifyDelegation_eq]
  by_cases h1 : ¬ Schema t ∨ isSignableJ u ≠ true
  · rw [if_pos h1]; right; exact ⟨_, rfl, Or.inl rfl⟩
  · rw [if_neg h1]
    have hT : Schema t := by by_cases h : Schema t; exact h; exact absurd (Or.inl h) h1
    have hU : isSignableJ u = true := by by_cases h : isSignableJ u = true; exact h; exact absurd (Or.inr h) h1
    by_cases h2 : TypeMismatch name u
    · rw [if_pos h2]; right; exact ⟨_, rfl, Or.inr (Or.inl rfl)⟩
    · rw [if_neg h2]
      cases hr : roleOf t name with
      | none => right; exact ⟨_, rfl, Or.inr (Or.inr (Or.inl rfl))⟩
      | some d =>
        simp only [rule_verdict C gpg d u (mem_delegations_ok hT hr) hU]
        by_cases hm : RuleMet C gpg d u
        · left; simp [hm]
        · right; simp only [hm, if_false]; exact ⟨_, rfl, Or.inr (Or.inr (Or.inr rfl))⟩

theorem verifyDelegation_families (C : CryptoFns) (n u t g : PyVal) :
    verifyDelegation C n u t g = .ok () ∨ ∃ e, verifyDelegation C n u t g = .error e ∧
      (e = .arg ∨ e = .metadataVerification ∨ e = .unknownRole ∨ e = .signature) := by
  unfold verifyDelegation
  repeat' split
  all_goals first
    | exact verifyDelegationJ_families C _ _ _ _
    | (right; exact ⟨_, rfl, Or.inl rfl⟩)
    | (simp only [bind, Except.bind]
       rcases (validators_families _).2.2.2.2.2.2.2.2.2.2.2.2.2 with h | h <;> rw [h] <;> right <;> exact ⟨_, rfl, Or.inl rfl⟩)

/-- `verify_root`: accept, or argument / metadata-verification / signature error -/
theorem verifyRoot_families (C : CryptoFns) (t u : PyVal) :
    verifyRoot C t u = .ok () ∨ verifyRoot C t u = .error .arg ∨ verifyRoot C t u = .error .metadataVerification ∨
    verifyRoot C t u = .error .signature := by
  unfold verifyRoot
  split
  · exact C03.verifyRoot_outcomes C _ _
  · right; left; rfl

/-- the single-signature primitives: accept, argument error, or the crypto library's invalid-signature error -/
theorem verifySignature_families (C : CryptoFns) (s k d : PyVal) :
    verifySignature C s k d = .ok () ∨ verifySignature C s k d = .error .arg ∨ verifySignature C s k d = .error .invalidSignature := by
  unfold verifySignature
  repeat' split
  all_goals first
    | (right; left; rfl)
    | skip
  all_goals
    simp only [isHexSignature_eq, bind, Except.bind]
    repeat' split
    all_goals first
      | (left; rfl)
      | (right; left; rfl)
      | (right; right; rfl)

theorem verifyGpgSignatureJ_families (C : CryptoFns) (s k : J) (d : Bytes) :
    verifyGpgSignatureJ C s k d = .ok () ∨ verifyGpgSignatureJ C s k d = .error .arg ∨ verifyGpgSignatureJ C s k d = .error .invalidSignature := by
  unfold verifyGpgSignatureJ
  simp only [bind, Except.bind]
  rcases checkGpgSignature_total s with h | h
  · rw [h]
    rcases checkHexKey_total k with h2 | h2
    · rw [h2]
      obtain ⟨kvs, rfl, _, ⟨oh, hoh, _⟩, ⟨sg, hsg, _⟩, _⟩ := (checkGpgSignature_iff s).mp h
      simp only [dictIndex_some hoh, dictIndex_some hsg]
      split
      · left; rfl
      · right; right; rfl
    · rw [h2]; right; left; rfl
  · rw [h]; right; left; rfl

-- the four named error mappings
/-- insufficient valid signatures on otherwise well-formed arguments: signature error -/
theorem class_insufficient_sigs (C : CryptoFns) (env keys thr : J) (gpg : Bool) (entries : List (PStr × J)) (signed : J) (ks : List J) (t : Int)
    (hp : EnvParts env entries signed) (hkeys : keys = .arr ks) (hk : ∀ k ∈ ks, HexN 64 k) (ht : asInt thr = some t) (hpos : 0 < t)
    (hm : ¬ ThresholdMet C gpg (ks.map strOf) (ser signed) entries t.toNat) :
    verifySignableJ C env keys thr gpg = .error .signature :=
  C02.insufficient_is_signature_error C env keys thr gpg entries signed ks t hp hkeys hk ht hpos hm
/-- an undelegated role: unknown-role error -/
theorem class_unknown_role (C : CryptoFns) (name : PStr) (u t : J) (gpg : Bool) (hT : Schema t) (hU : isSignableJ u = true)
    (hm : ¬ TypeMismatch name u) (hr : roleOf t name = none) : verifyDelegationJ C name u t gpg = .error .unknownRole :=
  C05.unknown_role C name u t gpg hT hU hm hr
/-- a root-version mismatch: metadata-verification error -/
theorem class_version_mismatch (C : CryptoFns) (t u : J) (ht : IsRootMd t) (hu : IsRootMd u) (hv : versionOf u ≠ versionOf t + 1) :
    verifyRootJ C t u = .error .metadataVerification := C03.version_mismatch_error C t u ht hu hv
/-- a type-for-role mismatch: metadata-verification error -/
theorem class_type_mismatch (C : CryptoFns) (name : PStr) (u t : J) (gpg : Bool) (hT : Schema t) (hU : isSignableJ u = true)
    (h : TypeMismatch name u) : verifyDelegationJ C name u t gpg = .error .metadataVerification :=
  C06.type_mismatch_error C name u t gpg hT hU h

end CCT.C13
