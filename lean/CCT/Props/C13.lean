import CCT.Props.C14
import CCT.Props.C06
import CCT.Model.Reasons
import CCT.Model.IntLimit
import CCT.Props.C07
/-!
# C13 — failures are fail-closed and use the documented error families

The model functions use raw dictionary subscripts (`dictIndex`, which *can* yield `KeyError`) wherever the Python code does, so the
statements below are real theorems about guards, not consequences of the result type: no `KeyError`, `AttributeError`,
`OverflowError`, `AssertionError` is reachable for any argument.  Termination: every model function is total (structural or
fuel-bounded recursion accepted by Lean's termination checker).
-/
namespace CCT.C13
open CCT CCT.C15
open Classical

def OkOrArg (r : Res Unit) : Prop := r = .ok () ∨ r = .error .arg

theorem okOrArg_ite (p : Prop) [Decidable p] : OkOrArg (if p then .ok () else .error .arg) := by
  by_cases h : p <;> simp [OkOrArg, h]

/-- **every public validator, on every JSON value, either accepts or raises TypeError/ValueError** -/
theorem validators_families (v : J) :
    OkOrArg (checkHexStringJ v) ∧ OkOrArg (checkHexKeyJ v) ∧ OkOrArg (checkSignableJ v) ∧ OkOrArg (checkNaturalIntJ v) ∧
    OkOrArg (checkStringJ v) ∧ OkOrArg (checkListOfHexKeysJ v) ∧ OkOrArg (checkUtcJ v) ∧ OkOrArg (checkGpgFingerprintJ v) ∧
    OkOrArg (checkGpgSignatureJ v) ∧ OkOrArg (checkSignatureJ v) ∧ OkOrArg (checkAnySignatureJ v) ∧ OkOrArg (checkDelegationJ v) ∧
    OkOrArg (checkDelegationsJ v) ∧ OkOrArg (checkDelegatingMdJ v) := by
  refine ⟨checkHexString_total v, checkHexKey_total v, ?_, ?_, ?_, ?_, ?_, checkGpgFingerprint_total v, checkGpgSignature_total v,
    checkSignature_total v, ?_, ?_, ?_, ?_⟩
  · unfold checkSignableJ okU; exact okOrArg_ite _
  · rw [checkNaturalInt_eq]; exact okOrArg_ite _
  · rw [checkString_eq]; exact okOrArg_ite _
  · rw [checkListOfHexKeys_eq]; exact okOrArg_ite _
  · rw [checkUtc_eq]; exact okOrArg_ite _
  · rw [checkAnySignature_eq]; exact okOrArg_ite _
  · rw [checkDelegation_eq]; exact okOrArg_ite _
  · rw [checkDelegations_eq]; exact okOrArg_ite _
  · rw [checkDelegatingMd_eq]; exact okOrArg_ite _

/-- … and on every other kind of Python value in the argument position -/
theorem validators_families_anykind (f : J → Res Unit) (hf : ∀ v, OkOrArg (f v)) (v : PyVal) : OkOrArg (liftJ f v) := by
  cases v with
  | j x => exact hf x
  | _ => right; rfl

theorem kind_validators_families (v : PyVal) : OkOrArg (checkBytesLike v) ∧ OkOrArg (checkExpirationDistance v) ∧ OkOrArg (checkKey v) := by
  cases v <;> simp [OkOrArg, checkBytesLike, checkExpirationDistance, checkKey, okU]

/-- the predicates never raise (C15.pred_agrees) -/
theorem predicates_never_raise (v : J) : (∃ b, isHexStringJ v = .ok b) ∧ (∃ b, isHexKeyJ v = .ok b) ∧ (∃ b, isHexSignatureJ v = .ok b) ∧
    (∃ b, isGpgFingerprintJ v = .ok b) ∧ (∃ b, isGpgSignatureJ v = .ok b) ∧ (∃ b, isSignatureJ v = .ok b) :=
  (pred_agrees v).2.2.2.2.2

/-- `verify_signable`: accept, argument error, or signature error -/
theorem verifySignable_families (C : CryptoFns) (s k t g : PyVal) :
    verifySignable C s k t g = .ok () ∨ verifySignable C s k t g = .error .arg ∨ verifySignable C s k t g = .error .signature := by
  unfold verifySignable
  split
  · exact C01.verifySignable_outcomes C _ _ _ _
  · right; left; split <;> rfl
  · right; left; rfl

/-- `verify_delegation`: accept, or argument / metadata-verification / unknown-role / signature error -/
theorem verifyDelegationJ_families (C : CryptoFns) (name : PStr) (u t : J) (gpg : Bool) :
    verifyDelegationJ C name u t gpg = .ok () ∨ ∃ e, verifyDelegationJ C name u t gpg = .error e ∧
      (e = .arg ∨ e = .metadataVerification ∨ e = .unknownRole ∨ e = .signature) := by
  rw [verifyDelegation_eq]
  by_cases h1 : ¬ Schema t ∨ isSignableJ u ≠ true
  · rw [if_pos h1]; right; exact ⟨_, rfl, Or.inl rfl⟩
  · rw [if_neg h1]
    have hT : Schema t := by by_cases h : Schema t; exact h; exact absurd (Or.inl h) h1
    have hU : isSignableJ u = true := by by_cases h : isSignableJ u = true; exact h; exact absurd (Or.inr h) h1
    by_cases h2 : TypeMismatch name u
    · rw [if_pos h2]; right; exact ⟨_, rfl, Or.inr (Or.inl rfl)⟩
    · rw [if_neg h2]
      cases hr : roleOf t name with
      | none => right; exact ⟨_, rfl, Or.inr (Or.inr (Or.inl rfl))⟩
      | some d =>
        simp only [rule_verdict C gpg d u (mem_delegations_ok hT hr) hU]
        by_cases hm : RuleMet C gpg d u
        · left; simp [hm]
        · right; simp only [hm, if_false]; exact ⟨_, rfl, Or.inr (Or.inr (Or.inr rfl))⟩

theorem verifyDelegation_families (C : CryptoFns) (n u t g : PyVal) :
    verifyDelegation C n u t g = .ok () ∨ ∃ e, verifyDelegation C n u t g = .error e ∧
      (e = .arg ∨ e = .metadataVerification ∨ e = .unknownRole ∨ e = .signature) := by
  unfold verifyDelegation
  repeat' split
  all_goals first
    | exact verifyDelegationJ_families C _ _ _ _
    | (right; exact ⟨_, rfl, Or.inl rfl⟩)
    | (simp only [bind, Except.bind]
       rcases (validators_families _).2.2.2.2.2.2.2.2.2.2.2.2.2 with h | h <;> rw [h] <;> right <;> exact ⟨_, rfl, Or.inl rfl⟩)

/-- `verify_root`: accept, or argument / metadata-verification / signature error -/
theorem verifyRoot_families (C : CryptoFns) (t u : PyVal) :
    verifyRoot C t u = .ok () ∨ verifyRoot C t u = .error .arg ∨ verifyRoot C t u = .error .metadataVerification ∨
    verifyRoot C t u = .error .signature := by
  unfold verifyRoot
  split
  · exact C03.verifyRoot_outcomes C _ _
  · right; left; rfl

/-- the single-signature primitives: accept, argument error, or the crypto library's invalid-signature error -/
theorem verifySignature_families (C : CryptoFns) (s k d : PyVal) :
    verifySignature C s k d = .ok () ∨ verifySignature C s k d = .error .arg ∨ verifySignature C s k d = .error .invalidSignature := by
  unfold verifySignature
  repeat' split
  all_goals first
    | (right; left; rfl)
    | skip
  all_goals
    simp only [isHexSignature_eq, bind, Except.bind]
    repeat' split
    all_goals first
      | (left; rfl)
      | (right; left; rfl)
      | (right; right; rfl)

theorem verifyGpgSignatureJ_families (C : CryptoFns) (s k : J) (d : Bytes) :
    verifyGpgSignatureJ C s k d = .ok () ∨ verifyGpgSignatureJ C s k d = .error .arg ∨ verifyGpgSignatureJ C s k d = .error .invalidSignature := by
  unfold verifyGpgSignatureJ
  simp only [bind, Except.bind]
  rcases checkGpgSignature_total s with h | h
  · rw [h]
    rcases checkHexKey_total k with h2 | h2
    · rw [h2]
      obtain ⟨kvs, rfl, _, ⟨oh, hoh, _⟩, ⟨sg, hsg, _⟩, _⟩ := (checkGpgSignature_iff s).mp h
      simp only [dictIndex_some hoh, dictIndex_some hsg]
      split
      · left; rfl
      · right; right; rfl
    · rw [h2]; right; left; rfl
  · rw [h]; right; left; rfl

-- the four named error mappings
/-- insufficient valid signatures on otherwise well-formed arguments: signature error -/
theorem class_insufficient_sigs (C : CryptoFns) (env keys thr : J) (gpg : Bool) (entries : List (PStr × J)) (signed : J) (ks : List J) (t : Int)
    (hp : EnvParts env entries signed) (hkeys : keys = .arr ks) (hk : ∀ k ∈ ks, HexN 64 k) (ht : asInt thr = some t) (hpos : 0 < t)
    (hm : ¬ ThresholdMet C gpg (ks.map strOf) (ser signed) entries t.toNat) :
    verifySignableJ C env keys thr gpg = .error .signature :=
  C02.insufficient_is_signature_error C env keys thr gpg entries signed ks t hp hkeys hk ht hpos hm
/-- an undelegated role: unknown-role error -/
theorem class_unknown_role (C : CryptoFns) (name : PStr) (u t : J) (gpg : Bool) (hT : Schema t) (hU : isSignableJ u = true)
    (hm : ¬ TypeMismatch name u) (hr : roleOf t name = none) : verifyDelegationJ C name u t gpg = .error .unknownRole :=
  C05.unknown_role C name u t gpg hT hU hm hr
/-- a root-version mismatch: metadata-verification error -/
theorem class_version_mismatch (C : CryptoFns) (t u : J) (ht : IsRootMd t) (hu : IsRootMd u) (hv : versionOf u ≠ versionOf t + 1) :
    verifyRootJ C t u = .error .metadataVerification := C03.version_mismatch_error C t u ht hu hv
/-- a type-for-role mismatch: metadata-verification error -/
theorem class_type_mismatch (C : CryptoFns) (name : PStr) (u t : J) (gpg : Bool) (hT : Schema t) (hU : isSignableJ u = true)
    (h : TypeMismatch name u) : verifyDelegationJ C name u t gpg = .error .metadataVerification :=
  C06.type_mismatch_error C name u t gpg hT hU h


/-! ## applicable rejection reasons (`Model/Reasons.lean`): the class reported is always one whose reason holds -/

theorem resOk_checker (m : J) : resOk (checkDelegatingMdJ m) = true ↔ Schema m := by
  rw [checkDelegatingMd_eq]; by_cases h : Schema m <;> simp [h, resOk]

theorem rootMdB_iff (m : J) : rootMdB m = true ↔ IsRootMd m := by
  unfold rootMdB IsRootMd
  rw [Bool.and_eq_true, Bool.and_eq_true, resOk_checker]
  constructor
  · rintro ⟨⟨h1, h2⟩, h3⟩
    refine ⟨h1, ?_, h3⟩
    cases hty : typeOf m <;> simp [hty] at h2 ⊢
    exact h2
  · rintro ⟨h1, h2, h3⟩
    refine ⟨⟨h1, ?_⟩, h3⟩
    simp [h2]

theorem typeMismatchB_iff (name : PStr) (u : J) : typeMismatchB name u = true ↔ TypeMismatch name u := by
  unfold typeMismatchB TypeMismatch
  rw [Bool.and_eq_true, resOk_checker, schema_signedOnly]
  simp

theorem ruleOkB_iff (C : CryptoFns) (gpg : Bool) (d u : J) (hd : DelegationOK d) (hu : isSignableJ u = true) :
    ruleOkB C gpg d u = true ↔ RuleMet C gpg d u := by
  unfold ruleOkB
  rw [rule_verdict C gpg d u hd hu]
  by_cases h : RuleMet C gpg d u <;> simp [h, resOk]

/-- declarative reading of the reason set of `verify_root` -/
theorem verifyRootReasons_mem (C : CryptoFns) (t u : J) (e : PyErr) :
    e ∈ verifyRootReasons C t u ↔
      (e = .arg ∧ ¬ (IsRootMd t ∧ IsRootMd u)) ∨
      (IsRootMd t ∧ IsRootMd u ∧
        ((e = .metadataVerification ∧ versionOf u ≠ versionOf t + 1) ∨
         (e = .signature ∧ ¬ (RuleMet C true (rootRule t) u ∧ RuleMet C true (rootRule u) u)))) := by
  unfold verifyRootReasons
  by_cases h : IsRootMd t ∧ IsRootMd u
  · have hb : (rootMdB t && rootMdB u) = true := by simp [(rootMdB_iff t).mpr h.1, (rootMdB_iff u).mpr h.2]
    have r1 := ruleOkB_iff C true (rootRule t) u (C03.rootRule_ok h.1) (C03.isRootMd_signable h.2)
    have r2 := ruleOkB_iff C true (rootRule u) u (C03.rootRule_ok h.2) (C03.isRootMd_signable h.2)
    simp only [hb, Bool.not_true, Bool.false_eq_true, if_false, List.mem_append]
    by_cases hv : versionOf t + 1 ≠ versionOf u
    · have hv' : versionOf u ≠ versionOf t + 1 := fun x => hv x.symm
      by_cases hr : RuleMet C true (rootRule t) u ∧ RuleMet C true (rootRule u) u
      · have : (ruleOkB C true (rootRule t) u && ruleOkB C true (rootRule u) u) = true := by simp [r1.mpr hr.1, r2.mpr hr.2]
        simp [hv, hv', this, h, hr]
      · have : (ruleOkB C true (rootRule t) u && ruleOkB C true (rootRule u) u) = false := by
          cases hx : (ruleOkB C true (rootRule t) u && ruleOkB C true (rootRule u) u) with
          | false => rfl
          | true => rw [Bool.and_eq_true] at hx; exact absurd ⟨r1.mp hx.1, r2.mp hx.2⟩ hr
        simp [hv, hv', this, h, hr]
    · have hv' : versionOf u = versionOf t + 1 := by omega
      have hv2 : versionOf t + 1 = versionOf u := hv'.symm
      by_cases hr : RuleMet C true (rootRule t) u ∧ RuleMet C true (rootRule u) u
      · have : (ruleOkB C true (rootRule t) u && ruleOkB C true (rootRule u) u) = true := by simp [r1.mpr hr.1, r2.mpr hr.2]
        simp [hv2, this, h, hr]
      · have : (ruleOkB C true (rootRule t) u && ruleOkB C true (rootRule u) u) = false := by
          cases hx : (ruleOkB C true (rootRule t) u && ruleOkB C true (rootRule u) u) with
          | false => rfl
          | true => rw [Bool.and_eq_true] at hx; exact absurd ⟨r1.mp hx.1, r2.mp hx.2⟩ hr
        simp [hv2, this, h, hr]
  · have hb : (rootMdB t && rootMdB u) = false := by
      cases hx : (rootMdB t && rootMdB u) with
      | false => rfl
      | true => rw [Bool.and_eq_true] at hx; exact absurd ⟨(rootMdB_iff t).mp hx.1, (rootMdB_iff u).mp hx.2⟩ h
    simp only [hb, Bool.not_false, if_true, List.mem_singleton]
    constructor
    · intro he; exact Or.inl ⟨he, h⟩
    · rintro (⟨he, _⟩ | ⟨a, b, _⟩)
      · exact he
      · exact absurd ⟨a, b⟩ h

/-- **`verify_root` reports only classes whose reason applies** -/
theorem verifyRoot_reports_applicable (C : CryptoFns) (t u : J) (e : PyErr) (h : verifyRootJ C t u = .error e) :
    e ∈ verifyRootReasons C t u := by
  rw [verifyRootReasons_mem]
  by_cases h1 : IsRootMd t ∧ IsRootMd u
  · right
    by_cases hv : versionOf u = versionOf t + 1
    · by_cases hm : RuleMet C true (rootRule t) u ∧ RuleMet C true (rootRule u) u
      · rw [(C03.verifyRoot_iff C t u).mpr ⟨h1.1, h1.2, hv, hm.1, hm.2⟩] at h; cases h
      · rw [C03.insufficient_error C t u h1.1 h1.2 hv hm] at h; cases h
        exact ⟨h1.1, h1.2, Or.inr ⟨rfl, hm⟩⟩
    · rw [C03.version_mismatch_error C t u h1.1 h1.2 hv] at h; cases h
      exact ⟨h1.1, h1.2, Or.inl ⟨rfl, hv⟩⟩
  · left
    rw [C03.malformed_error C t u h1] at h; cases h
    exact ⟨rfl, h1⟩

/-- **`verify_root` accepts exactly when no rejection reason applies** -/
theorem verifyRoot_accepts_iff_no_reason (C : CryptoFns) (t u : J) :
    verifyRootJ C t u = .ok () ↔ verifyRootReasons C t u = [] := by
  constructor
  · intro h
    apply List.eq_nil_iff_forall_not_mem.mpr
    intro e he
    rw [verifyRootReasons_mem] at he
    obtain ⟨h1, h2, hv, hm1, hm2⟩ := (C03.verifyRoot_iff C t u).mp h
    rcases he with ⟨_, hn⟩ | ⟨_, _, ⟨_, hx⟩ | ⟨_, hx⟩⟩
    · exact hn ⟨h1, h2⟩
    · exact hx hv
    · exact hx ⟨hm1, hm2⟩
  · intro h
    rcases C03.verifyRoot_outcomes C t u with h' | h' | h' | h'
    · exact h'
    all_goals (have := verifyRoot_reports_applicable C t u _ h'; rw [h] at this; cases this)

/-- declarative reading of the reason set of `verify_delegation` -/
theorem verifyDelegationReasons_mem (C : CryptoFns) (name : PStr) (u t : J) (gpg : Bool) (e : PyErr) :
    e ∈ verifyDelegationReasons C name u t gpg ↔
      (e = .arg ∧ ¬ (Schema t ∧ isSignableJ u = true)) ∨
      (Schema t ∧ isSignableJ u = true ∧
        ((e = .metadataVerification ∧ TypeMismatch name u) ∨
         (e = .unknownRole ∧ roleOf t name = none) ∨
         (e = .signature ∧ ∃ d, roleOf t name = some d ∧ ¬ RuleMet C gpg d u))) := by
  unfold verifyDelegationReasons
  by_cases h : Schema t ∧ isSignableJ u = true
  · have hb : (resOk (checkDelegatingMdJ t) && isSignableJ u) = true := by simp [(resOk_checker t).mpr h.1, h.2]
    simp only [hb, Bool.not_true, Bool.false_eq_true, if_false, List.mem_append]
    have tm : typeMismatchB name u = true ↔ TypeMismatch name u := typeMismatchB_iff name u
    cases hr : roleOf t name with
    | none =>
      by_cases hm : TypeMismatch name u
      · simp [tm.mpr hm, hm, h]
      · have : typeMismatchB name u = false := by
          cases hx : typeMismatchB name u with
          | false => rfl
          | true => exact absurd (tm.mp hx) hm
        simp [this, hm, h]
    | some d =>
      have rr := ruleOkB_iff C gpg d u (mem_delegations_ok h.1 hr) h.2
      by_cases hm : TypeMismatch name u
      · by_cases hq : RuleMet C gpg d u
        · simp [tm.mpr hm, hm, h, rr.mpr hq, hq]
        · have : ruleOkB C gpg d u = false := by
            cases hx : ruleOkB C gpg d u with
            | false => rfl
            | true => exact absurd (rr.mp hx) hq
          simp [tm.mpr hm, hm, h, this, hq]
      · have tmf : typeMismatchB name u = false := by
          cases hx : typeMismatchB name u with
          | false => rfl
          | true => exact absurd (tm.mp hx) hm
        by_cases hq : RuleMet C gpg d u
        · simp [tmf, hm, h, rr.mpr hq, hq]
        · have : ruleOkB C gpg d u = false := by
            cases hx : ruleOkB C gpg d u with
            | false => rfl
            | true => exact absurd (rr.mp hx) hq
          simp [tmf, hm, h, this, hq]
  · have hb : (resOk (checkDelegatingMdJ t) && isSignableJ u) = false := by
      cases hx : (resOk (checkDelegatingMdJ t) && isSignableJ u) with
      | false => rfl
      | true => rw [Bool.and_eq_true] at hx; exact absurd ⟨(resOk_checker t).mp hx.1, hx.2⟩ h
    simp only [hb, Bool.not_false, if_true, List.mem_singleton]
    constructor
    · intro he; exact Or.inl ⟨he, h⟩
    · rintro (⟨he, _⟩ | ⟨a, b, _⟩)
      · exact he
      · exact absurd ⟨a, b⟩ h

/-- **`verify_delegation` reports only classes whose reason applies** -/
theorem verifyDelegation_reports_applicable (C : CryptoFns) (name : PStr) (u t : J) (gpg : Bool) (e : PyErr)
    (h : verifyDelegationJ C name u t gpg = .error e) : e ∈ verifyDelegationReasons C name u t gpg := by
  rw [verifyDelegationReasons_mem]
  rw [verifyDelegation_eq] at h
  by_cases h1 : ¬ Schema t ∨ isSignableJ u ≠ true
  · rw [if_pos h1] at h; cases h
    left; refine ⟨rfl, ?_⟩; rintro ⟨a, b⟩; rcases h1 with x | x; exact x a; exact x b
  · rw [if_neg h1] at h
    have hT : Schema t := by by_cases x : Schema t; exact x; exact absurd (Or.inl x) h1
    have hU : isSignableJ u = true := by by_cases x : isSignableJ u = true; exact x; exact absurd (Or.inr x) h1
    right; refine ⟨hT, hU, ?_⟩
    by_cases h2 : TypeMismatch name u
    · rw [if_pos h2] at h; cases h; exact Or.inl ⟨rfl, h2⟩
    · rw [if_neg h2] at h
      cases hr : roleOf t name with
      | none => rw [hr] at h; cases h; exact Or.inr (Or.inl ⟨rfl, rfl⟩)
      | some d =>
        rw [hr] at h
        simp only [rule_verdict C gpg d u (mem_delegations_ok hT hr) hU] at h
        by_cases hm : RuleMet C gpg d u
        · rw [if_pos hm] at h; cases h
        · rw [if_neg hm] at h; cases h; exact Or.inr (Or.inr ⟨rfl, d, rfl, hm⟩)

/-- **`verify_delegation` accepts exactly when no rejection reason applies** -/
theorem verifyDelegation_accepts_iff_no_reason (C : CryptoFns) (name : PStr) (u t : J) (gpg : Bool) :
    verifyDelegationJ C name u t gpg = .ok () ↔ verifyDelegationReasons C name u t gpg = [] := by
  constructor
  · intro h
    apply List.eq_nil_iff_forall_not_mem.mpr
    intro e he
    rw [verifyDelegationReasons_mem] at he
    obtain ⟨hT, hU, hm, d, hd, hq⟩ := (C05.verifyDelegation_iff C name u t gpg).mp h
    rcases he with ⟨_, hn⟩ | ⟨_, _, ⟨_, hx⟩ | ⟨_, hx⟩ | ⟨_, d', hd', hx⟩⟩
    · exact hn ⟨hT, hU⟩
    · exact hm hx
    · rw [hd] at hx; cases hx
    · rw [hd] at hd'; cases hd'; exact hx hq
  · intro h
    cases hr : verifyDelegationJ C name u t gpg with
    | ok x => cases x; rfl
    | error e => have := verifyDelegation_reports_applicable C name u t gpg e hr; rw [h] at this; cases this

-- ---------------------------------------------------------------------------------------------------------------------
-- the verifiers as CPython runs them on payloads holding integers beyond the conversion limit (Model/IntLimit.lean)

/-- the refusal layer only ever turns an outcome into an argument error: acceptance under it is acceptance of the underlying model (so every soundness
theorem — C01, C03, C05, C06 — holds for it as it stands) -/
theorem intLimit_accept_implies (payload : J) (r : Res Unit) (h : withIntLimit payload r = .ok ()) : r = .ok () ∧ payload.intsOK = true := by
  unfold withIntLimit at h
  split at h
  · split at h
    · rename_i hi; exact ⟨h, hi⟩
    · cases h
  · split at h <;> cases h
  · rename_i h1 h2
    rcases r with e | u
    · cases e <;> simp_all
    · exact absurd rfl (h1 u)

/-- on the format's domain (payloads that were loaded from a file, or any well-formed value) the layer changes nothing: completeness theorems hold for it there -/
theorem intLimit_same_on_wf (payload : J) (hw : payload.WF) (r : Res Unit) : withIntLimit payload r = r := by
  unfold withIntLimit
  have := CCT.C07.intsOK_of_wf payload hw
  split <;> simp [this]

/-- the layer keeps every outcome inside the documented families: whatever the underlying verifier reports, the layered one reports the same or an argument error -/
theorem intLimit_families (payload : J) (r : Res Unit) : withIntLimit payload r = r ∨ withIntLimit payload r = .error .arg := by
  unfold withIntLimit
  split
  · split
    · exact Or.inl rfl
    · exact Or.inr rfl
  · split
    · exact Or.inl rfl
    · exact Or.inr rfl
  · exact Or.inl rfl

/-- a payload the encoder refuses is never accepted by any verifier, and never reported as a mere signature error: it is an argument error or one of the
errors raised before serialization is reached -/
theorem refused_payload_outcomes (payload : J) (h : payload.intsOK = false) (r : Res Unit) :
    withIntLimit payload r ≠ .ok () ∧ withIntLimit payload r ≠ .error .signature := by
  unfold withIntLimit
  constructor
  · split
    · simp [h]
    · simp [h]
    · rename_i h1 _; intro hr; exact h1 () hr
  · split
    · simp [h]
    · simp [h]
    · rename_i _ h2; exact h2

-- non-vacuity: a payload the encoder refuses exists (an integer of 4301 digits), and one it does not
example : (J.obj [([110], J.int (10 ^ 4300))]).intsOK = false := by decide +kernel
example : (J.obj [([110], J.int (10 ^ 4300 - 1))]).intsOK = true := by decide +kernel
example : withIntLimit (J.int (10 ^ 4300)) (.ok ()) = .error .arg ∧ withIntLimit (J.int 7) (.ok ()) = .ok () := by
  constructor <;> decide +kernel

end CCT.C13
