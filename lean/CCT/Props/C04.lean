import CCT.Props.C03
import CCT.Props.C08
/-!
# C04 — root chain integrity over arbitrary histories of offered updates

The only state of the protocol is the client's trusted root.  A client that replaces it only by offers the library accepts is
`run`; the theorems hold for every finite sequence of offers (honest, replayed, rolled back, skipping, signed by revoked,
insufficient or self-appointed keys) and every signature scheme.
-/
namespace CCT.C04
open CCT CCT.C15 CCT.C03 CCT.C07
open Classical

/-- the client: replace the trusted root exactly when the library accepts the offer -/
noncomputable def step (C : CryptoFns) (cur offer : J) : J := if verifyRootJ C cur offer = .ok () then offer else cur

noncomputable def run (C : CryptoFns) (init : J) (offers : List J) : J := offers.foldl (step C) init

/-- roots reachable from `a` by single accepted links -/
inductive Chain (C : CryptoFns) : J → J → Prop
  | refl (a : J) : Chain C a a
  | snoc {a b c : J} : Chain C a b → SpecVerifyRoot C b c → Chain C a c

theorem step_chain (C : CryptoFns) (init cur offer : J) (h : Chain C init cur) : Chain C init (step C cur offer) := by
  unfold step
  split
  · rename_i hv; exact Chain.snoc h ((verifyRoot_iff C cur offer).mp hv)
  · exact h

/-- **chain integrity**: whatever is offered, the client always holds a root reached from the initial one by single version
increments, each link signed by the threshold of root keys in force at the previous link (and consistent with itself) -/
theorem chain_integrity (C : CryptoFns) (init : J) (offers : List J) : Chain C init (run C init offers) := by
  unfold run
  suffices ∀ cur, Chain C init cur → Chain C init (offers.foldl (step C) cur) from this init (Chain.refl init)
  induction offers with
  | nil => intro cur h; exact h
  | cons o r ih => intro cur h; exact ih _ (step_chain C init cur o h)

/-- along a chain the version grows by exactly the number of links -/
theorem chain_version (C : CryptoFns) (a b : J) (h : Chain C a b) : ∃ n : Nat, versionOf b = versionOf a + n := by
  induction h with
  | refl => exact ⟨0, by simp⟩
  | snoc _ hs ih => obtain ⟨n, hn⟩ := ih; exact ⟨n + 1, by rw [hs.2.2.1, hn]; omega⟩

/-- the trusted root's version never decreases, whatever is offered (no rollback) -/
theorem version_monotone (C : CryptoFns) (init : J) (offers : List J) : versionOf init ≤ versionOf (run C init offers) := by
  obtain ⟨n, hn⟩ := chain_version C _ _ (chain_integrity C init offers); omega

/-- **a party that never holds a threshold of the then-current root keys cannot change the client's trusted root**: if no offer meets
the root rule of any root on the chain, the client still holds the initial root -/
theorem powerless_without_threshold (C : CryptoFns) (init : J) (offers : List J)
    (h : ∀ cur, Chain C init cur → ∀ o ∈ offers, ¬ RuleMet C true (rootRule cur) o) : run C init offers = init := by
  unfold run
  suffices ∀ cur, cur = init → offers.foldl (step C) cur = init from this init rfl
  induction offers with
  | nil => intro cur e; exact e
  | cons o r ih =>
    intro cur e
    subst e
    have : step C cur o = cur := by
      unfold step
      split
      · rename_i hv
        exact absurd ((verifyRoot_iff C cur o).mp hv).2.2.2.1 (h cur (Chain.refl cur) o (by simp))
      · rfl
    simp only [List.foldl_cons, this]
    exact ih (fun c hc o' ho' => h c hc o' (by simp [ho'])) cur rfl

/-- replay: the root just accepted (or any root with the same version) is rejected when offered again -/
theorem replay_rejected (C : CryptoFns) (cur o : J) (h : versionOf o = versionOf cur) : verifyRootJ C cur o ≠ .ok () := by
  intro hv; have := ((verifyRoot_iff C cur o).mp hv).2.2.1; omega

/-- rollback: an older root is rejected -/
theorem rollback_rejected (C : CryptoFns) (cur o : J) (h : versionOf o < versionOf cur) : verifyRootJ C cur o ≠ .ok () := by
  intro hv; have := ((verifyRoot_iff C cur o).mp hv).2.2.1; omega

/-- skipping: a root two or more versions ahead is rejected -/
theorem skip_rejected (C : CryptoFns) (cur o : J) (h : versionOf cur + 2 ≤ versionOf o) : verifyRootJ C cur o ≠ .ok () := by
  intro hv; have := ((verifyRoot_iff C cur o).mp hv).2.2.1; omega

/-- revoked keys: signatures by keys that are no longer among the current root's keys do not count towards its rule -/
theorem revoked_keys_do_not_count (C : CryptoFns) (cur o : J) (k : PStr) (sig : J) (h : k ∉ keysOf (rootRule cur)) :
    ¬ Counts C true (keysOf (rootRule cur)) (ser (signedOf o)) k sig := fun hc => h hc.2.1

/-- self-appointed keys: meeting only the rule the offer declares for itself is not enough -/
theorem self_appointed_rejected (C : CryptoFns) (cur o : J) (h : ¬ RuleMet C true (rootRule cur) o) : verifyRootJ C cur o ≠ .ok () := by
  intro hv; exact h ((verifyRoot_iff C cur o).mp hv).2.2.2.1

/-- **the verdict on an offer never depends on earlier offers**: it is a function of the current trusted root and the offer -/
theorem verdict_history_free (C : CryptoFns) (init : J) (before : List J) (o : J) :
    run C init (before ++ [o]) = step C (run C init before) o := by
  simp [run, List.foldl_append]

/-- two histories that leave the client with the same trusted root treat every further offer alike -/
theorem same_state_same_future (C : CryptoFns) (init : J) (h1 h2 rest : List J) (h : run C init h1 = run C init h2) :
    run C init (h1 ++ rest) = run C init (h2 ++ rest) := by
  simp only [run, List.foldl_append] at h ⊢; rw [h]

-- persistence ------------------------------------------------------------------------------------------------------------

/-- a client that writes its trusted root to disk and loads it back before looking at each offer -/
noncomputable def stepPersist (C : CryptoFns) (cur offer : J) : J :=
  if verifyRootJ C (canon cur) offer = .ok () then offer else canon cur

noncomputable def runPersist (C : CryptoFns) (init : J) (offers : List J) : J := offers.foldl (stepPersist C) init

/-- **persisting the trusted root to disk between steps is transparent**: the persisting client accepts exactly the same offers and ends
with the same root (up to the canonical re-ordering a reload performs) as the client that keeps it in memory -/
theorem persistence_transparent (C : CryptoFns) (offers : List J) (hw : ∀ o ∈ offers, o.WF) :
    ∀ (a b : J), a.WF → b.WF → canon a = canon b → canon (runPersist C a offers) = canon (run C b offers) := by
  induction offers with
  | nil => intro a b _ _ h; exact h
  | cons o r ih =>
    intro a b ha hb hab
    simp only [runPersist, run, List.foldl_cons]
    have ho := hw o (by simp)
    have e1 : verifyRootJ C (canon a) o = verifyRootJ C b o := by
      rw [hab, C08.reload_trusted_only C b o hb ho]
    have key : canon (stepPersist C a o) = canon (step C b o) ∧ (stepPersist C a o).WF ∧ (step C b o).WF := by
      unfold stepPersist step
      rw [e1]
      by_cases hv : verifyRootJ C b o = .ok ()
      · rw [if_pos hv, if_pos hv]; exact ⟨rfl, ho, ho⟩
      · rw [if_neg hv, if_neg hv]; exact ⟨by rw [canon_idem a ha, hab], canon_wf a ha, hb⟩
    exact ih (fun x hx => hw x (by simp [hx])) _ _ key.2.1 key.2.2 key.1


/-- … stated on files: when the initial root and every offer were read from strict-UTF-8 files (any layout), no well-formedness hypothesis
is left — the persisting client and the in-memory client end with the same root -/
theorem persistence_transparent_files (C : CryptoFns) (initFile : Bytes) (init : J) (hi : NoSurLead initFile) (hl : loadBytes initFile = some init)
    (offers : List J) (hfiles : ∀ o ∈ offers, ∃ b, NoSurLead b ∧ loadBytes b = some o) :
    canon (runPersist C init offers) = canon (run C init offers) :=
  persistence_transparent C offers (fun o ho => by obtain ⟨b, hb, hlo⟩ := hfiles o ho; exact load_wf hb hlo)
    init init (load_wf hi hl) (load_wf hi hl) rfl

end CCT.C04
