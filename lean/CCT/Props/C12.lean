import CCT.Props.C13
import CCT.Props.C09
import CCT.Lemmas.HeapLemmas
import CCT.Model.Threads
/-!
# C12 — verification is pure  (partial: thread switches inside CPython, import order and stdout are run, not modelled)

In the model every validator and verifier is a mathematical function of the *values* of its arguments and returns no reference to
them, so the value-level statements are short; their weight is on the implementation side (snapshots, histories, threads,
fresh processes — see the evidence).
-/
namespace CCT.C12
open CCT

/-- a call of the public API on JSON arguments -/
inductive Call where
  | vsignable (env keys thr : J) (gpg : Bool)
  | vdeleg (name : PStr) (u t : J) (gpg : Bool)
  | vroot (t u : J)
  | checkMd (m : J)

def eval (C : CryptoFns) : Call → Res Unit
  | .vsignable e k t g => verifySignableJ C e k t g
  | .vdeleg n u t g => verifyDelegationJ C n u t g
  | .vroot t u => verifyRootJ C t u
  | .checkMd m => checkDelegatingMdJ m

/-- a history: the verdicts of a sequence of calls, in order -/
def runHistory (C : CryptoFns) (calls : List Call) : List (Res Unit) := calls.map (eval C)

/-- **verdicts depend only on the arguments of the call**: whatever calls came before, the verdict of a call is the verdict of that call alone -/
theorem history_independent (C : CryptoFns) (before : List Call) (c : Call) :
    (runHistory C (before ++ [c])).getLast? = some (eval C c) := by
  simp [runHistory]

/-- repeating or reordering calls never changes any verdict -/
theorem reorder_invariant (C : CryptoFns) (calls calls' : List Call) (h : calls.Perm calls') (c : Call) (hc : c ∈ calls) :
    eval C c ∈ runHistory C calls' := by
  simp only [runHistory, List.mem_map]
  exact ⟨c, h.mem_iff.mp hc, rfl⟩

/-- related inputs (same key, same signature entries, another payload) are judged on their own payload: the verdict is a function of
the canonical bytes of the payload presented in *this* call -/
theorem verifier_is_function_of_values (C : CryptoFns) (e e' k t : J) (g : Bool) (h : e = e') :
    verifySignableJ C e k t g = verifySignableJ C e' k t g := by rw [h]

/-- wrapping returns a fresh envelope whose payload is (a copy of) the value: nothing of the result depends on anything but the value -/
theorem wrap_result_independent (v : J) : wrapAsSignable (.j v) = .ok (.obj [(ps! "signatures", .obj []), (ps! "signed", v)]) := rfl

-- heap level: object identity and aliasing (Model/Heap.lean) -----------------------------------------------------------

/-- **deep copy reads back the same value** -/
theorem deepcopy_value (h : Heap) (v : J) : deref (alloc h v).1 v.size (alloc h v).2 = some v :=
  (alloc_spec h v).2.2.2 _ _ (fun _ _ _ => rfl) (Nat.le_refl _)

/-- **deep copy is fresh**: the copy's root is a new object and no existing object is modified by copying -/
theorem deepcopy_fresh (h : Heap) (v : J) :
    h.next ≤ (alloc h v).2 ∧ ∀ j, j < h.next → (alloc h v).1.get j = h.get j :=
  ⟨(alloc_spec h v).1, (alloc_spec h v).2.2.1⟩

theorem alloc_next_le (h : Heap) (v : J) : h.next ≤ (alloc h v).1.next := by
  have := alloc_spec h v; omega

/-- **later changes to the original never affect the copy**: after any sequence of in-place modifications of objects that existed before
the copy was made (everything reachable from the original is such an object), the copy still reads the same value -/
theorem copy_unaffected_by_old_writes (h : Heap) (v : J) (ws : List (Nat × Obj)) (hws : ∀ w ∈ ws, w.1 < h.next) :
    deref (applyWrites (alloc h v).1 ws) v.size (alloc h v).2 = some v := by
  refine (alloc_spec h v).2.2.2 _ _ ?_ (Nat.le_refl _)
  intro j h1 _
  exact applyWrites_get ws _ j (fun w hw e => by have := hws w hw; omega)

/-- **later changes to the copy never affect the original**: after any sequence of in-place modifications of objects created by the copy,
every tree of the (closed) old heap reads exactly as before -/
theorem old_unaffected_by_copy_writes (h : Heap) (hc : Closed h) (v : J) (ws : List (Nat × Obj)) (hws : ∀ w ∈ ws, h.next ≤ w.1)
    (r : Nat) (hr : r < h.next) (f : Nat) : deref (applyWrites (alloc h v).1 ws) f r = deref h f r := by
  refine deref_agree_below h _ h.next (fun i o ho _ => (hc i o ho).2) ?_ f r hr
  intro j hj
  rw [applyWrites_get ws _ j (fun w hw e => by have := hws w hw; omega)]
  exact (alloc_spec h v).2.2.1 j hj

/-- `wrap_as_signable(obj)` on the heap: the envelope's payload reads as the value of `obj` at wrapping time, whatever is later done to
`obj` or to anything else that existed before -/
theorem wrap_isolated (h : Heap) (depth : Nat) (obj : Nat) (v : J) (hv : deref h depth obj = some v) (ws : List (Nat × Obj))
    (hws : ∀ w ∈ ws, w.1 < h.next) :
    ∃ h' env signed sigs, wrapOnHeap h depth obj = some (h', env) ∧
      (applyWrites h' ws).get env = some (.dict [(ps! "signatures", sigs), (ps! "signed", signed)]) ∧
      deref (applyWrites h' ws) v.size signed = some v := by
  have a := alloc_spec h v
  simp only [wrapOnHeap, hv]
  generalize hx : alloc h v = ax at a
  obtain ⟨h1, signed⟩ := ax
  dsimp only at a ⊢
  obtain ⟨a1, a2, a3, a4⟩ := a
  refine ⟨_, _, signed, h1.next, rfl, ?_, ?_⟩
  · rw [applyWrites_get ws _ _ (fun w hw e => by have := hws w hw; simp [Heap.push] at e; omega)]
    simp [Heap.push]
  · refine a4 _ _ ?_ (Nat.le_refl _)
    intro j l1 l2
    rw [applyWrites_get ws _ j (fun w hw e => by have := hws w hw; omega)]
    have n1 : j ≠ h1.next + 1 := by omega
    have n2 : j ≠ h1.next := by omega
    simp [Heap.push, n1, n2]

/-- why the copy must be deep: with a *shallow* copy, modifying a nested container of the original changes what the copy reads -/
def demoHeap : Heap :=
  { get := fun i => if i = 0 then some (.atom (.int 1)) else if i = 1 then some (.list [0]) else if i = 2 then some (.dict [(ps! "a", 1)]) else none, next := 3 }

example : deref (shallowCopy demoHeap 2).1 5 (shallowCopy demoHeap 2).2 = some (.obj [(ps! "a", .arr [.int 1])]) := by
  simp [deref, derefList, derefMembers, shallowCopy, demoHeap, Heap.push, Heap.write, Heap.set, alloc, allocList, allocMembers]
example : deref ((shallowCopy demoHeap 2).1.write 1 (.list [])) 5 (shallowCopy demoHeap 2).2 = some (.obj [(ps! "a", .arr [])]) := by
  simp [deref, derefList, derefMembers, shallowCopy, demoHeap, Heap.push, Heap.write, Heap.set, alloc, allocList, allocMembers]
example : deref ((alloc demoHeap (.obj [(ps! "a", .arr [.int 1])])).1.write 1 (.list [])) 5 (alloc demoHeap (.obj [(ps! "a", .arr [.int 1])])).2
    = some (.obj [(ps! "a", .arr [.int 1])]) := by
  simp [deref, derefList, derefMembers, shallowCopy, demoHeap, Heap.push, Heap.write, Heap.set, alloc, allocList, allocMembers]

/-- a validator / verifier call on heap objects: read the argument trees, evaluate — the heap is returned unchanged (the model's API has no
write operation at all; the correspondence check snapshots every argument of the real code before and after each call) -/
def apiCall (C : CryptoFns) (h : Heap) (depth : Nat) (env keys thr : Nat) (gpg : Bool) : Heap × Option (Res Unit) :=
  (h, match deref h depth env, deref h depth keys, deref h depth thr with
      | some e, some k, some t => some (verifySignableJ C e k t gpg)
      | _, _, _ => none)

theorem verifiers_frame (C : CryptoFns) (h : Heap) (depth env keys thr : Nat) (gpg : Bool) : (apiCall C h depth env keys thr gpg).1 = h := rfl


-- threads (Model/Threads.lean) ---------------------------------------------------------------------------------------

def ReadOnlyStep {σ : Type} (f : Heap → σ → Heap × σ) : Prop := ∀ h s, (f h s).1 = h
def ReadOnlyThreads {σ : Type} (ts : Nat → Thread σ) : Prop := ∀ i, ∀ f ∈ (ts i).steps, ReadOnlyStep f

theorem runAlone_readonly {σ : Type} (h : Heap) : ∀ (fs : List (Heap → σ → Heap × σ)) (s : σ), (∀ f ∈ fs, ReadOnlyStep f) →
    (runAlone h fs s).1 = h
  | [], s, _ => rfl
  | f :: r, s, hro => by
    have h1 : (f h s).1 = h := hro f (List.mem_cons_self ..) h s
    simp only [runAlone]
    generalize hx : f h s = x at h1
    obtain ⟨h', s'⟩ := x
    simp only at h1 ⊢; subst h1
    exact runAlone_readonly _ r s' (fun g hg => hro g (List.mem_cons_of_mem _ hg))

/-- **every interleaving**: under any schedule, threads that never write the heap leave it unchanged, and each thread is exactly where
it would be after taking the same number of steps alone on the initial heap -/
theorem sched_readonly {σ : Type} (h : Heap) : ∀ (sched : List Nat) (ts : Nat → Thread σ), ReadOnlyThreads ts →
    (runSched h ts sched).1 = h ∧
    ∀ i, ((runSched h ts sched).2 i).steps = (ts i).steps.drop (sched.count i) ∧
         ((runSched h ts sched).2 i).loc = (runAlone h ((ts i).steps.take (sched.count i)) (ts i).loc).2
  | [], ts, _ => by simp [runSched, runAlone]
  | a :: r, ts, hro => by
    simp only [runSched]
    cases hs : (ts a).steps with
    | nil =>
      have e : stepThread h ts a = (h, ts) := by simp [stepThread, hs]
      rw [e]
      obtain ⟨ih1, ih2⟩ := sched_readonly h r ts hro
      refine ⟨ih1, fun i => ?_⟩
      obtain ⟨i1, i2⟩ := ih2 i
      by_cases hia : a = i
      · subst hia; simp [i1, i2, hs, runAlone]
      · simp [hia, i1, i2]
    | cons f rest =>
      have hf : (f h (ts a).loc).1 = h := hro a f (by rw [hs]; exact List.mem_cons_self ..) h _
      generalize hx : f h (ts a).loc = x at hf
      obtain ⟨h', s'⟩ := x
      simp only at hf; subst hf
      have e : stepThread h' ts a = (h', fun j => if j = a then { steps := rest, loc := s' } else ts j) := by
        simp [stepThread, hs, hx]
      rw [e]
      have hro' : ReadOnlyThreads (fun j => if j = a then ({ steps := rest, loc := s' } : Thread σ) else ts j) := by
        intro i g hg
        by_cases hia : i = a
        · simp only [hia, if_true] at hg
          exact hro a g (by rw [hs]; exact List.mem_cons_of_mem _ hg)
        · simp only [hia, if_false] at hg; exact hro i g hg
      obtain ⟨ih1, ih2⟩ := sched_readonly h' r _ hro'
      refine ⟨ih1, fun i => ?_⟩
      obtain ⟨i1, i2⟩ := ih2 i
      by_cases hia : a = i
      · subst hia
        simp only [if_true] at i1 i2
        simp [i1, i2, hs, runAlone, hx]
      · have hia' : ¬ i = a := fun x => hia x.symm
        simp only [hia', if_false] at i1 i2
        simp [hia, i1, i2]

/-- a thread that was given at least as many turns as it has steps has finished with the result of running alone -/
theorem finished_thread_result {σ : Type} (h : Heap) (sched : List Nat) (ts : Nat → Thread σ) (hro : ReadOnlyThreads ts) (i : Nat)
    (hfin : (ts i).steps.length ≤ sched.count i) :
    ((runSched h ts sched).2 i).steps = [] ∧ ((runSched h ts sched).2 i).loc = (runAlone h (ts i).steps (ts i).loc).2 := by
  obtain ⟨_, h2⟩ := sched_readonly h sched ts hro
  obtain ⟨a, b⟩ := h2 i
  refine ⟨by rw [a]; exact List.drop_eq_nil_of_le hfin, ?_⟩
  rw [b, List.take_of_length_le hfin]

theorem verifierSteps_readonly (C : CryptoFns) (depth env keys thr : Nat) (gpg : Bool) :
    ∀ f ∈ verifierSteps C depth env keys thr gpg, ReadOnlyStep f := by
  intro f hf
  simp only [verifierSteps, List.mem_cons, List.mem_nil_iff, or_false] at hf
  rcases hf with rfl | rfl | rfl | rfl <;> intro h s <;> rfl

theorem verifier_alone (C : CryptoFns) (h : Heap) (depth env keys thr : Nat) (gpg : Bool) :
    (runAlone h (verifierSteps C depth env keys thr gpg) {}).2.verdict =
      verdictOf C gpg (deref h depth env) (deref h depth keys) (deref h depth thr) := by
  simp [runAlone, verifierSteps]

/-- **concurrent verification over shared metadata**: any number of verifier threads (thread `i` checks the heap objects `args i`), under
*every* schedule — every interleaving of their reads — leave the shared heap untouched, and every thread that has been given its four
turns holds exactly the verdict the same call returns when run alone (`apiCall`) -/
theorem concurrent_verdicts (C : CryptoFns) (h : Heap) (depth : Nat) (args : Nat → Nat × Nat × Nat × Bool) (sched : List Nat) :
    let ts : Nat → Thread VLocal := fun i => verifierThread C depth (args i).1 (args i).2.1 (args i).2.2.1 (args i).2.2.2
    (runSched h ts sched).1 = h ∧
    ∀ i, 4 ≤ sched.count i →
      ((runSched h ts sched).2 i).loc.verdict = (apiCall C h depth (args i).1 (args i).2.1 (args i).2.2.1 (args i).2.2.2).2 := by
  intro ts
  have hro : ReadOnlyThreads ts := fun i => verifierSteps_readonly C depth _ _ _ _
  refine ⟨(sched_readonly h sched ts hro).1, fun i hi => ?_⟩
  have hf := (finished_thread_result h sched ts hro i (by simpa [ts, verifierThread, verifierSteps] using hi)).2
  rw [hf]
  simp only [ts, verifierThread]
  rw [verifier_alone]
  simp only [apiCall, verdictOf]
  cases deref h depth (args i).1 <;> cases deref h depth (args i).2.1 <;> cases deref h depth (args i).2.2.1 <;> rfl

/-- why the hypothesis matters: one thread with a *writing* step (an in-place `sort()` / normalisation of a shared argument, a module-level
tally) and the verdict of a concurrent verifier depends on the schedule -/
def writerThread (i : Nat) (o : Obj) : Thread VLocal := { steps := [fun h s => (h.write i o, s)], loc := {} }

def demoH : Heap :=
  { get := fun i => if i = 0 then some (.atom .null) else if i = 1 then some (.dict []) else
                    if i = 2 then some (.dict [(ps! "signatures", 1), (ps! "signed", 0)]) else
                    if i = 3 then some (.list []) else if i = 4 then some (.atom (.int 1)) else none, next := 5 }

def demoTs : Nat → Thread VLocal := fun i => if i = 0 then verifierThread C09.toyCrypto.toCryptoFns 3 2 3 4 false else writerThread 4 (.atom (.int 0))

example : ((runSched demoH demoTs [0,0,0,0,1]).2 0).loc.verdict = some (.error .signature) := by
  simp [runSched, stepThread, demoTs, verifierThread, verifierSteps, writerThread, demoH, deref, derefList, derefMembers, Heap.write, Heap.set, verdictOf]
  decide +kernel
example : ((runSched demoH demoTs [0,0,1,0,0]).2 0).loc.verdict = some (.error .arg) := by
  simp [runSched, stepThread, demoTs, verifierThread, verifierSteps, writerThread, demoH, deref, derefList, derefMembers, Heap.write, Heap.set, verdictOf]
  decide +kernel


end CCT.C12
