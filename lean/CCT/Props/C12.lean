import CCT.Props.C13
import CCT.Props.C09
/-!
# C12 — verification is pure  (partial: thread switches inside CPython, import order and stdout are run, not modelled)

In the model every validator and verifier is a mathematical function of the *values* of its arguments and returns no reference to
them, so the value-level statements are short; their weight is on the implementation side (snapshots, histories, threads,
fresh processes — see the evidence).
-/
namespace CCT.C12
open CCT

/-- a call of the public API on JSON arguments -/
inductive Call where
  | vsignable (env keys thr : J) (gpg : Bool)
  | vdeleg (name : PStr) (u t : J) (gpg : Bool)
  | vroot (t u : J)
  | checkMd (m : J)

def eval (C : CryptoFns) : Call → Res Unit
  | .vsignable e k t g => verifySignableJ C e k t g
  | .vdeleg n u t g => verifyDelegationJ C n u t g
  | .vroot t u => verifyRootJ C t u
  | .checkMd m => checkDelegatingMdJ m

/-- a history: the verdicts of a sequence of calls, in order -/
def runHistory (C : CryptoFns) (calls : List Call) : List (Res Unit) := calls.map (eval C)

/-- **verdicts depend only on the arguments of the call**: whatever calls came before, the verdict of a call is the verdict of that call alone -/
theorem history_independent (C : CryptoFns) (before : List Call) (c : Call) :
    (runHistory C (before ++ [c])).getLast? = some (eval C c) := by
  simp [runHistory]

/-- repeating or reordering calls never changes any verdict -/
theorem reorder_invariant (C : CryptoFns) (calls calls' : List Call) (h : calls.Perm calls') (c : Call) (hc : c ∈ calls) :
    eval C c ∈ runHistory C calls' := by
  simp only [runHistory, List.mem_map]
  exact ⟨c, h.mem_iff.mp hc, rfl⟩

/-- related inputs (same key, same signature entries, another payload) are judged on their own payload: the verdict is a function of
the canonical bytes of the payload presented in *this* call -/
theorem verifier_is_function_of_values (C : CryptoFns) (e e' k t : J) (g : Bool) (h : e = e') :
    verifySignableJ C e k t g = verifySignableJ C e' k t g := by rw [h]

/-- wrapping returns a fresh envelope whose payload is (a copy of) the value: nothing of the result depends on anything but the value -/
theorem wrap_result_independent (v : J) : wrapAsSignable (.j v) = .ok (.obj [(ps! "signatures", .obj []), (ps! "signed", v)]) := rfl

end CCT.C12
