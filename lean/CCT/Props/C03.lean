import CCT.Model.Auth
/-! # C03 (theorems; work in progress) -/
namespace CCT.C03
open CCT
theorem placeholder : okU = .ok () := rfl
end CCT.C03
