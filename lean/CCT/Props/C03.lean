import CCT.Lemmas.Rules
import CCT.Props.C01
/-!
# C03 — a root update is accepted iff version+1 and signed per the old and the new root rules

Model: `verifyRootJ` (`authentication.py:40-111`).
-/
namespace CCT.C03
open CCT CCT.C15
open Classical

/-- both are well-formed root-type metadata declaring a root rule, the offered version is exactly the trusted version plus one,
and the OpenPGP-mode signatures on the offered metadata meet the root rule of the trusted root and the root rule it declares itself -/
def SpecVerifyRoot (C : CryptoFns) (t u : J) : Prop :=
  IsRootMd t ∧ IsRootMd u ∧ versionOf u = versionOf t + 1 ∧ RuleMet C true (rootRule t) u ∧ RuleMet C true (rootRule u) u

theorem rootRule_ok {m : J} (h : IsRootMd m) : DelegationOK (rootRule m) := by
  obtain ⟨hs, _, hr⟩ := h
  obtain ⟨d, hd⟩ := Option.isSome_iff_exists.mp hr
  have := mem_delegations_ok hs hd
  simp [rootRule, hd]; exact this

theorem isRootMd_signable {m : J} (h : IsRootMd m) : isSignableJ m = true := by
  obtain ⟨⟨_, _, hp, _⟩, _⟩ := h; exact hp.signable

/-- **accepted if and only if** -/
theorem verifyRoot_iff (C : CryptoFns) (t u : J) : verifyRootJ C t u = .ok () ↔ SpecVerifyRoot C t u := by
  rw [verifyRoot_eq]
  by_cases h1 : IsRootMd t ∧ IsRootMd u
  · rw [if_neg (by simp [h1])]
    by_cases hv : versionOf t + 1 ≠ versionOf u
    · rw [if_pos hv]
      constructor
      · intro h; cases h
      · rintro ⟨_, _, h, _⟩; exact absurd h.symm hv
    · rw [if_neg hv]
      simp only [bind, Except.bind, rule_verdict C true _ u (rootRule_ok h1.1) (isRootMd_signable h1.2),
        rule_verdict C true _ u (rootRule_ok h1.2) (isRootMd_signable h1.2)]
      have hv' : versionOf u = versionOf t + 1 := by omega
      by_cases m1 : RuleMet C true (rootRule t) u
      · by_cases m2 : RuleMet C true (rootRule u) u
        · simp only [m1, m2, if_true, true_iff]; exact ⟨h1.1, h1.2, hv', m1, m2⟩
        · simp only [m1, m2, if_true, if_false]
          constructor
          · intro h; cases h
          · rintro ⟨_, _, _, _, h⟩; exact absurd h m2
      · simp only [m1, if_false]
        constructor
        · intro h; cases h
        · rintro ⟨_, _, _, h, _⟩; exact absurd h m1
  · rw [if_pos h1]
    constructor
    · intro h; cases h
    · rintro ⟨a, b, _⟩; exact absurd ⟨a, b⟩ h1

/-- nothing the untrusted metadata says about itself substitutes for the trusted root's keys and threshold -/
theorem trusted_rule_needed (C : CryptoFns) (t u : J) (h : verifyRootJ C t u = .ok ()) :
    ∃ S : List PStr, S.Nodup ∧ thrOf (rootRule t) ≤ S.length ∧
      ∀ k ∈ S, k ∈ keysOf (rootRule t) ∧ ∃ sig, (k, sig) ∈ entriesOf u ∧ Counts C true (keysOf (rootRule t)) (ser (signedOf u)) k sig := by
  obtain ⟨_, _, _, ⟨S, hS, hl, hall⟩, _⟩ := (verifyRoot_iff C t u).mp h
  exact ⟨S, hS, hl, fun k hk => by obtain ⟨sig, hm, hc⟩ := hall k hk; exact ⟨hc.2.1, sig, hm, hc⟩⟩

/-- … and the new root must be consistent with itself -/
theorem own_rule_needed (C : CryptoFns) (t u : J) (h : verifyRootJ C t u = .ok ()) : RuleMet C true (rootRule u) u :=
  ((verifyRoot_iff C t u).mp h).2.2.2.2

/-- only OpenPGP-shaped signatures count for root metadata -/
theorem root_signatures_are_gpg (C : CryptoFns) (d u : J) (k : PStr) (sig : J)
    (h : Counts C true (keysOf d) (ser (signedOf u)) k sig) : GpgShape sig := by
  have := h.2.2; simp at this; exact this.1

/-- a root-version mismatch between well-formed roots is a metadata-verification error -/
theorem version_mismatch_error (C : CryptoFns) (t u : J) (ht : IsRootMd t) (hu : IsRootMd u) (hv : versionOf u ≠ versionOf t + 1) :
    verifyRootJ C t u = .error .metadataVerification := by
  rw [verifyRoot_eq, if_neg (by simp [ht, hu]), if_pos (by omega)]

/-- insufficient signatures on a correctly versioned update are a signature error -/
theorem insufficient_error (C : CryptoFns) (t u : J) (ht : IsRootMd t) (hu : IsRootMd u) (hv : versionOf u = versionOf t + 1)
    (hm : ¬ (RuleMet C true (rootRule t) u ∧ RuleMet C true (rootRule u) u)) : verifyRootJ C t u = .error .signature := by
  rw [verifyRoot_eq, if_neg (by simp [ht, hu]), if_neg (by omega)]
  simp only [bind, Except.bind, rule_verdict C true _ u (rootRule_ok ht) (isRootMd_signable hu),
    rule_verdict C true _ u (rootRule_ok hu) (isRootMd_signable hu)]
  by_cases m1 : RuleMet C true (rootRule t) u
  · have m2 : ¬ RuleMet C true (rootRule u) u := fun h => hm ⟨m1, h⟩
    simp [m1, m2]
  · simp [m1]

/-- anything that is not a pair of well-formed root metadata is an argument error -/
theorem malformed_error (C : CryptoFns) (t u : J) (h : ¬ (IsRootMd t ∧ IsRootMd u)) : verifyRootJ C t u = .error .arg := by
  rw [verifyRoot_eq, if_pos h]

theorem verifyRoot_outcomes (C : CryptoFns) (t u : J) :
    verifyRootJ C t u = .ok () ∨ verifyRootJ C t u = .error .arg ∨ verifyRootJ C t u = .error .metadataVerification ∨
    verifyRootJ C t u = .error .signature := by
  by_cases h : IsRootMd t ∧ IsRootMd u
  · by_cases hv : versionOf u = versionOf t + 1
    · by_cases hm : RuleMet C true (rootRule t) u ∧ RuleMet C true (rootRule u) u
      · left; exact (verifyRoot_iff C t u).mpr ⟨h.1, h.2, hv, hm.1, hm.2⟩
      · right; right; right; exact insufficient_error C t u h.1 h.2 hv hm
    · right; right; left; exact version_mismatch_error C t u h.1 h.2 hv
  · right; left; exact malformed_error C t u h

end CCT.C03
