import CCT.Model.Signing
/-! # C18 — in-place signing is all-or-nothing (model below; more theorems follow) -/
namespace CCT.C18
open CCT
theorem placeholder : okU = .ok () := rfl
end CCT.C18
