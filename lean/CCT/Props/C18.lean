import CCT.Model.SignSteps
import CCT.Props.C11
import CCT.Model.GpgSteps
/-!
# C18 — in-place signing is all-or-nothing with respect to failures  (partial: the OS is run, not modelled)

Model: `CCT/Model/SignSteps.lean`.  The correspondence check enumerates, on the real code, a fault at every executed line before the
output phase and compares the `open()` sequence and the file bytes with what these theorems say.
-/
namespace CCT.C18
open CCT
open Classical

/-- a step outside the output phase never changes the file and never opens it for writing -/
theorem compute_step_preserves (C : CryptoFns) (key : J) (st st' : SignSt) (s : SignStep) (hs : s.isOutput = false)
    (h : execStep C key st s = .ok st') : st'.file = st.file ∧ (OpenEv.write ∈ st'.opens ↔ OpenEv.write ∈ st.opens) := by
  cases s with
  | openTrunc => simp [SignStep.isOutput] at hs
  | write => simp [SignStep.isOutput] at hs
  | validate =>
    simp only [execStep, bind, Except.bind] at h
    split at h
    · cases h
    · cases h; exact ⟨rfl, Iff.rfl⟩
  | openRead =>
    simp only [execStep] at h
    split at h
    · cases h; exact ⟨rfl, by simp⟩
    · cases h
  | parse =>
    simp only [execStep] at h
    split at h
    · cases h; exact ⟨rfl, Iff.rfl⟩
    · cases h
  | checkPackages =>
    simp only [execStep, bind, Except.bind] at h
    split at h
    · cases h
    · split at h
      · cases h
      · cases h; exact ⟨rfl, Iff.rfl⟩
  | reset =>
    simp only [execStep] at h
    split at h
    · cases h; exact ⟨rfl, Iff.rfl⟩
    · cases h
  | signOne n md => simp only [execStep] at h; cases h; exact ⟨rfl, Iff.rfl⟩
  | finish =>
    simp only [execStep] at h
    split at h
    · cases h; exact ⟨rfl, Iff.rfl⟩
    · cases h
  | serialize => simp only [execStep] at h; cases h; exact ⟨rfl, Iff.rfl⟩

/-- running any list of non-output steps, under any fault plan, leaves the file as it was and never opens it for writing -/
theorem no_write_before_output (C : CryptoFns) (key : J) (fault : Option Nat) :
    ∀ (steps : List SignStep) (i : Nat) (st : SignSt), (∀ s ∈ steps, s.isOutput = false) →
      (runSteps C key fault i steps st).2.file = st.file ∧
      (OpenEv.write ∈ (runSteps C key fault i steps st).2.opens ↔ OpenEv.write ∈ st.opens)
  | [], _, _, _ => ⟨rfl, Iff.rfl⟩
  | s :: r, i, st, h => by
    simp only [runSteps]
    split
    · exact ⟨rfl, Iff.rfl⟩
    · cases he : execStep C key st s with
      | error e => exact ⟨rfl, Iff.rfl⟩
      | ok st' =>
        have hp := compute_step_preserves C key st st' s (h s (by simp)) he
        have ih := no_write_before_output C key fault r (i + 1) st' (fun x hx => h x (by simp [hx]))
        simp only
        exact ⟨ih.1.trans hp.1, ih.2.trans hp.2⟩

theorem runSteps_append_fault (C : CryptoFns) (key : J) (k : Nat) :
    ∀ (pre post : List SignStep) (i : Nat) (st : SignSt), k < i + pre.length →
      runSteps C key (some k) i (pre ++ post) st = runSteps C key (some k) i pre st ∨
      (runSteps C key (some k) i pre st).1 = .done
  | [], _, i, _, h => by simp at h; right; rfl
  | s :: r, post, i, st, h => by
    simp only [List.cons_append, runSteps]
    split
    · left; rfl
    · cases he : execStep C key st s with
      | error e => left; rfl
      | ok st' =>
        simp only
        exact runSteps_append_fault C key k r post (i + 1) st' (by simp at h; omega)

/-- a fault injected at a step index inside a prefix always stops the run inside that prefix -/
theorem fault_stops_in_prefix (C : CryptoFns) (key : J) (k : Nat) :
    ∀ (pre : List SignStep) (i : Nat) (st : SignSt), i ≤ k → k < i + pre.length → (runSteps C key (some k) i pre st).1 ≠ .done
  | [], i, _, h1, h2 => by simp at h2; omega
  | s :: r, i, st, h1, h2 => by
    simp only [runSteps]
    by_cases e : k = i
    · subst e; simp
    · have : ¬ (some k = some i) := fun h => e (Option.some.inj h)
      simp only [this, if_false]
      cases he : execStep C key st s with
      | error e => simp
      | ok st' => exact fault_stops_in_prefix C key k r (i + 1) st' (by omega) (by simp at h2; omega)

/-- the compute phase of the plan: everything but the last two steps -/
def computePart (file : Option Bytes) : List SignStep := (signPlan file).dropLast.dropLast

theorem computePart_eq (file : Option Bytes) : computePart file =
    [SignStep.validate, .openRead, .parse, .checkPackages, .reset] ++ (planArts file).map (fun a => SignStep.signOne a.1 a.2) ++ [SignStep.finish, .serialize] := by
  simp [computePart, signPlan, List.dropLast_append_of_ne_nil, List.dropLast]

theorem signPlan_split (file : Option Bytes) : signPlan file = computePart file ++ [.openTrunc, .write] := by
  rw [computePart_eq]; simp [signPlan]

theorem computePart_no_output (file : Option Bytes) : ∀ s ∈ computePart file, s.isOutput = false := by
  intro s hs
  rw [computePart_eq] at hs
  simp only [List.mem_append, List.mem_cons, List.mem_nil_iff, or_false, List.mem_map] at hs
  rcases hs with (((rfl | rfl | rfl | rfl | rfl) | ⟨a, _, rfl⟩) | (rfl | rfl)) <;> rfl

/-- **a failure at any step before the output phase — wherever it is injected — leaves the file on disk byte-identical and the file is
never opened for writing**, for every document, key and fault point -/
theorem fault_anywhere_before_output (C : CryptoFns) (key : J) (file : Option Bytes) (k : Nat) (hk : k < (computePart file).length) :
    (runSteps C key (some k) 0 (signPlan file) (initSt file)).2.file = file ∧
    OpenEv.write ∉ (runSteps C key (some k) 0 (signPlan file) (initSt file)).2.opens := by
  rw [signPlan_split]
  rcases runSteps_append_fault C key k (computePart file) [.openTrunc, .write] 0 (initSt file) (by omega) with h | h
  · rw [h]
    have := no_write_before_output C key (some k) (computePart file) 0 (initSt file) (computePart_no_output file)
    exact ⟨this.1, fun hw => by have := this.2.mp hw; simp [initSt] at this⟩
  · exact absurd h (fault_stops_in_prefix C key k (computePart file) 0 (initSt file) (by omega) (by omega))

theorem runSteps_prefix_then (C : CryptoFns) (key : J) (fault : Option Nat) : ∀ (pre post : List SignStep) (i : Nat) (st : SignSt),
    runSteps C key fault i (pre ++ post) st =
      (if (runSteps C key fault i pre st).1 = .done then runSteps C key fault (i + pre.length) post (runSteps C key fault i pre st).2
       else runSteps C key fault i pre st)
  | [], post, i, st => by simp [runSteps]
  | s :: r, post, i, st => by
    simp only [List.cons_append, runSteps]
    split
    · simp
    · cases he : execStep C key st s with
      | error e => simp
      | ok st' =>
        simp only
        rw [runSteps_prefix_then C key fault r post (i + 1) st']
        simp only [List.length_cons]
        rw [show i + 1 + r.length = i + (r.length + 1) by omega]

/-- **the operating system refuses the output** (the file cannot be opened for writing: read-only, immutable, quota): the failure comes *instead of* the
first output step, after everything was computed and serialized — the file on disk is byte-identical and was never opened for writing -/
theorem refused_open_leaves_file (C : CryptoFns) (key : J) (file : Option Bytes) :
    (runSteps C key (some (computePart file).length) 0 (signPlan file) (initSt file)).2.file = file ∧
    OpenEv.write ∉ (runSteps C key (some (computePart file).length) 0 (signPlan file) (initSt file)).2.opens := by
  rw [signPlan_split, runSteps_prefix_then]
  have hpre := no_write_before_output C key (some (computePart file).length) (computePart file) 0 (initSt file) (computePart_no_output file)
  split
  · -- the compute part went through; the refused open is the injected fault
    simp only [runSteps, Nat.zero_add, if_true]
    exact ⟨hpre.1, fun hw => by have := hpre.2.mp hw; simp [initSt] at this⟩
  · exact ⟨hpre.1, fun hw => by have := hpre.2.mp hw; simp [initSt] at this⟩

/-- **any failure of the library itself (bad key, malformed input, missing file, …) leaves the file untouched** -/
theorem failure_leaves_file (C : CryptoFns) (key : J) (file : Option Bytes) (e : PyErr) (st : SignSt)
    (h : runSteps C key none 0 (signPlan file) (initSt file) = (.failed e, st)) : st.file = file := by
  -- the two output steps cannot fail, so the failure happened in the compute part, which preserves the file
  rw [signPlan_split] at h
  have key_lemma : ∀ (pre : List SignStep) (i : Nat) (s0 : SignSt), (∀ s ∈ pre, s.isOutput = false) →
      runSteps C key none i (pre ++ [.openTrunc, .write]) s0 = (.failed e, st) → st.file = s0.file := by
    intro pre
    induction pre with
    | nil =>
      intro i s0 _ h
      simp [runSteps, execStep] at h
    | cons s r ih =>
      intro i s0 hno h
      simp only [List.cons_append, runSteps] at h
      have : ¬ ((none : Option Nat) = some i) := by simp
      simp only [this, if_false] at h
      cases he : execStep C key s0 s with
      | error e' => rw [he] at h; simp only at h; cases h; rfl
      | ok s1 =>
        rw [he] at h; simp only at h
        have hp := compute_step_preserves C key s0 s1 s (hno s (by simp)) he
        exact (ih (i + 1) s1 (fun x hx => hno x (by simp [hx])) h).trans hp.1
  exact key_lemma (computePart file) 0 (initSt file) (computePart_no_output file) h

/-- **output is written only after every signature has been computed and the result serialized**: on success the file holds exactly the
serialized result and was opened once for reading and once, afterwards, for writing -/
theorem success_writes_once (C : CryptoFns) (key : J) (file : Option Bytes) (st : SignSt)
    (h : runSteps C key none 0 (signPlan file) (initSt file) = (.done, st)) :
    st.file = st.out ∧ st.opens = [.read, .write] := by
  rw [signPlan_split] at h
  have key_lemma : ∀ (pre : List SignStep) (i : Nat) (s0 : SignSt), (∀ s ∈ pre, s.isOutput = false) →
      runSteps C key none i (pre ++ [.openTrunc, .write]) s0 = (.done, st) →
      st.file = st.out ∧ ∃ s1, st.opens = s1.opens ++ [.write] ∧ (runSteps C key none i pre s0) = (.done, s1) := by
    intro pre
    induction pre with
    | nil =>
      intro i s0 _ h
      simp [runSteps, execStep] at h
      subst h
      exact ⟨rfl, s0, rfl, rfl⟩
    | cons s r ih =>
      intro i s0 hno h
      simp only [List.cons_append, runSteps] at h ⊢
      have : ¬ ((none : Option Nat) = some i) := by simp
      simp only [this, if_false] at h ⊢
      cases he : execStep C key s0 s with
      | error e' => rw [he] at h; simp at h
      | ok s1 => rw [he] at h; simp only at h ⊢; exact ih (i + 1) s1 (fun x hx => hno x (by simp [hx])) h
  obtain ⟨h1, s1, h2, h3⟩ := key_lemma (computePart file) 0 (initSt file) (computePart_no_output file) h
  refine ⟨h1, ?_⟩
  rw [h2]
  -- in the compute part the only open is the read in `load`
  have opens_lemma : ∀ (pre : List SignStep) (i : Nat) (s0 s1 : SignSt), runSteps C key none i pre s0 = (.done, s1) →
      s1.opens = s0.opens ++ (pre.filter (fun s => match s with | .openRead => true | .openTrunc => true | _ => false)).map
        (fun s => match s with | .openTrunc => OpenEv.write | _ => OpenEv.read) := by
    intro pre
    induction pre with
    | nil => intro i s0 s1 h; simp [runSteps] at h; subst h; simp
    | cons s r ih =>
      intro i s0 s1 h
      simp only [runSteps] at h
      have : ¬ ((none : Option Nat) = some i) := by simp
      simp only [this, if_false] at h
      cases he : execStep C key s0 s with
      | error e' => rw [he] at h; simp at h
      | ok s2 =>
        rw [he] at h; simp only at h
        have := ih (i + 1) s2 s1 h
        rw [this]
        cases s <;> simp only [execStep, bind, Except.bind] at he <;>
          first
          | (cases he; simp)
          | (split at he <;> first | (cases he; simp) | cases he | (split at he <;> first | (cases he; simp) | cases he))
  have := opens_lemma (computePart file) 0 (initSt file) s1 h3
  rw [this]
  simp only [initSt, List.nil_append]
  -- exactly one `load` and no `openTrunc` in the compute part
  rw [computePart_eq]
  simp only [List.filter_append, List.map_append]
  have : ((planArts file).map (fun a => SignStep.signOne a.1 a.2)).filter (fun s => match s with | .openRead => true | .openTrunc => true | _ => false) = [] := by
    induction planArts file with
    | nil => rfl
    | cons a r ih => simp [List.filter, ih]
  rw [this]
  rfl

/-! ## link between the step machine and the value-level function of C11 -/

open CCT.C15 CCT.C11

theorem runSteps_signOnes (C : CryptoFns) (key : J) : ∀ (arts : List (PStr × J)) (rest : List SignStep) (i : Nat) (st : SignSt),
    runSteps C key none i (arts.map (fun a => SignStep.signOne a.1 a.2) ++ rest) st =
      runSteps C key none (i + arts.length) rest
        { st with sigs := arts.foldl (fun s a => dictSet s a.1 (artifactEntry C (unhex (strOf key)) a.2)) st.sigs }
  | [], rest, i, st => by simp
  | (n, md) :: r, rest, i, st => by
    simp only [List.map_cons, List.cons_append, runSteps, List.foldl_cons, List.length_cons]
    have : ¬ ((none : Option Nat) = some i) := by simp
    simp only [this, if_false, execStep]
    rw [runSteps_signOnes C key r rest (i + 1) _]
    simp only [artifactEntry, C09.pubHex, C09.sigEntry]
    congr 1
    omega

theorem done_cons (C : CryptoFns) (key : J) (i : Nat) (s : SignStep) (r : List SignStep) (st fin : SignSt)
    (h : runSteps C key none i (s :: r) st = (.done, fin)) :
    ∃ st', execStep C key st s = .ok st' ∧ runSteps C key none (i + 1) r st' = (.done, fin) := by
  simp only [runSteps] at h
  have : ¬ ((none : Option Nat) = some i) := by simp
  simp only [this, if_false] at h
  cases he : execStep C key st s with
  | error e => rw [he] at h; simp at h
  | ok st' => rw [he] at h; exact ⟨st', rfl, h⟩

/-- **what a successful run writes is exactly the canonical serialization of the value-level result** (`signRepodataJ`, characterised in C11):
the step machine (C18) and the value-level function (C11) describe the same computation -/
theorem success_writes_signed_document (C : CryptoFns) (key : J) (file : Option Bytes) (st : SignSt)
    (h : runSignRepo C key file none = (.done, st)) :
    ∃ doc doc', loadFile file = .ok doc ∧ signRepodataJ C doc key = .ok doc' ∧ st.file = some (ser doc') ∧ st.opens = [.read, .write] := by
  unfold runSignRepo at h
  -- in every branch the run starts with validate, openRead, parse
  have start : ∀ (rest : List SignStep) (fin : SignSt),
      runSteps C key none 0 ([.validate, .openRead, .parse] ++ rest) (initSt file) = (.done, fin) →
      ∃ doc, loadFile file = .ok doc ∧ checkHexKeyJ key = .ok () ∧
        runSteps C key none 3 rest { (initSt file) with opens := [.read], doc := doc } = (.done, fin) := by
    intro rest fin h0
    obtain ⟨s1, e1, h1⟩ := done_cons C key 0 _ _ _ _ h0
    obtain ⟨s2, e2, h2⟩ := done_cons C key 1 _ _ _ _ h1
    obtain ⟨s3, e3, h3⟩ := done_cons C key 2 _ _ _ _ h2
    simp only [execStep, bind, Except.bind] at e1
    cases hk : checkHexKeyJ key with
    | error e => rw [hk] at e1; cases e1
    | ok _ =>
      rw [hk] at e1; simp only [pure, Except.pure] at e1; cases e1
      simp only [execStep, initSt] at e2
      cases hf : file with
      | none => rw [hf] at e2; cases e2
      | some b =>
        rw [hf] at e2; simp only at e2; cases e2
        simp only [execStep] at e3
        cases hl : loadFile (some b) with
        | error e => rw [hl] at e3; cases e3
        | ok doc =>
          rw [hl] at e3; simp only at e3; cases e3
          exact ⟨doc, rfl, rfl, by simpa [initSt, hf] using h3⟩
  cases hl : loadFile file with
  | error e =>
    rw [hl] at h
    simp only at h
    have hplan : signPlan file = [.validate, .openRead, .parse] ++ [.checkPackages, .reset, .finish, .serialize, .openTrunc, .write] := by
      simp [signPlan, planArts, hl]
    rw [hplan] at h
    obtain ⟨doc, hd, _⟩ := start _ _ h
    rw [hl] at hd; cases hd
  | ok doc =>
    rw [hl] at h
    simp only at h
    cases ha : artifactsOf doc with
    | error e =>
      rw [ha] at h
      simp only at h
      generalize runSteps C key none 0 [.validate, .openRead, .parse, .checkPackages, .reset] (initSt file) = r at h
      obtain ⟨r1, r2⟩ := r
      cases r1 <;> simp at h
    | ok arts =>
      rw [ha] at h
      simp only at h
      have hplan : signPlan file = [.validate, .openRead, .parse] ++ (.checkPackages :: .reset :: (arts.map (fun a => SignStep.signOne a.1 a.2) ++
          [.finish, .serialize, .openTrunc, .write])) := by simp [signPlan, planArts, hl, ha]
      rw [hplan] at h
      obtain ⟨doc0, hd, hk, h3⟩ := start _ _ h
      rw [hl] at hd; cases hd
      obtain ⟨s4, e4, h4⟩ := done_cons C key 3 _ _ _ _ h3
      obtain ⟨s5, e5, h5⟩ := done_cons C key 4 _ _ _ _ h4
      simp only [execStep, bind, Except.bind] at e4
      cases hpk : pyInStr (ps! "packages") doc with
      | error e => rw [hpk] at e4; cases e4
      | ok bpk =>
        rw [hpk] at e4
        cases bpk with
        | false => simp at e4
        | true =>
          simp only [Bool.not_true, Bool.false_eq_true, if_false, pure, Except.pure] at e4
          cases e4
          simp only [execStep] at e5
          cases doc with
          | obj top =>
            simp only at e5
            cases e5
            rw [runSteps_signOnes C key arts _ _ _] at h5
            obtain ⟨s6, e6, h6⟩ := done_cons C key _ _ _ _ _ h5
            obtain ⟨s7, e7, h7⟩ := done_cons C key _ _ _ _ _ h6
            obtain ⟨s8, e8, h8⟩ := done_cons C key _ _ _ _ _ h7
            obtain ⟨s9, e9, h9⟩ := done_cons C key _ _ _ _ _ h8
            simp only [execStep] at e6
            cases e6
            simp only [execStep] at e7
            cases e7
            simp only [execStep] at e8
            cases e8
            simp only [execStep] at e9
            cases e9
            simp only [runSteps] at h9
            cases h9
            obtain ⟨ks, rfl, hks⟩ : ∃ ks, key = .str ks ∧ HexN 64 (.str ks) := by
              obtain ⟨s, rfl, h64, hall⟩ := (checkHexKey_iff key).mp hk
              exact ⟨s, rfl, s, rfl, h64, hall⟩
            simp only [artifactsOf] at ha
            cases hp : dictGet (ps! "packages") top with
            | none => simp [pyInStr_obj, dictHas, hp] at hpk
            | some pk =>
              rw [hp] at ha
              cases pk with
              | obj a =>
                simp only at ha
                cases hc : dictGet (ps! "packages.conda") top with
                | none =>
                  rw [hc] at ha; cases ha
                  refine ⟨_, _, rfl, signRepo_ok C top ks hks arts [] hp (Or.inr ⟨hc, rfl⟩), ?_, rfl⟩
                  simp only [sigSection, List.append_nil, strOf_str, dictSet_overwrite]
                | some c =>
                  rw [hc] at ha
                  cases c with
                  | obj b2 =>
                    cases ha
                    refine ⟨_, _, rfl, signRepo_ok C top ks hks a b2 hp (Or.inl hc), ?_, rfl⟩
                    simp only [sigSection, strOf_str, dictSet_overwrite]
                  | _ => cases ha
              | _ => cases ha
          | _ => cases e5

/-! ## the GPG signing path (`sign_root_metadata_via_gpg`), step machine `Model/GpgSteps.lean` -/


/-- a compute step never changes the file and never opens it for writing -/
theorem gpg_compute_step_preserves (G : GpgBackend) (sslib : Bool) (fpr : J) (st st' : GpgSt) (s : GpgStep) (hs : s.isOutput = false)
    (h : execGpgStep G sslib fpr st s = .ok st') : st'.file = st.file ∧ (st'.opens.filter (· = .write)) = st.opens.filter (· = .write) := by
  cases s <;> simp only [GpgStep.isOutput] at hs <;> simp only [execGpgStep] at h
  all_goals (try (cases hs))
  · split at h
    · cases h; simp
    · cases h
  · split at h
    · cases h; exact ⟨rfl, rfl⟩
    · cases h
  · simp only [bind, Except.bind] at h
    split at h
    · cases h
    · simp only [pure, Except.pure] at h; cases h; exact ⟨rfl, rfl⟩
  · split at h
    · cases h; exact ⟨rfl, rfl⟩
    · cases h
  · split at h
    · simp only [bind, Except.bind] at h
      split at h
      · cases h
      · simp only [pure, Except.pure] at h; cases h; exact ⟨rfl, rfl⟩
    · cases h
  · simp only [bind, Except.bind] at h
    split at h
    · cases h
    · simp only [pure, Except.pure] at h; cases h; exact ⟨rfl, rfl⟩
  · simp only [bind, Except.bind] at h
    split at h
    · cases h
    · simp only [pure, Except.pure] at h; cases h; exact ⟨rfl, rfl⟩
  · split at h
    · simp only [bind, Except.bind] at h
      split at h
      · cases h
      · split at h
        · simp only [pure, Except.pure] at h; cases h; exact ⟨rfl, rfl⟩
        all_goals cases h
    · cases h
  · cases h; exact ⟨rfl, rfl⟩



theorem gpg_step_mem (G : GpgBackend) (sslib : Bool) (fpr : J) (st st' : GpgSt) (s : GpgStep) (hs : s.isOutput = false)
    (h : execGpgStep G sslib fpr st s = .ok st') : st'.file = st.file ∧ (OpenEv.write ∈ st'.opens ↔ OpenEv.write ∈ st.opens) := by
  obtain ⟨h1, h2⟩ := gpg_compute_step_preserves G sslib fpr st st' s hs h
  refine ⟨h1, ?_⟩
  have e : ∀ l : List OpenEv, OpenEv.write ∈ l ↔ OpenEv.write ∈ l.filter (· = .write) := fun l => by simp
  rw [e st'.opens, e st.opens, h2]

theorem gpg_no_write_before_output (G : GpgBackend) (sslib : Bool) (fpr : J) (fault : Option Nat) :
    ∀ (steps : List GpgStep) (i : Nat) (st : GpgSt), (∀ s ∈ steps, s.isOutput = false) →
      (runGpgSteps G sslib fpr fault i steps st).2.file = st.file ∧
      (OpenEv.write ∈ (runGpgSteps G sslib fpr fault i steps st).2.opens ↔ OpenEv.write ∈ st.opens)
  | [], _, _, _ => ⟨rfl, Iff.rfl⟩
  | s :: r, i, st, h => by
    simp only [runGpgSteps]
    split
    · exact ⟨rfl, Iff.rfl⟩
    · cases he : execGpgStep G sslib fpr st s with
      | error e => exact ⟨rfl, Iff.rfl⟩
      | ok st' =>
        have hp := gpg_step_mem G sslib fpr st st' s (h s (by simp)) he
        have ih := gpg_no_write_before_output G sslib fpr fault r (i + 1) st' (fun x hx => h x (by simp [hx]))
        simp only
        exact ⟨ih.1.trans hp.1, ih.2.trans hp.2⟩

theorem gpg_append_fault (G : GpgBackend) (sslib : Bool) (fpr : J) (k : Nat) :
    ∀ (pre post : List GpgStep) (i : Nat) (st : GpgSt), k < i + pre.length →
      runGpgSteps G sslib fpr (some k) i (pre ++ post) st = runGpgSteps G sslib fpr (some k) i pre st ∨
      (runGpgSteps G sslib fpr (some k) i pre st).1 = .done
  | [], _, i, _, h => by simp at h; right; rfl
  | s :: r, post, i, st, h => by
    simp only [List.cons_append, runGpgSteps]
    split
    · left; rfl
    · cases he : execGpgStep G sslib fpr st s with
      | error e => left; rfl
      | ok st' =>
        simp only
        exact gpg_append_fault G sslib fpr k r post (i + 1) st' (by simp at h; omega)

theorem gpg_fault_stops_in_prefix (G : GpgBackend) (sslib : Bool) (fpr : J) (k : Nat) :
    ∀ (pre : List GpgStep) (i : Nat) (st : GpgSt), i ≤ k → k < i + pre.length → (runGpgSteps G sslib fpr (some k) i pre st).1 ≠ .done
  | [], i, _, h1, h2 => by simp at h2; omega
  | s :: r, i, st, h1, h2 => by
    simp only [runGpgSteps]
    by_cases e : k = i
    · subst e; simp
    · have : ¬ (some k = some i) := fun h => e (Option.some.inj h)
      simp only [this, if_false]
      cases he : execGpgStep G sslib fpr st s with
      | error e => simp
      | ok st' => exact gpg_fault_stops_in_prefix G sslib fpr k r (i + 1) st' (by omega) (by simp at h2; omega)

def gpgCompute : List GpgStep := [.openRead, .parse, .checkDep, .checkSignable, .serializeSigned, .callSigner, .fetchKey, .attach, .serialize]

theorem gpgPlan_split : gpgPlan = gpgCompute ++ [.openTrunc, .write] := rfl

theorem gpgCompute_no_output : ∀ s ∈ gpgCompute, s.isOutput = false := by decide

/-- **GPG path: a failure at any step before the output phase leaves the file byte-identical and never opens it for writing** — whatever the
signer, the fingerprint, the file content and the fault point -/
theorem gpg_fault_anywhere_before_output (G : GpgBackend) (sslib : Bool) (fpr : J) (file : Option Bytes) (k : Nat) (hk : k < gpgCompute.length) :
    (runGpgSign G sslib fpr file (some k)).2.file = file ∧ OpenEv.write ∉ (runGpgSign G sslib fpr file (some k)).2.opens := by
  unfold runGpgSign
  rw [gpgPlan_split]
  rcases gpg_append_fault G sslib fpr k gpgCompute [.openTrunc, .write] 0 (initGpgSt file) (by omega) with h | h
  · rw [h]
    have := gpg_no_write_before_output G sslib fpr (some k) gpgCompute 0 (initGpgSt file) gpgCompute_no_output
    exact ⟨this.1, fun hw => by have := this.2.mp hw; simp [initGpgSt] at this⟩
  · exact absurd h (gpg_fault_stops_in_prefix G sslib fpr k gpgCompute 0 (initGpgSt file) (by omega) (by omega))

/-- **GPG path: any failure of the library, the signer or the optional dependency leaves the file untouched** -/
theorem gpg_failure_leaves_file (G : GpgBackend) (sslib : Bool) (fpr : J) (file : Option Bytes) (e : PyErr) (st : GpgSt)
    (h : runGpgSign G sslib fpr file none = (.failed e, st)) : st.file = file := by
  unfold runGpgSign at h
  rw [gpgPlan_split] at h
  have key_lemma : ∀ (pre : List GpgStep) (i : Nat) (s0 : GpgSt), (∀ s ∈ pre, s.isOutput = false) →
      runGpgSteps G sslib fpr none i (pre ++ [.openTrunc, .write]) s0 = (.failed e, st) → st.file = s0.file := by
    intro pre
    induction pre with
    | nil =>
      intro i s0 _ h
      simp [runGpgSteps, execGpgStep] at h
    | cons s r ih =>
      intro i s0 hno h
      simp only [List.cons_append, runGpgSteps] at h
      have : ¬ ((none : Option Nat) = some i) := by simp
      simp only [this, if_false] at h
      cases he : execGpgStep G sslib fpr s0 s with
      | error e' => rw [he] at h; simp only at h; cases h; rfl
      | ok s1 =>
        rw [he] at h; simp only at h
        have hp := gpg_step_mem G sslib fpr s0 s1 s (hno s (by simp)) he
        exact (ih (i + 1) s1 (fun x hx => hno x (by simp [hx])) h).trans hp.1
  exact key_lemma gpgCompute 0 (initGpgSt file) gpgCompute_no_output h

theorem gpg_done_cons (G : GpgBackend) (sslib : Bool) (fpr : J) (i : Nat) (s : GpgStep) (r : List GpgStep) (st fin : GpgSt)
    (h : runGpgSteps G sslib fpr none i (s :: r) st = (.done, fin)) :
    ∃ st', execGpgStep G sslib fpr st s = .ok st' ∧ runGpgSteps G sslib fpr none (i + 1) r st' = (.done, fin) := by
  simp only [runGpgSteps] at h
  have : ¬ ((none : Option Nat) = some i) := by simp
  simp only [this, if_false] at h
  cases he : execGpgStep G sslib fpr st s with
  | error e => rw [he] at h; simp at h
  | ok st' => rw [he] at h; exact ⟨st', rfl, h⟩



/-- **GPG path: what a successful run writes is exactly what the value-level function computes** (`signRootMdFileViaGpg`, characterised in C10),
written once after everything has been computed and serialized: one open for reading, then one for writing -/
theorem gpg_success_writes_result (G : GpgBackend) (fpr : J) (file : Option Bytes) (st : GpgSt)
    (h : runGpgSign G true fpr file none = (.done, st)) :
    ∃ b, signRootMdFileViaGpg G true file fpr = .ok b ∧ st.file = some b ∧ st.opens = [.read, .write] := by
  unfold runGpgSign gpgPlan at h
  obtain ⟨s1, e1, h1⟩ := gpg_done_cons G true fpr _ _ _ _ _ h
  obtain ⟨s2, e2, h2⟩ := gpg_done_cons G true fpr _ _ _ _ _ h1
  obtain ⟨s3, e3, h3⟩ := gpg_done_cons G true fpr _ _ _ _ _ h2
  obtain ⟨s4, e4, h4⟩ := gpg_done_cons G true fpr _ _ _ _ _ h3
  obtain ⟨s5, e5, h5⟩ := gpg_done_cons G true fpr _ _ _ _ _ h4
  obtain ⟨s6, e6, h6⟩ := gpg_done_cons G true fpr _ _ _ _ _ h5
  obtain ⟨s7, e7, h7⟩ := gpg_done_cons G true fpr _ _ _ _ _ h6
  obtain ⟨s8, e8, h8⟩ := gpg_done_cons G true fpr _ _ _ _ _ h7
  obtain ⟨s9, e9, h9⟩ := gpg_done_cons G true fpr _ _ _ _ _ h8
  obtain ⟨s10, e10, h10⟩ := gpg_done_cons G true fpr _ _ _ _ _ h9
  obtain ⟨s11, e11, h11⟩ := gpg_done_cons G true fpr _ _ _ _ _ h10
  simp only [runGpgSteps] at h11
  cases h11
  -- openRead
  simp only [execGpgStep, initGpgSt] at e1
  cases hf : file with
  | none => rw [hf] at e1; cases e1
  | some fb =>
    rw [hf] at e1; simp only at e1; cases e1
    -- parse
    simp only [execGpgStep] at e2
    cases hl : loadFile (some fb) with
    | error e => rw [hl] at e2; cases e2
    | ok env =>
      rw [hl] at e2; simp only at e2; cases e2
      -- checkDep
      simp only [execGpgStep, checkSslib, if_true, okU, bind, Except.bind, pure, Except.pure] at e3
      cases e3
      -- checkSignable
      simp only [execGpgStep] at e4
      by_cases hs : isSignableJ env = true
      · rw [if_pos hs] at e4; cases e4
        -- serializeSigned
        simp only [execGpgStep] at e5
        cases env with
        | obj top =>
          simp only [bind, Except.bind] at e5
          cases hsg : dictIndex (ps! "signed") top with
          | error e => rw [hsg] at e5; cases e5
          | ok signed =>
            rw [hsg] at e5; simp only [pure, Except.pure] at e5; cases e5
            -- callSigner
            simp only [execGpgStep, bind, Except.bind] at e6
            cases hv : signViaGpg G true (.bytes (ser signed)) fpr false with
            | error e => rw [hv] at e6; cases e6
            | ok sg =>
              rw [hv] at e6; simp only [pure, Except.pure] at e6; cases e6
              -- fetchKey
              simp only [execGpgStep, bind, Except.bind] at e7
              cases hq : fetchKeyvalFromGpg G true fpr with
              | error e => rw [hq] at e7; cases e7
              | ok q =>
                rw [hq] at e7; simp only [pure, Except.pure] at e7; cases e7
                -- attach
                simp only [execGpgStep, bind, Except.bind] at e8
                cases hss : dictIndex (ps! "signatures") top with
                | error e => rw [hss] at e8; cases e8
                | ok sigs =>
                  rw [hss] at e8
                  cases sigs with
                  | obj entries =>
                    simp only [pure, Except.pure] at e8; cases e8
                    simp only [execGpgStep] at e9 e10 e11
                    cases e9; cases e10; cases e11
                    refine ⟨_, ?_, rfl, rfl⟩
                    simp only [signRootMdFileViaGpg, hl, bind, Except.bind, signRootMdDictViaGpg, checkSslib, if_true, okU, hs, Bool.not_true,
                      Bool.false_eq_true, if_false, hsg, hv, hq, hss, pure, Except.pure]
                  | _ => simp at e8
        | _ => simp at e5
      · rw [if_neg hs] at e4; cases e4


end CCT.C18
