import CCT.Props.C13
import CCT.Model.RootSigning
import CCT.Props.C09
/-!
# C10 — OpenPGP-wrapped signatures follow RFC 4880 v4

Model: `verifyGpgSignatureJ` (`authentication.py:467-541`).  What GnuPG itself emits is outside any theorem; the theorem states what
the verifier accepts, the interoperability run (evidence) shows GnuPG's output is in that set.
-/
namespace CCT.C10
open CCT CCT.C15
open Classical

/-- the digest: SHA-256 of `payload ‖ hashed headers ‖ 04 ff ‖ big-endian 32-bit length of the headers` -/
theorem gpgDigest_def (C : CryptoFns) (data hdr : Bytes) :
    gpgDigest C data hdr = C.sha256 (data ++ hdr ++ [4, 255] ++ [hdr.length / 16777216 % 256, hdr.length / 65536 % 256, hdr.length / 256 % 256, hdr.length % 256]) := rfl

/-- **valid exactly when** the 64-byte signature verifies, under the raw key, over that digest -/
theorem verifyGpg_iff (C : CryptoFns) (sig key : J) (data : Bytes) (hs : GpgShape sig) (hk : HexN 64 key) :
    verifyGpgSignatureJ C sig key data = .ok () ↔
      C.verify (unhex (strOf key)) (gpgDigest C data (unhex (strOf (entryField (ps! "other_headers") sig))))
        (unhex (strOf (entryField (ps! "signature") sig))) = true := by
  have h1 := (checkGpgSignature_iff sig).mpr hs
  have h2 := (checkHexKey_iff key).mpr hk
  obtain ⟨kvs, rfl, _, ⟨oh, hoh, _⟩, ⟨sg, hsg, _⟩, _⟩ := hs
  simp only [verifyGpgSignatureJ, h1, h2, bind, Except.bind, dictIndex_some hoh, dictIndex_some hsg, entryField, hoh, hsg, Option.getD_some]
  by_cases hv : C.verify (unhex (strOf key)) (gpgDigest C data (unhex (strOf oh))) (unhex (strOf sg)) = true
  · rw [if_pos hv]; exact ⟨fun _ => hv, fun _ => rfl⟩
  · rw [if_neg hv]; exact ⟨(fun h => by cases h), (fun h => absurd h hv)⟩

/-- entries of any other shape and keys of any other spelling are argument errors, an invalid signature is the crypto library's error -/
theorem verifyGpg_outcomes (C : CryptoFns) (sig key : J) (data : Bytes) :
    verifyGpgSignatureJ C sig key data = .ok () ∨ verifyGpgSignatureJ C sig key data = .error .arg ∨
    verifyGpgSignatureJ C sig key data = .error .invalidSignature := C13.verifyGpgSignatureJ_families C sig key data

theorem be32_injective (n m : Nat) (hn : n < 4294967296) (hm : m < 4294967296) (h : be32 n = be32 m) : n = m := by
  simp only [be32, List.cons.injEq, and_true] at h
  omega

theorem be32_length (n : Nat) : (be32 n).length = 4 := rfl

/-- **the hashed data is uniquely decodable**: the trailer (04 ff and the header length) makes payload and headers recoverable from
the digest input, so two different (payload, headers) pairs never hash the same bytes -/
theorem digestInput_injective (d h d' h' : Bytes) (hl : h.length < 4294967296) (hl' : h'.length < 4294967296)
    (e : gpgDigestInput d h = gpgDigestInput d' h') : d = d' ∧ h = h' := by
  simp only [gpgDigestInput, List.append_assoc] at e
  -- split off the 4-byte length field, then the 2-byte marker, then use equal header lengths
  have e1 : d ++ (h ++ [4, 255]) = d' ++ (h' ++ [4, 255]) ∧ be32 h.length = be32 h'.length := by
    have := List.append_inj' (s₁ := d ++ (h ++ [4, 255])) (s₂ := d' ++ (h' ++ [4, 255])) (t₁ := be32 h.length) (t₂ := be32 h'.length)
      (by simpa [List.append_assoc] using e) (by simp [be32_length])
    exact this
  have hlen : h.length = h'.length := be32_injective _ _ hl hl' e1.2
  have e2 : d ++ h = d' ++ h' := by
    have := List.append_inj' (s₁ := d ++ h) (s₂ := d' ++ h') (t₁ := [4, 255]) (t₂ := [4, 255]) (by simpa [List.append_assoc] using e1.1) rfl
    exact this.1
  have := List.append_inj' e2 hlen
  exact ⟨this.1, this.2⟩

/-- **any change to payload or headers is rejected — or a SHA-256 collision / a signature valid for two digests is exhibited**:
if an entry counts for payload `d` and also for a different payload `d'`, then either the two digest inputs (which differ, by
`digestInput_injective`) collide under SHA-256, or one signature verifies for two different digests -/
theorem change_rejected_or_collision (C : CryptoFns) (pub hdr sig d d' : Bytes) (hl : hdr.length < 4294967296) (hne : d ≠ d')
    (h1 : C.verify pub (gpgDigest C d hdr) sig = true) (h2 : C.verify pub (gpgDigest C d' hdr) sig = true) :
    (gpgDigestInput d hdr ≠ gpgDigestInput d' hdr ∧ C.sha256 (gpgDigestInput d hdr) = C.sha256 (gpgDigestInput d' hdr)) ∨
    (gpgDigest C d hdr ≠ gpgDigest C d' hdr ∧ C.verify pub (gpgDigest C d hdr) sig = true ∧ C.verify pub (gpgDigest C d' hdr) sig = true) := by
  have hin : gpgDigestInput d hdr ≠ gpgDigestInput d' hdr := fun e => hne (digestInput_injective d hdr d' hdr hl hl e).1
  by_cases hc : gpgDigest C d hdr = gpgDigest C d' hdr
  · left; exact ⟨hin, hc⟩
  · right; exact ⟨hc, h1, h2⟩

/-- the counting rule of `verify_signable(gpg=True)` is this verifier: an entry counts iff it is filed under an authorized canonical
key and `verify_gpg_signature` accepts it -/
theorem counts_gpg_iff (C : CryptoFns) (auth : List PStr) (data : Bytes) (k : PStr) (sig : J) :
    Counts C true auth data k sig ↔ HexN 64 (.str k) ∧ k ∈ auth ∧ GpgShape sig ∧ verifyGpgSignatureJ C sig (.str k) data = .ok () := by
  constructor
  · rintro ⟨h1, h2, h3⟩
    simp only [if_true] at h3
    exact ⟨h1, h2, h3.1, (verifyGpg_iff C sig _ data h3.1 h1).mpr h3.2⟩
  · rintro ⟨h1, h2, h3, h4⟩
    refine ⟨h1, h2, ?_⟩
    simp only [if_true]
    exact ⟨h3, (verifyGpg_iff C sig _ data h3 h1).mp h4⟩

/-! ## the library's own GPG signing path (`root_signing.py`), model `CCT/Model/RootSigning.lean` -/

/-- a GnuPG-style signer that conforms to RFC 4880 for the ed25519 key with seed `seed`: over `data` it returns some non-empty hashed-header
bytes `hdr` together with the key's signature over `SHA-256(data ‖ hdr ‖ 04 ff ‖ be32 len hdr)`, and it exports the key's raw public value -/
def ConformingSigner (C : CryptoFns) (G : GpgBackend) (fpr : PStr) (seed : Bytes) : Prop :=
  (∀ data, ∃ hdr : Bytes, hdr ≠ [] ∧ (∀ b ∈ hdr, b < 256) ∧
      G.createSignature data fpr = .ok (hexOfBytes hdr, hexOfBytes (C.sign seed (gpgDigest C data hdr)))) ∧
  G.exportQ fpr = .ok (hexOfBytes (C.pubOf seed))

theorem gpgEntry_lookups (a b : J) :
    dictGet (ps! "other_headers") [(ps! "other_headers", a), (ps! "signature", b)] = some a ∧
    dictGet (ps! "signature") [(ps! "other_headers", a), (ps! "signature", b)] = some b ∧
    dictGet (ps! "see_also") [(ps! "other_headers", a), (ps! "signature", b)] = none ∧
    keysAre [(ps! "other_headers", a), (ps! "signature", b)] [ps! "other_headers", ps! "signature"] = true := by
  refine ⟨by simp [dictGet], ?_, ?_, ?_⟩
  · have : ¬ (ps! "other_headers" : PStr) = ps! "signature" := by decide
    simp [dictGet, this]
  · have h1 : ¬ (ps! "other_headers" : PStr) = ps! "see_also" := by decide
    have h2 : ¬ (ps! "signature" : PStr) = ps! "see_also" := by decide
    simp [dictGet, h1, h2]
  · simp [keysAre, keysetEq, dictKeys]

theorem gpgEntry_shape (oh sg : PStr) (h1 : LowerHex oh) (h2 : sg.length = 128) (h3 : ∀ c ∈ sg, isLowerHexDigit c = true) :
    GpgShape (.obj [(ps! "other_headers", .str oh), (ps! "signature", .str sg)]) := by
  obtain ⟨l1, l2, l3, l4⟩ := gpgEntry_lookups (.str oh) (.str sg)
  exact ⟨_, rfl, Or.inl l4, ⟨_, l1, _, rfl, h1⟩, ⟨_, l2, _, rfl, h2, h3⟩, fun f hf => by rw [l3] at hf; cases hf⟩

/-- **detached signatures of a conforming GnuPG signer, transcribed by the library's GPG signing path into an entry filed under the key's raw
public value, are accepted**: after `sign_root_metadata_dict_via_gpg` the envelope verifies in OpenPGP mode with that key authorized -/
theorem gpg_path_interoperates (C : Crypto) (G : GpgBackend) (fpr : PStr) (seed : Bytes) (hs : seed.length = 32)
    (hf : HexN 40 (.str fpr)) (hnorm : normalizeFingerprint fpr = fpr) (hG : ConformingSigner C.toCryptoFns G fpr seed)
    (env : J) (entries : List (PStr × J)) (signed : J) (hp : EnvParts env entries signed) :
    ∃ env', signRootMdDictViaGpg G true env (.str fpr) = .ok env' ∧
      verifySignableJ C.toCryptoFns env' (.arr [.str (C09.pubHex C.toCryptoFns seed)]) (.int 1) true = .ok () := by
  obtain ⟨hcs, hq⟩ := hG
  obtain ⟨hdr, hne, hb, hsig⟩ := hcs (ser signed)
  obtain ⟨hsg, top, rfl, h1, h2⟩ := hp
  have hfp := (checkGpgFingerprint_iff _).mpr hf
  let entry : J := .obj [(ps! "other_headers", .str (hexOfBytes hdr)), (ps! "signature", .str (hexOfBytes (C.sign seed (gpgDigest C.toCryptoFns (ser signed) hdr))))]
  have hcomp : signRootMdDictViaGpg G true (.obj top) (.str fpr) =
      .ok (.obj (dictSet top (ps! "signatures") (.obj (dictSet entries (C09.pubHex C.toCryptoFns seed) entry)))) := by
    simp only [signRootMdDictViaGpg, checkSslib, if_true, okU, bind, Except.bind, hsg, Bool.not_true, Bool.false_eq_true, if_false,
      dictIndex_some h2, dictIndex_some h1, signViaGpg, hfp, checkBytesLike, strOf_str, hsig, fetchKeyvalFromGpg, hnorm, hq, pure, Except.pure,
      C09.pubHex, entry]
  refine ⟨_, hcomp, ?_⟩
  have hp' : EnvParts (.obj (dictSet top (ps! "signatures") (.obj (dictSet entries (C09.pubHex C.toCryptoFns seed) entry))))
      (dictSet entries (C09.pubHex C.toCryptoFns seed) entry) signed := by
    refine ⟨?_, _, rfl, dictGet_dictSet_same _ _ _, ?_⟩
    · simp only [isSignableJ, Bool.and_eq_true] at hsg ⊢
      exact ⟨keysetEq_dictSet_existing _ _ _ _ hsg.1 (by simp), by rw [dictGet_dictSet_same]⟩
    · rw [dictGet_dictSet_other _ _ _ (by decide)]; exact h2
  refine C02.verifySignable_complete C.toCryptoFns _ _ _ true _ signed [.str (C09.pubHex C.toCryptoFns seed)] 1 hp' rfl ?_ rfl (by decide) ?_
  · intro k hk; simp at hk; subst hk; exact C09.pubHex_key C seed hs
  · refine ⟨[C09.pubHex C.toCryptoFns seed], by simp, by simp, ?_⟩
    intro k hk; simp at hk; subst hk
    refine ⟨entry, mem_dictSet_self _ _ _, C09.pubHex_key C seed hs, by simp, ?_⟩
    simp only [if_true]
    have hshape : GpgShape entry :=
      gpgEntry_shape _ _ (lowerHex_hexOfBytes hdr hne) (by rw [hexOfBytes_length, C.sign_len seed _ hs]) (hexOfBytes_lower _)
    refine ⟨hshape, ?_⟩
    obtain ⟨l1, l2, _, _⟩ := gpgEntry_lookups (.str (hexOfBytes hdr)) (.str (hexOfBytes (C.sign seed (gpgDigest C.toCryptoFns (ser signed) hdr))))
    simp only [entry, entryField, l1, l2, Option.getD_some, strOf_str, C09.pubHex]
    rw [unhex_hexOfBytes _ (C.pub_byte seed hs), unhex_hexOfBytes _ hb, unhex_hexOfBytes _ (C.sign_byte seed _ hs)]
    exact C.correct seed _ hs

/-- without the optional dependency the GPG path fails with ImportError before anything else happens -/
theorem gpg_path_needs_dependency (G : GpgBackend) (env fpr : J) : signRootMdDictViaGpg G false env fpr = .error .importErr := by
  simp [signRootMdDictViaGpg, checkSslib, bind, Except.bind]

end CCT.C10
