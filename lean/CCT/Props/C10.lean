import CCT.Props.C13
/-!
# C10 — OpenPGP-wrapped signatures follow RFC 4880 v4

Model: `verifyGpgSignatureJ` (`authentication.py:467-541`).  What GnuPG itself emits is outside any theorem; the theorem states what
the verifier accepts, the interoperability run (evidence) shows GnuPG's output is in that set.
-/
namespace CCT.C10
open CCT CCT.C15
open Classical

/-- the digest: SHA-256 of `payload ‖ hashed headers ‖ 04 ff ‖ big-endian 32-bit length of the headers` -/
theorem gpgDigest_def (C : CryptoFns) (data hdr : Bytes) :
    gpgDigest C data hdr = C.sha256 (data ++ hdr ++ [4, 255] ++ [hdr.length / 16777216 % 256, hdr.length / 65536 % 256, hdr.length / 256 % 256, hdr.length % 256]) := rfl

/-- **valid exactly when** the 64-byte signature verifies, under the raw key, over that digest -/
theorem verifyGpg_iff (C : CryptoFns) (sig key : J) (data : Bytes) (hs : GpgShape sig) (hk : HexN 64 key) :
    verifyGpgSignatureJ C sig key data = .ok () ↔
      C.verify (unhex (strOf key)) (gpgDigest C data (unhex (strOf (entryField (ps! "other_headers") sig))))
        (unhex (strOf (entryField (ps! "signature") sig))) = true := by
  have h1 := (checkGpgSignature_iff sig).mpr hs
  have h2 := (checkHexKey_iff key).mpr hk
  obtain ⟨kvs, rfl, _, ⟨oh, hoh, _⟩, ⟨sg, hsg, _⟩, _⟩ := hs
  simp only [verifyGpgSignatureJ, h1, h2, bind, Except.bind, dictIndex_some hoh, dictIndex_some hsg, entryField, hoh, hsg, Option.getD_some]
  by_cases hv : C.verify (unhex (strOf key)) (gpgDigest C data (unhex (strOf oh))) (unhex (strOf sg)) = true
  · rw [if_pos hv]; exact ⟨fun _ => hv, fun _ => rfl⟩
  · rw [if_neg hv]; exact ⟨(fun h => by cases h), (fun h => absurd h hv)⟩

/-- entries of any other shape and keys of any other spelling are argument errors, an invalid signature is the crypto library's error -/
theorem verifyGpg_outcomes (C : CryptoFns) (sig key : J) (data : Bytes) :
    verifyGpgSignatureJ C sig key data = .ok () ∨ verifyGpgSignatureJ C sig key data = .error .arg ∨
    verifyGpgSignatureJ C sig key data = .error .invalidSignature := C13.verifyGpgSignatureJ_families C sig key data

theorem be32_injective (n m : Nat) (hn : n < 4294967296) (hm : m < 4294967296) (h : be32 n = be32 m) : n = m := by
  simp only [be32, List.cons.injEq, and_true] at h
  omega

theorem be32_length (n : Nat) : (be32 n).length = 4 := rfl

/-- **the hashed data is uniquely decodable**: the trailer (04 ff and the header length) makes payload and headers recoverable from
the digest input, so two different (payload, headers) pairs never hash the same bytes -/
theorem digestInput_injective (d h d' h' : Bytes) (hl : h.length < 4294967296) (hl' : h'.length < 4294967296)
    (e : gpgDigestInput d h = gpgDigestInput d' h') : d = d' ∧ h = h' := by
  simp only [gpgDigestInput, List.append_assoc] at e
  -- split off the 4-byte length field, then the 2-byte marker, then use equal header lengths
  have e1 : d ++ (h ++ [4, 255]) = d' ++ (h' ++ [4, 255]) ∧ be32 h.length = be32 h'.length := by
    have := List.append_inj' (s₁ := d ++ (h ++ [4, 255])) (s₂ := d' ++ (h' ++ [4, 255])) (t₁ := be32 h.length) (t₂ := be32 h'.length)
      (by simpa [List.append_assoc] using e) (by simp [be32_length])
    exact this
  have hlen : h.length = h'.length := be32_injective _ _ hl hl' e1.2
  have e2 : d ++ h = d' ++ h' := by
    have := List.append_inj' (s₁ := d ++ h) (s₂ := d' ++ h') (t₁ := [4, 255]) (t₂ := [4, 255]) (by simpa [List.append_assoc] using e1.1) rfl
    exact this.1
  have := List.append_inj' e2 hlen
  exact ⟨this.1, this.2⟩

/-- **any change to payload or headers is rejected — or a SHA-256 collision / a signature valid for two digests is exhibited**:
if an entry counts for payload `d` and also for a different payload `d'`, then either the two digest inputs (which differ, by
`digestInput_injective`) collide under SHA-256, or one signature verifies for two different digests -/
theorem change_rejected_or_collision (C : CryptoFns) (pub hdr sig d d' : Bytes) (hl : hdr.length < 4294967296) (hne : d ≠ d')
    (h1 : C.verify pub (gpgDigest C d hdr) sig = true) (h2 : C.verify pub (gpgDigest C d' hdr) sig = true) :
    (gpgDigestInput d hdr ≠ gpgDigestInput d' hdr ∧ C.sha256 (gpgDigestInput d hdr) = C.sha256 (gpgDigestInput d' hdr)) ∨
    (gpgDigest C d hdr ≠ gpgDigest C d' hdr ∧ C.verify pub (gpgDigest C d hdr) sig = true ∧ C.verify pub (gpgDigest C d' hdr) sig = true) := by
  have hin : gpgDigestInput d hdr ≠ gpgDigestInput d' hdr := fun e => hne (digestInput_injective d hdr d' hdr hl hl e).1
  by_cases hc : gpgDigest C d hdr = gpgDigest C d' hdr
  · left; exact ⟨hin, hc⟩
  · right; exact ⟨hc, h1, h2⟩

/-- the counting rule of `verify_signable(gpg=True)` is this verifier: an entry counts iff it is filed under an authorized canonical
key and `verify_gpg_signature` accepts it -/
theorem counts_gpg_iff (C : CryptoFns) (auth : List PStr) (data : Bytes) (k : PStr) (sig : J) :
    Counts C true auth data k sig ↔ HexN 64 (.str k) ∧ k ∈ auth ∧ GpgShape sig ∧ verifyGpgSignatureJ C sig (.str k) data = .ok () := by
  constructor
  · rintro ⟨h1, h2, h3⟩
    simp only [if_true] at h3
    exact ⟨h1, h2, h3.1, (verifyGpg_iff C sig _ data h3.1 h1).mpr h3.2⟩
  · rintro ⟨h1, h2, h3, h4⟩
    refine ⟨h1, h2, ?_⟩
    simp only [if_true]
    exact ⟨h3, (verifyGpg_iff C sig _ data h3 h1).mp h4⟩

end CCT.C10
