import CCT.Lemmas.ParseWF
import CCT.Lemmas.Canon
/-!
# C07 — canonical serialization: deterministic, order-independent, injective, frozen

`ser v = serRaw 0 (canon v)` is the model of `canonserialize` (`json.dumps(obj, indent=2, sort_keys=True)
.encode("utf-8")`), `parse` the model of `json.loads`.  `J.WF` is the value domain of the property: what a
parser of well-formed JSON text can return (code points < 0x110000, no high surrogate immediately followed
by a low one, distinct keys, canonical float tokens).
-/
namespace CCT.C07
open CCT

/-- **parsing gives the value back**: the canonical bytes parse, and to the key-sorted form of the value -/
theorem parse_ser (v : J) (hv : v.WF) : parse (ser v) = some (canon v) :=
  parse_serRaw (canon v) (canon_wf v hv)

/-- **fixpoint of parse-then-serialize** -/
theorem ser_fixpoint (v : J) (hv : v.WF) : (parse (ser v)).map ser = some (ser v) := by
  rw [parse_ser v hv]
  simp only [Option.map_some, ser, canon_idem v hv]

theorem ser_canon (v : J) (hv : v.WF) : ser (canon v) = ser v := by
  simp only [ser, canon_idem v hv]

/-- **injective**: two values with the same canonical bytes have the same key-sorted form (see `reorder_canon`:
each is then a mere re-ordering of object members of that common form, i.e. they are equal as JSON values) -/
theorem ser_injective (v w : J) (hv : v.WF) (hw : w.WF) (h : ser v = ser w) : canon v = canon w := by
  have h1 := parse_ser v hv
  have h2 := parse_ser w hw
  rw [h] at h1
  rw [h1] at h2
  exact Option.some.inj h2

-- order independence --------------------------------------------------------------------------------

mutual
/-- `Reorder v w`: `w` is `v` with the members of any objects, at any depth, listed in another order -/
def Reorder : J → J → Prop
  | .null, w => w = .null
  | .bool b, w => w = .bool b
  | .int z, w => w = .int z
  | .flt t, w => w = .flt t
  | .str s, w => w = .str s
  | .arr xs, w => ∃ ys, w = .arr ys ∧ ReorderL xs ys
  | .obj kvs, w => ∃ kvs' kvs'', w = .obj kvs'' ∧ ReorderM kvs kvs' ∧ kvs'.Perm kvs''
def ReorderL : List J → List J → Prop
  | [], ys => ys = []
  | x :: xs, ys => ∃ y ys', ys = y :: ys' ∧ Reorder x y ∧ ReorderL xs ys'
def ReorderM : List (PStr × J) → List (PStr × J) → Prop
  | [], l => l = []
  | (k, v) :: r, l => ∃ v' r', l = (k, v') :: r' ∧ Reorder v v' ∧ ReorderM r r'
end

theorem canonMembers_eq_map (l : List (PStr × J)) : canonMembers l = l.map (fun p => (p.1, canon p.2)) := by
  induction l with
  | nil => rfl
  | cons p r ih => obtain ⟨k, v⟩ := p; simp [canonMembers, ih]

mutual
theorem canon_reorder (v w : J) (hv : v.WF) (h : Reorder v w) : canon v = canon w := by
  match v with
  | .null => simp only [Reorder] at h; rw [h]
  | .bool _ => simp only [Reorder] at h; rw [h]
  | .int _ => simp only [Reorder] at h; rw [h]
  | .flt _ => simp only [Reorder] at h; rw [h]
  | .str _ => simp only [Reorder] at h; rw [h]
  | .arr xs =>
    simp only [Reorder] at h
    obtain ⟨ys, rfl, hl⟩ := h
    simp only [J.WF] at hv
    simp only [canon, canonList_reorder xs ys hv hl]
  | .obj kvs =>
    simp only [Reorder] at h
    obtain ⟨kvs', kvs'', rfl, hm, hp⟩ := h
    simp only [J.WF] at hv
    have ⟨e1, e2⟩ := canonMembers_reorder kvs kvs' hv.1 hm
    simp only [canon]
    rw [e1]
    congr 1
    apply sortKV_congr_perm
    · rw [canonMembers_eq_map, canonMembers_eq_map]; exact hp.map _
    · rw [canonMembers_keys, ← e2]; exact hv.2
theorem canonList_reorder (xs ys : List J) (hx : WFs xs) (h : ReorderL xs ys) : canonList xs = canonList ys := by
  match xs with
  | [] => simp only [ReorderL] at h; rw [h]
  | x :: r =>
    simp only [ReorderL] at h
    obtain ⟨y, ys', rfl, h1, h2⟩ := h
    simp only [WFs] at hx
    simp only [canonList, canon_reorder x y hx.1 h1, canonList_reorder r ys' hx.2 h2]
theorem canonMembers_reorder (l l' : List (PStr × J)) (hl : WFm l) (h : ReorderM l l') :
    canonMembers l = canonMembers l' ∧ l.map (·.1) = l'.map (·.1) := by
  match l with
  | [] => simp only [ReorderM] at h; rw [h]; exact ⟨rfl, rfl⟩
  | (k, v) :: r =>
    simp only [ReorderM] at h
    obtain ⟨v', r', rfl, h1, h2⟩ := h
    simp only [WFm] at hl
    have ⟨e1, e2⟩ := canonMembers_reorder r r' hl.2.2 h2
    exact ⟨by simp only [canonMembers, canon_reorder v v' hl.2.1 h1, e1], by simp [e2]⟩
end

/-- **order-independent**: listing object members in any other order, at any depth, leaves the bytes unchanged -/
theorem ser_reorder (v w : J) (hv : v.WF) (h : Reorder v w) : ser v = ser w := by
  simp only [ser, canon_reorder v w hv h]

mutual
/-- every value is a member re-ordering of its canonical form -/
theorem reorder_canon (v : J) : Reorder v (canon v) := by
  match v with
  | .null => simp [Reorder, canon]
  | .bool _ => simp [Reorder, canon]
  | .int _ => simp [Reorder, canon]
  | .flt _ => simp [Reorder, canon]
  | .str _ => simp [Reorder, canon]
  | .arr xs => simp only [Reorder, canon]; exact ⟨_, rfl, reorderL_canon xs⟩
  | .obj kvs =>
    simp only [Reorder, canon]
    exact ⟨canonMembers kvs, _, rfl, reorderM_canon kvs, (sortKV_perm _).symm⟩
theorem reorderL_canon (xs : List J) : ReorderL xs (canonList xs) := by
  match xs with
  | [] => simp [ReorderL, canonList]
  | x :: r => simp only [ReorderL, canonList]; exact ⟨_, _, rfl, reorder_canon x, reorderL_canon r⟩
theorem reorderM_canon (l : List (PStr × J)) : ReorderM l (canonMembers l) := by
  match l with
  | [] => simp [ReorderM, canonMembers]
  | (k, v) :: r => simp only [ReorderM, canonMembers]; exact ⟨_, _, rfl, reorder_canon v, reorderM_canon r⟩
end

-- the wire format ---------------------------------------------------------------------------------------

def Asc (b : Nat) : Prop := b = 10 ∨ (32 ≤ b ∧ b < 127)
def AllAsc (l : Txt) : Prop := ∀ b ∈ l, Asc b

theorem allAsc_nil : AllAsc [] := fun _ h => by cases h
theorem allAsc_cons {b : Nat} {l : Txt} (hb : Asc b) (hl : AllAsc l) : AllAsc (b :: l) := by
  intro x hx; rcases List.mem_cons.mp hx with rfl | hx; exact hb; exact hl x hx
theorem allAsc_append {a b : Txt} (ha : AllAsc a) (hb : AllAsc b) : AllAsc (a ++ b) := by
  intro x hx; rcases List.mem_append.mp hx with h | h; exact ha x h; exact hb x h

theorem asc_hexDigit (d : Nat) (h : d < 16) : Asc (hexDigit d) := by
  unfold hexDigit Asc; split <;> omega

theorem allAsc_uesc (n : Nat) : AllAsc (uesc n) := by
  unfold uesc hex4
  refine allAsc_cons (by unfold Asc; decide) (allAsc_cons (by unfold Asc; omega) ?_)
  exact allAsc_cons (asc_hexDigit _ (Nat.mod_lt _ (by decide))) (allAsc_cons (asc_hexDigit _ (Nat.mod_lt _ (by decide)))
    (allAsc_cons (asc_hexDigit _ (Nat.mod_lt _ (by decide))) (allAsc_cons (asc_hexDigit _ (Nat.mod_lt _ (by decide))) allAsc_nil)))

theorem allAsc_escChar (c : Nat) : AllAsc (escChar c) := by
  unfold escChar
  repeat' split
  all_goals first
    | exact allAsc_uesc _
    | exact allAsc_append (allAsc_uesc _) (allAsc_uesc _)
    | (intro b hb; simp only [List.mem_cons, List.mem_nil_iff, or_false, cBsl] at hb; unfold Asc; omega)

theorem allAsc_escStr : ∀ (s : PStr), AllAsc (escStr s)
  | [] => allAsc_nil
  | c :: r => allAsc_append (allAsc_escChar c) (allAsc_escStr r)

theorem allAsc_serStr (s : PStr) : AllAsc (serStr s) :=
  allAsc_cons (by unfold Asc; decide) (allAsc_append (allAsc_escStr s) (allAsc_cons (by unfold Asc; decide) allAsc_nil))

theorem asc_of_numChar {c : Nat} (h : isNumChar c = true) : Asc c := by
  simp [isNumChar, isDigit] at h
  unfold Asc; omega

theorem allAsc_serInt (z : Int) : AllAsc (serInt z) := by
  cases z with
  | ofNat n => intro c hc; exact asc_of_numChar (isDigit_numChar ((serNat_spec n).2.2.1 c hc))
  | negSucc n =>
    intro c hc
    simp only [serInt, cMinus, List.mem_cons] at hc
    rcases hc with rfl | hc
    · unfold Asc; decide
    · exact asc_of_numChar (isDigit_numChar ((serNat_spec (n + 1)).2.2.1 c hc))

theorem allAsc_serFlt (t : Txt) (h : FltOK t) : AllAsc (serFlt t) := by
  rcases h with rfl | rfl | rfl | ⟨h1, _⟩
  · intro b hb; simp [serFlt] at hb; unfold Asc; omega
  · intro b hb; simp [serFlt] at hb; unfold Asc; omega
  · intro b hb; simp [serFlt] at hb; unfold Asc; omega
  · rw [serFlt_ord t h1]; exact fun c hc => asc_of_numChar (h1 c hc)

theorem allAsc_nl (n : Nat) : AllAsc (nl n) := by
  intro b hb
  simp only [nl, List.mem_cons, List.mem_replicate] at hb
  rcases hb with rfl | ⟨_, rfl⟩
  · left; rfl
  · right; unfold cSp; omega

mutual
theorem allAsc_serRaw (lvl : Nat) (v : J) (hv : v.WF) : AllAsc (serRaw lvl v) := by
  match v with
  | .null => intro b hb; simp [serRaw] at hb; unfold Asc; omega
  | .bool true => intro b hb; simp [serRaw] at hb; unfold Asc; omega
  | .bool false => intro b hb; simp [serRaw] at hb; unfold Asc; omega
  | .int z => exact allAsc_serInt z
  | .flt t => exact allAsc_serFlt t hv
  | .str s => exact allAsc_serStr s
  | .arr [] => intro b hb; simp [serRaw, cLB, cRB] at hb; unfold Asc; omega
  | .arr (x :: xs) =>
    simp only [J.WF, WFs] at hv
    simp only [serRaw]
    exact allAsc_cons (by unfold Asc; decide) (allAsc_append (allAsc_nl _) (allAsc_append (allAsc_serRaw _ x hv.1) (allAsc_serElems lvl xs hv.2)))
  | .obj [] => intro b hb; simp [serRaw, cLC, cRC] at hb; unfold Asc; omega
  | .obj ((k, v) :: kvs) =>
    simp only [J.WF, WFm] at hv
    simp only [serRaw]
    exact allAsc_cons (by unfold Asc; decide) (allAsc_append (allAsc_nl _) (allAsc_append (allAsc_serStr k)
      (allAsc_cons (by unfold Asc; decide) (allAsc_cons (by unfold Asc; decide)
        (allAsc_append (allAsc_serRaw _ v hv.1.2.1) (allAsc_serMembers lvl kvs hv.1.2.2))))))
theorem allAsc_serElems (lvl : Nat) (xs : List J) (h : WFs xs) : AllAsc (serElems lvl xs) := by
  match xs with
  | [] => simp only [serElems]; exact allAsc_append (allAsc_nl _) (allAsc_cons (by unfold Asc; decide) allAsc_nil)
  | x :: r =>
    simp only [WFs] at h
    simp only [serElems]
    exact allAsc_cons (by unfold Asc; decide) (allAsc_append (allAsc_nl _) (allAsc_append (allAsc_serRaw _ x h.1) (allAsc_serElems lvl r h.2)))
theorem allAsc_serMembers (lvl : Nat) (kvs : List (PStr × J)) (h : WFm kvs) : AllAsc (serMembers lvl kvs) := by
  match kvs with
  | [] => simp only [serMembers]; exact allAsc_append (allAsc_nl _) (allAsc_cons (by unfold Asc; decide) allAsc_nil)
  | (k, v) :: r =>
    simp only [WFm] at h
    simp only [serMembers]
    exact allAsc_cons (by unfold Asc; decide) (allAsc_append (allAsc_nl _) (allAsc_append (allAsc_serStr k)
      (allAsc_cons (by unfold Asc; decide) (allAsc_cons (by unfold Asc; decide)
        (allAsc_append (allAsc_serRaw _ v h.2.1) (allAsc_serMembers lvl r h.2.2))))))
end

/-- **ASCII-escaped**: the serialization consists of newline and printable ASCII only, so its UTF-8 encoding is
the byte string with the same codes -/
theorem ser_ascii (v : J) (hv : v.WF) : ∀ b ∈ ser v, b = 10 ∨ (32 ≤ b ∧ b < 127) :=
  allAsc_serRaw 0 (canon v) (canon_wf v hv)

/-- **keys sorted**: in the serialized value every object lists its members in strictly increasing code-point order -/
theorem ser_sorted (v : J) (hv : v.WF) : (canon v).Sorted := canon_sorted v hv

-- the published format, pinned by equations (two-space indentation, ',' and ': ' separators, escapes) ----------
theorem fmt_empty_obj (lvl : Nat) : serRaw lvl (.obj []) = ps! "{}" := rfl
theorem fmt_empty_arr (lvl : Nat) : serRaw lvl (.arr []) = ps! "[]" := rfl
theorem fmt_obj (lvl : Nat) (k : PStr) (v : J) (r : List (PStr × J)) :
    serRaw lvl (.obj ((k, v) :: r)) =
      ps! "{" ++ (10 :: List.replicate (2 * (lvl + 1)) 32) ++ serStr k ++ ps! ": " ++ serRaw (lvl + 1) v ++ serMembers lvl r := by
  simp [serRaw, nl, cLC, cNl, cSp, cColon]
theorem fmt_member (lvl : Nat) (k : PStr) (v : J) (r : List (PStr × J)) :
    serMembers lvl ((k, v) :: r) =
      ps! "," ++ (10 :: List.replicate (2 * (lvl + 1)) 32) ++ serStr k ++ ps! ": " ++ serRaw (lvl + 1) v ++ serMembers lvl r := by
  simp [serMembers, nl, cComma, cNl, cSp, cColon]
theorem fmt_obj_close (lvl : Nat) : serMembers lvl [] = (10 :: List.replicate (2 * lvl) 32) ++ ps! "}" := by
  simp [serMembers, nl, cRC, cNl, cSp]
theorem fmt_arr (lvl : Nat) (x : J) (r : List J) :
    serRaw lvl (.arr (x :: r)) = ps! "[" ++ (10 :: List.replicate (2 * (lvl + 1)) 32) ++ serRaw (lvl + 1) x ++ serElems lvl r := by
  simp [serRaw, nl, cLB, cNl, cSp]
theorem fmt_elem (lvl : Nat) (x : J) (r : List J) :
    serElems lvl (x :: r) = ps! "," ++ (10 :: List.replicate (2 * (lvl + 1)) 32) ++ serRaw (lvl + 1) x ++ serElems lvl r := by
  simp [serElems, nl, cComma, cNl, cSp]
theorem fmt_arr_close (lvl : Nat) : serElems lvl [] = (10 :: List.replicate (2 * lvl) 32) ++ ps! "]" := by
  simp [serElems, nl, cRB, cNl, cSp]
theorem fmt_escape_ascii (c : Nat) (h : 32 ≤ c ∧ c < 127) (h1 : c ≠ 34) (h2 : c ≠ 92) : escChar c = [c] := by
  unfold escChar
  rw [if_neg h1, if_neg h2, if_neg (by omega), if_neg (by omega), if_neg (by omega), if_neg (by omega), if_neg (by omega), if_pos h]
theorem fmt_escape_bmp (c : Nat) (h : 127 ≤ c) (h2 : c < 0x10000) :
    escChar c = ps! "\\u" ++ [hexDigit (c / 4096 % 16), hexDigit (c / 256 % 16), hexDigit (c / 16 % 16), hexDigit (c % 16)] := by
  unfold escChar
  rw [if_neg (by omega), if_neg (by omega), if_neg (by omega), if_neg (by omega), if_neg (by omega), if_neg (by omega), if_neg (by omega),
    if_neg (by omega), if_pos h2]
  rfl
theorem fmt_escape_astral (c : Nat) (h : 0x10000 ≤ c) :
    escChar c = uesc (0xd800 + (c - 0x10000) / 1024) ++ uesc (0xdc00 + (c - 0x10000) % 1024) := by
  unfold escChar
  rw [if_neg (by omega), if_neg (by omega), if_neg (by omega), if_neg (by omega), if_neg (by omega), if_neg (by omega), if_neg (by omega),
    if_neg (by omega), if_neg (by omega)]

-- byte-for-byte examples from the published samples (tests/test_common.py) and the encoding cases it leaves as TODO
example : ser (.obj [(ps! "b", .str (ps! "v2")), (ps! "a", .str (ps! "v1"))]) = ps! "{\n  \"a\": \"v1\",\n  \"b\": \"v2\"\n}" := by decide
example : ser (.arr [.int 1, .int 2, .int 3]) = ps! "[\n  1,\n  2,\n  3\n]" := by decide
example : ser (.str [233, 0x1F600, 0xd800, 10]) = ps! "\"\\u00e9\\ud83d\\ude00\\ud800\\n\"" := by decide
example : ser (.arr [.flt (ps! "1e+22"), .flt (ps! "nan"), .flt (ps! "-inf"), .null, .bool true, .int (-20)])
    = ps! "[\n  1e+22,\n  NaN,\n  -Infinity,\n  null,\n  true,\n  -20\n]" := by decide
/-- why the value domain excludes an adjacent (high, low) surrogate pair: it prints like the astral character -/
example : ser (.str [0xd800, 0xdc00]) = ser (.str [0x10000]) := by decide
/-- the hypotheses are satisfiable by a non-trivial value -/
example : (J.obj [(ps! "b", .arr [.int 1, .flt (ps! "1.5")]), (ps! "a", .obj [([233], .null)])]).WF := by
  have hf : FltOK (ps! "1.5") := Or.inr (Or.inr (Or.inr ⟨by decide, rfl⟩))
  have hi : 1 < 10 ^ maxStrDigits := within_limit 1 (by decide) (by decide)
  simp [J.WF, WFm, WFs, StrOK, hf, hi]

/-- **CPython's integer conversion limit is part of the format's domain**: an integer literal of more than 4300 digits is rejected by the
parser (as `json.load` rejects it), so no loaded value contains such an integer; `J.WF` bounds integers accordingly -/
theorem long_integer_literal_rejected (r : Txt) (hv : validNatTok r = true) (hl : maxStrDigits < r.length) :
    parseNumTok r = none ∧ parseNumTok (45 :: r) = none := by
  have hnl : ¬ r.length ≤ maxStrDigits := by omega
  refine ⟨?_, by simp [parseNumTok, hv, hnl]⟩
  unfold parseNumTok
  split
  · rename_i r' 
    have hd := validNatTok_digits hv 45 (by simp)
    exact absurd hd (by decide)
  · simp [hv, hnl]

mutual
theorem intsOK_of_wf : ∀ (v : J), v.WF → v.intsOK = true
  | .null, _ => rfl | .bool _, _ => rfl | .flt _, _ => rfl | .str _, _ => rfl
  | .int z, h => by simp only [J.WF] at h; simp [J.intsOK, h]
  | .arr xs, h => by simp only [J.WF] at h; simp only [J.intsOK]; exact intsOKs_of_wf xs h
  | .obj kvs, h => by simp only [J.WF] at h; simp only [J.intsOK]; exact intsOKm_of_wf kvs h.1
theorem intsOKs_of_wf : ∀ (xs : List J), WFs xs → intsOKs xs = true
  | [], _ => rfl
  | x :: xs, h => by simp only [WFs] at h; simp [intsOKs, intsOK_of_wf x h.1, intsOKs_of_wf xs h.2]
theorem intsOKm_of_wf : ∀ (kvs : List (PStr × J)), WFm kvs → intsOKm kvs = true
  | [], _ => rfl
  | (_, v) :: kvs, h => by simp only [WFm] at h; simp [intsOKm, intsOK_of_wf v h.2.1, intsOKm_of_wf kvs h.2.2]
end

/-- **the serializer is total on the format's domain**: on every well-formed value — in particular on everything that was loaded from a file
(`loaded_is_wf`) — CPython's encoder does not refuse, and returns the bytes all the other theorems of this file speak about.  Outside the domain
(an in-memory integer of more than 4300 digits) it raises `ValueError` and nothing is signed or written. -/
theorem serPy_total_on_wf (v : J) (h : v.WF) : serPy v = some (ser v) := by
  simp [serPy, intsOK_of_wf v h]

theorem serPy_refuses_huge_int (z : Int) (h : 10 ^ maxStrDigits ≤ z.natAbs) : serPy (.int z) = none ∧ serPy (.arr [.int z]) = none ∧
    serPy (.obj [([97], .int z)]) = none := by
  have : ¬ z.natAbs < 10 ^ maxStrDigits := by omega
  simp [serPy, J.intsOK, intsOKs, intsOKm, this]

/-- whenever the encoder answers, parsing the answer gives the (key-sorted) value back: the round trip holds wherever serialization exists -/
theorem serPy_roundtrip (v : J) (h : v.WF) (b : Txt) (hb : serPy v = some b) : parse b = some (canon v) := by
  rw [serPy_total_on_wf v h] at hb
  cases hb
  exact parse_ser v h

/-- **parser soundness**: whatever the parser returns for text without surrogate code points (all strict UTF-8) is a well-formed value,
and so round-trips: serializing and parsing it again gives its key-sorted form -/
theorem parsed_roundtrips (t : Txt) (v : J) (ht : AllOK t) (h : parse t = some v) : v.WF ∧ parse (ser v) = some (canon v) :=
  ⟨parse_wf ht h, parse_ser v (parse_wf ht h)⟩

end CCT.C07
