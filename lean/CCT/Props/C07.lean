import CCT.Lemmas.JsonParseSer
/-! # C07 — canonical serialization (theorems; work in progress) -/
namespace CCT.C07
open CCT

/-- parsing the printed form of a well-formed value (no key sorting) returns the value -/
theorem parse_serRaw_wf (v : J) (hv : v.WF) : parse (serRaw 0 v) = some v := CCT.parse_serRaw v hv

end CCT.C07
