import CCT.Props.C09
import CCT.Lemmas.FileThreads
import CCT.Props.C05
import CCT.Props.C04
/-!
# C11 — repodata artifact signing is complete, faithful and client-verifiable

Model: `signRepodataJ` (`signing.py:148-213`, value level; the file it writes is `ser` of the result — see C08/C18 for the file).
-/
namespace CCT.C11
open CCT CCT.C15 CCT.C09
open Classical

/-- the entry filed for an artifact: `{<signer's public key hex>: {"signature": <hex>}}` -/
def artifactEntry (C : CryptoFns) (seed : Bytes) (md : J) : J := .obj [(pubHex C seed, sigEntry C seed md)]

theorem signEntries_eq (C : CryptoFns) (seed : Bytes) : ∀ (arts sigs : List (PStr × J)),
    signEntries C seed (hexOfBytes (C.pubOf seed)) sigs arts = arts.foldl (fun s a => dictSet s a.1 (artifactEntry C seed a.2)) sigs
  | [], _ => rfl
  | (n, md) :: r, sigs => by
    simp only [signEntries, List.foldl_cons]
    exact signEntries_eq C seed r _

/-- the signatures section built for a document -/
def sigSection (C : CryptoFns) (seed : Bytes) (arts arts2 : List (PStr × J)) : List (PStr × J) :=
  (arts ++ arts2).foldl (fun s a => dictSet s a.1 (artifactEntry C seed a.2)) []

/-- closed form: a document with a `packages` object (and optionally a `packages.conda` object) is signed successfully, the
result being the document with its `signatures` section replaced by one entry per artifact -/
theorem signRepo_ok (C : CryptoFns) (top : List (PStr × J)) (keyHex : PStr) (hk : HexN 64 (.str keyHex)) (arts arts2 : List (PStr × J))
    (h1 : dictGet (ps! "packages") top = some (.obj arts))
    (h2 : dictGet (ps! "packages.conda") top = some (.obj arts2) ∨ (dictGet (ps! "packages.conda") top = none ∧ arts2 = [])) :
    signRepodataJ C (.obj top) (.str keyHex) =
      .ok (.obj (dictSet top (ps! "signatures") (.obj (sigSection C (unhex keyHex) arts arts2)))) := by
  have e1 : dictGet (ps! "packages") (dictSet top (ps! "signatures") (.obj [])) = some (.obj arts) := by
    rw [dictGet_dictSet_other _ _ _ (by decide)]; exact h1
  have e2 : dictGet (ps! "packages.conda") (dictSet top (ps! "signatures") (.obj [])) = dictGet (ps! "packages.conda") top := by
    rw [dictGet_dictSet_other _ _ _ (by decide)]
  have eov : ∀ x, dictSet (dictSet top (ps! "signatures") (.obj [])) (ps! "signatures") x = dictSet top (ps! "signatures") x :=
    fun x => dictSet_overwrite _ _ _ _
  simp only [signRepodataJ, (checkHexKey_iff _).mpr hk, bind, Except.bind, strOf_str, pyInStr_obj, dictHas_some h1, pure, Except.pure,
    Bool.not_true, Bool.false_eq_true, if_false, dictIndex_some e1, e2, signEntries_eq]
  rcases h2 with h2 | ⟨h2, rfl⟩
  · simp only [h2, eov, sigSection, List.foldl_append]
  · simp only [h2, eov, sigSection, List.append_nil]

/-- **nothing else is touched**: every top-level field other than `signatures` is as before -/
theorem signRepo_other_fields (top : List (PStr × J)) (x : J) (k : PStr) (hk : k ≠ ps! "signatures") :
    dictGet k (dictSet top (ps! "signatures") x) = dictGet k top := dictGet_dictSet_other _ _ _ hk _

/-- **only the two artifact sections decide what is signed**: two documents with the same `packages` and `packages.conda` members — whatever else they hold
at top level (members named like sections, stale signatures, lists of removed artifacts, …) — get the same signatures section -/
theorem other_members_do_not_matter (C : CryptoFns) (top top' : List (PStr × J)) (keyHex : PStr) (hk : HexN 64 (.str keyHex)) (arts arts2 : List (PStr × J))
    (h1 : dictGet (ps! "packages") top = some (.obj arts)) (h1' : dictGet (ps! "packages") top' = some (.obj arts))
    (h2 : dictGet (ps! "packages.conda") top = some (.obj arts2) ∨ (dictGet (ps! "packages.conda") top = none ∧ arts2 = []))
    (h2' : dictGet (ps! "packages.conda") top' = some (.obj arts2) ∨ (dictGet (ps! "packages.conda") top' = none ∧ arts2 = [])) :
    ∃ r r', signRepodataJ C (.obj top) (.str keyHex) = .ok (.obj r) ∧ signRepodataJ C (.obj top') (.str keyHex) = .ok (.obj r') ∧
      dictGet (ps! "signatures") r = some (.obj (sigSection C (unhex keyHex) arts arts2)) ∧
      dictGet (ps! "signatures") r' = some (.obj (sigSection C (unhex keyHex) arts arts2)) :=
  ⟨_, _, signRepo_ok C top keyHex hk arts arts2 h1 h2, signRepo_ok C top' keyHex hk arts arts2 h1' h2', dictGet_dictSet_same _ _ _, dictGet_dictSet_same _ _ _⟩

-- ---------------------------------------------------------------------------------------------------------------------
-- several in-place signing runs at the same time (Model/FileThreads.lean)

/-- the in-place signing of a repodata file as a job: parse, `sign_all_in_repodata` at value level, canonical bytes of the result -/
def signRepoJob (C : CryptoFns) (name : PStr) (keyHex : PStr) : FileJob :=
  { name := name
    run := fun content => match content with
      | none => none
      | some b => match loadBytes b with
        | none => none
        | some doc => match signRepodataJ C doc (.str keyHex) with
          | .ok doc' => some (ser doc')
          | .error _ => none }

/-- **runs on different files do not disturb one another, under any schedule**: any family of in-place jobs on pairwise different file names, any
interleaving of their reads, computations and writes — every job that has finished has left in its file exactly what it leaves when it runs alone on the
original file system (its result on the file's *original* content; the original content if it failed), every file that is no job's is untouched -/
theorem concurrent_jobs_independent (jobs : Nat → FileJob) (hd : ∀ i j, (jobs i).name = (jobs j).name → i = j) (fs0 : FS) (sched : List Nat)
    (ts0 : Nat → FLocal) (h0 : ∀ i, (ts0 i).pc = 0) :
    (∀ i, 3 ≤ ((runJobs jobs fs0 ts0 sched).2 i).pc → (runJobs jobs fs0 ts0 sched).1 (jobs i).name = jobResult (jobs i) fs0) ∧
    (∀ x, (∀ j, (jobs j).name ≠ x) → (runJobs jobs fs0 ts0 sched).1 x = fs0 x) := by
  have inv := FInv.run jobs hd fs0 sched fs0 ts0 (FInv.init jobs fs0 ts0 h0)
  refine ⟨fun i hi => ?_, inv.others⟩
  rcases inv.threads i with ⟨h, _⟩ | ⟨h, _⟩ | ⟨h, _⟩ | ⟨_, hr⟩
  · omega
  · omega
  · omega
  · exact hr

/-- in particular two signing runs on `linux-64/repodata.json` and `noarch/repodata.json` with two keys: whatever the schedule, once both have finished
each file holds what signing it alone gives -/
theorem two_signing_runs (C : CryptoFns) (a b ka kb : PStr) (hab : a ≠ b) (fs0 : FS) (sched : List Nat) (ts0 : Nat → FLocal) (h0 : ∀ i, (ts0 i).pc = 0)
    (jobs : Nat → FileJob) (hj0 : jobs 0 = signRepoJob C a ka) (hj1 : jobs 1 = signRepoJob C b kb)
    (hd : ∀ i j, (jobs i).name = (jobs j).name → i = j)
    (hf0 : 3 ≤ ((runJobs jobs fs0 ts0 sched).2 0).pc) (hf1 : 3 ≤ ((runJobs jobs fs0 ts0 sched).2 1).pc) :
    (runJobs jobs fs0 ts0 sched).1 a = jobResult (signRepoJob C a ka) fs0 ∧ (runJobs jobs fs0 ts0 sched).1 b = jobResult (signRepoJob C b kb) fs0 := by
  obtain ⟨hfin, _⟩ := concurrent_jobs_independent jobs hd fs0 sched ts0 h0
  have e0 := hfin 0 hf0
  have e1 := hfin 1 hf1
  rw [hj0] at e0; rw [hj1] at e1
  have _ := hab
  exact ⟨e0, e1⟩

/-- no single step of a job changes any file but its own (not even transiently) -/
theorem stepJob_frame (jb : FileJob) (fs : FS) (st : FLocal) (x : PStr) (hx : x ≠ jb.name) : (stepJob jb fs st).1 x = fs x := by
  unfold stepJob
  split
  · rfl
  · rfl
  · split
    · exact FS.get_put_other _ _ _ _ hx
    · rfl
  · rfl

/-- a job run alone is read, compute, write: its file ends as `jobResult` says -/
theorem job_alone (jb : FileJob) (fs0 : FS) (ts : Nat → FLocal) (h0 : (ts 0).pc = 0) :
    (runJobs (fun _ => jb) fs0 ts [0, 0, 0]).1 jb.name = jobResult jb fs0 := by
  cases hr : jb.run (fs0 jb.name) with
  | none => simp [runJobs, stepJob, h0, jobResult, hr]
  | some b => simp [runJobs, stepJob, h0, jobResult, hr, FS.put]

-- non-vacuity: two jobs on two names, their steps interleaved one by one — each file ends as its own job makes it; on the *same* name the hypothesis
-- fails and so does the conclusion (the second writer wins with a result computed from the content it read first)
example :
    let ja : FileJob := { name := [97], run := fun c => c.map (· ++ [1]) }
    let jb : FileJob := { name := [98], run := fun c => c.map (· ++ [2]) }
    let fs0 : FS := fun n => if n = [97] then some [10] else if n = [98] then some [20] else none
    let fin := runJobs (fun i => if i = 0 then ja else jb) fs0 (fun _ => {}) [0, 1, 1, 0, 1, 0]
    fin.1 [97] = some [10, 1] ∧ fin.1 [98] = some [20, 2] ∧ fin.1 [99] = none := by
  decide
example :
    let ja : FileJob := { name := [97], run := fun c => c.map (· ++ [1]) }
    let jb : FileJob := { name := [97], run := fun c => c.map (· ++ [2]) }
    let fs0 : FS := fun n => if n = [97] then some [10] else none
    (runJobs (fun i => if i = 0 then ja else jb) fs0 (fun _ => {}) [0, 1, 0, 0, 1, 1]).1 [97] = some [10, 2] := by
  decide

theorem fold_keys (C : CryptoFns) (seed : Bytes) : ∀ (arts sigs : List (PStr × J)) (k : PStr),
    k ∈ (arts.foldl (fun s a => dictSet s a.1 (artifactEntry C seed a.2)) sigs).map (·.1) ↔ k ∈ sigs.map (·.1) ∨ k ∈ arts.map (·.1)
  | [], sigs, k => by simp
  | (n, md) :: r, sigs, k => by
    simp only [List.foldl_cons, fold_keys C seed r, dictKeys_dictSet_mem, List.map_cons, List.mem_cons]
    constructor
    · rintro ((rfl | h) | h)
      · exact Or.inr (Or.inl rfl)
      · exact Or.inl h
      · exact Or.inr (Or.inr h)
    · rintro (h | rfl | h)
      · exact Or.inl (Or.inr h)
      · exact Or.inl (Or.inl rfl)
      · exact Or.inr h

/-- **exactly one entry per artifact, stale entries gone**: the keys of the new signatures section are exactly the artifact names of
both sections — whatever the old signatures section contained -/
theorem sigSection_keys (C : CryptoFns) (seed : Bytes) (arts arts2 : List (PStr × J)) (k : PStr) :
    k ∈ (sigSection C seed arts arts2).map (·.1) ↔ k ∈ (arts ++ arts2).map (·.1) := by
  simp [sigSection, fold_keys]

theorem sigSection_nodup (C : CryptoFns) (seed : Bytes) (arts arts2 : List (PStr × J)) : ((sigSection C seed arts arts2).map (·.1)).Nodup := by
  unfold sigSection
  suffices ∀ (l sigs : List (PStr × J)), (sigs.map (·.1)).Nodup →
      ((l.foldl (fun s a => dictSet s a.1 (artifactEntry C seed a.2)) sigs).map (·.1)).Nodup from this _ [] (by simp)
  intro l
  induction l with
  | nil => intro sigs h; exact h
  | cons a r ih => intro sigs h; exact ih _ (dictSet_nodup _ _ _ h)

theorem fold_get (C : CryptoFns) (seed : Bytes) : ∀ (arts sigs : List (PStr × J)) (n : PStr) (md : J),
    (arts.map (·.1)).Nodup → (n, md) ∈ arts →
    dictGet n (arts.foldl (fun s a => dictSet s a.1 (artifactEntry C seed a.2)) sigs) = some (artifactEntry C seed md)
  | [], _, _, _, _, h => by cases h
  | (n0, md0) :: r, sigs, n, md, hn, hm => by
    simp only [List.map_cons, List.nodup_cons] at hn
    simp only [List.foldl_cons]
    rcases List.mem_cons.mp hm with e | hm
    · cases e
      -- later artifacts have other names
      have : ∀ (r' : List (PStr × J)) (s : List (PStr × J)), n0 ∉ r'.map (·.1) → dictGet n0 s = some (artifactEntry C seed md0) →
          dictGet n0 (r'.foldl (fun s a => dictSet s a.1 (artifactEntry C seed a.2)) s) = some (artifactEntry C seed md0) := by
        intro r'
        induction r' with
        | nil => intro s _ h; exact h
        | cons y r'' ih2 =>
          intro s hnot h
          simp only [List.map_cons, List.mem_cons, not_or] at hnot
          simp only [List.foldl_cons]
          exact ih2 _ hnot.2 (by rw [dictGet_dictSet_other _ _ _ hnot.1]; exact h)
      exact this r _ hn.1 (dictGet_dictSet_same _ _ _)
    · exact fold_get C seed r _ n md hn.2 hm

/-- **each artifact's entry** holds a well-formed signature under the signer's public key over the canonical bytes of that artifact's
own metadata (artifact names distinct across both sections) -/
theorem sigSection_entry (C : CryptoFns) (seed : Bytes) (arts arts2 : List (PStr × J)) (hn : ((arts ++ arts2).map (·.1)).Nodup)
    (n : PStr) (md : J) (hm : (n, md) ∈ arts ++ arts2) :
    dictGet n (sigSection C seed arts arts2) = some (artifactEntry C seed md) := fold_get C seed _ [] n md hn hm

/-- what a client does with an artifact: wrap its metadata, attach the entry, verify through a `pkg_mgr` delegation -/
def clientEnvelope (entry md : J) : J := .obj [(ps! "signatures", entry), (ps! "signed", md)]

/-- **client-verifiable**: the reconstructed envelope meets a `pkg_mgr` rule listing the signer's key with threshold 1 -/
theorem client_rule_met (C : Crypto) (seed : Bytes) (hs : seed.length = 32) (md d : J)
    (hd : keysOf d = [pubHex C.toCryptoFns seed]) (ht : thrOf d = 1) :
    RuleMet C.toCryptoFns false d (clientEnvelope (artifactEntry C.toCryptoFns seed md) md) := by
  have e1 : signedOf (clientEnvelope (artifactEntry C.toCryptoFns seed md) md) = md := by
    simp [clientEnvelope, signedOf, jget, entryField, dictGet]
  have e2 : entriesOf (clientEnvelope (artifactEntry C.toCryptoFns seed md) md) = [(pubHex C.toCryptoFns seed, sigEntry C.toCryptoFns seed md)] := by
    simp [clientEnvelope, entriesOf, jget, entryField, dictGet, artifactEntry]
  simp only [RuleMet, e1, e2, hd, ht]
  refine ⟨[pubHex C.toCryptoFns seed], by simp, by simp, ?_⟩
  intro k hk; simp at hk; subst hk
  exact ⟨_, by simp, own_entry_counts C seed hs md _ (by simp)⟩

/-- … and hence is accepted by `verify_delegation("pkg_mgr", …)` under any well-formed trusted metadata delegating `pkg_mgr` to
that key (unless the artifact metadata is itself delegating metadata of another type, which C06 demands be rejected) -/
theorem client_verifies (C : Crypto) (seed : Bytes) (hs : seed.length = 32) (md t d : J) (hT : Schema t)
    (hr : roleOf t (ps! "pkg_mgr") = some d) (hd : keysOf d = [pubHex C.toCryptoFns seed]) (ht : thrOf d = 1)
    (hm : ¬ TypeMismatch (ps! "pkg_mgr") (clientEnvelope (artifactEntry C.toCryptoFns seed md) md)) :
    verifyDelegationJ C.toCryptoFns (ps! "pkg_mgr") (clientEnvelope (artifactEntry C.toCryptoFns seed md) md) t false = .ok () :=
  (C05.verifyDelegation_iff _ _ _ _ _).mpr ⟨hT, by simp [clientEnvelope, artifactEntry, isSignableJ, keysetEq, dictKeys, dictGet], hm, d, hr,
    client_rule_met C seed hs md d hd ht⟩

/-- **a signature never verifies against another artifact's different metadata — or a forgery is exhibited** -/
theorem cross_artifact_or_forgery (C : Crypto) (seed : Bytes) (hs : seed.length = 32) (md md' : J) (auth : List PStr)
    (h : Counts C.toCryptoFns false auth (ser md') (pubHex C.toCryptoFns seed) (sigEntry C.toCryptoFns seed md)) :
    C.verify (C.pubOf seed) (ser md') (C.sign seed (ser md)) = true := edit_invalidates_or_forgery C seed hs md md' auth h

/-- **signing again changes nothing**: the signatures section is a function of the artifacts and the key alone -/
theorem signRepo_idempotent (C : CryptoFns) (top : List (PStr × J)) (keyHex : PStr) (hk : HexN 64 (.str keyHex)) (arts arts2 : List (PStr × J))
    (h1 : dictGet (ps! "packages") top = some (.obj arts))
    (h2 : dictGet (ps! "packages.conda") top = some (.obj arts2) ∨ (dictGet (ps! "packages.conda") top = none ∧ arts2 = []))
    (doc' : J) (hd : signRepodataJ C (.obj top) (.str keyHex) = .ok doc') : signRepodataJ C doc' (.str keyHex) = .ok doc' := by
  rw [signRepo_ok C top keyHex hk arts arts2 h1 h2] at hd
  cases hd
  have e1 : dictGet (ps! "packages") (dictSet top (ps! "signatures") (.obj (sigSection C (unhex keyHex) arts arts2))) = some (.obj arts) := by
    rw [dictGet_dictSet_other _ _ _ (by decide)]; exact h1
  have e2 : dictGet (ps! "packages.conda") (dictSet top (ps! "signatures") (.obj (sigSection C (unhex keyHex) arts arts2))) =
      dictGet (ps! "packages.conda") top := by rw [dictGet_dictSet_other _ _ _ (by decide)]
  rw [signRepo_ok C _ keyHex hk arts arts2 e1 (by rw [e2]; exact h2)]
  rw [dictSet_overwrite]

/-- **the whole chain of authority behind an accepted artifact**: a client that starts from root `init`, replaces its root only by updates the
library accepts, accepts `km` as `key_mgr` metadata under the root it then holds, and accepts an artifact envelope under `km`'s `pkg_mgr`
delegation has — at every link — threshold-many distinct keys named by the *previous* link with valid signatures: the root is reached from
`init` by properly signed single-version steps (C04), `km` meets the root's `key_mgr` rule, the artifact meets `km`'s `pkg_mgr` rule -/
theorem chain_of_authority (C : CryptoFns) (init : J) (offers : List J) (km env : J)
    (h1 : verifyDelegationJ C (ps! "key_mgr") km (C04.run C init offers) false = .ok ())
    (h2 : verifyDelegationJ C (ps! "pkg_mgr") env km false = .ok ()) :
    C04.Chain C init (C04.run C init offers) ∧
    (∃ d1, roleOf (C04.run C init offers) (ps! "key_mgr") = some d1 ∧ RuleMet C false d1 km) ∧
    (∃ d2, roleOf km (ps! "pkg_mgr") = some d2 ∧ RuleMet C false d2 env) ∧
    ¬ TypeMismatch (ps! "key_mgr") km ∧ ¬ TypeMismatch (ps! "pkg_mgr") env := by
  obtain ⟨_, _, m1, d1, r1, q1⟩ := (C05.verifyDelegation_iff C _ km _ false).mp h1
  obtain ⟨_, _, m2, d2, r2, q2⟩ := (C05.verifyDelegation_iff C _ env km false).mp h2
  exact ⟨C04.chain_integrity C init offers, ⟨d1, r1, q1⟩, ⟨d2, r2, q2⟩, m1, m2⟩

end CCT.C11
