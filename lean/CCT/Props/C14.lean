import CCT.Lemmas.Rules
import CCT.Props.C03
import CCT.Props.C05
/-!
# C14 — the delegating-metadata checker enforces exactly the documented schema

`Schema` (CCT/Lemmas/CheckerMain.lean) is written from the documented structure: a two-field signed envelope whose signature
values are all well-formed entries and whose signed part (`SignedOK`) has a supported type, a spec-version string, well-formed
delegations (`DelegationOK`: duplicate-free list of well-formed keys + an `int` threshold ≥ 1), a well-formed UTC expiration, at
least one of version/timestamp (version mandatory for root), each well formed if present.
-/
namespace CCT.C14
open CCT CCT.C15
open Classical

/-- **the checker accepts an object if and only if it satisfies the documented schema** -/
theorem checker_iff_schema (m : J) : checkDelegatingMdJ m = .ok () ↔ Schema m := by
  rw [checkDelegatingMd_eq]; by_cases h : Schema m <;> simp [h]

/-- … and otherwise raises an argument error: never anything else -/
theorem checker_total (m : J) : checkDelegatingMdJ m = .ok () ∨ checkDelegatingMdJ m = .error .arg := by
  rw [checkDelegatingMd_eq]; by_cases h : Schema m <;> simp [h]

theorem delegation_iff (d : J) : checkDelegationJ d = .ok () ↔ DelegationOK d := by
  rw [checkDelegation_eq]; by_cases h : DelegationOK d <;> simp [h]

theorem delegations_iff (d : J) : checkDelegationsJ d = .ok () ↔ DelegationsOK d := by
  rw [checkDelegations_eq]; by_cases h : DelegationsOK d <;> simp [h]

theorem utc_iff (v : J) : checkUtcJ v = .ok () ↔ WfUtc v := by
  rw [checkUtc_eq]; by_cases h : WfUtc v <;> simp [h]

theorem naturalInt_iff (v : J) : checkNaturalIntJ v = .ok () ↔ NaturalInt v := by
  rw [checkNaturalInt_eq]; by_cases h : NaturalInt v <;> simp [h]

/-- thresholds and versions are integers: no float, string or null passes, and `0`, negatives do not either -/
theorem naturalInt_cases (v : J) (h : NaturalInt v) : (∃ z : Int, v = .int z ∧ 1 ≤ z) ∨ v = .bool true := by
  obtain ⟨z, hz, h1⟩ := h
  cases v with
  | int z' => simp only [asInt] at hz; cases hz; exact Or.inl ⟨_, rfl, h1⟩
  | bool b => cases b <;> simp only [asInt] at hz <;> cases hz <;> simp at h1 ⊢
  | _ => simp [asInt] at hz

theorem dictGet_dictDel_self : ∀ (kvs : List (PStr × J)) (k : PStr), (kvs.map (·.1)).Nodup → dictGet k (dictDel k kvs) = none
  | [], _, _ => rfl
  | (k', v) :: r, k, h => by
    simp only [List.map_cons, List.nodup_cons] at h
    simp only [dictDel]
    by_cases e : k' = k
    · subst e
      simp only [if_true]
      -- k' is not a key of r
      induction r with
      | nil => rfl
      | cons p r ih =>
        obtain ⟨k2, v2⟩ := p
        simp only [List.map_cons, List.mem_cons, not_or, List.nodup_cons] at h
        have : ¬ k2 = k' := fun e => h.1.1 e.symm
        simp only [dictGet, this, if_false]
        exact ih ⟨h.1.2, h.2.2⟩
    · simp only [e, if_false, dictGet]
      exact dictGet_dictDel_self r k h.2

/-- **every change that removes a required field is rejected** -/
theorem required_field_removed (kvs : List (PStr × J)) (hn : (kvs.map (·.1)).Nodup) (f : PStr)
    (hf : f ∈ [ps! "type", ps! "metadata_spec_version", ps! "delegations", ps! "expiration"]) :
    ¬ SignedOK (.obj (dictDel f kvs)) := by
  rintro ⟨k', e, ⟨ty, hty, _⟩, ⟨sv, hsv⟩, ⟨d, hd, _⟩, ⟨x, hx, _⟩, _⟩
  cases e
  have := dictGet_dictDel_self kvs f hn
  simp only [List.mem_cons, List.mem_nil_iff, or_false] at hf
  rcases hf with rfl | rfl | rfl | rfl
  · rw [this] at hty; cases hty
  · rw [this] at hsv; cases hsv
  · rw [this] at hd; cases hd
  · rw [this] at hx; cases hx

/-- version is mandatory for root metadata -/
theorem root_needs_version (kvs : List (PStr × J)) (hty : dictGet (ps! "type") kvs = some (.str (ps! "root")))
    (hv : dictGet (ps! "version") kvs = none) : ¬ SignedOK (.obj kvs) := by
  rintro ⟨k', e, _, _, _, _, _, h, _⟩; cases e
  have := h hty; simp [dictHas, hv] at this

/-- at least one of version and timestamp -/
theorem needs_version_or_timestamp (kvs : List (PStr × J)) (h1 : dictGet (ps! "version") kvs = none)
    (h2 : dictGet (ps! "timestamp") kvs = none) : ¬ SignedOK (.obj kvs) := by
  rintro ⟨k', e, _, _, _, _, h, _⟩; cases e
  simp [dictHas, h1, h2] at h

/-- a duplicated key in a delegation's key list is rejected, under any spelling that the key validator accepts (there is only one) -/
theorem duplicate_key_rejected (ks : List J) (h : ¬ ((ks.map strOf).map unhex).Nodup) : ¬ KeyListOK (.arr ks) := by
  intro hk
  have : checkListOfHexKeysJ (.arr ks) = .ok () := by rw [checkListOfHexKeys_eq]; simp [hk]
  exact h (keylist_nodup_bytes ks this)

/-- **the verifiers never run into an internal error on anything the checker accepts**: with accepted trusted metadata
`verify_delegation` ends in acceptance or one of its documented errors, `verify_root` likewise -/
theorem accepted_never_internal (C : CryptoFns) (name : PStr) (u t : J) (gpg : Bool) (_ht : checkDelegatingMdJ t = .ok ()) :
    (verifyDelegationJ C name u t gpg).toBool = true ∨ ∃ e, verifyDelegationJ C name u t gpg = .error e ∧ e.documented = true := by
  rw [verifyDelegation_eq]
  by_cases h1 : ¬ Schema t ∨ isSignableJ u ≠ true
  · rw [if_pos h1]; right; exact ⟨_, rfl, rfl⟩
  · rw [if_neg h1]
    have hT : Schema t := by by_cases h : Schema t; exact h; exact absurd (Or.inl h) h1
    have hU : isSignableJ u = true := by by_cases h : isSignableJ u = true; exact h; exact absurd (Or.inr h) h1
    by_cases h2 : TypeMismatch name u
    · rw [if_pos h2]; right; exact ⟨_, rfl, rfl⟩
    · rw [if_neg h2]
      cases hr : roleOf t name with
      | none => right; exact ⟨_, rfl, rfl⟩
      | some d =>
        simp only [rule_verdict C gpg d u (mem_delegations_ok hT hr) hU]
        by_cases hm : RuleMet C gpg d u
        · left; simp [hm, Except.toBool]
        · right; simp only [hm, if_false]; exact ⟨_, rfl, rfl⟩

/-- **the checker does not look at what the unsigned signature map is indexed by**: two envelopes with the same signed part whose signature maps hold the
same entry *values* — filed under whatever indexes: other spellings of a key id, junk, the same entry twice under two spellings — get the same verdict -/
theorem signature_indexes_irrelevant (m m' : J) (entries entries' : List (PStr × J)) (signed : J)
    (hp : EnvParts m entries signed) (hp' : EnvParts m' entries' signed)
    (hv : ∀ v, v ∈ entries.map (·.2) ↔ v ∈ entries'.map (·.2)) :
    checkDelegatingMdJ m = checkDelegatingMdJ m' := by
  have one : ∀ (a a' : J) (e e' : List (PStr × J)), EnvParts a e signed → EnvParts a' e' signed →
      (∀ v, v ∈ e'.map (·.2) → v ∈ e.map (·.2)) → Schema a → Schema a' := by
    intro a a' e e' ha ha' hsub ⟨e0, s0, hq, hall, hs⟩
    obtain ⟨rfl, rfl⟩ := envParts_unique hq ha
    refine ⟨e', s0, ha', fun p hpm => ?_, hs⟩
    obtain ⟨q, hq1, hq2⟩ := List.mem_map.mp (hsub p.2 (List.mem_map_of_mem (f := (·.2)) hpm))
    have := hall q hq1
    rwa [hq2] at this
  have key : Schema m ↔ Schema m' :=
    ⟨one m m' entries entries' hp hp' (fun v h => (hv v).mpr h), one m' m entries' entries hp' hp (fun v h => (hv v).mp h)⟩
  rw [checkDelegatingMd_eq, checkDelegatingMd_eq]
  by_cases h : Schema m
  · simp [h, key.mp h]
  · have h' : ¬ Schema m' := fun x => h (key.mpr x)
    simp [h, h']

-- non-vacuity: a concrete document satisfying the schema, and the checker accepting it
def sampleMd : J :=
  .obj [(ps! "signatures", .obj []),
        (ps! "signed", .obj [(ps! "type", .str (ps! "root")), (ps! "metadata_spec_version", .str (ps! "0.6.0")),
          (ps! "delegations", .obj [(ps! "root", .obj [(ps! "pubkeys", .arr [.str (List.replicate 64 97)]), (ps! "threshold", .int 1)])]),
          (ps! "expiration", .str (ps! "2031-07-13T05:46:45Z")), (ps! "version", .int 1)])]
example : checkDelegatingMdJ sampleMd = .ok () := by decide +kernel
example : Schema sampleMd := (checker_iff_schema _).mp (by decide +kernel)

end CCT.C14
