import CCT.Model.Auth
/-! # C14 (theorems; work in progress) -/
namespace CCT.C14
open CCT
theorem placeholder : okU = .ok () := rfl
end CCT.C14
