import CCT.Model.Construct
import CCT.Props.C13
/-! # C16 — metadata constructors (theorems; more below) -/
namespace CCT.C16
open CCT CCT.C15
open Classical

def OkOrArgJ (r : Res J) : Prop := (∃ v, r = .ok v) ∨ r = .error .arg

theorem bind_okOrArg (a : Res Unit) (b : Res J) (ha : C13.OkOrArg a) (hb : OkOrArgJ b) : OkOrArgJ (a >>= fun _ => b) := by
  rcases ha with h | h <;> rw [h]
  · exact hb
  · right; rfl

theorem liftJ_okOrArg (f : J → Res Unit) (hf : ∀ x, C13.OkOrArg (f x)) (v : PyVal) : C13.OkOrArg (liftJ f v) :=
  C13.validators_families_anykind f hf v

/-- the builder returns metadata or raises an argument error — nothing else -/
theorem build_outcomes (now1 now2 : DateTime) (ty : PyVal) (dels : Option PyVal) (ver : PyVal) (ts exp : Option PyVal) :
    OkOrArgJ (buildDelegatingMd now1 now2 ty dels ver ts exp) := by
  unfold buildDelegatingMd
  have v := fun x => C13.validators_families x
  refine bind_okOrArg _ _ (liftJ_okOrArg _ (fun x => (v x).2.2.2.2.1) _) ?_
  refine bind_okOrArg _ _ (liftJ_okOrArg _ (fun x => (v x).2.2.2.2.2.2.1) _) ?_
  refine bind_okOrArg _ _ (liftJ_okOrArg _ (fun x => (v x).2.2.2.2.2.2.1) _) ?_
  refine bind_okOrArg _ _ (liftJ_okOrArg _ (fun x => (v x).2.2.2.1) _) ?_
  refine bind_okOrArg _ _ (liftJ_okOrArg _ (fun x => (v x).2.2.2.2.2.2.2.2.2.2.2.2.1) _) ?_
  split
  · left; exact ⟨_, rfl⟩
  · right; rfl

/-- every failure of the builder is an argument error -/
theorem build_err_is_argerror (now1 now2 : DateTime) (ty : PyVal) (dels : Option PyVal) (ver : PyVal) (ts exp : Option PyVal) (e : PyErr)
    (h : buildDelegatingMd now1 now2 ty dels ver ts exp = .error e) : e = .arg := by
  rcases build_outcomes now1 now2 ty dels ver ts exp with ⟨v, hv⟩ | hv <;> rw [hv] at h <;> cases h
  rfl

end CCT.C16
