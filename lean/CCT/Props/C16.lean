import CCT.Model.Construct
import CCT.Lemmas.TimeFmt
import CCT.Props.C13
import CCT.Props.C03
/-!
# C16 — metadata constructors emit only well-formed, faithful metadata

Model: `CCT/Model/Construct.lean` (`metadata_construction.py:36-164`, `common.py:902-918`).  The wall clock is a parameter (two readings);
the theorems about defaults assume valid readings whose expiry year is representable (≤ 9999; a clock in the year 9999 makes `datetime` overflow).
-/
namespace CCT.C16
open CCT CCT.C15
open Classical

def OkOrArgJ (r : Res J) : Prop := (∃ v, r = .ok v) ∨ r = .error .arg

theorem bind_okOrArg (a : Res Unit) (b : Res J) (ha : C13.OkOrArg a) (hb : OkOrArgJ b) : OkOrArgJ (a >>= fun _ => b) := by
  rcases ha with h | h <;> rw [h]
  · exact hb
  · right; rfl

theorem liftJ_okOrArg (f : J → Res Unit) (hf : ∀ x, C13.OkOrArg (f x)) (v : PyVal) : C13.OkOrArg (liftJ f v) :=
  C13.validators_families_anykind f hf v

/-- the builder returns metadata or raises an argument error — nothing else -/
theorem build_outcomes (now1 now2 : DateTime) (ty : PyVal) (dels : Option PyVal) (ver : PyVal) (ts exp : Option PyVal) :
    OkOrArgJ (buildDelegatingMd now1 now2 ty dels ver ts exp) := by
  unfold buildDelegatingMd
  have v := fun x => C13.validators_families x
  refine bind_okOrArg _ _ (liftJ_okOrArg _ (fun x => (v x).2.2.2.2.1) _) ?_
  refine bind_okOrArg _ _ (liftJ_okOrArg _ (fun x => (v x).2.2.2.2.2.2.1) _) ?_
  refine bind_okOrArg _ _ (liftJ_okOrArg _ (fun x => (v x).2.2.2.2.2.2.1) _) ?_
  refine bind_okOrArg _ _ (liftJ_okOrArg _ (fun x => (v x).2.2.2.1) _) ?_
  refine bind_okOrArg _ _ (liftJ_okOrArg _ (fun x => (v x).2.2.2.2.2.2.2.2.2.2.2.2.1) _) ?_
  split
  · left; exact ⟨_, rfl⟩
  · right; rfl

/-- every failure of the builder is an argument error -/
theorem build_err_is_argerror (now1 now2 : DateTime) (ty : PyVal) (dels : Option PyVal) (ver : PyVal) (ts exp : Option PyVal) (e : PyErr)
    (h : buildDelegatingMd now1 now2 ty dels ver ts exp = .error e) : e = .arg := by
  rcases build_outcomes now1 now2 ty dels ver ts exp with ⟨v, hv⟩ | hv <;> rw [hv] at h <;> cases h
  rfl

theorem liftJ_ok {f : J → Res Unit} {v : PyVal} (h : liftJ f v = .ok ()) : ∃ x, v = .j x ∧ f x = .ok () := by
  cases v <;> first | exact ⟨_, rfl, h⟩ | cases h

/-- what a successful call returns: the six fields, carrying the arguments verbatim and the library's specification version, and every
argument check passed -/
theorem build_ok_fields (now1 now2 : DateTime) (ty : PyVal) (dels : Option PyVal) (ver : PyVal) (ts exp : Option PyVal) (md : J)
    (h : buildDelegatingMd now1 now2 ty dels ver ts exp = .ok md) :
    ∃ t v tsv ex d, ty = .j t ∧ ver = .j v ∧ ts.getD (.j (.str (isoNowPlusDays now1 0))) = .j tsv ∧
      exp.getD (.j (.str (isoNowPlusDays now2 365))) = .j ex ∧ dels.getD (.j (.obj [])) = .j d ∧
      md = .obj [(ps! "type", t), (ps! "version", v), (ps! "metadata_spec_version", .str specVersion),
                 (ps! "timestamp", tsv), (ps! "expiration", ex), (ps! "delegations", d)] ∧
      checkStringJ t = .ok () ∧ checkUtcJ tsv = .ok () ∧ checkUtcJ ex = .ok () ∧ checkNaturalIntJ v = .ok () ∧ checkDelegationsJ d = .ok () := by
  unfold buildDelegatingMd at h
  simp only [bind, Except.bind] at h
  cases h1 : liftJ checkStringJ ty with
  | error e => rw [h1] at h; cases h
  | ok _ =>
  rw [h1] at h; simp only at h
  cases h2 : liftJ checkUtcJ (ts.getD (.j (.str (isoNowPlusDays now1 0)))) with
  | error e => rw [h2] at h; cases h
  | ok _ =>
  rw [h2] at h; simp only at h
  cases h3 : liftJ checkUtcJ (exp.getD (.j (.str (isoNowPlusDays now2 365)))) with
  | error e => rw [h3] at h; cases h
  | ok _ =>
  rw [h3] at h; simp only at h
  cases h4 : liftJ checkNaturalIntJ ver with
  | error e => rw [h4] at h; cases h
  | ok _ =>
  rw [h4] at h; simp only at h
  cases h5 : liftJ checkDelegationsJ (dels.getD (.j (.obj []))) with
  | error e => rw [h5] at h; cases h
  | ok _ =>
  rw [h5] at h; simp only at h
  obtain ⟨t, rfl, c1⟩ := liftJ_ok h1
  obtain ⟨tsv, e2, c2⟩ := liftJ_ok h2
  obtain ⟨ex, e3, c3⟩ := liftJ_ok h3
  obtain ⟨v, rfl, c4⟩ := liftJ_ok h4
  obtain ⟨d, e5, c5⟩ := liftJ_ok h5
  rw [e2, e3, e5] at h
  simp only [pure, Except.pure, Except.ok.injEq] at h
  exact ⟨t, v, tsv, ex, d, rfl, rfl, e2, e3, e5, h.symm, c1, c2, c3, c4, c5⟩

/-- the value wrapped as an envelope (no signatures yet) -/
def wrapped (md : J) : J := .obj [(ps! "signatures", .obj []), (ps! "signed", md)]

/-- **whatever is returned, once wrapped, passes the delegating-metadata checker** (for the supported types) and carries type, version,
timestamps and delegations verbatim plus the library's specification version -/
theorem build_ok_wellformed (now1 now2 : DateTime) (ty : PyVal) (dels : Option PyVal) (ver : PyVal) (ts exp : Option PyVal) (md : J)
    (h : buildDelegatingMd now1 now2 ty dels ver ts exp = .ok md) (tys : PStr) (hty : ty = .j (.str tys)) (hs : tys ∈ supportedDelegatingTypes) :
    checkDelegatingMdJ (wrapped md) = .ok () := by
  obtain ⟨t, v, tsv, ex, d, e1, _, _, _, _, hmd, _, c2, c3, c4, c5⟩ := build_ok_fields now1 now2 ty dels ver ts exp md h
  rw [hty] at e1; cases e1
  rw [(C14.checker_iff_schema _)]
  have hp : EnvParts (wrapped md) [] md :=
    ⟨by simp [wrapped, isSignableJ, keysetEq, dictKeys, dictGet], _, rfl, by simp [dictGet], by simp [dictGet]⟩
  refine ⟨[], md, hp, by simp, ?_⟩
  subst hmd
  refine ⟨_, rfl, ⟨tys, by simp [dictGet], hs⟩, ⟨specVersion, by simp [dictGet]⟩, ⟨d, by simp [dictGet], (C14.delegations_iff d).mp c5⟩,
    ⟨ex, by simp [dictGet], (C14.utc_iff ex).mp c3⟩, Or.inl (by simp [dictHas, dictGet]), (fun _ => by simp [dictHas, dictGet]), ?_, ?_⟩
  · intro t ht; simp [dictGet] at ht; subst ht; exact (C14.utc_iff _).mp c2
  · intro v' hv; simp [dictGet] at hv; subst hv; exact (C14.naturalInt_iff _).mp c4

/-- **the default timestamp and expiration are well-formed UTC strings, and the metadata expires strictly after its timestamp, one year
of days later**: with clock readings `now1 ≤ now2` (dates) the expiration date is later than the timestamp date -/
theorem default_times (now1 now2 : DateTime) (h1 : now1.valid = true) (h2 : now2.valid = true) (hy : (addDays 365 now2).year ≤ 9999) :
    checkUtcJ (.str (isoNowPlusDays now1 0)) = .ok () ∧ checkUtcJ (.str (isoNowPlusDays now2 365)) = .ok () ∧
    pyStrptimeUtc (isoNowPlusDays now1 0) = some now1 ∧ pyStrptimeUtc (isoNowPlusDays now2 365) = some (addDays 365 now2) ∧
    dateLt now2 (addDays 365 now2) := by
  have hv := addDays_valid' 365 now2 h2 hy
  have p1 := strptime_isoZ now1 h1
  have p2 := strptime_isoZ (addDays 365 now2) hv
  refine ⟨?_, ?_, p1, p2, (addDays_later 364 now2).1⟩
  · simp [checkUtcJ, isoNowPlusDays, addDays, p1, okU]
  · simp [checkUtcJ, isoNowPlusDays, p2, okU]

/-- **root metadata built by the wrapper always delegates both `root` and `key_mgr`** with the given keys and thresholds -/
theorem buildRoot_delegates_both (now0 now1 : DateTime) (ver rk rt kk kt : J) (ts exp : Option PyVal) (md : J)
    (h : buildRootMd now0 now1 (.j ver) (.j rk) (.j rt) (.j kk) (.j kt) ts exp = .ok md) :
    ∃ rest, md = .obj rest ∧ dictGet (ps! "type") rest = some (.str (ps! "root")) ∧
      dictGet (ps! "delegations") rest = some (.obj [(ps! "root", .obj [(ps! "pubkeys", rk), (ps! "threshold", rt)]),
                                                      (ps! "key_mgr", .obj [(ps! "pubkeys", kk), (ps! "threshold", kt)])]) := by
  unfold buildRootMd at h
  simp only at h
  obtain ⟨t, v, tsv, ex, d, e1, _, _, _, e5, hmd, _⟩ := build_ok_fields _ _ _ _ _ _ _ _ h
  cases e1
  simp only [Option.getD_some] at e5
  cases e5
  exact ⟨_, hmd, by simp [dictGet], by simp [dictGet]⟩

/-- … and is itself accepted by the checker as root metadata -/
theorem buildRoot_wellformed (now0 now1 : DateTime) (ver rk rt kk kt : J) (ts exp : Option PyVal) (md : J)
    (h : buildRootMd now0 now1 (.j ver) (.j rk) (.j rt) (.j kk) (.j kt) ts exp = .ok md) : checkDelegatingMdJ (wrapped md) = .ok () := by
  unfold buildRootMd at h
  exact build_ok_wellformed _ _ _ _ _ _ _ md h (ps! "root") rfl (by decide)

/-! ## built roots chain: C16 meets C03 -/

open CCT.C03

/-- what the builder puts into root metadata: the rule `{pubkeys, threshold}` under the name `root` -/
def ruleJ (keys thr : J) : J := .obj [(ps! "pubkeys", keys), (ps! "threshold", thr)]

/-- **an envelope around built root metadata — with any well-formed signature entries — is well-formed root metadata** that declares the
given root rule and the given version -/
theorem built_root_envelope (now0 now1 : DateTime) (ver rk rt kk kt : J) (ts exp : Option PyVal) (md : J)
    (h : buildRootMd now0 now1 (.j ver) (.j rk) (.j rt) (.j kk) (.j kt) ts exp = .ok md)
    (env : J) (entries : List (PStr × J)) (hp : EnvParts env entries md) (hs : ∀ p ∈ entries, AnySigOK p.2) :
    IsRootMd env ∧ rootRule env = ruleJ rk rt ∧ versionOf env = (asInt ver).getD 0 := by
  have hw := buildRoot_wellformed now0 now1 ver rk rt kk kt ts exp md h
  rw [C14.checker_iff_schema] at hw
  obtain ⟨e0, s0, hp0, _, hso⟩ := hw
  have hp1 : EnvParts (wrapped md) [] md :=
    ⟨by simp [wrapped, isSignableJ, keysetEq, dictKeys, dictGet], _, rfl, by simp [dictGet], by simp [dictGet]⟩
  obtain ⟨_, rfl⟩ := envParts_unique hp0 hp1
  have hschema : Schema env := ⟨entries, s0, hp, hs, hso⟩
  obtain ⟨rest, hmd, hty, hdel⟩ := buildRoot_delegates_both now0 now1 ver rk rt kk kt ts exp s0 h
  obtain ⟨_, top, rfl, _, hsd⟩ := hp
  have hsigned : signedOf (.obj top) = s0 := by simp [signedOf, jget, entryField, hsd]
  have hdels : delegationsOf (.obj top) = [(ps! "root", ruleJ rk rt), (ps! "key_mgr", ruleJ kk kt)] := by
    simp [delegationsOf, hsigned, hmd, jget, entryField, hdel, ruleJ]
  have hrole : roleOf (.obj top) (ps! "root") = some (ruleJ rk rt) := by simp [roleOf, hdels, dictGet]
  refine ⟨⟨hschema, ?_, by simp [hrole]⟩, by simp [rootRule, hrole], ?_⟩
  · simp [typeOf, hsigned, hmd, jget, entryField, hty]
  · unfold buildRootMd at h
    obtain ⟨t, v, tsv, ex, d, _, e2, _, _, _, hmd', _⟩ := build_ok_fields _ _ _ _ _ _ _ _ h
    cases e2
    subst hmd'
    simp [versionOf, hsigned, jget, entryField, dictGet]

/-- **built root metadata, once threshold-signed, verifies as the successor of the previous built version and so can authorize its own
successor**: roots `md₁` (version `v`) and `md₂` (version `v + 1`) from the builder; an envelope around `md₂` whose OpenPGP-mode signatures
meet `md₁`'s root keys / threshold and `md₂`'s own is accepted by `verify_root` on the basis of (an envelope around) `md₁` -/
theorem built_root_verifies_as_successor (C : CryptoFns)
    (nowA nowB nowC nowD : DateTime) (v1 rk1 rt1 kk1 kt1 v2 rk2 rt2 kk2 kt2 : J) (ts1 ex1 ts2 ex2 : Option PyVal) (md1 md2 : J)
    (h1 : buildRootMd nowA nowB (.j v1) (.j rk1) (.j rt1) (.j kk1) (.j kt1) ts1 ex1 = .ok md1)
    (h2 : buildRootMd nowC nowD (.j v2) (.j rk2) (.j rt2) (.j kk2) (.j kt2) ts2 ex2 = .ok md2)
    (hv : (asInt v2).getD 0 = (asInt v1).getD 0 + 1)
    (env1 env2 : J) (e1 e2 : List (PStr × J)) (hp1 : EnvParts env1 e1 md1) (hs1 : ∀ p ∈ e1, AnySigOK p.2)
    (hp2 : EnvParts env2 e2 md2) (hs2 : ∀ p ∈ e2, AnySigOK p.2)
    (hold : RuleMet C true (ruleJ rk1 rt1) env2) (hnew : RuleMet C true (ruleJ rk2 rt2) env2) :
    verifyRootJ C env1 env2 = .ok () := by
  obtain ⟨r1, q1, w1⟩ := built_root_envelope nowA nowB v1 rk1 rt1 kk1 kt1 ts1 ex1 md1 h1 env1 e1 hp1 hs1
  obtain ⟨r2, q2, w2⟩ := built_root_envelope nowC nowD v2 rk2 rt2 kk2 kt2 ts2 ex2 md2 h2 env2 e2 hp2 hs2
  rw [verifyRoot_iff]
  exact ⟨r1, r2, by rw [w1, w2, hv], by rw [q1]; exact hold, by rw [q2]; exact hnew⟩

/-- the hypotheses are satisfiable: the builder does return root metadata for ordinary arguments -/
example : (match buildRootMd ⟨2024, 5, 17, 10, 0, 0⟩ ⟨2024, 5, 17, 10, 0, 1⟩ (.j (.int 1))
    (.j (.arr [.str (List.replicate 64 97)])) (.j (.int 1)) (.j (.arr [.str (List.replicate 64 98)])) (.j (.int 1)) none none with
    | .ok _ => true | .error _ => false) = true := by decide +kernel

end CCT.C16
