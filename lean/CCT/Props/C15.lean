import CCT.Model.Common
/-! # C15 — leaf validators (theorems; work in progress) -/
namespace CCT.C15
open CCT

theorem placeholder_checkString (s : PStr) : checkStringJ (.str s) = .ok () := rfl

end CCT.C15
