import CCT.Lemmas.Hex
/-!
# C15 — leaf format validators decide exact grammars; one spelling per key

Every theorem is about the executable model of `common.py:286-643, 837-846` (`CCT/Model/Common.lean`),
for *every* JSON value.  `LowerHex s` is the grammar "non-empty, even length, only `0-9a-f`".
-/
namespace CCT.C15
open CCT
open Classical

/-- a `str` of exactly `n` lowercase hexadecimal ASCII characters -/
def HexN (n : Nat) (v : J) : Prop := ∃ s, v = .str s ∧ s.length = n ∧ ∀ c ∈ s, isLowerHexDigit c = true

/-- a non-empty even-length lowercase hex `str` -/
def HexStr (v : J) : Prop := ∃ s, v = .str s ∧ LowerHex s

theorem hexN_hexStr {n : Nat} {v : J} (hn : 0 < n) (he : n % 2 = 0) (h : HexN n v) : HexStr v := by
  obtain ⟨s, rfl, hl, hall⟩ := h
  refine ⟨s, rfl, ?_, by omega, hall⟩
  intro e; subst e; simp at hl; omega

/-- `checkformat_hex_string` accepts exactly the grammar, and otherwise raises an argument error -/
theorem checkHexString_iff (v : J) : checkHexStringJ v = .ok () ↔ HexStr v := by
  cases v with
  | str s =>
    rw [checkHexStringJ_str]
    constructor
    · intro h; by_cases hl : LowerHex s
      · exact ⟨s, rfl, hl⟩
      · simp [hl] at h
    · rintro ⟨t, ht, hl⟩; cases ht; simp [hl]
  | _ => constructor <;> intro h <;> first | (obtain ⟨_, h, _⟩ := h; cases h) | cases h

theorem checkHexString_total (v : J) : checkHexStringJ v = .ok () ∨ checkHexStringJ v = .error .arg := by
  cases v with
  | str s => rw [checkHexStringJ_str]; by_cases hl : LowerHex s <;> simp [hl]
  | _ => right; rfl

theorem isHexString_eq (v : J) : isHexStringJ v = .ok (decide (HexStr v)) := by
  unfold isHexStringJ
  rcases checkHexString_total v with h | h
  · have := (checkHexString_iff v).mp h
    simp [h, predOf, this]
  · have : ¬ HexStr v := fun hs => by rw [(checkHexString_iff v).mpr hs] at h; cases h
    simp [h, predOf, this]

theorem pyLenJ_str (s : PStr) : pyLenJ (.str s) = .ok s.length := rfl

/-- `checkformat_hex_key` accepts exactly 64 lowercase hexadecimal characters -/
theorem checkHexKey_iff (v : J) : checkHexKeyJ v = .ok () ↔ HexN 64 v := by
  unfold checkHexKeyJ
  rcases checkHexString_total v with h | h
  · obtain ⟨s, rfl, hl⟩ := (checkHexString_iff v).mp h
    simp only [h, bind, Except.bind, pyLenJ_str]
    constructor
    · intro hk
      by_cases h64 : s.length = 64
      · exact ⟨s, rfl, h64, hl.2.2⟩
      · simp [h64] at hk
    · rintro ⟨t, ht, h64, _⟩; cases ht; simp [h64, okU]
  · simp only [h, bind, Except.bind]
    constructor
    · intro hk; cases hk
    · intro hk
      have := (checkHexString_iff v).mpr (hexN_hexStr (by decide) (by decide) hk)
      rw [this] at h; cases h

theorem checkHexKey_total (v : J) : checkHexKeyJ v = .ok () ∨ checkHexKeyJ v = .error .arg := by
  unfold checkHexKeyJ
  rcases checkHexString_total v with h | h
  · obtain ⟨s, rfl, hl⟩ := (checkHexString_iff v).mp h
    simp only [h, bind, Except.bind, pyLenJ_str]
    by_cases h64 : s.length = 64 <;> simp [h64, okU]
  · simp [h, bind, Except.bind]

theorem isHexKey_eq (v : J) : isHexKeyJ v = .ok (decide (HexN 64 v)) := by
  unfold isHexKeyJ
  rcases checkHexKey_total v with h | h
  · have := (checkHexKey_iff v).mp h
    simp [h, predOf, this]
  · have : ¬ HexN 64 v := fun hs => by rw [(checkHexKey_iff v).mpr hs] at h; cases h
    simp [h, predOf, this]

/-- `is_hex_signature` is true exactly on 128 lowercase hexadecimal characters (and never raises) -/
theorem isHexSignature_eq (v : J) : isHexSignatureJ v = .ok (decide (HexN 128 v)) := by
  unfold isHexSignatureJ
  rw [isHexString_eq]
  by_cases hs : HexStr v
  · obtain ⟨s, rfl, hl⟩ := hs
    have : HexStr (.str s) := ⟨s, rfl, hl⟩
    simp only [this, decide_true, bind, Except.bind, pyLenJ_str, pure, Except.pure, if_true]
    congr 1
    by_cases h : s.length = 128
    · have : HexN 128 (.str s) := ⟨s, rfl, h, hl.2.2⟩
      simp [h, this]
    · have : ¬ HexN 128 (.str s) := by rintro ⟨t, ht, h', _⟩; cases ht; exact h h'
      simp [h, this]
  · have : ¬ HexN 128 v := fun h => hs (hexN_hexStr (by decide) (by decide) h)
    simp [hs, this, bind, Except.bind, pure, Except.pure]

/-- `checkformat_gpg_fingerprint` accepts exactly 40 lowercase hexadecimal characters -/
theorem checkGpgFingerprint_iff (v : J) : checkGpgFingerprintJ v = .ok () ↔ HexN 40 v := by
  cases v with
  | str s =>
    have key := hexString_tests_iff s
    simp only [checkGpgFingerprintJ, pyLenJ_str, bind, Except.bind]
    by_cases h40 : s.length = 40
    · simp only [h40, ne_eq, not_true_eq_false, if_false]
      constructor
      · intro h
        cases hp : pyFromHex s with
        | none => simp [hp] at h
        | some b =>
          simp only [hp] at h
          by_cases hx : (!asciiIsAlnum s || !asciiIsLower s) = true
          · simp [hx] at h
          · simp only [Bool.or_eq_true, Bool.not_eq_true', not_or, Bool.not_eq_false] at hx
            have := key.mp ⟨by rw [hp]; rfl, hx.1, hx.2⟩
            exact ⟨s, rfl, h40, this.2.2⟩
      · rintro ⟨t, ht, _, hall⟩; cases ht
        have hl : LowerHex s := ⟨by intro e; subst e; simp at h40, by omega, hall⟩
        have := key.mpr hl
        obtain ⟨b, hb⟩ := Option.isSome_iff_exists.mp this.1
        simp [hb, this.2.1, this.2.2, okU]
    · simp only [ne_eq, h40, not_false_eq_true, if_true]
      constructor
      · intro h; cases h
      · rintro ⟨t, ht, h', _⟩; cases ht; exact absurd h' h40
  | arr xs =>
    simp only [checkGpgFingerprintJ, pyLenJ, bind, Except.bind]
    constructor
    · intro h; split at h <;> cases h
    · rintro ⟨_, h, _⟩; cases h
  | obj kvs =>
    simp only [checkGpgFingerprintJ, pyLenJ, bind, Except.bind]
    constructor
    · intro h; split at h <;> cases h
    · rintro ⟨_, h, _⟩; cases h
  | _ => constructor <;> intro h <;> first | (obtain ⟨_, h, _⟩ := h; cases h) | cases h

theorem checkGpgFingerprint_total (v : J) : checkGpgFingerprintJ v = .ok () ∨ checkGpgFingerprintJ v = .error .arg := by
  cases v with
  | str s =>
    simp only [checkGpgFingerprintJ, pyLenJ_str, bind, Except.bind]
    split
    · right; rfl
    · cases pyFromHex s with
      | none => right; rfl
      | some b => simp only []; split <;> simp [okU]
  | arr xs => simp only [checkGpgFingerprintJ, pyLenJ, bind, Except.bind]; split <;> simp
  | obj kvs => simp only [checkGpgFingerprintJ, pyLenJ, bind, Except.bind]; split <;> simp
  | _ => right; rfl

theorem isGpgFingerprint_eq (v : J) : isGpgFingerprintJ v = .ok (decide (HexN 40 v)) := by
  unfold isGpgFingerprintJ
  rcases checkGpgFingerprint_total v with h | h
  · have := (checkGpgFingerprint_iff v).mp h
    simp [h, predOf, this]
  · have : ¬ HexN 40 v := fun hs => by rw [(checkGpgFingerprint_iff v).mpr hs] at h; cases h
    simp [h, predOf, this]

-- signature entries ---------------------------------------------------------------------------------

/-- the OpenPGP shape: exactly the fields `other_headers`, `signature` and optionally `see_also`, each of its grammar -/
def GpgShape (v : J) : Prop :=
  ∃ kvs, v = .obj kvs ∧
    (keysAre kvs [ps! "other_headers", ps! "signature"] = true ∨
     keysAre kvs [ps! "other_headers", ps! "see_also", ps! "signature"] = true) ∧
    (∃ h, dictGet (ps! "other_headers") kvs = some h ∧ HexStr h) ∧
    (∃ g, dictGet (ps! "signature") kvs = some g ∧ HexN 128 g) ∧
    (∀ f, dictGet (ps! "see_also") kvs = some f → HexN 40 f)

/-- the raw shape: exactly one field `signature` holding 128 lowercase hex characters -/
def RawShape (v : J) : Prop :=
  ∃ kvs, v = .obj kvs ∧ kvs.length = 1 ∧ ∃ g, dictGet (ps! "signature") kvs = some g ∧ HexN 128 g

theorem dictIndex_eq (k : PStr) (kvs : List (PStr × J)) :
    dictIndex k kvs = match dictGet k kvs with | some v => .ok v | none => .error .key := rfl

theorem dictGet_of_keysetEq {kvs : List (PStr × J)} {names : List PStr} {k : PStr}
    (h : keysetEq kvs names = true) (hk : k ∈ names) : ∃ v, dictGet k kvs = some v := by
  simp only [keysetEq, Bool.and_eq_true, List.all_eq_true] at h
  have := h.2 k hk
  simp only [dictKeys, List.contains_iff_mem, List.mem_map] at this
  obtain ⟨⟨k', v⟩, hm, rfl⟩ := this
  clear h
  induction kvs with
  | nil => cases hm
  | cons p r ih =>
    obtain ⟨k'', v''⟩ := p
    simp only [dictGet]
    by_cases e : k'' = k'
    · exact ⟨v'', by simp [e]⟩
    · simp only [e, if_false]
      rcases List.mem_cons.mp hm with h | h
      · cases h; exact absurd rfl e
      · exact ih h

/-- `checkformat_gpg_signature` accepts exactly the OpenPGP shape -/
theorem checkGpgSignature_iff (v : J) : checkGpgSignatureJ v = .ok () ↔ GpgShape v := by
  cases v with
  | obj kvs =>
    simp only [checkGpgSignatureJ, bind, Except.bind]
    by_cases hk : (keysAre kvs [ps! "other_headers", ps! "signature"] ||
         keysAre kvs [ps! "other_headers", ps! "see_also", ps! "signature"]) = true
    · have hk' := hk
      simp only [Bool.or_eq_true] at hk'
      have hset : ∃ names, keysetEq kvs names = true ∧ ps! "other_headers" ∈ names ∧ ps! "signature" ∈ names := by
        rcases hk' with h | h
        · simp only [keysAre, Bool.and_eq_true] at h; exact ⟨_, h.1, by simp, by simp⟩
        · simp only [keysAre, Bool.and_eq_true] at h; exact ⟨_, h.1, by simp, by simp⟩
      obtain ⟨names, hn, m1, m2⟩ := hset
      obtain ⟨oh, hoh⟩ := dictGet_of_keysetEq hn m1
      obtain ⟨sg, hsg⟩ := dictGet_of_keysetEq hn m2
      simp only [hk, Bool.not_true, Bool.false_eq_true, if_false, dictIndex_eq, hoh, hsg, isHexString_eq, isHexSignature_eq]
      by_cases h1 : HexStr oh
      · by_cases h2 : HexN 128 sg
        · simp only [h1, h2, decide_true, Bool.not_true, Bool.false_eq_true, if_false]
          cases hsa : dictGet (ps! "see_also") kvs with
          | none =>
            simp only [dictHas, hsa, Option.isSome_none, Bool.false_eq_true, if_false]
            constructor
            · intro _; exact ⟨kvs, rfl, hk', ⟨oh, hoh, h1⟩, ⟨sg, hsg, h2⟩, fun f hf => by rw [hsa] at hf; cases hf⟩
            · intro _; rfl
          | some sa =>
            simp only [dictHas, hsa, Option.isSome_some, if_true]
            rw [checkGpgFingerprint_iff]
            constructor
            · intro h3; exact ⟨kvs, rfl, hk', ⟨oh, hoh, h1⟩, ⟨sg, hsg, h2⟩, fun f hf => by rw [hsa] at hf; cases hf; exact h3⟩
            · rintro ⟨kvs', e, _, _, _, h5⟩; cases e; exact h5 sa hsa
        · simp only [h1, h2, decide_true, decide_false, Bool.not_true, Bool.not_false, Bool.false_eq_true, if_false, if_true]
          constructor
          · intro h; cases h
          · rintro ⟨kvs', e, _, _, ⟨g, hg, h4⟩, _⟩; cases e; rw [hsg] at hg; cases hg; exact absurd h4 h2
      · simp only [h1, decide_false, Bool.not_false, if_true]
        constructor
        · intro h; cases h
        · rintro ⟨kvs', e, _, ⟨h, hh, h3⟩, _⟩; cases e; rw [hoh] at hh; cases hh; exact absurd h3 h1
    · have hk2 : (keysAre kvs [ps! "other_headers", ps! "signature"] ||
         keysAre kvs [ps! "other_headers", ps! "see_also", ps! "signature"]) = false := by simpa using hk
      simp only [hk2, Bool.not_false, if_true]
      constructor
      · intro h; cases h
      · rintro ⟨kvs', e, h2, _⟩; cases e
        rcases h2 with h | h <;> simp [h] at hk2
  | _ => constructor <;> intro h <;> first | (obtain ⟨_, h, _⟩ := h; cases h) | cases h

theorem checkGpgSignature_total (v : J) : checkGpgSignatureJ v = .ok () ∨ checkGpgSignatureJ v = .error .arg := by
  by_cases h : GpgShape v
  · left; exact (checkGpgSignature_iff v).mpr h
  · right
    cases v with
    | obj kvs =>
      have hne : checkGpgSignatureJ (.obj kvs) ≠ .ok () := fun e => h ((checkGpgSignature_iff _).mp e)
      simp only [checkGpgSignatureJ, bind, Except.bind] at hne ⊢
      split
      · rfl
      · rename_i hk
        simp only [Bool.not_eq_true', Bool.not_eq_false] at hk
        have hk' := hk
        simp only [Bool.or_eq_true] at hk'
        have hset : ∃ names, keysetEq kvs names = true ∧ ps! "other_headers" ∈ names ∧ ps! "signature" ∈ names := by
          rcases hk' with h | h
          · simp only [keysAre, Bool.and_eq_true] at h; exact ⟨_, h.1, by simp, by simp⟩
          · simp only [keysAre, Bool.and_eq_true] at h; exact ⟨_, h.1, by simp, by simp⟩
        obtain ⟨names, hn, m1, m2⟩ := hset
        obtain ⟨oh, hoh⟩ := dictGet_of_keysetEq hn m1
        obtain ⟨sg, hsg⟩ := dictGet_of_keysetEq hn m2
        simp only [hk, Bool.not_true, Bool.false_eq_true, if_false, dictIndex_eq, hoh, hsg, isHexString_eq, isHexSignature_eq] at hne ⊢
        by_cases h1 : HexStr oh
        · by_cases h2 : HexN 128 sg
          · simp only [h1, h2, decide_true, Bool.not_true, Bool.false_eq_true, if_false] at hne ⊢
            cases hsa : dictGet (ps! "see_also") kvs with
            | none => simp [dictHas, hsa, okU] at hne
            | some sa =>
              simp only [dictHas, hsa, Option.isSome_some, if_true] at hne ⊢
              rcases checkGpgFingerprint_total sa with e | e
              · exact absurd e hne
              · exact e
          · simp [h1, h2]
        · simp [h1]
    | _ => rfl

theorem isGpgSignature_eq (v : J) : isGpgSignatureJ v = .ok (decide (GpgShape v)) := by
  unfold isGpgSignatureJ
  rcases checkGpgSignature_total v with h | h
  · have := (checkGpgSignature_iff v).mp h
    simp [h, predOf, this]
  · have : ¬ GpgShape v := fun hs => by rw [(checkGpgSignature_iff v).mpr hs] at h; cases h
    simp [h, predOf, this]

/-- `checkformat_signature` accepts exactly the raw or the OpenPGP shape -/
theorem checkSignature_iff (v : J) : checkSignatureJ v = .ok () ↔ RawShape v ∨ GpgShape v := by
  cases v with
  | obj kvs =>
    simp only [checkSignatureJ, bind, Except.bind, isGpgSignature_eq]
    cases hs : dictGet (ps! "signature") kvs with
    | none =>
      simp only [dictHas, hs, Option.isSome_none, Bool.false_eq_true, if_false, pure, Except.pure, Bool.not_false, if_true]
      constructor
      · intro h; cases h
      · rintro (⟨kvs', e, _, g, hg, _⟩ | ⟨kvs', e, _, _, ⟨g, hg, _⟩, _⟩) <;> cases e <;> rw [hs] at hg <;> cases hg
    | some sg =>
      simp only [dictHas, hs, Option.isSome_some, if_true, dictIndex_eq, isHexSignature_eq]
      by_cases h2 : HexN 128 sg
      · simp only [h2, decide_true, Bool.not_true, Bool.false_eq_true, if_false]
        by_cases h1 : kvs.length = 1
        · simp only [h1, beq_self_eq_true, if_true]
          constructor
          · intro _; left; exact ⟨kvs, rfl, h1, sg, hs, h2⟩
          · intro _; rfl
        · have : (kvs.length == 1) = false := by simpa using h1
          simp only [this, Bool.false_eq_true, if_false]
          by_cases hg : GpgShape (.obj kvs)
          · have e1 : decide (GpgShape (.obj kvs)) = true := by simp [hg]
            simp only [e1, if_true]
            constructor
            · intro _; right; exact hg
            · intro _; rfl
          · have e1 : decide (GpgShape (.obj kvs)) = false := by simp [hg]
            simp only [e1, Bool.false_eq_true, if_false]
            constructor
            · intro h; cases h
            · rintro (⟨kvs', e, hl, _⟩ | h)
              · cases e; exact absurd hl h1
              · exact absurd h hg
      · simp only [h2, decide_false, Bool.not_false, if_true]
        constructor
        · intro h; cases h
        · rintro (⟨kvs', e, _, g, hg, h4⟩ | ⟨kvs', e, _, _, ⟨g, hg, h4⟩, _⟩) <;> cases e <;> rw [hs] at hg <;> cases hg <;> exact absurd h4 h2
  | _ => constructor <;> intro h <;> first | (rcases h with ⟨_, h, _⟩ | ⟨_, h, _⟩ <;> cases h) | cases h

theorem checkSignature_total (v : J) : checkSignatureJ v = .ok () ∨ checkSignatureJ v = .error .arg := by
  cases v with
  | obj kvs =>
    simp only [checkSignatureJ, bind, Except.bind, isGpgSignature_eq]
    cases hs : dictGet (ps! "signature") kvs with
    | none => simp [dictHas, hs, pure, Except.pure]
    | some sg =>
      simp only [dictHas, hs, Option.isSome_some, if_true, dictIndex_eq, isHexSignature_eq]
      by_cases h2 : HexN 128 sg
      · simp only [h2, decide_true, Bool.not_true, Bool.false_eq_true, if_false]
        split
        · simp [okU]
        · split <;> simp [okU]
      · simp [h2]
  | _ => right; rfl

theorem isSignature_eq (v : J) : isSignatureJ v = .ok (decide (RawShape v ∨ GpgShape v)) := by
  unfold isSignatureJ
  rcases checkSignature_total v with h | h
  · have := (checkSignature_iff v).mp h
    simp [h, predOf, this]
  · have : ¬ (RawShape v ∨ GpgShape v) := fun hs => by rw [(checkSignature_iff v).mpr hs] at h; cases h
    simp [h, predOf, this]

/-- each predicate form agrees with its raising form on every input (six pairs): the predicate never raises,
and it is true exactly when the raiser returns normally -/
theorem pred_agrees (v : J) :
    (isHexStringJ v = .ok true ↔ checkHexStringJ v = .ok ()) ∧
    (isHexKeyJ v = .ok true ↔ checkHexKeyJ v = .ok ()) ∧
    (isGpgFingerprintJ v = .ok true ↔ checkGpgFingerprintJ v = .ok ()) ∧
    (isGpgSignatureJ v = .ok true ↔ checkGpgSignatureJ v = .ok ()) ∧
    (isSignatureJ v = .ok true ↔ checkSignatureJ v = .ok ()) ∧
    (∃ b, isHexStringJ v = .ok b) ∧ (∃ b, isHexKeyJ v = .ok b) ∧ (∃ b, isHexSignatureJ v = .ok b) ∧
    (∃ b, isGpgFingerprintJ v = .ok b) ∧ (∃ b, isGpgSignatureJ v = .ok b) ∧ (∃ b, isSignatureJ v = .ok b) := by
  refine ⟨?_, ?_, ?_, ?_, ?_, ⟨_, isHexString_eq v⟩, ⟨_, isHexKey_eq v⟩, ⟨_, isHexSignature_eq v⟩,
    ⟨_, isGpgFingerprint_eq v⟩, ⟨_, isGpgSignature_eq v⟩, ⟨_, isSignature_eq v⟩⟩
  · rw [isHexString_eq, checkHexString_iff]; simp
  · rw [isHexKey_eq, checkHexKey_iff]; simp
  · rw [isGpgFingerprint_eq, checkGpgFingerprint_iff]; simp
  · rw [isGpgSignature_eq, checkGpgSignature_iff]; simp
  · rw [isSignature_eq, checkSignature_iff]; simp

/-- distinct accepted key strings always denote distinct key bytes -/
theorem distinct_keys_distinct_bytes (a b : J) (ha : checkHexKeyJ a = .ok ()) (hb : checkHexKeyJ b = .ok ())
    (h : unhex (strOf a) = unhex (strOf b)) : a = b := by
  obtain ⟨s, rfl, hs⟩ := (checkHexString_iff a).mp ((checkHexString_iff a).mpr (hexN_hexStr (by decide) (by decide) ((checkHexKey_iff a).mp ha)))
  obtain ⟨t, rfl, ht⟩ := (checkHexString_iff b).mp ((checkHexString_iff b).mpr (hexN_hexStr (by decide) (by decide) ((checkHexKey_iff b).mp hb)))
  simp only [strOf] at h
  rw [unhex_injective s t hs ht h]

theorem checkKeysLoop_ok : ∀ (ks : List J), checkKeysLoop ks = .ok () → ∀ k ∈ ks, HexN 64 k
  | [], _, k, hk => by cases hk
  | x :: r, h, k, hk => by
    simp only [checkKeysLoop, bind, Except.bind] at h
    rcases checkHexKey_total x with e | e
    · rw [e] at h
      rcases List.mem_cons.mp hk with rfl | hk
      · exact (checkHexKey_iff _).mp e
      · exact checkKeysLoop_ok r h k hk
    · rw [e] at h; cases h

theorem hasDupStr_false : ∀ (l : List PStr), hasDupStr l = false → l.Nodup
  | [], _ => List.nodup_nil
  | x :: r, h => by
    simp only [hasDupStr, Bool.or_eq_false_iff, List.contains_eq_mem, decide_eq_false_iff_not] at h
    exact List.nodup_cons.mpr ⟨h.1, hasDupStr_false r h.2⟩

theorem nodup_map_on {α β : Type} {f : α → β} : ∀ {l : List α}, (∀ a ∈ l, ∀ b ∈ l, f a = f b → a = b) → l.Nodup → (l.map f).Nodup
  | [], _, _ => List.nodup_nil
  | x :: r, hinj, hnd => by
    have ⟨hx, hr⟩ := List.nodup_cons.mp hnd
    refine List.nodup_cons.mpr ⟨?_, nodup_map_on (fun a ha b hb => hinj a (by simp [ha]) b (by simp [hb])) hr⟩
    intro hm
    obtain ⟨y, hy, hxy⟩ := List.mem_map.mp hm
    have := hinj y (by simp [hy]) x (by simp) hxy
    exact hx (this ▸ hy)

/-- a key list accepted as duplicate-free contains no key twice under any spelling: the decoded byte strings are pairwise distinct -/
theorem keylist_nodup_bytes (ks : List J) (h : checkListOfHexKeysJ (.arr ks) = .ok ()) :
    ((ks.map strOf).map unhex).Nodup := by
  simp only [checkListOfHexKeysJ, bind, Except.bind] at h
  cases hl : checkKeysLoop ks with
  | error e => rw [hl] at h; cases h
  | ok u =>
    rw [hl] at h
    have hall := checkKeysLoop_ok ks hl
    have hnd : (ks.map strOf).Nodup := by
      apply hasDupStr_false
      cases hd : hasDupStr (ks.map strOf) with
      | false => rfl
      | true => simp [hd] at h
    refine nodup_map_on ?_ hnd
    intro a ha b hb hab
    simp only [List.mem_map] at ha hb
    obtain ⟨ja, hja, rfl⟩ := ha
    obtain ⟨jb, hjb, rfl⟩ := hb
    obtain ⟨s, rfl, hs64, hsall⟩ := hall ja hja
    obtain ⟨t, rfl, ht64, htall⟩ := hall jb hjb
    simp only [strOf] at hab ⊢
    exact unhex_injective s t ⟨by intro e; subst e; simp at hs64, by omega, hsall⟩
      ⟨by intro e; subst e; simp at ht64, by omega, htall⟩ hab

-- non-vacuity --------------------------------------------------------------------------------------
example : HexN 64 (.str (List.replicate 64 97)) := ⟨_, rfl, by simp, by simp [isLowerHexDigit]⟩
example : checkHexKeyJ (.str (List.replicate 64 97)) = .ok () := by decide
example : checkHexKeyJ (.str (List.replicate 64 65)) = .error .arg := by decide        -- upper case
example : checkHexKeyJ (.str (32 :: List.replicate 63 97)) = .error .arg := by decide  -- whitespace instead of a digit
example : checkSignatureJ (.obj [(ps! "signature", .str (List.replicate 128 48))]) = .ok () := by decide +kernel

end CCT.C15
