import CCT.Model.Auth
/-! # C05 (theorems; work in progress) -/
namespace CCT.C05
open CCT
theorem placeholder : okU = .ok () := rfl
end CCT.C05
