import CCT.Lemmas.Rules
import CCT.Props.C01
/-!
# C05 — the delegation check uses exactly the named role's keys and threshold

Model: `verifyDelegationJ` (`authentication.py:142-244`).  `Schema` is the documented format of delegating metadata
(C14), `roleOf t name` the delegation the *trusted* metadata lists under exactly that name, `RuleMet` the threshold
test of C01/C02 with that delegation's keys and threshold.
-/
namespace CCT.C05
open CCT CCT.C15
open Classical

/-- what the property demands for acceptance -/
def Spec (C : CryptoFns) (name : PStr) (u t : J) (gpg : Bool) : Prop :=
  Schema t ∧ isSignableJ u = true ∧ ¬ TypeMismatch name u ∧ ∃ d, roleOf t name = some d ∧ RuleMet C gpg d u

/-- **accepted iff** the trusted metadata is well formed, delegates to a role of exactly that name, that role's key set and
threshold are met by valid signatures on the untrusted envelope, and the untrusted metadata — if it is itself delegating
metadata — declares that role as its type -/
theorem verifyDelegation_iff (C : CryptoFns) (name : PStr) (u t : J) (gpg : Bool) :
    verifyDelegationJ C name u t gpg = .ok () ↔ Spec C name u t gpg := by
  rw [verifyDelegation_eq]
  by_cases h1 : ¬ Schema t ∨ isSignableJ u ≠ true
  · rw [if_pos h1]
    constructor
    · intro h; cases h
    · rintro ⟨hT, hU, _⟩; rcases h1 with h | h; exact absurd hT h; exact absurd hU h
  · rw [if_neg h1]
    have hT : Schema t := by by_cases h : Schema t; exact h; exact absurd (Or.inl h) h1
    have hU : isSignableJ u = true := by by_cases h : isSignableJ u = true; exact h; exact absurd (Or.inr h) h1
    by_cases h2 : TypeMismatch name u
    · rw [if_pos h2]
      constructor
      · intro h; cases h
      · rintro ⟨_, _, h, _⟩; exact absurd h2 h
    · rw [if_neg h2]
      cases hr : roleOf t name with
      | none =>
        constructor
        · intro h; cases h
        · rintro ⟨_, _, _, d, hd, _⟩; rw [hr] at hd; cases hd
      | some d =>
        simp only [rule_verdict C gpg d u (mem_delegations_ok hT hr) hU]
        by_cases hm : RuleMet C gpg d u
        · simp only [hm, if_true, true_iff]; exact ⟨hT, hU, h2, d, hr, hm⟩
        · simp only [hm, if_false]
          constructor
          · intro h; cases h
          · rintro ⟨_, _, _, d', hd', hm'⟩; rw [hr] at hd'; cases hd'; exact absurd hm' hm

/-- a role that is not delegated is reported as unknown rather than accepted -/
theorem unknown_role (C : CryptoFns) (name : PStr) (u t : J) (gpg : Bool) (hT : Schema t) (hU : isSignableJ u = true)
    (hm : ¬ TypeMismatch name u) (hr : roleOf t name = none) : verifyDelegationJ C name u t gpg = .error .unknownRole := by
  rw [verifyDelegation_eq, if_neg (by simp [hT, hU]), if_neg hm, hr]

/-- insufficient signatures for a delegated role are a signature error -/
theorem role_not_met (C : CryptoFns) (name : PStr) (u t : J) (gpg : Bool) (hT : Schema t) (hU : isSignableJ u = true)
    (hm : ¬ TypeMismatch name u) (d : J) (hr : roleOf t name = some d) (hn : ¬ RuleMet C gpg d u) :
    verifyDelegationJ C name u t gpg = .error .signature := by
  rw [verifyDelegation_eq, if_neg (by simp [hT, hU]), if_neg hm, hr]
  simp only [rule_verdict C gpg d u (mem_delegations_ok hT hr) hU, hn, if_false]

/-- keys listed only for other roles never count: whatever else the trusted metadata delegates, the verdict is a function of the
delegation it lists under `name` alone -/
theorem other_roles_irrelevant (C : CryptoFns) (name : PStr) (u t t' : J) (gpg : Bool) (hT : Schema t) (hT' : Schema t')
    (h : roleOf t name = roleOf t' name) : verifyDelegationJ C name u t gpg = verifyDelegationJ C name u t' gpg := by
  rw [verifyDelegation_eq, verifyDelegation_eq, h]
  simp [hT, hT']

/-- keys listed only inside the untrusted metadata never count: the verdict depends on the untrusted envelope only through
its signed portion and its signature entries, never through delegations it declares (they are just part of the signed bytes) -/
theorem only_keys_of_named_role_count (C : CryptoFns) (gpg : Bool) (d u : J) (k : PStr) (sig : J)
    (h : Counts C gpg (keysOf d) (ser (signedOf u)) k sig) : k ∈ keysOf d := h.2.1

/-- the threshold applied is the named role's -/
theorem needs_role_threshold (C : CryptoFns) (name : PStr) (u t : J) (gpg : Bool) (h : verifyDelegationJ C name u t gpg = .ok ()) :
    ∃ d, roleOf t name = some d ∧ ∃ S : List PStr, S.Nodup ∧ thrOf d ≤ S.length ∧ ∀ k ∈ S, k ∈ keysOf d := by
  obtain ⟨_, _, _, d, hd, hm⟩ := (verifyDelegation_iff C name u t gpg).mp h
  exact ⟨d, hd, C01.threshold_needs_enough_authorized C gpg _ _ _ _ hm⟩

end CCT.C05
