import CCT.Props.C07
import CCT.Props.C09
/-!
# C08 — persisting metadata never changes its trust status

Files are written as `ser v` (`write_metadata_to_file` = `canonserialize` then one `write`) and read by `loadBytes`
(`json.load` on the bytes: UTF-8 decoding, then `parse`).
-/
namespace CCT.C08
open CCT CCT.C07
open Classical

theorem utf8Decode_ascii : ∀ (l : List Nat) (f : Nat), l.length < f → (∀ b ∈ l, b < 128) → utf8Decode f l = some l
  | [], f, hf, _ => by
    match f, hf with
    | f+1, _ => rfl
  | b :: r, f, hf, h => by
    match f, hf with
    | f+1, hf =>
      have hb := h b (by simp)
      have ih := utf8Decode_ascii r f (by simp at hf; omega) (fun x hx => h x (by simp [hx]))
      simp [utf8Decode, hb, ih]

/-- **load ∘ write**: writing any well-formed value and loading the file back yields the same JSON value (its key-sorted form) -/
theorem load_write (v : J) (hv : v.WF) : loadBytes (ser v) = some (canon v) := by
  have hasc : ∀ b ∈ ser v, b < 128 := by
    intro b hb; rcases ser_ascii v hv b hb with h | h <;> omega
  have hne : ∀ r, ser v ≠ 0xef :: 0xbb :: 0xbf :: r := by
    intro r e
    have := hasc 0xef (by rw [e]; simp)
    omega
  unfold loadBytes
  have : (match ser v with | 0xef :: 0xbb :: 0xbf :: r => r | r => r) = ser v := by
    split
    · rename_i r e; exact absurd e (hne r)
    · rfl
  simp only [this, utf8Decode_ascii (ser v) _ (Nat.lt_succ_self _) hasc]
  exact parse_ser v hv

/-- **the file written is itself in canonical form**: re-writing what was loaded reproduces the file byte for byte -/
theorem written_canonical (v : J) (hv : v.WF) : (loadBytes (ser v)).map ser = some (ser v) := by
  rw [load_write v hv]; simp [ser_canon v hv]

/-- `n` write/load cycles of a value -/
def cycles : Nat → J → J
  | 0, v => v
  | n+1, v => cycles n (canon v)

/-- **unchanged canonical bytes**: any number of write/load cycles leaves the bytes that are signed and verified unchanged, and
the value stays in the domain -/
theorem cycles_preserve_bytes : ∀ (n : Nat) (v : J), v.WF → (cycles n v).WF ∧ ser (cycles n v) = ser v
  | 0, _, hv => ⟨hv, rfl⟩
  | n+1, v, hv => by
    have := cycles_preserve_bytes n (canon v) (canon_wf v hv)
    exact ⟨this.1, by simp only [cycles]; rw [this.2, ser_canon v hv]⟩

/-- **adding a signature to a stored envelope never invalidates or alters the signatures already present** -/
theorem add_signature_preserves_others (entries : List (PStr × J)) (C : CryptoFns) (seed : Bytes) (signed : J) (k : PStr)
    (hk : k ≠ C09.pubHex C seed) :
    dictGet k (dictSet entries (C09.pubHex C seed) (C09.sigEntry C seed signed)) = dictGet k entries :=
  C09.sign_other_entries k entries C seed signed hk

/-- … and entries that counted before still count afterwards: signing leaves the payload, hence its canonical bytes, unchanged -/
theorem add_signature_keeps_counting (C : CryptoFns) (gpg : Bool) (auth : List PStr) (signed : J) (entries : List (PStr × J)) (seed : Bytes)
    (thr : Nat) (h : ThresholdMet C gpg auth (ser signed) (entries.filter (fun p => p.1 ≠ C09.pubHex C seed)) thr) :
    ThresholdMet C gpg auth (ser signed) (dictSet entries (C09.pubHex C seed) (C09.sigEntry C seed signed)) thr := by
  obtain ⟨S, hS, hl, hall⟩ := h
  refine ⟨S, hS, hl, fun k hk => ?_⟩
  obtain ⟨sig, hm, hc⟩ := hall k hk
  simp only [List.mem_filter, decide_eq_true_eq] at hm
  exact ⟨sig, mem_dictSet_of_mem_ne _ _ _ _ hm.1 hm.2, hc⟩

end CCT.C08
