import CCT.Lemmas.ParseWF
import CCT.Props.C07
import CCT.Props.C09
import CCT.Lemmas.CanonInv3
import CCT.Model.Files
/-!
# C08 — persisting metadata never changes its trust status

Files are written as `ser v` (`write_metadata_to_file` = `canonserialize` then one `write`) and read by `loadBytes`
(`json.load` on the bytes: UTF-8 decoding, then `parse`).
-/
namespace CCT.C08
open CCT CCT.C07
open Classical

theorem utf8Decode_ascii : ∀ (l : List Nat) (f : Nat), l.length < f → (∀ b ∈ l, b < 128) → utf8Decode f l = some l
  | [], f, hf, _ => by
    match f, hf with
    | f+1, _ => rfl
  | b :: r, f, hf, h => by
    match f, hf with
    | f+1, hf =>
      have hb := h b (by simp)
      have ih := utf8Decode_ascii r f (by simp at hf; omega) (fun x hx => h x (by simp [hx]))
      simp [utf8Decode, hb, ih]

/-- **load ∘ write**: writing any well-formed value and loading the file back yields the same JSON value (its key-sorted form) -/
theorem load_write (v : J) (hv : v.WF) : loadBytes (ser v) = some (canon v) := by
  have hasc : ∀ b ∈ ser v, b < 128 := by
    intro b hb; rcases ser_ascii v hv b hb with h | h <;> omega
  have hne : ∀ r, ser v ≠ 0xef :: 0xbb :: 0xbf :: r := by
    intro r e
    have := hasc 0xef (by rw [e]; simp)
    omega
  unfold loadBytes
  have : (match ser v with | 0xef :: 0xbb :: 0xbf :: r => r | r => r) = ser v := by
    split
    · rename_i r e; exact absurd e (hne r)
    · rfl
  simp only [this, utf8Decode_ascii (ser v) _ (Nat.lt_succ_self _) hasc]
  exact parse_ser v hv

/-- **the file written is itself in canonical form**: re-writing what was loaded reproduces the file byte for byte -/
theorem written_canonical (v : J) (hv : v.WF) : (loadBytes (ser v)).map ser = some (ser v) := by
  rw [load_write v hv]; simp [ser_canon v hv]

/-- `n` write/load cycles of a value -/
def cycles : Nat → J → J
  | 0, v => v
  | n+1, v => cycles n (canon v)

/-- **unchanged canonical bytes**: any number of write/load cycles leaves the bytes that are signed and verified unchanged, and
the value stays in the domain -/
theorem cycles_preserve_bytes : ∀ (n : Nat) (v : J), v.WF → (cycles n v).WF ∧ ser (cycles n v) = ser v
  | 0, _, hv => ⟨hv, rfl⟩
  | n+1, v, hv => by
    have := cycles_preserve_bytes n (canon v) (canon_wf v hv)
    exact ⟨this.1, by simp only [cycles]; rw [this.2, ser_canon v hv]⟩

/-- **adding a signature to a stored envelope never invalidates or alters the signatures already present** -/
theorem add_signature_preserves_others (entries : List (PStr × J)) (C : CryptoFns) (seed : Bytes) (signed : J) (k : PStr)
    (hk : k ≠ C09.pubHex C seed) :
    dictGet k (dictSet entries (C09.pubHex C seed) (C09.sigEntry C seed signed)) = dictGet k entries :=
  C09.sign_other_entries k entries C seed signed hk

/-- … and entries that counted before still count afterwards: signing leaves the payload, hence its canonical bytes, unchanged -/
theorem add_signature_keeps_counting (C : CryptoFns) (gpg : Bool) (auth : List PStr) (signed : J) (entries : List (PStr × J)) (seed : Bytes)
    (thr : Nat) (h : ThresholdMet C gpg auth (ser signed) (entries.filter (fun p => p.1 ≠ C09.pubHex C seed)) thr) :
    ThresholdMet C gpg auth (ser signed) (dictSet entries (C09.pubHex C seed) (C09.sigEntry C seed signed)) thr := by
  obtain ⟨S, hS, hl, hall⟩ := h
  refine ⟨S, hS, hl, fun k hk => ?_⟩
  obtain ⟨sig, hm, hc⟩ := hall k hk
  simp only [List.mem_filter, decide_eq_true_eq] at hm
  exact ⟨sig, mem_dictSet_of_mem_ne _ _ _ _ hm.1 hm.2, hc⟩

-- verdicts under persistence (Lemmas/CanonInv*.lean) --------------------------------------------------------------------

/-- **every verification verdict is the same before and after a write/load cycle**: the value loaded back from the file the library wrote
gets the same verdict from all three verifiers as the value in memory (all arguments well-formed JSON values) -/
theorem reload_preserves_verdicts (C : CryptoFns) (env trusted : J) (he : env.WF) (ht : trusted.WF) :
    ∃ env' trusted', loadBytes (ser env) = some env' ∧ loadBytes (ser trusted) = some trusted' ∧
      (∀ keys thr gpg, verifySignableJ C env' keys thr gpg = verifySignableJ C env keys thr gpg) ∧
      (∀ name gpg, verifyDelegationJ C name env' trusted' gpg = verifyDelegationJ C name env trusted gpg) ∧
      verifyRootJ C trusted' env' = verifyRootJ C trusted env :=
  ⟨canon env, canon trusted, load_write env he, load_write trusted ht,
    fun keys thr gpg => verifySignable_canon C env keys thr gpg he,
    fun name gpg => verifyDelegation_canon C name env trusted gpg he ht,
    verifyRoot_canon C trusted env ht he⟩

/-- … and after any number of such cycles -/
theorem cycles_preserve_verdicts (C : CryptoFns) : ∀ (n : Nat) (env : J), env.WF → ∀ keys thr gpg,
    verifySignableJ C (cycles n env) keys thr gpg = verifySignableJ C env keys thr gpg
  | 0, _, _, _, _, _ => rfl
  | n + 1, env, he, keys, thr, gpg => by
    simp only [cycles]
    rw [cycles_preserve_verdicts C n (canon env) (canon_wf env he), verifySignable_canon C env keys thr gpg he]

/-- reloading only the trusted side (what a client does with its cached root) does not change the verdict on an offer -/
theorem reload_trusted_only (C : CryptoFns) (t u : J) (ht : t.WF) (hu : u.WF) : verifyRootJ C (canon t) u = verifyRootJ C t u := by
  have a := verifyRoot_canon C t u ht hu
  have b := verifyRoot_canon C (canon t) u (canon_wf t ht) hu
  rw [canon_idem t ht] at b
  rw [← b, a]


/-! ## values that came from files are well-formed (parser soundness, `Lemmas/ParseWF.lean`) -/

-- ---------------------------------------------------------------------------------------------------------------------
-- named files (Model/Files.lean)

/-- **what a write leaves in the named file does not depend on what was there**: two file systems, whatever they hold under the name (a file another
tool left there — final newline, BOM, other layout, longer, shorter, nothing), hold the same thing under it after the same value was written -/
theorem write_over_anything (fs fs' : FS) (name : PStr) (v : J) (g g' : FS) (h : writeMd fs name v = some g) (h' : writeMd fs' name v = some g') :
    g name = g' name ∧ g name = some (ser v) := by
  simp only [writeMd, Option.map_eq_some_iff] at h h'
  obtain ⟨b, hb, rfl⟩ := h
  obtain ⟨b', hb', rfl⟩ := h'
  have e : b = b' := by rw [hb] at hb'; exact Option.some.inj hb'
  subst e
  have : b = ser v := by
    unfold serPy at hb
    split at hb
    · exact (Option.some.inj hb).symm
    · cases hb
  simp [FS.put, this]

/-- **a write touches the named file only** (no sibling, temporary or backup file appears or changes) -/
theorem write_frame (fs g : FS) (name other : PStr) (v : J) (h : writeMd fs name v = some g) (hne : other ≠ name) : g other = fs other := by
  simp only [writeMd, Option.map_eq_some_iff] at h
  obtain ⟨b, _, rfl⟩ := h
  simp [FS.put, hne]

/-- **write, then load under the same name** gives the (key-sorted) value back, for every well-formed value and whatever the file system held -/
theorem write_then_load (fs : FS) (name : PStr) (v : J) (hv : v.WF) : ∃ g, writeMd fs name v = some g ∧ loadMd g name = some (canon v) := by
  refine ⟨fs.put name (ser v), by simp [writeMd, C07.serPy_total_on_wf v hv], ?_⟩
  simp [loadMd, FS.put, load_write v hv]

/-- a refused value (an in-memory integer beyond the interpreter's conversion limit) leaves every file as it was: serialization comes before the open -/
theorem refused_write_touches_nothing (fs : FS) (name : PStr) (v : J) (h : serPy v = none) : writeMd fs name v = none := by
  simp [writeMd, h]

/-- **signing a stored file in place touches that file only**, and fails without touching anything when the file is missing or is not an envelope -/
theorem signFile_frame (C : CryptoFns) (fs g : FS) (name other : PStr) (seed : Bytes) (h : signFile C fs name seed = some g) (hne : other ≠ name) :
    g other = fs other := by
  unfold signFile at h
  split at h
  · cases h
  · split at h
    · exact write_frame fs g name other _ h hne
    · cases h

-- ---------------------------------------------------------------------------------------------------------------------
-- member order is no part of a value

/-- **the order in which the members of any object were inserted — at any depth, in either argument — never matters to a verdict**: two presentations of the
same JSON values (equal after key-sorting) get the same answer from `verify_signable`, `verify_delegation`, `verify_root` and the checker.  (In particular a
trusted delegation spelled `{"threshold": …, "pubkeys": …}` is the delegation spelled the other way round.) -/
theorem member_order_irrelevant (C : CryptoFns) (name : PStr) (u u' t t' keys thr : J) (gpg : Bool)
    (hu : u.WF) (hu' : u'.WF) (ht : t.WF) (ht' : t'.WF) (eu : canon u = canon u') (et : canon t = canon t') :
    verifySignableJ C u keys thr gpg = verifySignableJ C u' keys thr gpg ∧
    verifyDelegationJ C name u t gpg = verifyDelegationJ C name u' t' gpg ∧
    verifyRootJ C t u = verifyRootJ C t' u' ∧
    checkDelegatingMdJ t = checkDelegatingMdJ t' := by
  refine ⟨?_, ?_, ?_, ?_⟩
  · rw [← verifySignable_canon C u keys thr gpg hu, ← verifySignable_canon C u' keys thr gpg hu', eu]
  · rw [← verifyDelegation_canon C name u t gpg hu ht, ← verifyDelegation_canon C name u' t' gpg hu' ht', eu, et]
  · rw [← verifyRoot_canon C t u ht hu, ← verifyRoot_canon C t' u' ht' hu', eu, et]
  · rw [checkDelegatingMd_eq, checkDelegatingMd_eq]
    have : Schema t ↔ Schema t' := by rw [← schema_canon t ht, ← schema_canon t' ht', et]
    by_cases h : Schema t
    · simp [h, this.mp h]
    · have h' : ¬ Schema t' := fun x => h (this.mpr x)
      simp [h, h']

-- the hypothesis is met by the two spellings of a delegation
example : ser (canon (.obj [(ps! "threshold", .int 1), (ps! "pubkeys", .arr [])])) = ser (canon (.obj [(ps! "pubkeys", .arr []), (ps! "threshold", .int 1)])) := by
  decide +kernel

/-- **every value loaded from a strict-UTF-8 file is a well-formed JSON value** — so the well-formedness hypothesis of the theorems of this
file (and of C04, C07) holds for everything that `load_metadata_from_file` returned for such a file -/
theorem loaded_is_wf (b : Bytes) (v : J) (hb : NoSurLead b) (h : loadBytes b = some v) : v.WF := load_wf hb h

/-- the files the library writes are ASCII, hence strict UTF-8 -/
theorem written_is_strict (v : J) (hv : v.WF) : NoSurLead (ser v) :=
  noSurLead_ascii _ fun b hb => by rcases C07.ser_ascii v hv b hb with h | h <;> omega

/-- **persistence, stated on files**: metadata loaded from any two strict-UTF-8 files, written back by the library and loaded again,
gets the same verdict from all three verifiers; and the files written are fixed points of load-then-write -/
theorem file_cycle_preserves_verdicts (C : CryptoFns) (be bt : Bytes) (env trusted : J) (hbe : NoSurLead be) (hbt : NoSurLead bt)
    (he : loadBytes be = some env) (ht : loadBytes bt = some trusted) :
    ∃ env' trusted', loadBytes (ser env) = some env' ∧ loadBytes (ser trusted) = some trusted' ∧
      ser env' = ser env ∧ ser trusted' = ser trusted ∧
      (∀ keys thr gpg, verifySignableJ C env' keys thr gpg = verifySignableJ C env keys thr gpg) ∧
      (∀ name gpg, verifyDelegationJ C name env' trusted' gpg = verifyDelegationJ C name env trusted gpg) ∧
      verifyRootJ C trusted' env' = verifyRootJ C trusted env := by
  have we := load_wf hbe he
  have wt := load_wf hbt ht
  obtain ⟨e', t', h1, h2, h3, h4, h5⟩ := reload_preserves_verdicts C env trusted we wt
  have c1 := load_write env we
  have c2 := load_write trusted wt
  rw [h1] at c1; rw [h2] at c2
  cases c1; cases c2
  exact ⟨_, _, h1, h2, ser_canon env we, ser_canon trusted wt, h3, h4, h5⟩

end CCT.C08
