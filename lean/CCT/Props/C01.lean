import CCT.Lemmas.VerifySignable
import CCT.Model.Diagnostics
/-!
# C01 — threshold soundness: no acceptance without enough valid authorized signers

Model: `verifySignableJ` (`authentication.py:301-464`).  `Counts` (CCT/Lemmas/Threshold.lean) is the declarative
"this entry contributes"; `ThresholdMet` says `thr` *distinct* keys each have a counting entry filed under them.
All statements hold for every `CryptoFns` (no assumption on the signature scheme) and every JSON value.
-/
namespace CCT.C01
open CCT CCT.C15
open Classical

/-- **soundness**: acceptance implies that the arguments are well typed and that at least `threshold` distinct authorized keys
each have, filed under their own canonical key string, an entry of the mode's shape whose signature verifies over the canonical
bytes of exactly the payload presented -/
theorem verifySignable_sound (C : CryptoFns) (env keys thr : J) (gpg : Bool) (h : verifySignableJ C env keys thr gpg = .ok ()) :
    ∃ entries signed ks t, EnvParts env entries signed ∧ keys = .arr ks ∧ (∀ k ∈ ks, HexN 64 k) ∧ asInt thr = some t ∧ 0 < t ∧
      ThresholdMet C gpg (ks.map strOf) (ser signed) entries t.toNat := by
  by_cases hw : WellTyped env keys thr
  · obtain ⟨hs, ⟨ks, rfl, hk⟩, t, ht, hpos⟩ := hw
    obtain ⟨entries, signed, hp⟩ := isSignable_parts hs
    rw [verifySignable_welltyped C env _ thr gpg entries signed ks t hp rfl hk ht hpos] at h
    refine ⟨entries, signed, ks, t, hp, rfl, hk, ht, hpos, ?_⟩
    by_cases hm : ThresholdMet C gpg (ks.map strOf) (ser signed) entries t.toNat
    · exact hm
    · simp [hm] at h
  · rw [verifySignable_illtyped C env keys thr gpg hw] at h; cases h

/-- the only outcomes: accept, argument error, signature error -/
theorem verifySignable_outcomes (C : CryptoFns) (env keys thr : J) (gpg : Bool) :
    verifySignableJ C env keys thr gpg = .ok () ∨ verifySignableJ C env keys thr gpg = .error .arg ∨
    verifySignableJ C env keys thr gpg = .error .signature := by
  by_cases hw : WellTyped env keys thr
  · obtain ⟨hs, ⟨ks, rfl, hk⟩, t, ht, hpos⟩ := hw
    obtain ⟨entries, signed, hp⟩ := isSignable_parts hs
    rw [verifySignable_welltyped C env _ thr gpg entries signed ks t hp rfl hk ht hpos]
    by_cases hm : ThresholdMet C gpg (ks.map strOf) (ser signed) entries t.toNat <;> simp [hm]
  · right; left; exact verifySignable_illtyped C env keys thr gpg hw

/-- signatures by unauthorized keys never contribute -/
theorem unauthorized_never_counts (C : CryptoFns) (gpg : Bool) (auth : List PStr) (data : Bytes) (k : PStr) (sig : J)
    (h : k ∉ auth) : ¬ Counts C gpg auth data k sig := fun hc => h hc.2.1

/-- alternative spellings of a key (upper case, whitespace, prefixes, non-ASCII digits, wrong length) never contribute -/
theorem alternative_spelling_never_counts (C : CryptoFns) (gpg : Bool) (auth : List PStr) (data : Bytes) (k : PStr) (sig : J)
    (h : ¬ HexN 64 (.str k)) : ¬ Counts C gpg auth data k sig := fun hc => h hc.1

/-- malformed entries never contribute -/
theorem malformed_never_counts (C : CryptoFns) (gpg : Bool) (auth : List PStr) (data : Bytes) (k : PStr) (sig : J)
    (h : ¬ (RawShape sig ∨ GpgShape sig)) : ¬ Counts C gpg auth data k sig := by
  rintro ⟨_, _, h3⟩
  cases gpg with
  | true => simp at h3; exact h (Or.inr h3.1)
  | false => simp at h3; exact h h3.1

/-- in OpenPGP mode a raw-shaped entry never contributes, however valid its signature is over the payload -/
theorem raw_entry_never_counts_in_gpg_mode (C : CryptoFns) (auth : List PStr) (data : Bytes) (k : PStr) (sig : J)
    (h : ¬ GpgShape sig) : ¬ Counts C true auth data k sig := by
  rintro ⟨_, _, h3⟩; simp at h3; exact h h3.1

/-- corrupted signatures, signatures over any other payload and mis-filed entries never contribute: an entry counts only if the
primitive accepts its signature bytes under *the key it is filed under* for *the bytes of the presented payload* -/
theorem invalid_never_counts (C : CryptoFns) (auth : List PStr) (data : Bytes) (k : PStr) (sig : J)
    (h : C.verify (unhex k) data (unhex (strOf (entryField (ps! "signature") sig))) = false) : ¬ Counts C false auth data k sig := by
  rintro ⟨_, _, h3⟩; simp at h3; rw [h] at h3; exact absurd h3.2 (by simp)

theorem invalid_never_counts_gpg (C : CryptoFns) (auth : List PStr) (data : Bytes) (k : PStr) (sig : J)
    (h : C.verify (unhex k) (gpgDigest C data (unhex (strOf (entryField (ps! "other_headers") sig))))
       (unhex (strOf (entryField (ps! "signature") sig))) = false) : ¬ Counts C true auth data k sig := by
  rintro ⟨_, _, h3⟩; simp at h3; rw [h] at h3; exact absurd h3.2 (by simp)

/-- **soundness does not depend on a diagnostic having been printed**: whatever standard output does — takes text, fails on every write, is absent — an
envelope accepted under it is accepted by `verify_signable` proper (and so has threshold-many valid authorized signers: `verifySignable_sound`); on a failing
standard output a call either gives its usual answer or fails with the error of the `print` — it never turns a rejection into an acceptance -/
theorem sound_under_any_stdout (C : CryptoFns) (st : Stdout) (env keys thr : J) (gpg : Bool)
    (h : verifySignableUnder C st env keys thr gpg = .ok ()) : verifySignableJ C env keys thr gpg = .ok () := by
  unfold verifySignableUnder at h
  split at h
  · cases h
  · split at h
    · cases h
    · exact h
  · exact h

theorem absent_stdout_same_verdict (C : CryptoFns) (env keys thr : J) (gpg : Bool) :
    verifySignableUnder C .absent env keys thr gpg = verifySignableJ C env keys thr gpg := by
  unfold verifySignableUnder; split <;> simp_all

theorem failing_stdout_outcomes (C : CryptoFns) (env keys thr : J) (gpg : Bool) :
    verifySignableUnder C .failing env keys thr gpg = verifySignableJ C env keys thr gpg ∨ verifySignableUnder C .failing env keys thr gpg = .error .os := by
  unfold verifySignableUnder
  cases hr : verifySignableJ C env keys thr gpg with
  | ok u => by_cases hn : anyNote C env keys gpg = true <;> simp [hn]
  | error e => cases e <;> (by_cases hn : anyNote C env keys gpg = true <;> simp [hn])

/-- **the model's per-entry case split agrees with the declarative notion**: an entry is classified `counts` exactly when it counts (canonical key, authorized,
shape of the mode, primitive accepts) — and the loop never fails on an entry (`error` does not occur).  The driver reports this class for every entry of
every generated envelope; the harness compares it, entry by entry, with its independent oracle. -/
theorem entryClass_counts_iff (C : CryptoFns) (gpg : Bool) (auth : List PStr) (data : Bytes) (k : PStr) (sig : J) :
    (entryClass C gpg auth data k sig = .counts ↔ Counts C gpg auth data k sig) ∧ entryClass C gpg auth data k sig ≠ .error := by
  unfold entryClass
  rw [verifyEntry_eq]
  by_cases h : Counts C gpg auth data k sig
  · simp [h, dictSet]
  · simp only [h, if_false]
    constructor
    · constructor
      · intro hc
        repeat' split at hc
        all_goals cases hc
      · intro hc; exact False.elim hc
    · repeat' split
      all_goals simp

/-- no key contributes more than once — not even under two spellings: the counted keys are pairwise distinct as *byte strings* -/
theorem counted_keys_distinct_bytes (C : CryptoFns) (gpg : Bool) (auth : List PStr) (data : Bytes) (entries : List (PStr × J)) (thr : Nat)
    (h : ThresholdMet C gpg auth data entries thr) :
    ∃ S : List PStr, (S.map unhex).Nodup ∧ thr ≤ S.length ∧ ∀ k ∈ S, ∃ sig, (k, sig) ∈ entries ∧ Counts C gpg auth data k sig := by
  obtain ⟨S, hS, hl, hall⟩ := h
  refine ⟨S, ?_, hl, hall⟩
  refine nodup_map_on ?_ hS
  intro a ha b hb hab
  obtain ⟨_, _, hca⟩ := hall a ha
  obtain ⟨_, _, hcb⟩ := hall b hb
  obtain ⟨s, e1, h64a, halla⟩ := hca.1
  obtain ⟨t, e2, h64b, hallb⟩ := hcb.1
  cases e1; cases e2
  exact unhex_injective a b ⟨by intro e; subst e; simp at h64a, by omega, halla⟩ ⟨by intro e; subst e; simp at h64b, by omega, hallb⟩ hab

/-- the verdict depends on the signature map only through its counting entries (used by C06) -/
theorem thresholdMet_iff_counting (C : CryptoFns) (gpg : Bool) (auth : List PStr) (data : Bytes) (entries entries' : List (PStr × J))
    (h : ∀ k sig, Counts C gpg auth data k sig → ((k, sig) ∈ entries ↔ (k, sig) ∈ entries')) (thr : Nat) :
    ThresholdMet C gpg auth data entries thr ↔ ThresholdMet C gpg auth data entries' thr := by
  constructor
  · rintro ⟨S, hS, hl, hall⟩
    exact ⟨S, hS, hl, fun k hk => by obtain ⟨sig, hm, hc⟩ := hall k hk; exact ⟨sig, (h k sig hc).mp hm, hc⟩⟩
  · rintro ⟨S, hS, hl, hall⟩
    exact ⟨S, hS, hl, fun k hk => by obtain ⟨sig, hm, hc⟩ := hall k hk; exact ⟨sig, (h k sig hc).mpr hm, hc⟩⟩

/-- a threshold cannot be met by fewer distinct authorized keys than the threshold -/
theorem threshold_needs_enough_authorized (C : CryptoFns) (gpg : Bool) (auth : List PStr) (data : Bytes) (entries : List (PStr × J)) (thr : Nat)
    (h : ThresholdMet C gpg auth data entries thr) : ∃ S : List PStr, S.Nodup ∧ thr ≤ S.length ∧ ∀ k ∈ S, k ∈ auth := by
  obtain ⟨S, hS, hl, hall⟩ := h
  exact ⟨S, hS, hl, fun k hk => by obtain ⟨_, _, hc⟩ := hall k hk; exact hc.2.1⟩

-- non-vacuity: a toy scheme and a concrete accepted envelope ----------------------------------------------------
/-- a toy "signature scheme": the signature of `m` under seed `s` is 64 copies of a checksum -/
def toyC : CryptoFns where
  verify pub msg sig := sig == List.replicate 64 ((pub.foldl (· + ·) 0 + msg.foldl (· + ·) 0) % 256)
  sign seed msg := List.replicate 64 ((seed.foldl (· + ·) 0 + msg.foldl (· + ·) 0) % 256)
  pubOf seed := seed
  sha256 m := List.replicate 32 (m.foldl (· + ·) 0 % 256)

def k1 : PStr := List.replicate 64 49
def envOk : J :=
  .obj [(ps! "signatures", .obj [(k1, .obj [(ps! "signature", .str (hexOfBytes (toyC.sign (unhex k1) (ser (.int 7)))))]),
                                 (ps! "junk", .str (ps! "x"))]),
        (ps! "signed", .int 7)]
example : verifySignableJ toyC envOk (.arr [.str k1]) (.int 1) false = .ok () := by decide +kernel
example : verifySignableJ toyC envOk (.arr [.str k1]) (.int 2) false = .error .signature := by decide +kernel
example : verifySignableJ toyC envOk (.arr []) (.int 1) false = .error .signature := by decide +kernel
example : verifySignableJ toyC envOk (.arr [.str k1]) (.int 1) true = .error .signature := by decide +kernel

end CCT.C01
