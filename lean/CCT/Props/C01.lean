import CCT.Model.Auth
/-! # C01 — threshold soundness (theorems; work in progress) -/
namespace CCT.C01
open CCT
theorem placeholder : okU = .ok () := rfl
end CCT.C01
