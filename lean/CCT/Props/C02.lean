import CCT.Model.Auth
/-! # C02 — threshold completeness (theorems; work in progress) -/
namespace CCT.C02
open CCT
theorem placeholder : okU = .ok () := rfl
end CCT.C02
