import CCT.Props.C01
/-!
# C02 — threshold completeness: enough valid authorized signers always suffice

The model has no standard-output parameter and no import-order parameter at all: a skipped entry has no effect
whatsoever (`verifyEntry_eq`), which is what the property demands; the correspondence check runs the implementation
under several stdout encodings and in fresh processes to tie that to the code.
-/
namespace CCT.C02
open CCT CCT.C15 CCT.C01
open Classical

/-- **completeness**: well-typed arguments and a met threshold are accepted — whatever else is in the signature map -/
theorem verifySignable_complete (C : CryptoFns) (env keys thr : J) (gpg : Bool) (entries : List (PStr × J)) (signed : J) (ks : List J) (t : Int)
    (hp : EnvParts env entries signed) (hkeys : keys = .arr ks) (hk : ∀ k ∈ ks, HexN 64 k) (ht : asInt thr = some t) (hpos : 0 < t)
    (hm : ThresholdMet C gpg (ks.map strOf) (ser signed) entries t.toNat) :
    verifySignableJ C env keys thr gpg = .ok () := by
  rw [verifySignable_welltyped C env keys thr gpg entries signed ks t hp hkeys hk ht hpos]; simp [hm]

/-- **exact characterisation** of acceptance (C01 ∧ C02) -/
theorem verifySignable_iff (C : CryptoFns) (env keys thr : J) (gpg : Bool) :
    verifySignableJ C env keys thr gpg = .ok () ↔
    ∃ entries signed ks t, EnvParts env entries signed ∧ keys = .arr ks ∧ (∀ k ∈ ks, HexN 64 k) ∧ asInt thr = some t ∧ 0 < t ∧
      ThresholdMet C gpg (ks.map strOf) (ser signed) entries t.toNat := by
  constructor
  · exact verifySignable_sound C env keys thr gpg
  · rintro ⟨entries, signed, ks, t, hp, hkeys, hk, ht, hpos, hm⟩
    exact verifySignable_complete C env keys thr gpg entries signed ks t hp hkeys hk ht hpos hm

/-- insufficient valid signatures on otherwise well-formed arguments are reported as a signature error -/
theorem insufficient_is_signature_error (C : CryptoFns) (env keys thr : J) (gpg : Bool) (entries : List (PStr × J)) (signed : J) (ks : List J) (t : Int)
    (hp : EnvParts env entries signed) (hkeys : keys = .arr ks) (hk : ∀ k ∈ ks, HexN 64 k) (ht : asInt thr = some t) (hpos : 0 < t)
    (hm : ¬ ThresholdMet C gpg (ks.map strOf) (ser signed) entries t.toNat) :
    verifySignableJ C env keys thr gpg = .error .signature := by
  rw [verifySignable_welltyped C env keys thr gpg entries signed ks t hp hkeys hk ht hpos]; simp [hm]

/-- the order of entries in the signature map is irrelevant -/
theorem entry_order_irrelevant (C : CryptoFns) (gpg : Bool) (auth : List PStr) (data : Bytes) (entries entries' : List (PStr × J))
    (h : entries.Perm entries') (thr : Nat) :
    ThresholdMet C gpg auth data entries thr ↔ ThresholdMet C gpg auth data entries' thr :=
  thresholdMet_iff_counting C gpg auth data entries entries' (fun _ _ _ => h.mem_iff) thr

/-- the order (and multiplicity) of keys in the authorized list is irrelevant -/
theorem key_order_irrelevant (C : CryptoFns) (gpg : Bool) (auth auth' : List PStr) (data : Bytes) (entries : List (PStr × J))
    (h : ∀ k, k ∈ auth ↔ k ∈ auth') (thr : Nat) :
    ThresholdMet C gpg auth data entries thr ↔ ThresholdMet C gpg auth' data entries thr := by
  have hc : ∀ k sig, Counts C gpg auth data k sig ↔ Counts C gpg auth' data k sig := fun k sig => by
    unfold Counts; rw [h k]
  constructor
  · rintro ⟨S, hS, hl, hall⟩
    exact ⟨S, hS, hl, fun k hk => by obtain ⟨sig, hm, hcs⟩ := hall k hk; exact ⟨sig, hm, (hc k sig).mp hcs⟩⟩
  · rintro ⟨S, hS, hl, hall⟩
    exact ⟨S, hS, hl, fun k hk => by obtain ⟨sig, hm, hcs⟩ := hall k hk; exact ⟨sig, hm, (hc k sig).mpr hcs⟩⟩

/-- additional unauthorized, invalid or malformed entries (any JSON strings as keys, any JSON values) never hurt … -/
theorem junk_never_hurts (C : CryptoFns) (gpg : Bool) (auth : List PStr) (data : Bytes) (entries junk : List (PStr × J)) (thr : Nat)
    (h : ThresholdMet C gpg auth data entries thr) : ThresholdMet C gpg auth data (entries ++ junk) thr := by
  obtain ⟨S, hS, hl, hall⟩ := h
  exact ⟨S, hS, hl, fun k hk => by obtain ⟨sig, hm, hc⟩ := hall k hk; exact ⟨sig, List.mem_append.mpr (Or.inl hm), hc⟩⟩

/-- … and never help (this direction is what C06 needs) -/
theorem junk_never_helps (C : CryptoFns) (gpg : Bool) (auth : List PStr) (data : Bytes) (entries junk : List (PStr × J)) (thr : Nat)
    (hj : ∀ p ∈ junk, ¬ Counts C gpg auth data p.1 p.2)
    (h : ThresholdMet C gpg auth data (entries ++ junk) thr) : ThresholdMet C gpg auth data entries thr := by
  obtain ⟨S, hS, hl, hall⟩ := h
  refine ⟨S, hS, hl, fun k hk => ?_⟩
  obtain ⟨sig, hm, hc⟩ := hall k hk
  rcases List.mem_append.mp hm with hm | hm
  · exact ⟨sig, hm, hc⟩
  · exact absurd hc (hj (k, sig) hm)

/-- a lower threshold is met whenever a higher one is -/
theorem thresholdMet_mono (C : CryptoFns) (gpg : Bool) (auth : List PStr) (data : Bytes) (entries : List (PStr × J)) (a b : Nat) (hab : a ≤ b)
    (h : ThresholdMet C gpg auth data entries b) : ThresholdMet C gpg auth data entries a := by
  obtain ⟨S, hS, hl, hall⟩ := h
  exact ⟨S, hS, by omega, hall⟩

-- non-vacuity: two signers, threshold 2, with junk whose key is a lone surrogate and whose value is not a dict
def k2 : PStr := List.replicate 64 50
def sigOf (k : PStr) (v : J) : J := .obj [(ps! "signature", .str (hexOfBytes (toyC.sign (unhex k) (ser v))))]
def env2 : J :=
  .obj [(ps! "signed", .arr [.int 7, .str [233]]),
        (ps! "signatures", .obj [([0xd800], .int 5), (k2, sigOf k2 (.arr [.int 7, .str [233]])), (ps! "é", .null),
                                 (k1, sigOf k1 (.arr [.int 7, .str [233]]))])]
example : verifySignableJ toyC env2 (.arr [.str k1, .str k2]) (.int 2) false = .ok () := by decide +kernel
example : verifySignableJ toyC env2 (.arr [.str k2, .str k1, .str k2]) (.int 2) false = .ok () := by decide +kernel
example : verifySignableJ toyC env2 (.arr [.str k1, .str k2]) (.int 3) false = .error .signature := by decide +kernel

end CCT.C02
