import CCT.Model.Keys
import CCT.Props.C09
import CCT.Ref.Laws
/-!
# C19 — key material round-trips losslessly (the RFC 8032 part is differential: see the evidence)

Model: `CCT/Model/Keys.lean` (`common.py:167-273`).  "Equal to what RFC 8032 defines" cannot be a theorem here without the Edwards
group law; it is established by comparing the library with the Lean transcription of RFC 8032 §5.1 on generated seeds and the RFC's
own test vectors (partial, stated in the manifest).
-/
namespace CCT.C19
open CCT CCT.C15
open Classical

def IsSeed (s : Bytes) : Prop := s.length = 32 ∧ ∀ b ∈ s, b < 256

theorem hex_of_seed (s : Bytes) (h : IsSeed s) : HexN 64 (.str (hexOfBytes s)) :=
  ⟨_, rfl, by rw [hexOfBytes_length, h.1], hexOfBytes_lower s⟩

/-- bytes → object → bytes, private and public -/
theorem bytes_roundtrip (s : Bytes) (h : s.length = 32) :
    (privFromBytes (.bytes s)).bind privToBytes = .ok s ∧ (pubFromBytes (.bytes s)).bind pubToBytes = .ok s := by
  simp [privFromBytes, pubFromBytes, h, Except.bind, privToBytes, pubToBytes]

/-- bytes → object → hex → object → bytes returns the same value, private and public: **converting among bytes, hex and key objects in
any order returns the same value** (every other composition is a sub-path of this one) -/
theorem hex_roundtrip (s : Bytes) (h : IsSeed s) :
    (do let k ← privFromBytes (.bytes s); let hx ← privToHex k; let k2 ← privFromHex (.j (.str hx)); privToBytes k2) = .ok s ∧
    (do let k ← pubFromBytes (.bytes s); let hx ← pubToHex k; let k2 ← pubFromHex (.j (.str hx)); pubToBytes k2) = .ok s := by
  have hk := (checkHexKey_iff _).mpr (hex_of_seed s h)
  have hl : (unhex (hexOfBytes s)).length = 32 := by rw [unhex_hexOfBytes s h.2]; exact h.1
  constructor
  · simp only [privFromBytes, h.1, if_true, bind, Except.bind, privToHex, privToBytes, pure, Except.pure, privFromHex, hk, strOf_str, hl,
      unhex_hexOfBytes s h.2]
  · simp only [pubFromBytes, h.1, if_true, bind, Except.bind, pubToHex, pubToBytes, pure, Except.pure, pubFromHex, hk, strOf_str, hl,
      unhex_hexOfBytes s h.2]

/-- hex → object → hex is the identity on accepted key strings -/
theorem from_hex_to_hex (s : PStr) (h : HexN 64 (.str s)) :
    (privFromHex (.j (.str s))).bind privToHex = .ok s ∧ (pubFromHex (.j (.str s))).bind pubToHex = .ok s := by
  obtain ⟨t, e, h64, hall⟩ := h
  cases e
  have hk := (checkHexKey_iff _).mpr (⟨s, rfl, h64, hall⟩ : HexN 64 (.str s))
  have hl : (unhex s).length = 32 := by rw [unhex_length s (by omega)]; omega
  have hh := hexOfBytes_unhex s (by omega) hall
  simp [privFromHex, pubFromHex, hk, bind, Except.bind, strOf_str, privFromBytes, pubFromBytes, hl, privToHex, pubToHex, privToBytes,
    pubToBytes, pure, Except.pure, hh]

/-- **malformed encodings are rejected**: wrong length, upper case, whitespace, non-str -/
theorem from_hex_rejects (v : J) (h : ¬ HexN 64 v) : privFromHex (.j v) = .error .arg ∧ pubFromHex (.j v) = .error .arg := by
  have : checkHexKeyJ v = .error .arg := by
    rcases checkHexKey_total v with e | e
    · exact absurd ((checkHexKey_iff v).mp e) h
    · exact e
  simp [privFromHex, pubFromHex, this, bind, Except.bind]

theorem from_bytes_rejects_length (b : Bytes) (h : b.length ≠ 32) :
    privFromBytes (.bytes b) = .error .arg ∧ pubFromBytes (.bytes b) = .error .arg := by
  simp [privFromBytes, pubFromBytes, h]

theorem from_bytes_rejects_kinds (v : PyVal) (h : ∀ b, v ≠ .bytes b ∧ v ≠ .bytearray b) :
    privFromBytes v = .error .arg ∧ pubFromBytes v = .error .arg := by
  cases v <;> first | (exact ⟨rfl, rfl⟩) | (rename_i b; exact absurd rfl (h b).1) | (rename_i b; exact absurd rfl (h b).2)

/-- **equivalence** is reflexive, symmetric, false for different key bytes and false across kinds -/
theorem equivalence_laws (a b : Bytes) :
    privIsEquivalent (.privkey a) (.privkey a) = .ok true ∧ pubIsEquivalent (.pubkey a) (.pubkey a) = .ok true ∧
    privIsEquivalent (.privkey a) (.privkey b) = privIsEquivalent (.privkey b) (.privkey a) ∧
    pubIsEquivalent (.pubkey a) (.pubkey b) = pubIsEquivalent (.pubkey b) (.pubkey a) ∧
    (a ≠ b → privIsEquivalent (.privkey a) (.privkey b) = .ok false ∧ pubIsEquivalent (.pubkey a) (.pubkey b) = .ok false) ∧
    privIsEquivalent (.privkey a) (.pubkey b) = .ok false ∧ pubIsEquivalent (.pubkey a) (.privkey b) = .ok false := by
  have hsym : ∀ (x y : Bytes), (x == y) = (y == x) := fun x y => by
    by_cases h : x = y
    · subst h; rfl
    · have h' : ¬ y = x := fun e => h e.symm
      rw [beq_eq_false_iff_ne.mpr h, beq_eq_false_iff_ne.mpr h']
  simp only [privIsEquivalent, pubIsEquivalent, checkKey, okU, bind, Except.bind, pure, Except.pure, beq_self_eq_true, true_and, hsym a b]
  refine ⟨?_, trivial⟩
  intro h
  have h' : ¬ b = a := fun e => h e.symm
  simp [h']

/-- the hex under which `sign_signable` files its entry is the hex of the public key derived from the signing key -/
theorem signing_key_hex (C : CryptoFns) (seed : Bytes) :
    (publicOf C (.privkey seed)).bind pubToHex = .ok (C09.pubHex C seed) := by
  simp [publicOf, Except.bind, pubToHex, pubToBytes, bind, pure, Except.pure, C09.pubHex]

/-! ## key files (`gen_and_write_keys`, `keyfiles_to_keys`) -/

/-- `gen_and_write_keys(fname)` (`metadata_construction.py:167-190`) for the seed the OS generator produced: the key objects and the two
files' contents (`fname.pri`, `fname.pub`) -/
def genAndWriteKeys (C : CryptoFns) (seed : Bytes) : Res ((PyVal × PyVal) × (Bytes × Bytes)) := do
  let priv := PyVal.privkey seed
  let pub ← publicOf C priv
  let pb ← privToBytes priv
  let qb ← pubToBytes pub
  pure ((priv, pub), (pb, qb))

/-- `keyfiles_to_keys(name)` (`common.py:849-882`) on the two files' contents -/
def keyfilesToKeys (pri pub : Bytes) : Res (PyVal × PyVal) := do
  let a ← privFromBytes (.bytes pri)
  let b ← pubFromBytes (.bytes pub)
  pure (a, b)

/-- **keys written to key files load back as equivalent keys** — in fact as the same keys — and the files hold exactly the 32 raw bytes -/
theorem keyfiles_roundtrip (C : Crypto) (seed : Bytes) (hs : seed.length = 32) :
    ∃ priv pub pri pubf, genAndWriteKeys C.toCryptoFns seed = .ok ((priv, pub), (pri, pubf)) ∧ pri = seed ∧ pubf = C.pubOf seed ∧
      keyfilesToKeys pri pubf = .ok (priv, pub) ∧
      privIsEquivalent priv priv = .ok true ∧ pubIsEquivalent pub pub = .ok true := by
  refine ⟨.privkey seed, .pubkey (C.pubOf seed), seed, C.pubOf seed, ?_, rfl, rfl, ?_, ?_, ?_⟩
  · simp [genAndWriteKeys, publicOf, privToBytes, pubToBytes, bind, Except.bind, pure, Except.pure]
  · simp [keyfilesToKeys, privFromBytes, pubFromBytes, hs, C.pub_len seed hs, bind, Except.bind, pure, Except.pure]
  · simp [privIsEquivalent, checkKey, okU, bind, Except.bind, pure, Except.pure]
  · simp [pubIsEquivalent, checkKey, okU, bind, Except.bind, pure, Except.pure]

/-- key files of any other length are rejected when loaded -/
theorem keyfiles_reject_length (pri pub : Bytes) (h : pri.length ≠ 32 ∨ pub.length ≠ 32) : keyfilesToKeys pri pub = .error .arg := by
  by_cases h1 : pri.length = 32
  · have h2 : pub.length ≠ 32 := by cases h with | inl h => exact absurd h1 h | inr h => exact h
    simp [keyfilesToKeys, privFromBytes, pubFromBytes, h1, h2, bind, Except.bind]
  · simp [keyfilesToKeys, privFromBytes, h1, bind, Except.bind]

/-! ## the reference implementation the model is run with -/

/-- the Lean transcription of RFC 8032 that the driver runs satisfies the four *shape* laws of `Crypto` (64-byte signatures, 32-byte public
keys, all bytes); its correctness law — the only other thing the theorems assume of the primitive — is compared with OpenSSL, not proved -/
theorem reference_shape_laws :
    (∀ s m, (Ref.refCrypto.sign s m).length = 64) ∧ (∀ s m, ∀ b ∈ Ref.refCrypto.sign s m, b < 256) ∧
    (∀ s, (Ref.refCrypto.pubOf s).length = 32) ∧ (∀ s, ∀ b ∈ Ref.refCrypto.pubOf s, b < 256) :=
  ⟨Ref.ref_sign_len, Ref.ref_sign_byte, Ref.ref_pub_len, Ref.ref_pub_byte⟩

/-- the reference verification is strict where RFC 8032 is: only 32-byte keys and 64-byte signatures, and never a signature whose scalar is not reduced
below the group order (no second encoding of a valid signature) -/
theorem reference_strict (pub msg sig : Ref.B8) :
    (Ref.verify pub msg sig = true → pub.length = 32 ∧ sig.length = 64) ∧ (Ref.L ≤ Ref.leNat (sig.drop 32) → Ref.verify pub msg sig = false) :=
  ⟨Ref.ref_verify_lengths pub msg sig, Ref.ref_verify_rejects_unreduced_scalar pub msg sig⟩

end CCT.C19
