import CCT.Model.Auth
/-! # C06 (theorems; work in progress) -/
namespace CCT.C06
open CCT
theorem placeholder : okU = .ok () := rfl
end CCT.C06
