import CCT.Props.C05
import CCT.Props.C02
/-!
# C06 — the declared metadata type is bound to the role by signed content alone
-/
namespace CCT.C06
open CCT CCT.C15 CCT.C05
open Classical

/-- metadata whose signed portion is itself well-formed delegating metadata declaring another type is never accepted as that role —
whatever the (unsigned) signature map contains -/
theorem type_mismatch_never_accepted (C : CryptoFns) (name : PStr) (u t : J) (gpg : Bool) (h : TypeMismatch name u) :
    verifyDelegationJ C name u t gpg ≠ .ok () := by
  intro hok
  exact ((verifyDelegation_iff C name u t gpg).mp hok).2.2.1 h

/-- and with well-formed trusted metadata it is reported as a metadata-verification error -/
theorem type_mismatch_error (C : CryptoFns) (name : PStr) (u t : J) (gpg : Bool) (hT : Schema t) (hU : isSignableJ u = true)
    (h : TypeMismatch name u) : verifyDelegationJ C name u t gpg = .error .metadataVerification := by
  rw [verifyDelegation_eq, if_neg (by simp [hT, hU]), if_pos h]

/-- the same envelope with another signature map -/
def withEntries (u : J) (entries : List (PStr × J)) : J :=
  .obj [(ps! "signatures", .obj entries), (ps! "signed", signedOf u)]

theorem withEntries_parts (u : J) (e : List (PStr × J)) :
    isSignableJ (withEntries u e) = true ∧ signedOf (withEntries u e) = signedOf u ∧ entriesOf (withEntries u e) = e := by
  simp [withEntries, isSignableJ, keysetEq, dictKeys, dictGet, signedOf, entriesOf, jget, entryField]

theorem typeMismatch_withEntries (name : PStr) (u : J) (e : List (PStr × J)) : TypeMismatch name (withEntries u e) ↔ TypeMismatch name u := by
  simp [TypeMismatch, typeOf, (withEntries_parts u e).2.1]

/-- the entries that count for a rule -/
noncomputable def countingFor (C : CryptoFns) (gpg : Bool) (d u : J) : List (PStr × J) :=
  (entriesOf u).filter fun p => decide (Counts C gpg (keysOf d) (ser (signedOf u)) p.1 p.2)

theorem ruleMet_congr (C : CryptoFns) (gpg : Bool) (d u : J) (e : List (PStr × J))
    (h : ∀ k sig, Counts C gpg (keysOf d) (ser (signedOf u)) k sig → ((k, sig) ∈ entriesOf u ↔ (k, sig) ∈ e)) :
    RuleMet C gpg d (withEntries u e) ↔ RuleMet C gpg d u := by
  obtain ⟨_, h2, h3⟩ := withEntries_parts u e
  simp only [RuleMet, h2, h3]
  exact (C01.thresholdMet_iff_counting C gpg _ _ _ _ h _).symm

/-- **accept implies stripped accept** (delegation): keeping only the valid signatures by the role's authorized keys preserves acceptance -/
theorem accept_implies_stripped_accept (C : CryptoFns) (name : PStr) (u t : J) (gpg : Bool) (d : J) (hr : roleOf t name = some d)
    (h : verifyDelegationJ C name u t gpg = .ok ()) :
    verifyDelegationJ C name (withEntries u (countingFor C gpg d u)) t gpg = .ok () := by
  obtain ⟨hT, hU, hm, d', hd', hmet⟩ := (verifyDelegation_iff C name u t gpg).mp h
  rw [hr] at hd'; cases hd'
  refine (verifyDelegation_iff C name _ t gpg).mpr ⟨hT, (withEntries_parts _ _).1, fun hx => hm ((typeMismatch_withEntries _ _ _).mp hx), d, hr, ?_⟩
  refine (ruleMet_congr C gpg d u _ ?_).mpr hmet
  intro k sig hc
  simp [countingFor, hc]

/-- **nothing added to the unsigned signature map, short of a counting signature, turns a rejection into an acceptance** -/
theorem unsigned_part_cannot_help (C : CryptoFns) (name : PStr) (u t : J) (gpg : Bool) (junk : List (PStr × J))
    (hj : ∀ d, roleOf t name = some d → ∀ p ∈ junk, ¬ Counts C gpg (keysOf d) (ser (signedOf u)) p.1 p.2)
    (hU : isSignableJ u = true)
    (h : verifyDelegationJ C name (withEntries u (entriesOf u ++ junk)) t gpg = .ok ()) :
    verifyDelegationJ C name u t gpg = .ok () := by
  obtain ⟨hT, _, hm, d, hd, hmet⟩ := (verifyDelegation_iff C name _ t gpg).mp h
  refine (verifyDelegation_iff C name u t gpg).mpr ⟨hT, hU, fun hx => hm ((typeMismatch_withEntries _ _ _).mpr hx), d, hd, ?_⟩
  obtain ⟨_, h2, h3⟩ := withEntries_parts u (entriesOf u ++ junk)
  simp only [RuleMet, h2, h3] at hmet
  exact C02.junk_never_helps C gpg _ _ _ junk _ (hj d hd) hmet

/-- for the envelope verifier itself: the verdict is a function of the signed portion and the counting entries alone -/
theorem verifySignable_counting_only (C : CryptoFns) (u : J) (ks : List J) (thr : J) (gpg : Bool) (hk : ∀ k ∈ ks, HexN 64 k)
    (e' : List (PStr × J))
    (he : ∀ k sig, Counts C gpg (ks.map strOf) (ser (signedOf u)) k sig → ((k, sig) ∈ entriesOf u ↔ (k, sig) ∈ e'))
    (h : verifySignableJ C u (.arr ks) thr gpg = .ok ()) :
    verifySignableJ C (withEntries u e') (.arr ks) thr gpg = .ok () := by
  obtain ⟨entries, signed, ks', t, hp, e, _, ht, hpos, hm⟩ := C01.verifySignable_sound C u _ thr gpg h
  cases e
  obtain ⟨a1, a2⟩ := envParts_accessors hp
  obtain ⟨w1, w2, w3⟩ := withEntries_parts u e'
  have hp' : EnvParts (withEntries u e') e' (signedOf u) := by
    have := envParts_self w1; rw [w2, w3] at this; exact this
  refine C02.verifySignable_complete C _ _ thr gpg e' (signedOf u) ks t hp' rfl hk ht hpos ?_
  rw [a1]
  rw [a1, a2] at he
  exact (C01.thresholdMet_iff_counting C gpg _ _ entries e' he _).mp hm

/-- in particular for the envelope that keeps only its valid signatures by authorized keys -/
theorem verifySignable_stripped (C : CryptoFns) (u : J) (ks : List J) (thr : J) (gpg : Bool) (hk : ∀ k ∈ ks, HexN 64 k)
    (h : verifySignableJ C u (.arr ks) thr gpg = .ok ()) :
    verifySignableJ C (withEntries u ((entriesOf u).filter fun p => decide (Counts C gpg (ks.map strOf) (ser (signedOf u)) p.1 p.2)))
      (.arr ks) thr gpg = .ok () :=
  verifySignable_counting_only C u ks thr gpg hk _ (fun k sig hc => by simp [hc]) h

end CCT.C06
