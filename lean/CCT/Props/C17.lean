import CCT.Model.Cli
import CCT.Props.C05
import CCT.Props.C03
/-!
# C17 — CLI exit status and output reflect the library's verdict  (partial: process start-up and exit are run, not modelled)
-/
namespace CCT.C17
open CCT CCT.C15
open Classical

/-- the verdict the command is about: root-chain check when the untrusted file declares type root, otherwise the delegation check
for its declared type (raw signatures) -/
def LibraryAccepts (C : CryptoFns) (trusted untrusted : J) : Prop :=
  ∃ ty, typeOfSigned untrusted = .ok ty ∧
    ((isRootType ty = true ∧ verifyRootJ C trusted untrusted = .ok ()) ∨
     (isRootType ty = false ∧ ∃ name, ty = .str name ∧ verifyDelegationJ C name untrusted trusted false = .ok ()))

theorem cct_ne (e : PyErr) (h : e.isCct = true) : True := trivial

/-- **exit status zero and success reported if and only if both files load and the library accepts** — for each way the tool can be started -/
theorem exit_zero_iff (C : CryptoFns) (ep : EntryPoint) (tf uf : Option Bytes) :
    (exitStatus ep (cliVerifyMetadata C tf uf).1 = 0 ∧ (cliVerifyMetadata C tf uf).2 = true) ↔
      ∃ t u, loadFile tf = .ok t ∧ loadFile uf = .ok u ∧ LibraryAccepts C t u := by
  unfold cliVerifyMetadata
  cases hu : loadFile uf with
  | error e => simp [exitStatus]
  | ok u =>
    cases ht : loadFile tf with
    | error e => simp [exitStatus]
    | ok t =>
      simp only [Except.ok.injEq, exists_and_left, exists_eq_left']
      cases hty : (do let s ← pyIndexStr (ps! "signed") u; pyIndexStr (ps! "type") s : Res J) with
      | error e =>
        simp only [exitStatus]
        constructor
        · rintro ⟨h, _⟩; cases h
        · rintro ⟨ty, h, _⟩; unfold typeOfSigned at h; rw [hty] at h; cases h
      | ok ty =>
        have hty' : typeOfSigned u = .ok ty := hty
        simp only
        by_cases hr : isRootType ty = true
        · simp only [hr, if_true]
          cases hv : verifyRootJ C t u with
          | ok _ =>
            simp only [exitStatus]
            constructor
            · intro _; exact ⟨ty, hty', Or.inl ⟨hr, hv⟩⟩
            · intro _; decide
          | error e =>
            have hneg : ¬ LibraryAccepts C t u := by
              rintro ⟨ty', h1, h2⟩; rw [hty'] at h1; cases h1
              rcases h2 with ⟨_, h⟩ | ⟨h, _⟩
              · rw [hv] at h; cases h
              · rw [hr] at h; cases h
            by_cases hc : e.isCct = true
            · simp [hc, exitStatus, hneg]
            · simp [hc, exitStatus, hneg]
        · have hr' : isRootType ty = false := by simpa using hr
          simp only [hr', Bool.false_eq_true, if_false]
          cases ty with
          | str name =>
            simp only
            cases hv : verifyDelegationJ C name u t false with
            | ok _ =>
              simp only [exitStatus]
              constructor
              · intro _; exact ⟨_, hty', Or.inr ⟨hr', name, rfl, hv⟩⟩
              · intro _; decide
            | error e =>
              have hneg : ¬ LibraryAccepts C t u := by
                rintro ⟨ty', h1, h2⟩; rw [hty'] at h1; cases h1
                rcases h2 with ⟨h, _⟩ | ⟨_, n, hn, h⟩
                · rw [hr'] at h; cases h
                · cases hn; rw [hv] at h; cases h
              by_cases hc : e.isCct = true
              · simp [hc, exitStatus, hneg]
              · simp [hc, exitStatus, hneg]
          | _ =>
            simp only [exitStatus]
            constructor
            · rintro ⟨h, _⟩; cases h
            · rintro ⟨ty', h1, h2⟩; rw [hty'] at h1; cases h1
              rcases h2 with ⟨h, _⟩ | ⟨_, n, hn, _⟩
              · rw [hr'] at h; cases h
              · cases hn

/-- every rejection or error gives a non-zero status: 10 for a rejected root update, 20 for a rejected delegation, 1 for anything that escapes -/
theorem verify_codes (C : CryptoFns) (ep : EntryPoint) (tf uf : Option Bytes) :
    exitStatus ep (cliVerifyMetadata C tf uf).1 = 0 ∨ exitStatus ep (cliVerifyMetadata C tf uf).1 = 1 ∨
    exitStatus ep (cliVerifyMetadata C tf uf).1 = 10 ∨ exitStatus ep (cliVerifyMetadata C tf uf).1 = 20 := by
  unfold cliVerifyMetadata
  repeat' split
  all_goals simp [exitStatus]

/-- **the signing subcommand exits zero only if it actually signed**: status 0 implies the file now holds the signed document -/
theorem sign_zero_only_if_signed (C : CryptoFns) (ep : EntryPoint) (repodata : Option Bytes) (keyText : Option PStr)
    (h : exitStatus ep (cliSignArtifacts C repodata keyText).1 = 0) :
    ∃ doc doc' key, loadFile repodata = .ok doc ∧ signRepodataJ C doc (.str key) = .ok doc' ∧
      (cliSignArtifacts C repodata keyText).2 = some (ser doc') := by
  unfold cliSignArtifacts at h ⊢
  cases keyText with
  | none => simp [exitStatus] at h
  | some t =>
    simp only at h ⊢
    cases hk : isHexKeyJ (.str (asciiLower (pyStrip t))) with
    | error e => rw [hk] at h; simp [exitStatus] at h
    | ok b =>
      cases b with
      | false => rw [hk] at h; simp [exitStatus] at h
      | true =>
        rw [hk] at h; simp only at h ⊢
        cases hl : loadFile repodata with
        | error e => rw [hl] at h; simp [exitStatus] at h
        | ok doc =>
          rw [hl] at h; simp only at h ⊢
          cases hs : signRepodataJ C doc (.str (asciiLower (pyStrip t))) with
          | error e => rw [hs] at h; simp [exitStatus] at h
          | ok doc' => exact ⟨doc, doc', _, rfl, hs, rfl⟩

/-- a bad key file: non-zero status and the repodata file is untouched -/
theorem sign_bad_key_untouched (C : CryptoFns) (ep : EntryPoint) (repodata : Option Bytes) (t : PStr)
    (h : isHexKeyJ (.str (asciiLower (pyStrip t))) = .ok false) :
    exitStatus ep (cliSignArtifacts C repodata (some t)).1 ≠ 0 ∧ (cliSignArtifacts C repodata (some t)).2 = repodata := by
  simp [cliSignArtifacts, h, exitStatus]

end CCT.C17
