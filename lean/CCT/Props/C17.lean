import CCT.Model.Cli
import CCT.Props.C10
import CCT.Props.C08
import CCT.Lemmas.GpgPath
import CCT.Model.CliEdit
import CCT.Props.C05
import CCT.Props.C03
/-!
# C17 — CLI exit status and output reflect the library's verdict  (partial: process start-up and exit are run, not modelled)
-/
namespace CCT.C17
open CCT CCT.C15
open Classical

/-- the verdict the command is about: root-chain check when the untrusted file declares type root, otherwise the delegation check
for its declared type (raw signatures) -/
def LibraryAccepts (C : CryptoFns) (trusted untrusted : J) : Prop :=
  ∃ ty, typeOfSigned untrusted = .ok ty ∧
    ((isRootType ty = true ∧ verifyRootJ C trusted untrusted = .ok ()) ∨
     (isRootType ty = false ∧ ∃ name, ty = .str name ∧ verifyDelegationJ C name untrusted trusted false = .ok ()))


/-- **exit status zero and success reported if and only if both files load and the library accepts** — for each way the tool can be started -/
theorem exit_zero_iff (C : CryptoFns) (ep : EntryPoint) (tf uf : Option Bytes) :
    (exitStatus ep (cliVerifyMetadata C tf uf).1 = 0 ∧ (cliVerifyMetadata C tf uf).2 = true) ↔
      ∃ t u, loadFile tf = .ok t ∧ loadFile uf = .ok u ∧ LibraryAccepts C t u := by
  unfold cliVerifyMetadata
  cases hu : loadFile uf with
  | error e => simp [exitStatus]
  | ok u =>
    cases ht : loadFile tf with
    | error e => simp [exitStatus]
    | ok t =>
      simp only [Except.ok.injEq, exists_and_left, exists_eq_left']
      cases hty : (do let s ← pyIndexStr (ps! "signed") u; pyIndexStr (ps! "type") s : Res J) with
      | error e =>
        simp only [exitStatus]
        constructor
        · rintro ⟨h, _⟩; cases h
        · rintro ⟨ty, h, _⟩; unfold typeOfSigned at h; rw [hty] at h; cases h
      | ok ty =>
        have hty' : typeOfSigned u = .ok ty := hty
        simp only
        by_cases hr : isRootType ty = true
        · simp only [hr, if_true]
          cases hv : verifyRootJ C t u with
          | ok _ =>
            simp only [exitStatus]
            constructor
            · intro _; exact ⟨ty, hty', Or.inl ⟨hr, hv⟩⟩
            · intro _; decide
          | error e =>
            have hneg : ¬ LibraryAccepts C t u := by
              rintro ⟨ty', h1, h2⟩; rw [hty'] at h1; cases h1
              rcases h2 with ⟨_, h⟩ | ⟨h, _⟩
              · rw [hv] at h; cases h
              · rw [hr] at h; cases h
            by_cases hc : e.isCct = true
            · simp [hc, exitStatus, hneg]
            · simp [hc, exitStatus, hneg]
        · have hr' : isRootType ty = false := by simpa using hr
          simp only [hr', Bool.false_eq_true, if_false]
          cases ty with
          | str name =>
            simp only
            cases hv : verifyDelegationJ C name u t false with
            | ok _ =>
              simp only [exitStatus]
              constructor
              · intro _; exact ⟨_, hty', Or.inr ⟨hr', name, rfl, hv⟩⟩
              · intro _; decide
            | error e =>
              have hneg : ¬ LibraryAccepts C t u := by
                rintro ⟨ty', h1, h2⟩; rw [hty'] at h1; cases h1
                rcases h2 with ⟨h, _⟩ | ⟨_, n, hn, h⟩
                · rw [hr'] at h; cases h
                · cases hn; rw [hv] at h; cases h
              by_cases hc : e.isCct = true
              · simp [hc, exitStatus, hneg]
              · simp [hc, exitStatus, hneg]
          | _ =>
            simp only [exitStatus]
            constructor
            · rintro ⟨h, _⟩; cases h
            · rintro ⟨ty', h1, h2⟩; rw [hty'] at h1; cases h1
              rcases h2 with ⟨h, _⟩ | ⟨_, n, hn, _⟩
              · rw [hr'] at h; cases h
              · cases hn

/-- every rejection or error gives a non-zero status: 10 for a rejected root update, 20 for a rejected delegation, 1 for anything that escapes -/
theorem verify_codes (C : CryptoFns) (ep : EntryPoint) (tf uf : Option Bytes) :
    exitStatus ep (cliVerifyMetadata C tf uf).1 = 0 ∨ exitStatus ep (cliVerifyMetadata C tf uf).1 = 1 ∨
    exitStatus ep (cliVerifyMetadata C tf uf).1 = 10 ∨ exitStatus ep (cliVerifyMetadata C tf uf).1 = 20 := by
  unfold cliVerifyMetadata
  repeat' split
  all_goals simp [exitStatus]

/-- status zero already implies the success report (the only zero-returning paths print it) -/
theorem zero_implies_success_line (C : CryptoFns) (ep : EntryPoint) (tf uf : Option Bytes)
    (h : exitStatus ep (cliVerifyMetadata C tf uf).1 = 0) : (cliVerifyMetadata C tf uf).2 = true := by
  revert h
  unfold cliVerifyMetadata
  repeat' split
  all_goals simp [exitStatus]

/-- **a rejection is a non-zero status whatever standard output does** — it takes text, every write to it fails (dead pipe, full device), or the process
has none: whenever the pair is not one the library accepts, every entry point exits non-zero -/
theorem rejected_nonzero_any_stdout (C : CryptoFns) (ep : EntryPoint) (st : Stdout) (tf uf : Option Bytes)
    (hrej : ¬ ∃ t u, loadFile tf = .ok t ∧ loadFile uf = .ok u ∧ LibraryAccepts C t u) :
    exitStatus ep (cliVerifyUnder C st tf uf).1 ≠ 0 := by
  have hn : exitStatus ep (cliVerifyMetadata C tf uf).1 ≠ 0 := fun h0 =>
    hrej ((exit_zero_iff C ep tf uf).mp ⟨h0, zero_implies_success_line C ep tf uf h0⟩)
  unfold cliVerifyUnder
  cases st with
  | takesText => simpa using hn
  | absent => simpa using hn
  | failing =>
    rcases hc : cliVerifyMetadata C tf uf with ⟨o, b⟩
    rw [hc] at hn
    cases o with
    | returned c => simp [exitStatus]
    | raised e => simpa using hn
    | usage => simpa using hn

/-- without a standard output object the status is the one reported otherwise (nothing is printed, nothing fails) -/
theorem absent_stdout_same_status (C : CryptoFns) (ep : EntryPoint) (tf uf : Option Bytes) :
    exitStatus ep (cliVerifyUnder C .absent tf uf).1 = exitStatus ep (cliVerifyMetadata C tf uf).1 := by
  simp [cliVerifyUnder]

/-- on a standard output that cannot take text the status is 1 for every pair whose files load and declare a type: the report itself fails -/
theorem failing_stdout_status (C : CryptoFns) (ep : EntryPoint) (tf uf : Option Bytes) :
    exitStatus ep (cliVerifyUnder C .failing tf uf).1 = 1 ∨ exitStatus ep (cliVerifyUnder C .failing tf uf).1 = exitStatus ep (cliVerifyMetadata C tf uf).1 := by
  unfold cliVerifyUnder
  rcases hc : cliVerifyMetadata C tf uf with ⟨o, b⟩
  cases o with
  | returned c => left; simp [exitStatus]
  | raised e => right; simp
  | usage => right; simp

/-- **the signing subcommand exits zero only if it actually signed**: status 0 implies the file now holds the signed document -/
theorem sign_zero_only_if_signed (C : CryptoFns) (ep : EntryPoint) (repodata : Option Bytes) (keyText : Option PStr)
    (h : exitStatus ep (cliSignArtifacts C repodata keyText).1 = 0) :
    ∃ doc doc' key, loadFile repodata = .ok doc ∧ signRepodataJ C doc (.str key) = .ok doc' ∧
      (cliSignArtifacts C repodata keyText).2 = some (ser doc') := by
  unfold cliSignArtifacts at h ⊢
  cases keyText with
  | none => simp [exitStatus] at h
  | some t =>
    simp only at h ⊢
    cases hk : isHexKeyJ (.str (asciiLower (pyStrip t))) with
    | error e => rw [hk] at h; simp [exitStatus] at h
    | ok b =>
      cases b with
      | false => rw [hk] at h; simp [exitStatus] at h
      | true =>
        rw [hk] at h; simp only at h ⊢
        cases hl : loadFile repodata with
        | error e => rw [hl] at h; simp [exitStatus] at h
        | ok doc =>
          rw [hl] at h; simp only at h ⊢
          cases hs : signRepodataJ C doc (.str (asciiLower (pyStrip t))) with
          | error e => rw [hs] at h; simp [exitStatus] at h
          | ok doc' => exact ⟨doc, doc', _, rfl, hs, rfl⟩

/-- a bad key file: non-zero status and the repodata file is untouched -/
theorem sign_bad_key_untouched (C : CryptoFns) (ep : EntryPoint) (repodata : Option Bytes) (t : PStr)
    (h : isHexKeyJ (.str (asciiLower (pyStrip t))) = .ok false) :
    exitStatus ep (cliSignArtifacts C repodata (some t)).1 ≠ 0 ∧ (cliSignArtifacts C repodata (some t)).2 = repodata := by
  simp [cliSignArtifacts, h, exitStatus]

/-! ## the GPG subcommands (`gpg-sign`, `gpg-key-lookup`) -/

/-- **gpg-sign exits zero only if it actually signed** (and then the file is what the GPG signing path produced); any failure leaves the file as it was -/
theorem gpg_sign_zero_iff_signed (G : GpgBackend) (sslib : Bool) (ep : EntryPoint) (file : Option Bytes) (fprArg : PStr) :
    (exitStatus ep (cliGpgSign G sslib file fprArg).1 = 0 ↔
      ∃ b, signRootMdFileViaGpg G sslib file (.str (stripAllSpaceLower fprArg)) = .ok b ∧ (cliGpgSign G sslib file fprArg).2 = some b) ∧
    (exitStatus ep (cliGpgSign G sslib file fprArg).1 ≠ 0 → (cliGpgSign G sslib file fprArg).2 = file) := by
  unfold cliGpgSign
  cases h : signRootMdFileViaGpg G sslib file (.str (stripAllSpaceLower fprArg)) with
  | ok b => simp [exitStatus]
  | error e => simp [exitStatus]

/-- without the optional dependency gpg-sign and gpg-key-lookup fail (status 1) and touch nothing -/
theorem gpg_commands_need_dependency (G : GpgBackend) (ep : EntryPoint) (file : Option Bytes) (fprArg : PStr) :
    exitStatus ep (cliGpgKeyLookup G false fprArg).1 = 1 ∧
    (file ≠ none → (∃ v, loadFile file = .ok v) → exitStatus ep (cliGpgSign G false file fprArg).1 = 1 ∧ (cliGpgSign G false file fprArg).2 = file) := by
  constructor
  · simp [cliGpgKeyLookup, fetchKeyvalFromGpg, checkSslib, bind, Except.bind, exitStatus]
  · rintro _ ⟨v, hv⟩
    simp [cliGpgSign, signRootMdFileViaGpg, hv, signRootMdDictViaGpg, checkSslib, bind, Except.bind, exitStatus]

/-- **gpg-sign, end to end**: for a strict-UTF-8 file (any layout) that loads to an envelope, a conforming signer for the key with fingerprint `fpr`, and any spelling of
that fingerprint on the command line (case, whitespace), `gpg-sign` exits with status 0 from every entry point and leaves a file that loads to
an envelope which verifies in OpenPGP mode with the signer's raw public key authorized -/
theorem gpg_sign_end_to_end (C : Crypto) (G : GpgBackend) (ep : EntryPoint) (fpr fprArg : PStr) (seed : Bytes) (hs : seed.length = 32)
    (hf : HexN 40 (.str fpr)) (harg : stripAllSpaceLower fprArg = fpr) (hG : C10.ConformingSigner C.toCryptoFns G fpr seed)
    (b : Bytes) (hstrict : NoSurLead b) (env : J) (hload : loadBytes b = some env) (entries : List (PStr × J)) (signed : J) (hp : EnvParts env entries signed) :
    ∃ b' env'', cliGpgSign G true (some b) fprArg = (.returned none, some b') ∧ exitStatus ep (cliGpgSign G true (some b) fprArg).1 = 0 ∧
      loadBytes b' = some env'' ∧
      verifySignableJ C.toCryptoFns env'' (.arr [.str (C09.pubHex C.toCryptoFns seed)]) (.int 1) true = .ok () := by
  have hwf : env.WF := load_wf hstrict hload
  obtain ⟨f, hfe, hlen, hall⟩ := hf
  cases hfe
  have hnorm := normalize_of_hex40 fpr hall
  obtain ⟨env', hsign, hver⟩ := C10.gpg_path_interoperates C G fpr seed hs ⟨fpr, rfl, hlen, hall⟩ hnorm hG env entries signed hp
  -- the explicit result, for well-formedness
  obtain ⟨hcs, hq⟩ := hG
  obtain ⟨hdr, hne, hb, hsig⟩ := hcs (ser signed)
  obtain ⟨hsg, top, rfl, h1, h2⟩ := hp
  have hfp := (checkGpgFingerprint_iff (.str fpr)).mpr ⟨fpr, rfl, hlen, hall⟩
  let entry : J := .obj [(ps! "other_headers", .str (hexOfBytes hdr)), (ps! "signature", .str (hexOfBytes (C.sign seed (gpgDigest C.toCryptoFns (ser signed) hdr))))]
  have hcomp : signRootMdDictViaGpg G true (.obj top) (.str fpr) =
      .ok (.obj (dictSet top (ps! "signatures") (.obj (dictSet entries (C09.pubHex C.toCryptoFns seed) entry)))) := by
    simp only [signRootMdDictViaGpg, checkSslib, if_true, okU, bind, Except.bind, hsg, Bool.not_true, Bool.false_eq_true, if_false,
      dictIndex_some h2, dictIndex_some h1, signViaGpg, hfp, checkBytesLike, strOf_str, hsig, fetchKeyvalFromGpg, hnorm, hq, pure, Except.pure,
      C09.pubHex, entry]
  rw [hcomp] at hsign
  cases hsign
  -- well-formedness of the new envelope
  obtain ⟨hwm, hnd⟩ := hwf
  have hent : (J.obj entries).WF := wf_member (kvs := top) ⟨hwm, hnd⟩ h1
  obtain ⟨hem, hen⟩ := hent
  have hentry : entry.WF := by
    have k1 : StrOK (ps! "other_headers") := strOK_of_small _ (by decide)
    have k2 : StrOK (ps! "signature") := strOK_of_small _ (by decide)
    refine ⟨⟨k1, strOK_lowerhex _ (hexOfBytes_lower _), k2, strOK_lowerhex _ (hexOfBytes_lower _), trivial⟩, ?_⟩
    simp only [List.map_cons, List.map_nil]
    decide
  have hpk : StrOK (C09.pubHex C.toCryptoFns seed) := by
    obtain ⟨s, e, _, ha⟩ := C09.pubHex_key C seed hs
    cases e
    exact strOK_lowerhex _ ha
  have hwf' : (J.obj (dictSet top (ps! "signatures") (.obj (dictSet entries (C09.pubHex C.toCryptoFns seed) entry)))).WF := by
    have k3 : StrOK (ps! "signatures") := strOK_of_small _ (by decide)
    have hinner : (J.obj (dictSet entries (C09.pubHex C.toCryptoFns seed) entry)).WF := ⟨wfm_dictSet _ _ hpk hentry _ hem, dictSet_nodup _ _ _ hen⟩
    exact ⟨wfm_dictSet _ _ k3 hinner _ hwm, dictSet_nodup _ _ _ hnd⟩
  have hfile : signRootMdFileViaGpg G true (some b) (.str (stripAllSpaceLower fprArg)) =
      .ok (ser (.obj (dictSet top (ps! "signatures") (.obj (dictSet entries (C09.pubHex C.toCryptoFns seed) entry))))) := by
    rw [harg]
    simp only [signRootMdFileViaGpg, loadFile, hload, bind, Except.bind, hcomp, pure, Except.pure]
  refine ⟨_, _, ?_, ?_, C08.load_write _ hwf', ?_⟩
  · simp only [cliGpgSign, hfile]
  · simp only [cliGpgSign, hfile, exitStatus]
  · rw [verifySignable_canon _ _ _ _ _ hwf']
    exact hver

/-! ## the interactive editor (`modify-metadata`), model `Model/CliEdit.lean` -/

/-- **the interactive editor writes at most once, only where the user says, and only the canonical serialization of the metadata it ends with**;
it exits with status 0 exactly when the session ended by "write" or "abort" -/
theorem editLoop_writes (C : CryptoFns) (G : GpgBackend) (sslib : Bool) :
    ∀ (f : Nat) (md : J) (inputs : List PStr) (w : List (PStr × Bytes)),
      ((editLoop C G sslib f md inputs w).writes = w ∨
        ∃ name, (editLoop C G sslib f md inputs w).writes = w ++ [(name, ser (editLoop C G sslib f md inputs w).md)] ∧
                (editLoop C G sslib f md inputs w).outcome = .returned none)
  | 0, md, inputs, w => by simp [editLoop]
  | f+1, md, [], w => by simp [editLoop]
  | f+1, md, sel :: rest, w => by
    have ih := editLoop_writes C G sslib f
    unfold editLoop
    split
    · exact ih md rest w
    · rename_i n hn
      by_cases h0 : n = 0
      · rw [if_pos h0]
        split
        · left; rfl
        · rename_i fname r'; right; exact ⟨fname, rfl, rfl⟩
      rw [if_neg h0]
      by_cases h1 : n = 1
      · rw [if_pos h1]; left; rfl
      rw [if_neg h1]
      by_cases h2 : n = 2
      · rw [if_pos h2]
        split
        · left; rfl
        · rename_i key rest'
          split
          · exact ih _ rest' w
          · left; rfl
      rw [if_neg h2]
      by_cases h7 : n = 7
      · rw [if_pos h7]
        split
        · left; rfl
        · left; rfl
        · exact ih md _ w
        · exact ih _ _ w
      rw [if_neg h7]
      exact ih md rest w


/-- **opening a stored file in the editor and writing it out unchanged persists it like any other write**: the session "0, <name>" on a loadable file
writes exactly one file, under the name typed, holding the canonical serialization of what the file held — every signature entry as it was -/
theorem edit_open_and_save (C : CryptoFns) (G : GpgBackend) (sslib : Bool) (file : Option Bytes) (md : J) (name : PStr) (more : List PStr)
    (hl : loadFile file = .ok md) :
    (cliModifyMetadata C G sslib file ([48] :: name :: more)).writes = [(name, ser md)] ∧
    (cliModifyMetadata C G sslib file ([48] :: name :: more)).outcome = .returned none := by
  have h0 : pyIntOfStr [48] = some 0 := by decide
  simp [cliModifyMetadata, hl, editLoop, h0]

/-- **two holders sign through the editor, one after the other, and both signatures are in what is written**: the session "2, <key A>, 2, <key B>, 0, <name>"
on an envelope writes the envelope signed by A and then by B — the second signing keeps the first one's entry (`C09.sign_other_entries`) -/
theorem edit_two_signers (C : CryptoFns) (G : GpgBackend) (sslib : Bool) (file : Option Bytes) (md md1 md2 : J) (ka kb name : PStr)
    (hl : loadFile file = .ok md)
    (hka : isHexKeyJ (.str (stripAllSpaceLower ka)) = .ok true) (hkb : isHexKeyJ (.str (stripAllSpaceLower kb)) = .ok true)
    (h1 : signSignableJ C md (unhex (stripAllSpaceLower ka)) = .ok md1) (h2 : signSignableJ C md1 (unhex (stripAllSpaceLower kb)) = .ok md2) :
    (cliModifyMetadata C G sslib file [[50], ka, [50], kb, [48], name]).writes = [(name, ser md2)] := by
  have h0 : pyIntOfStr [48] = some 0 := by decide
  have h2' : pyIntOfStr [50] = some 2 := by decide
  simp [cliModifyMetadata, hl, editLoop, h0, h2', editAddSig, hka, hkb, h1, h2]

/-- `modify-metadata` never touches the file it reads and leaves no file behind when the session is aborted or cut short -/
theorem edit_session_files (C : CryptoFns) (G : GpgBackend) (sslib : Bool) (file : Option Bytes) (inputs : List PStr) :
    (cliModifyMetadata C G sslib file inputs).writes = [] ∨
    ∃ name, (cliModifyMetadata C G sslib file inputs).writes = [(name, ser (cliModifyMetadata C G sslib file inputs).md)] ∧
      (cliModifyMetadata C G sslib file inputs).outcome = .returned none := by
  unfold cliModifyMetadata
  split
  · left; rfl
  · rename_i md _
    have := editLoop_writes C G sslib (inputs.length + 1) md inputs []
    simpa using this

-- non-vacuity of `rejected_nonzero_any_stdout`: a pair that is not accepted exists (a missing trusted file), and under every stdout state its status is 1
example (C : CryptoFns) (ep : EntryPoint) (st : Stdout) : exitStatus ep (cliVerifyUnder C st none none).1 = 1 := by
  cases st <;> simp [cliVerifyUnder, cliVerifyMetadata, loadFile, exitStatus]

end CCT.C17
