#!/bin/sh
# tools/impl_coverage.sh [tier] : statement + branch coverage of /repo/conda_content_trust while the checks run (in-process calls and CLI subprocesses).
# Not part of any registered check; shows how far the correspondence generators reach into the code (DESIGN §3.4).
T=${1:-quick}
W=$(mktemp -d /tmp/cctcov.XXXXXX)
cat > $W/rc <<EOR
[run]
source = ${CCT_REPO:-/repo}/conda_content_trust
parallel = True
branch = True
data_file = $W/.coverage
EOR
for i in 01 02 03 04 05 06 07 08 09 10 11 12 13 14 15 16 17 18 19; do
  COVERAGE_PROCESS_START=$W/rc PYTHONPATH=/verif/harness /venv/bin/python -m coverage run --rcfile=$W/rc -m cctv.main C$i --tier $T >/dev/null 2>&1
done
/venv/bin/python -m coverage combine --rcfile=$W/rc >/dev/null 2>&1
/venv/bin/python -m coverage report --rcfile=$W/rc -m
rm -rf $W
