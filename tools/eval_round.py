"""tools/eval_round.py <substring>: run the own-property check on every stored seeded change whose id contains the substring."""
import json, os, subprocess, sys
from concurrent.futures import ThreadPoolExecutor
root="/verif/seeded"
pat=sys.argv[1]
def one(d):
    meta=json.load(open(f"{root}/{d}/meta.json"))
    p=meta.get("breaks_property") or meta["property"]
    r=subprocess.run(["/verif/tools/try_mutant.py", f"{root}/{d}", "--props", p],stdout=subprocess.PIPE,stderr=subprocess.STDOUT,text=True)
    try: o=json.loads(r.stdout.strip().split("\n")[-1])
    except Exception: return d,p,None,r.stdout[-300:]
    return d,p,o.get("detected_by"),{k:v for k,v in o.items() if k in("demo_clean_rc","demo_mutant_rc","tests_missing")}
with ThreadPoolExecutor(5) as ex:
    for x in ex.map(one,[d for d in sorted(os.listdir(root)) if pat in d]): print(*x); sys.stdout.flush()
