#!/bin/sh
# tools/run_all.sh [tier] [seed] : every check of MANIFEST.json once, in parallel; one summary line per check; exit 1 if any is not rc 0
HERE="$(cd "$(dirname "$0")/.." && pwd)"
TIER="${1:-quick}"; SEED="${2:-0}"
OUT="$(mktemp -d)"
for n in 01 02 03 04 05 06 07 08 09 10 11 12 13 14 15 16 17 18 19; do
  ( "$HERE/check" C$n --tier "$TIER" --seed "$SEED" > "$OUT/C$n.log" 2>&1; echo $? > "$OUT/C$n.rc" ) &
done
wait
bad=0
for n in 01 02 03 04 05 06 07 08 09 10 11 12 13 14 15 16 17 18 19; do
  rc=$(cat "$OUT/C$n.rc"); [ "$rc" = 0 ] || bad=1
  echo "rc=$rc $(grep -v WARNING "$OUT/C$n.log" | tail -1)"
done
[ $bad = 0 ] && rm -rf "$OUT" || echo "logs in $OUT"
exit $bad
