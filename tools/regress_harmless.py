#!/usr/bin/env python3
"""tools/regress_harmless.py [-j N] : every property-preserving rewrite under /verif/harmless is applied to a fresh scratch worktree; all 19 checks must stay
silent (exit 0).  Prints the alarms raised."""
import json, os, subprocess, sys
from concurrent.futures import ThreadPoolExecutor
J = int(sys.argv[sys.argv.index("-j") + 1]) if "-j" in sys.argv else 3
root = "/verif/harmless"
def one(d):
    r = subprocess.run(["/verif/tools/try_harmless.py", os.path.join(root, d)], stdout=subprocess.PIPE, stderr=subprocess.STDOUT, text=True)
    try:
        o = json.loads(r.stdout.strip().split("\n")[-1])
        return d, {k: (v["rc"], v["kinds"]) for k, v in o.get("alarms", {}).items()} if "alarms" in o else o
    except Exception:
        return d, r.stdout[-200:]
bad = 0
with ThreadPoolExecutor(J) as ex:
    for d, a in ex.map(one, sorted(os.listdir(root))):
        print(("ALARM " if a else "quiet ") + d, a or "")
        bad += 1 if a else 0
print("false alarms:", bad)
