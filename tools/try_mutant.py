#!/usr/bin/env python3
"""Evaluate a candidate mutant:  tools/try_mutant.py <dir with patch.diff, demo.py, meta.json> [--props C01,C02 | --all] [--tier quick]
 1. fresh scratch worktree of /repo HEAD (outside /repo and /verif), 2. demo on clean (must exit 0), 3. apply patch,
 4. repository test suite vs BASELINE stable_pass, 5. demo on mutant (must exit != 0), 6. our checks with CCT_REPO=<worktree>.
The worktree is removed afterwards.  Prints one JSON line with the outcome."""
import json, os, shutil, subprocess, sys, tempfile, xml.etree.ElementTree as ET

def sh(cmd, **kw):
    return subprocess.run(cmd, stdout=subprocess.PIPE, stderr=subprocess.STDOUT, text=True, **kw)

def main():
    d = os.path.abspath(sys.argv[1])
    args = sys.argv[2:]
    meta = json.load(open(os.path.join(d, "meta.json"))) if os.path.exists(os.path.join(d, "meta.json")) else {}
    props = None
    tier = "quick"
    for i, a in enumerate(args):
        if a == "--props": props = args[i + 1].split(",")
        if a == "--all": props = ["C%02d" % n for n in range(1, 20)]
        if a == "--tier": tier = args[i + 1]
    if props is None:
        props = [meta.get("property", "C01")]
    wt = tempfile.mkdtemp(prefix="cctmut-")
    os.rmdir(wt)
    out = {"mutant": d, "property": meta.get("property")}
    try:
        r = sh(["git", "-C", "/repo", "worktree", "add", "-q", "--detach", wt, "HEAD"])
        if r.returncode: raise SystemExit("worktree failed: " + r.stdout)
        shutil.copy(os.path.join(d, "demo.py"), os.path.join(wt, "_demo.py"))
        env = dict(os.environ, PYTHONDONTWRITEBYTECODE="1")
        r = sh(["/venv/bin/python", "_demo.py"], cwd=wt, env=env, timeout=300)
        out["demo_clean_rc"] = r.returncode
        r = sh(["git", "-C", wt, "apply", os.path.join(d, "patch.diff")])
        if r.returncode:
            out["apply_failed"] = r.stdout[-300:]
            print(json.dumps(out)); return
        x = os.path.join(wt, "_r.xml")
        sh(["/venv/bin/python", "-m", "pytest", "-q", "-p", "no:cacheprovider", "--timeout=900", "--continue-on-collection-errors", "--junitxml=" + x], cwd=wt, env=env, timeout=900)
        passed = set()
        try:
            for tc in ET.parse(x).getroot().iter("testcase"):
                if not any(c.tag in ("failure", "error", "skipped") for c in tc):
                    passed.add(tc.get("classname") + "::" + tc.get("name"))
        except Exception as e:
            out["junit_error"] = repr(e)
        base = json.load(open("/root/.vp/BASELINE.json"))["stable_pass"]
        out["tests_missing"] = [t for t in base if t not in passed]
        r = sh(["/venv/bin/python", "_demo.py"], cwd=wt, env=env, timeout=300)
        out["demo_mutant_rc"] = r.returncode
        out["demo_mutant_tail"] = r.stdout[-200:]
        os.unlink(os.path.join(wt, "_demo.py"))
        if os.path.exists(x): os.unlink(x)
        det = {}
        for p in props:
            r = sh([os.path.join(os.path.dirname(os.path.dirname(os.path.abspath(__file__))), "check"), p, "--tier", tier], env=dict(os.environ, CCT_REPO=wt), timeout=3600)
            line = [l for l in r.stdout.split("\n") if l.startswith("VIOLATION")]
            det[p] = {"rc": r.returncode, "line": line[0][:160] if line else ""}
            if r.returncode == 1 and line:
                rp = line[0].split("replay=")[1].split(" ")[0]
                try:
                    rep = json.load(open(rp))
                    det[p]["kinds"] = sorted({v["signature"] for v in rep.get("violations", [])})[:6] or list(rep.get("mismatch_kinds", {}))[:4]
                    shutil.copy(rp, rp.replace(".json", ".mutant.json")); os.unlink(rp)
                except Exception:
                    pass
            if r.returncode == 2:
                det[p]["err"] = r.stdout[-300:]
        out["checks"] = det
        out["detected_by"] = [p for p, v in det.items() if v["rc"] == 1]
    finally:
        sh(["git", "-C", "/repo", "worktree", "remove", "--force", wt])
        shutil.rmtree(wt, ignore_errors=True)
    print(json.dumps(out))

main()
