#!/bin/sh
# tools/eval_mutants.sh <out-dir> <props> : evaluates every m*/ under out-dir with the listed properties
for m in "$1"/m*; do
  tools/try_mutant.py "$m" --props "$2" 2>&1 | tail -1 | python3 -c "
import json,sys
try:
    o=json.loads(sys.stdin.read())
    print('$m', 'prop=',o.get('property'), 'demo',o.get('demo_clean_rc'),o.get('demo_mutant_rc'),'tests_missing',len(o.get('tests_missing',[])),'DETECTED_BY',o.get('detected_by'))
    for p,v in o.get('checks',{}).items():
        if v['rc']!=0: print('    ',p,v['rc'],(v.get('kinds') or v.get('err') or '')[:3] if isinstance(v.get('kinds'),list) else str(v.get('err'))[:200])
except Exception as e: print('$m','ERROR',e)
"
done
