#!/usr/bin/env python3
"""tools/regress_seeded.py [-j N] : every change under /verif/seeded is applied to a fresh scratch worktree and the check of the property it was written
against (for fix reverts: the checks recorded in meta.json) must report a violation again.  Prints the ones that are no longer detected."""
import json, os, subprocess, sys
from concurrent.futures import ThreadPoolExecutor
J = int(sys.argv[sys.argv.index("-j") + 1]) if "-j" in sys.argv else 6
root = "/verif/seeded"
def one(d):
    meta = json.load(open(os.path.join(root, d, "meta.json")))
    props = [meta["property"]] if meta.get("property", "").startswith("C") else meta.get("detected_by", [])
    if not os.path.exists(os.path.join(root, d, "demo.py")):
        open(os.path.join(root, d, "demo.py"), "w").write("import sys; sys.exit(0)\n")
    r = subprocess.run(["/verif/tools/try_mutant.py", os.path.join(root, d), "--props", ",".join(props)], stdout=subprocess.PIPE, stderr=subprocess.STDOUT, text=True)
    try:
        o = json.loads(r.stdout.strip().split("\n")[-1])
    except Exception:
        return d, props, None, r.stdout[-200:]
    return d, props, o.get("detected_by"), {p: (v.get("rc"), (v.get("err") or "")[-150:]) for p, v in o.get("checks", {}).items() if v.get("rc") not in (0, 1)}
with ThreadPoolExecutor(J) as ex:
    bad = 0
    for d, props, det, extra in ex.map(one, sorted(os.listdir(root))):
        ok = det is not None and all(p in det for p in props)
        if not ok:
            bad += 1
        print(("ok   " if ok else "MISS ") + d, props, det, extra or "")
        sys.stdout.flush()
print("undetected:", bad)
