#!/usr/bin/env python3
"""Re-confirm every candidate mutant under <root>/*-out/m* with tools/try_mutant.py and keep the confirmed ones as /verif/seeded/<id>/.
usage: collect_seeded.py [root=/tmp/mut] [round-prefix=""] [only-group]"""
import json, os, shutil, subprocess, sys
ROOT = sys.argv[1] if len(sys.argv) > 1 else "/tmp/mut"
PREFIX = sys.argv[2] if len(sys.argv) > 2 else ""
ONLY = sys.argv[3] if len(sys.argv) > 3 else None
PROPS = {"C01": "C01,C02,C15", "C02": "C02,C09,C01", "C03": "C03,C04,C12", "C05": "C05,C06,C01", "C07": "C07,C08", "C09": "C09,C11,C12,C08",
         "C13": "C13,C14,C15", "C10": "C10,C12,C19", "C16": "C16,C17,C18",
         # round 2 (groups of properties per agent)
         "A": "C01,C02,C06,C14,C15", "B": "C03,C04,C05,C12", "C": "C07,C08", "D": "C09,C11,C12,C08", "E": "C13,C14,C15,C05", "F": "C10,C19",
         "G": "C16,C17", "H": "C18,C08,C10"}
if PREFIX == "r4":
    PROPS = {"A": "C01,C02,C06,C13,C12,C15", "B": "C03,C04,C05,C08,C12,C17", "C": "C07,C08,C14,C15,C13", "D": "C09,C11,C18,C12,C01,C07", "E": "C10,C19,C16,C12", "F": "C17,C18,C08"}
if PREFIX == "r6":
    PROPS = {"A": "C01,C02,C06,C13,C12", "B": "C03,C04,C05,C12,C13", "C": "C07,C08,C14,C15,C13", "D": "C09,C11,C18,C07,C08", "E": "C10,C19,C16,C13", "F": "C17,C18,C08"}
if PREFIX in ("r9", "r10"):
    PROPS = {g: ",".join("C%02d" % n for n in range(1, 20)) for g in "ABCDEF"}      # style / area rounds: any property may be the one
if PREFIX == "r8":
    PROPS = {"A": "C01,C02,C06,C13,C05", "B": "C03,C04,C05,C12,C13", "C": "C07,C08,C14,C15,C13", "D": "C09,C11,C18,C07,C08", "E": "C10,C19,C16,C13", "F": "C17,C18,C04,C08"}
if PREFIX == "r7":
    PROPS = {"A": "C01,C02,C06,C13,C05", "B": "C03,C04,C05,C12,C13", "C": "C07,C08,C14,C15,C13", "D": "C09,C11,C18,C07,C08", "E": "C10,C19,C16,C13", "F": "C17,C18,C08"}
if PREFIX == "r5":
    PROPS = {"A": "C01,C02,C06,C13,C10", "B": "C03,C04,C05,C08,C12", "C": "C07,C08,C14,C15,C13", "D": "C09,C11,C12,C02,C01", "E": "C10,C19,C16,C13,C14", "F": "C17,C18,C11"}
if PREFIX == "r3":
    PROPS = {"A": "C01,C02,C13,C06", "B": "C03,C04,C05,C06,C08,C12", "C": "C07,C08,C14,C15,C12,C13", "D": "C09,C11,C18,C02,C06", "E": "C10,C19,C12,C13", "F": "C16,C17"}
out = []
for grp in sorted(PROPS):
    if ONLY and grp != ONLY:
        continue
    d = f"{ROOT}/{grp}-out"
    if not os.path.isdir(d):
        continue
    for m in sorted(os.listdir(d)):
        md = os.path.join(d, m)
        if not os.path.isdir(md) or not os.path.exists(os.path.join(md, "patch.diff")):
            continue
        r = subprocess.run(["/verif/tools/try_mutant.py", md, "--props", PROPS[grp]], stdout=subprocess.PIPE, stderr=subprocess.STDOUT, text=True)
        try:
            res = json.loads(r.stdout.strip().split("\n")[-1])
        except Exception:
            print(md, "EVAL FAILED", r.stdout[-300:]); continue
        meta = json.load(open(os.path.join(md, "meta.json")))
        confirmed = res.get("demo_clean_rc") == 0 and res.get("demo_mutant_rc") not in (0, None) and not res.get("tests_missing")
        sid = f"{meta.get('property', grp)}-{PREFIX}{grp}{m}"
        line = {"id": sid, "confirmed": confirmed, "detected_by": res.get("detected_by"), "kinds": {p: v.get("kinds") for p, v in res.get("checks", {}).items() if v["rc"] == 1}}
        print(json.dumps(line)); sys.stdout.flush()
        if confirmed:
            dst = f"/verif/seeded/{sid}"
            os.makedirs(dst, exist_ok=True)
            shutil.copy(os.path.join(md, "patch.diff"), dst)
            shutil.copy(os.path.join(md, "demo.py"), dst)
            meta.update({"breaks_property": meta.get("property"), "confirmed_by": "tools/try_mutant.py: fresh scratch worktree of /repo HEAD; demo exits 0 on the clean tree and non-zero with the patch; all 64 baseline tests still pass with the patch",
                         "checks_run": PROPS[grp], "detected_by": res.get("detected_by"), "detection_detail": line["kinds"]})
            json.dump(meta, open(os.path.join(dst, "meta.json"), "w"), indent=1)
