#!/usr/bin/env python3
"""tools/try_harmless.py <dir with patch.diff> [--props C01,C02|--all] : apply a *property-preserving* rewrite to a fresh scratch worktree of /repo HEAD,
run the baseline tests and the checks (CCT_REPO=<worktree>); every check should exit 0.  Prints one JSON line; removes the worktree."""
import json, os, subprocess, sys, tempfile

def sh(cmd, **kw):
    return subprocess.run(cmd, stdout=subprocess.PIPE, stderr=subprocess.STDOUT, text=True, **kw)

d = os.path.abspath(sys.argv[1])
props = ["C%02d" % n for n in range(1, 20)]
for i, a in enumerate(sys.argv):
    if a == "--props":
        props = sys.argv[i + 1].split(",")
wt = tempfile.mkdtemp(prefix="ccthrm-"); os.rmdir(wt)
out = {"change": d}
try:
    r = sh(["git", "-C", "/repo", "worktree", "add", "-q", "--detach", wt, "HEAD"])
    r = sh(["git", "-C", wt, "apply", os.path.join(d, "patch.diff")])
    if r.returncode:
        out["apply_failed"] = r.stdout[-300:]
    else:
        r = sh(["/venv/bin/python", "-m", "pytest", "-q", "-p", "no:cacheprovider", "--timeout=900"], cwd=wt, env=dict(os.environ, PYTHONDONTWRITEBYTECODE="1"), timeout=900)
        out["pytest_tail"] = r.stdout.strip().split("\n")[-1][:120]
        alarms = {}
        for p in props:
            r = sh([os.path.join(os.path.dirname(os.path.dirname(os.path.abspath(__file__))), "check"), p, "--tier", "quick"], env=dict(os.environ, CCT_REPO=wt), timeout=1800)
            if r.returncode != 0:
                rp = None
                for ln in r.stdout.split("\n"):
                    if ln.startswith("VIOLATION"):
                        rp = ln
                kinds = None
                try:
                    f = rp.split("replay=")[1].split(" ")[0]
                    j = json.load(open(f))
                    kinds = sorted({v.get("signature") for v in j.get("violations", [])}) or list(j.get("mismatch_kinds", {}))[:6]
                    os.rename(f, f.replace(".json", ".harmless.json"))
                except Exception:
                    pass
                alarms[p] = {"rc": r.returncode, "line": rp, "kinds": kinds, "err": r.stdout[-300:] if r.returncode == 2 else None}
        out["alarms"] = alarms
finally:
    sh(["git", "-C", "/repo", "worktree", "remove", "--force", wt])
print(json.dumps(out))
