"""tools/collect_round.py <root> <prefix> [groups…]: confirm every candidate under <root>/<G>-out/m<n> (demo clean / mutated, baseline tests) with its own property's check and keep the confirmed ones under /verif/seeded."""
import json, os, shutil, subprocess, sys
from concurrent.futures import ThreadPoolExecutor
ROOT, PREFIX = sys.argv[1], sys.argv[2]
groups = sys.argv[3:] or list("ABCDEF")
jobs = []
for g in groups:
    d = f"{ROOT}/{g}-out"
    if not os.path.isdir(d): continue
    for m in sorted(os.listdir(d)):
        md = os.path.join(d, m)
        if os.path.isdir(md) and os.path.exists(os.path.join(md, "patch.diff")) and os.path.exists(os.path.join(md, "meta.json")):
            jobs.append((g, m, md))
def one(j):
    g, m, md = j
    meta = json.load(open(os.path.join(md, "meta.json")))
    prop = meta.get("property", "C01")
    r = subprocess.run(["/verif/tools/try_mutant.py", md, "--props", prop], stdout=subprocess.PIPE, stderr=subprocess.STDOUT, text=True)
    try: res = json.loads(r.stdout.strip().split("\n")[-1])
    except Exception: return (g, m, prop, None, r.stdout[-200:])
    confirmed = res.get("demo_clean_rc") == 0 and res.get("demo_mutant_rc") not in (0, None) and not res.get("tests_missing")
    sid = f"{prop}-{PREFIX}{g}{m}"
    if confirmed:
        dst = f"/verif/seeded/{sid}"
        os.makedirs(dst, exist_ok=True)
        shutil.copy(os.path.join(md, "patch.diff"), dst); shutil.copy(os.path.join(md, "demo.py"), dst)
        meta.update({"breaks_property": prop, "confirmed_by": "tools/try_mutant.py: fresh scratch worktree of /repo HEAD; demo exits 0 on the clean tree and non-zero with the patch; all baseline tests still pass with the patch",
                     "checks_run": prop, "detected_by": res.get("detected_by"), "detection_detail": {p: v.get("kinds") for p, v in res.get("checks", {}).items() if v["rc"] == 1}})
        json.dump(meta, open(os.path.join(dst, "meta.json"), "w"), indent=1)
    return (sid, confirmed, res.get("detected_by"), {p: (v.get("kinds") or [])[:2] for p, v in res.get("checks", {}).items()}, {k: res.get(k) for k in ("demo_clean_rc", "demo_mutant_rc", "tests_missing")} if not confirmed else "")
with ThreadPoolExecutor(6) as ex:
    for x in ex.map(one, jobs): print(*x); sys.stdout.flush()
