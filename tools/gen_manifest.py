#!/usr/bin/env python3
"""(re)generate MANIFEST.json from the table below"""
import json, os
HERE = os.path.dirname(os.path.dirname(os.path.abspath(__file__)))
CHECKS = json.load(open(os.path.join(HERE, "tools", "checks.json")))
m = {
    "version": 1,
    "setup_cmd": "cd lean && lake build",
    "hooks": {
        "guard": "CONDA_CONTENT_TRUST_VERIF",
        "enable": "no hooks needed: checks import the package from /repo's working tree (PYTHONPATH=/repo) and instrument it from outside (tracing, audit hooks, clock/stdout substitution inside the harness process)",
        "baseline_off_cmd": "cd /repo && /venv/bin/python -m pytest -ra -q -p no:cacheprovider --timeout=900 --continue-on-collection-errors",
        "source_commits": [],
        "add_only": True,
    },
    "engines": [
        {"name": "lean-model", "path": "lean/", "serves_properties": [c["id"] for c in CHECKS["checks"]],
         "kind_free_text": "Lean 4 executable model of the library (lean/CCT/Model), property theorems (lean/CCT/Props), native line-protocol driver (lean/Driver.lean)"},
        {"name": "correspondence-harness", "path": "harness/cctv/", "serves_properties": [c["id"] for c in CHECKS["checks"]],
         "kind_free_text": "Python harness: seeded generators, runs the real library and the Lean driver on the same cases, compares observables, evaluates independent property oracles, writes replays/evidence"},
    ],
    "checks": [],
    "not_applicable": CHECKS.get("not_applicable", []),
    "notes": CHECKS.get("notes", ""),
}
for c in CHECKS["checks"]:
    m["checks"].append({
        "property_id": c["id"],
        "quick_cmd": f"./check {c['id']} --tier quick",
        "thorough_cmd": f"./check {c['id']} --tier thorough",
        "evidence_file": f"evidence/{c['id']}.json",
        "replay_cmd_template": f"./check {c['id']} --replay {{path}}",
        "engine": "lean-model + correspondence-harness",
        "level_claimed": {"category": "proof", "text": c["text"], "design_ref": c.get("design_ref", "DESIGN.md §6 " + c["id"])},
        "level_note": c["note"],
        "technique": c.get("technique", "Lean 4 theorems over a hand-written executable model + model/implementation correspondence check with independent property oracle"),
    })
claimed = {c["id"] for c in CHECKS["checks"]}
listed = {n["property_id"] for n in m["not_applicable"]}
for line in open(os.path.join(HERE, "properties.jsonl")):
    pid = json.loads(line)["id"]
    if pid not in claimed and pid not in listed:
        m["not_applicable"].append({"property_id": pid, "reason": "not claimed yet: its check is still under construction (the technique applies; see DESIGN.md section 6)"})
json.dump(m, open(os.path.join(HERE, "MANIFEST.json"), "w"), indent=1)
print("MANIFEST.json:", len(m["checks"]), "checks,", len(m["not_applicable"]), "not applicable")
