"""tools/regress_subset.py C08,C09,… : re-run the stored seeded changes whose judging check is in the list."""
import json, os, subprocess, sys
from concurrent.futures import ThreadPoolExecutor
root="/verif/seeded"; want=set(sys.argv[1].split(","))
def one(d):
    meta=json.load(open(f"{root}/{d}/meta.json"))
    props=[meta["property"]] if meta.get("property","").startswith("C") else meta.get("detected_by",[])
    if not (set(props) & want): return None
    r=subprocess.run(["/verif/tools/try_mutant.py", f"{root}/{d}", "--props", ",".join(props)],stdout=subprocess.PIPE,stderr=subprocess.STDOUT,text=True)
    try: o=json.loads(r.stdout.strip().split("\n")[-1])
    except Exception: return d,props,None
    return d,props,o.get("detected_by")
bad=0
with ThreadPoolExecutor(10) as ex:
    for x in ex.map(one, sorted(os.listdir(root))):
        if x is None: continue
        d,props,det=x
        ok=det is not None and all(p in det for p in props)
        if not ok: bad+=1; print("MISS",d,props,det); sys.stdout.flush()
print("undetected:",bad)
