#!/venv/bin/python
"""Run the repository's pinned test command and compare with /root/.vp/BASELINE.json's stable_pass list."""
import json, subprocess, sys, tempfile, os, xml.etree.ElementTree as ET
base = json.load(open("/root/.vp/BASELINE.json"))
with tempfile.TemporaryDirectory() as d:
    x = os.path.join(d, "r.xml")
    subprocess.run(["/venv/bin/python", "-m", "pytest", "-ra", "-q", "-p", "no:cacheprovider", "--timeout=900", "--continue-on-collection-errors", "--junitxml=" + x],
                   cwd="/repo", stdout=subprocess.DEVNULL, stderr=subprocess.DEVNULL)
    passed = set()
    for tc in ET.parse(x).getroot().iter("testcase"):
        if not any(c.tag in ("failure", "error", "skipped") for c in tc):
            passed.add(tc.get("classname") + "::" + tc.get("name"))
missing = [t for t in base["stable_pass"] if t not in passed]
print(f"baseline stable_pass: {len(base['stable_pass'])}, still passing: {len(base['stable_pass']) - len(missing)}, newly passing: {len(passed - set(base['stable_pass']))}")
for t in missing:
    print("MISSING", t)
sys.exit(1 if missing else 0)
