#!/venv/bin/python
"""Exploration (not a registered check): hypothesis-generated inputs, implementation vs Lean model through the line protocol, with shrinking.
usage: tools/explore_hypothesis.py [max_examples]   — prints minimal disagreeing inputs, exit 1 if any."""
import os, sys
sys.path.insert(0, os.path.join(os.path.dirname(os.path.dirname(os.path.abspath(__file__))), "harness"))
from hypothesis import given, settings, strategies as st, HealthCheck, Phase
from cctv import impl, proto, gen
from cctv.framework import answers_agree
from cctv.proto import Driver

N = int(sys.argv[1]) if len(sys.argv) > 1 else 2000
drv = Driver()
text = st.text(alphabet=st.characters(min_codepoint=0, max_codepoint=0x10FFFF), max_size=12)
hexs = st.text(alphabet="0123456789abcdefABCDEF \n", max_size=130)
leaf = st.one_of(st.none(), st.booleans(), st.integers(min_value=-10**30, max_value=10**30), st.floats(allow_nan=True, allow_infinity=True), text, hexs,
                 st.sampled_from(["root", "key_mgr", "signatures", "signed", "type", "delegations", "pubkeys", "threshold", "version", "timestamp", "expiration",
                                  "2020-01-01T00:00:00Z", gen.key(1).hex, gen.key(2).hex, "ab" * 64, "ab" * 20]))
keys = st.one_of(text, st.sampled_from(["signatures", "signed", "type", "delegations", "pubkeys", "threshold", "version", "timestamp", "expiration", "metadata_spec_version",
                                        "signature", "other_headers", "see_also", "root", "key_mgr", gen.key(1).hex]))
json_v = st.recursive(leaf, lambda ch: st.one_of(st.lists(ch, max_size=4), st.dictionaries(keys, ch, max_size=5)), max_leaves=25)
VALIDATORS = ["hex_string", "hex_key", "signable", "natural_int", "string", "list_of_hex_keys", "utc_isoformat", "gpg_fingerprint", "gpg_signature", "signature", "any_signature",
              "delegation", "delegations", "delegating_metadata", "byteslike"]
PREDS = ["hex_string", "hex_signature", "hex_key", "signable", "gpg_fingerprint", "gpg_signature", "signature"]
bad = []

def compare(op, args):
    line = impl.enc_case(op, args)
    i = impl.run_case(op, args)
    m = drv.ask([line])[0]
    ok = answers_agree(i, m)
    if not ok and i.startswith("E ") and m.startswith("E "):
        from cctv import schema
        acc = schema.acceptable_outcomes(op, args)
        ok = acc is not None and i in acc and m in acc
    assert ok, f"{op}: impl={i[:120]} model={m[:120]} line={line[:400]}"

S = dict(max_examples=N, deadline=None, suppress_health_check=list(HealthCheck), phases=[Phase.generate, Phase.shrink])

@settings(**S)
@given(json_v)
def t_ser(v): compare("ser", [v])

@settings(**S)
@given(st.sampled_from(VALIDATORS), json_v)
def t_check(n, v): compare("check", [n, v])

@settings(**S)
@given(st.sampled_from(PREDS), json_v)
def t_is(n, v): compare("is", [n, v])

@settings(**S)
@given(json_v, st.lists(st.sampled_from([gen.key(i).hex for i in range(4)] + ["zz"]), max_size=3), st.one_of(st.integers(-1, 3), st.floats(), st.none()), st.booleans())
def t_vsignable(env, auth, thr, gpg): compare("vsignable", [env, auth, thr, gpg])

@settings(**S)
@given(st.one_of(text, st.sampled_from(["root", "key_mgr"])), json_v, json_v, st.booleans())
def t_vdeleg(role, u, t, gpg): compare("vdeleg", [role, u, t, gpg])

@settings(**S)
@given(json_v, json_v)
def t_vroot(t, u): compare("vroot", [t, u])

@settings(**S)
@given(st.binary(max_size=60))
def t_parse_bytes(b):
    if len(b) >= 2 and (b[0] == 0 or b[1] == 0):
        return
    compare("parse", [b])

@settings(**S)
@given(st.text(alphabet=st.sampled_from(list('[]{}:,"\\ \n\t0123456789.-+eEtrufalsn/bNaInityé\ud800')), max_size=40))
def t_parse_text(t): compare("parse", [t.encode("utf-8", "surrogatepass")])

rc = 0
for f in (t_ser, t_check, t_is, t_vsignable, t_vdeleg, t_vroot, t_parse_bytes, t_parse_text):
    try:
        f()
        print(f.__name__, "ok")
    except AssertionError as e:
        rc = 1
        print(f.__name__, "DISAGREE:", str(e)[:900])
    except Exception as e:
        rc = 1
        print(f.__name__, "ERROR:", repr(e)[:600])
sys.exit(rc)
