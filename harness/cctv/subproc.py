"""entry points executed in fresh interpreter processes (configuration matrix)"""
import hashlib
import random
import sys


def serdigest(seed: int, n: int) -> None:
    from . import gen, impl

    rng = random.Random(f"cfg:{seed}")
    h = hashlib.sha256()
    for _ in range(n):
        v = gen.rand_json(rng, depth=4, budget=[30])
        v = gen.shuffled_copy(random.Random(), v)  # unseeded: insertion order varies between processes
        try:
            h.update(impl.common.canonserialize(v))
        except Exception as e:  # noqa: BLE001
            h.update(type(e).__name__.encode())
    print(h.hexdigest())


def fixtures(pre: str) -> None:
    """verify a GPG-mode and a raw-mode envelope in a process that imported nothing else"""
    import importlib
    import os

    rewrap = "rewrap-stdout" in pre
    for m in [x for x in pre.split(",") if x and x != "rewrap-stdout"]:
        importlib.import_module(m)
    from . import gen, impl

    if rewrap:
        # an application that reconfigures its standard output after the library was imported (another encoding, line buffering): the object that was
        # sys.stdout at import time is detached and unusable from then on; the library must use whatever sys.stdout is when it has something to say
        import io
        sys.stdout = io.TextIOWrapper(sys.stdout.detach(), encoding="utf-8", errors="backslashreplace", line_buffering=True)
    out = []
    for gpg in (True, False):
        ks = [gen.key(1), gen.key(2)]
        env = gen.sign_env(gen.envelope({"a": [1, 2.5, "é"]}), ks, gpg)
        env["signatures"]["junk"] = "x"                                  # something to say a diagnostic about
        env["signatures"][gen.key(7).hex] = {"signature": "00" * 64}     # ... and an unauthorized signer
        import contextlib
        with (contextlib.nullcontext() if rewrap else impl.quiet_stdout("utf-8")):
            try:
                impl.authentication.verify_signable(env, [k.hex for k in ks], 2, gpg)
                out.append("OK")
            except Exception as e:  # noqa: BLE001
                out.append(impl.classify(e))
    print(" ".join(out))


def verdict_digest(seed: int, n: int) -> str:
    import os
    import random as _r

    from . import impl
    from .props import c12

    from . import gen
    rng = _r.Random(f"c12cfg:{seed}")
    saved = gen.ORDER_RNG
    gen.ORDER_RNG = _r.Random(f"c12cfg-order:{seed}")      # the batch is the same batch in every process: member orders come from the seed, not from the caller's state
    try:
        pool = c12.build_pool(rng)
        h = hashlib.sha256()
        for _ in range(n):
            op, args = c12.rand_call(rng, pool)
            with impl.quiet_stdout(os.environ.get("PYTHONIOENCODING", "utf-8") or "utf-8"):
                h.update(impl._run(op, args).encode())
    finally:
        gen.ORDER_RNG = saved
    return h.hexdigest()


if __name__ == "__main__":
    cmd = sys.argv[1]
    if cmd == "serdigest":
        serdigest(int(sys.argv[2]), int(sys.argv[3]))
    elif cmd == "verdicts":
        import importlib
        import os

        for m in [x for x in os.environ.get("CCTV_PREIMPORT", "").split(",") if x]:
            importlib.import_module(m)
        print(verdict_digest(int(sys.argv[2]), int(sys.argv[3])))
    elif cmd == "exotic":
        from . import exotic
        for lab in sys.argv[2:]:
            # each label in a process of its own would be the purest form; a process per *group* of labels of the same call kind is used by the caller
            print(lab + "\t" + exotic.run(lab))
    elif cmd == "fixtures":
        fixtures(sys.argv[2] if len(sys.argv) > 2 else "")
    else:
        raise SystemExit("unknown command")
