"""entry points executed in fresh interpreter processes (configuration matrix)"""
import hashlib
import random
import sys


def serdigest(seed: int, n: int) -> None:
    from . import gen, impl

    rng = random.Random(f"cfg:{seed}")
    h = hashlib.sha256()
    for _ in range(n):
        v = gen.rand_json(rng, depth=4, budget=[30])
        v = gen.shuffled_copy(random.Random(), v)  # unseeded: insertion order varies between processes
        try:
            h.update(impl.common.canonserialize(v))
        except Exception as e:  # noqa: BLE001
            h.update(type(e).__name__.encode())
    print(h.hexdigest())


if __name__ == "__main__":
    cmd = sys.argv[1]
    if cmd == "serdigest":
        serdigest(int(sys.argv[2]), int(sys.argv[3]))
    else:
        raise SystemExit("unknown command")
