"""Stand-in for the optional dependency `securesystemslib.gpg.functions` (absent from this sandbox) so that the library's *own*
GPG signing path (root_signing.sign_via_gpg / sign_root_metadata_dict_via_gpg / sign_root_metadata_via_gpg) runs unmodified.

Two back ends behind `create_signature` / `export_pubkey`:
  * harness signer: fingerprints registered with `register(key)` sign with that ed25519 key over the RFC 4880 v4 digest, with
    hashed headers shaped like GnuPG's;
  * real GnuPG (thorough tier): keys generated in a temporary GNUPGHOME; the detached signature packet gpg emits is parsed here.
"""
from __future__ import annotations

import hashlib
import os
import shutil
import struct
import subprocess
import sys
import tempfile
import time
import types

from . import gen

REGISTRY: dict[str, gen.Key] = {}
GPG_KEYS: dict[str, str] = {}       # fingerprint -> raw public key hex (real GnuPG keys)
GNUPGHOME: str | None = None
FAIL_NEXT: list = []                 # exceptions to raise from the next create_signature calls (fault injection)
CALLS: list = []
CANNED = None                        # (other_headers, signature, q): what the signer returns, fixed by the caller; non-str = the call raises ValueError


def fingerprint_of(k: gen.Key) -> str:
    return hashlib.sha1(b"cctv-fpr" + k.pub).hexdigest()


def register(k: gen.Key) -> str:
    f = fingerprint_of(k)
    REGISTRY[f] = k
    return f


def hashed_headers(fpr: str, when: int = 1594609606) -> bytes:
    """version 4, sigtype 0x00 (binary), pubkey algo 22 (EdDSA), hash algo 8 (SHA-256), hashed subpackets:
    issuer fingerprint (33) and signature creation time (2) — the layout GnuPG 2.2 produces"""
    sub = bytes([0x16, 33, 4]) + bytes.fromhex(fpr) + bytes([5, 2]) + struct.pack(">I", when)
    return bytes([4, 0, 22, 8]) + struct.pack(">H", len(sub)) + sub


DURING: list = []                    # callables run while the signer is being asked (what other processes do to the file system in the meantime)


def create_signature(content, keyid=None, homedir=None):
    CALLS.append(("create_signature", keyid))
    while DURING:
        DURING.pop(0)()
    if FAIL_NEXT:
        raise FAIL_NEXT.pop(0)
    if CANNED is not None:
        oh, sg, _q = CANNED
        if not (isinstance(oh, str) and isinstance(sg, str)):
            raise ValueError("canned signer: no signature")
        return {"keyid": keyid, "other_headers": oh, "signature": sg}
    if keyid in REGISTRY:
        k = REGISTRY[keyid]
        hdr = hashed_headers(keyid)
        sig = k.sign(gen.gpg_digest(bytes(content), hdr))
        return {"keyid": keyid, "other_headers": hdr.hex(), "signature": sig.hex()}
    if keyid in GPG_KEYS:
        return _gpg_sign(bytes(content), keyid)
    raise ValueError("no such key in the (shimmed) keyring: " + str(keyid))


def export_pubkey(keyid, homedir=None):
    CALLS.append(("export_pubkey", keyid))
    if CANNED is not None:
        if not isinstance(CANNED[2], str):
            raise ValueError("canned signer: no such key")
        q = CANNED[2]
    elif keyid in REGISTRY:
        q = REGISTRY[keyid].hex
    elif keyid in GPG_KEYS:
        q = GPG_KEYS[keyid]
    else:
        raise ValueError("no such key in the (shimmed) keyring: " + str(keyid))
    return {"type": "eddsa", "method": "pgp+eddsa-ed25519", "hashes": ["pgp+SHA2"], "keyid": keyid,
            "keyval": {"private": "", "public": {"q": q}}}


def install() -> None:
    """register the fake package; must run before conda_content_trust.root_signing is imported"""
    if "securesystemslib.gpg.functions" in sys.modules and getattr(sys.modules["securesystemslib.gpg.functions"], "__cctv_shim__", False):
        return
    pkg = types.ModuleType("securesystemslib")
    pkg.__path__ = []
    fmts = types.ModuleType("securesystemslib.formats")
    fmts.GPG_ED25519_PUBKEY_METHOD_STRING = "pgp+eddsa-ed25519"
    fmts.GPG_HASH_ALGORITHM_STRING = "pgp+SHA2"
    g = types.ModuleType("securesystemslib.gpg")
    g.__path__ = []
    f = types.ModuleType("securesystemslib.gpg.functions")
    f.create_signature = create_signature
    f.export_pubkey = export_pubkey
    f.__cctv_shim__ = True
    pkg.formats, pkg.gpg, g.functions = fmts, g, f
    sys.modules.update({"securesystemslib": pkg, "securesystemslib.formats": fmts, "securesystemslib.gpg": g, "securesystemslib.gpg.functions": f})


# ------------------------------------------------------------------ real GnuPG

def _run_gpg(args, inp=None):
    env = dict(os.environ, GNUPGHOME=GNUPGHOME)
    return subprocess.run(["gpg", "--batch", "--no-tty", "--pinentry-mode", "loopback", "--passphrase", ""] + args, input=inp, env=env,
                          stdout=subprocess.PIPE, stderr=subprocess.PIPE)


def gpg_available() -> bool:
    return shutil.which("gpg") is not None


def gpg_setup(nkeys: int = 2, import_repo_keys: str | None = None) -> list[str]:
    """temporary keyring with freshly generated ed25519 keys (and the repository's test keys); returns fingerprints"""
    global GNUPGHOME
    if GNUPGHOME is None:
        GNUPGHOME = tempfile.mkdtemp(prefix="cctv-gnupg-")
        os.chmod(GNUPGHOME, 0o700)
        import atexit

        def _cleanup():
            subprocess.run(["gpgconf", "--kill", "gpg-agent"], env=dict(os.environ, GNUPGHOME=GNUPGHOME), stdout=subprocess.DEVNULL, stderr=subprocess.DEVNULL)
            shutil.rmtree(GNUPGHOME, ignore_errors=True)

        atexit.register(_cleanup)
    for i in range(nkeys):
        p = _run_gpg(["--quick-generate-key", f"cctv{i}-{time.time_ns()}@example.invalid", "ed25519", "sign", "never"])
        if p.returncode != 0:
            raise RuntimeError("gpg key generation failed: " + p.stderr.decode()[-300:])
    if import_repo_keys:
        for fn in sorted(os.listdir(import_repo_keys)):
            if fn.endswith(".pri.asc"):
                _run_gpg(["--import", os.path.join(import_repo_keys, fn)])
    p = _run_gpg(["--list-keys", "--with-colons"])
    fprs = []
    lines = p.stdout.decode().split("\n")
    for i, ln in enumerate(lines):
        if ln.startswith("pub:"):
            for l2 in lines[i + 1:]:
                if l2.startswith("fpr:"):
                    fprs.append(l2.split(":")[9].lower())
                    break
    for f in fprs:
        if f not in GPG_KEYS:
            q = _export_q(f)
            if q:
                GPG_KEYS[f] = q
    return [f for f in fprs if f in GPG_KEYS]


def _packets(data: bytes):
    i = 0
    while i < len(data):
        t = data[i]
        i += 1
        if t & 0x40:  # new format
            tag = t & 0x3F
            l0 = data[i]
            i += 1
            if l0 < 192:
                ln = l0
            elif l0 < 224:
                ln = ((l0 - 192) << 8) + data[i] + 192
                i += 1
            else:
                ln = struct.unpack(">I", data[i:i + 4])[0]
                i += 4
        else:
            tag = (t >> 2) & 0xF
            lt = t & 3
            if lt == 0:
                ln = data[i]
                i += 1
            elif lt == 1:
                ln = struct.unpack(">H", data[i:i + 2])[0]
                i += 2
            elif lt == 2:
                ln = struct.unpack(">I", data[i:i + 4])[0]
                i += 4
            else:
                ln = len(data) - i
        yield tag, data[i:i + ln]
        i += ln


def _mpi(b: bytes, i: int):
    bits = struct.unpack(">H", b[i:i + 2])[0]
    n = (bits + 7) // 8
    return b[i + 2:i + 2 + n], i + 2 + n


def _export_q(fpr: str) -> str | None:
    p = _run_gpg(["--export", fpr])
    for tag, body in _packets(p.stdout):
        if tag == 6 and body[0] == 4 and body[5] == 22:
            oidlen = body[6]
            m, _ = _mpi(body, 7 + oidlen)
            if m[:1] == b"\x40" and len(m) == 33:
                return m[1:].hex()
    return None


def _gpg_sign(content: bytes, fpr: str) -> dict:
    p = _run_gpg(["--local-user", fpr, "--digest-algo", "SHA256", "--detach-sign", "--output", "-"], inp=content)
    if p.returncode != 0:
        raise ValueError("gpg signing failed: " + p.stderr.decode()[-300:])
    for tag, body in _packets(p.stdout):
        if tag == 2 and body[0] == 4:
            hl = struct.unpack(">H", body[4:6])[0]
            hdr = body[:6 + hl]
            ul = struct.unpack(">H", body[6 + hl:8 + hl])[0]
            j = 8 + hl + ul + 2
            r, j = _mpi(body, j)
            s, j = _mpi(body, j)
            sig = r.rjust(32, b"\0") + s.rjust(32, b"\0")
            return {"keyid": fpr, "other_headers": hdr.hex(), "signature": sig.hex()}
    raise ValueError("no v4 signature packet in gpg output")
