"""Directed cases of the library's GPG *file* path (root_signing.sign_root_metadata_via_gpg behind the securesystemslib stand-in), shared by C02, C08 and C10."""
from __future__ import annotations

import os

from . import envgen, gen, gpgshim, proto


def run(ck, impl, d) -> None:
        # the GPG file path, directed: (a) the signer's *previous* entry in the file is an ill-formed one (a hand-edited note with an upper-case fingerprint): the
    # fresh entry is well formed and counts; (b) while the signer is being asked, another writer replaces the file with another payload: whatever the file
    # holds afterwards, an entry by this signer that is in it counts for the payload it sits next to (no signature filed beside a payload it was not made over)
    gk = gen.key(3)
    gfpr = gpgshim.register(gk)
    gfn = os.path.join(d, "gpg-directed.json")
    p1 = gen.root_md([gk], 1, [gen.key(9)], 1, version=4)
    e1 = gen.envelope(p1)
    e1["signatures"][gk.hex] = {"other_headers": "04001608", "signature": "ab" * 64, "see_also": gfpr.upper()}
    e1["signatures"][gen.key(4).hex] = gen.gpg_entry(gen.key(4), gen.oracle_bytes(p1), gen.GPG_HDR_TYPICAL)
    try:
        with open(gfn, "wb") as f:
            f.write(gen.oracle_bytes(e1))
        impl.root_signing.sign_root_metadata_via_gpg(gfn, gfpr)
        after_ = impl.common.load_metadata_from_file(gfn)
        ck.evaluations += 1
        ck.oracle_checks += 1
        ck.count("gpg-directed:previous-entry-ill-formed")
        if gk.hex not in envgen.counting_keys(after_, [gk.hex], True) or gen.key(4).hex not in envgen.counting_keys(after_, [gen.key(4).hex], True):
            ck.violation("a signature just added through the library's GPG path does not count for its signer (the signer's earlier, ill-formed entry was in the file)",
                         {"entry_now": proto.enc(after_.get("signatures", {}).get(gk.hex))[:300]}, "new-signature-invalid:sign-gpg:previous-ill-formed")
        p2 = gen.root_md([gk], 1, [gen.key(9)], 1, version=5)
        with open(gfn, "wb") as f:
            f.write(gen.oracle_bytes(gen.envelope(p1)))
        def other_writer():
            with open(gfn, "wb") as f2:
                f2.write(gen.oracle_bytes(gen.envelope(p2)))
        gpgshim.DURING.append(other_writer)
        try:
            impl.root_signing.sign_root_metadata_via_gpg(gfn, gfpr)
        finally:
            del gpgshim.DURING[:]
        after_ = impl.common.load_metadata_from_file(gfn)
        ck.evaluations += 1
        ck.oracle_checks += 1
        ck.count("gpg-directed:file-replaced-while-signing")
        if isinstance(after_, dict) and gk.hex in (after_.get("signatures") or {}) and gk.hex not in envgen.counting_keys(after_, [gk.hex], True):
            ck.violation("the GPG file path filed a signature beside a payload it was not made over (the file was replaced by another writer while the signer was asked)",
                         {"payload_version_in_file": after_.get("signed", {}).get("version"), "signed_version": 4}, "new-signature-invalid:sign-gpg:file-replaced")
    except Exception as e:  # noqa: BLE001
        ck.violation("a file operation on well-formed metadata failed", {"op": "sign-gpg (directed)", "error": repr(e)[:300]}, f"fileop-failed:sign-gpg-directed:{type(e).__name__}")
