"""Fault injection at every executed line of the library (sys.settrace) and observation of every open() of a target file (audit hook)."""
from __future__ import annotations

import os
import sys
import threading

PKG_DIR = None


class InjectedFault(Exception):
    pass


class InjectedInterrupt(KeyboardInterrupt):
    """control-c / SIGINT arriving at that line: a failure like any other as far as the file is concerned, but not an `Exception`"""


class InjectedExit(SystemExit):
    """sys.exit() from a signal handler / a host application shutting down"""


class InjectedMemory(MemoryError):
    pass


class InjectedStop(StopIteration):
    """the exception iteration protocols treat as "no more items": consumers such as dict.update(map(...)), zip, list(...) swallow it"""


FAULT_CLASSES = [InjectedFault, InjectedInterrupt, InjectedMemory, InjectedExit, InjectedStop]


_OPEN_LOG: list | None = None
_TARGET: str | None = None
_HOOK_INSTALLED = False


PROBE = None          # optional callable: a snapshot of harness-side state recorded with every event that concerns the target


def _is_target(path) -> bool:
    try:
        if not isinstance(path, (str, bytes, os.PathLike)):
            return False
        p = os.fsdecode(path)
        # the target by the name it was given, or by the file that name resolves to (a tool may resolve a symbolic link itself and work on the real file)
        return os.path.abspath(p) == _TARGET or os.path.realpath(p) == os.path.realpath(_TARGET)
    except Exception:
        return False


def _audit(event, args):
    """every event that reads or can modify the target file: (kind, mode, line-event number, probe).  mode contains "w" when the event can
    change the file: open for writing / appending / updating (also os.open with write flags), rename / replace onto it, remove, truncate."""
    if _OPEN_LOG is None or _TARGET is None:
        return
    try:
        rec = None
        if event == "open" and _is_target(args[0]):
            mode = args[1] if len(args) > 1 and args[1] is not None else None
            if mode is None:
                flags = args[2] if len(args) > 2 and isinstance(args[2], int) else 0
                mode = "w" if flags & (os.O_WRONLY | os.O_RDWR | os.O_TRUNC | os.O_APPEND) else "r"
            elif any(c in mode for c in "wax+"):
                mode = "w:" + mode
            rec = ("open", mode)
        elif event == "os.rename" and (_is_target(args[1]) or _is_target(args[0])):
            rec = ("rename", "w")
        elif event in ("os.remove", "os.truncate", "shutil.move", "shutil.copyfile") and any(_is_target(a) for a in args[:2]):
            rec = (event, "w")
        if rec is not None:
            _OPEN_LOG.append((rec[0], rec[1], _EVENT_NO[0], PROBE() if PROBE is not None else None))
    except Exception:
        rec = None
    if rec is not None and DENY_WRITE[0] and rec[0] == "open" and "w" in rec[1]:
        # the operating system refuses: a read-only file / immutable flag / quota — the event is aborted with the error the caller would get
        raise PermissionError(13, "Permission denied (injected)", _TARGET)


DENY_WRITE = [False]     # while set, opening the target for writing is refused with PermissionError (a read-only file in a writable directory: replacing or removing it remains possible)
_EVENT_NO = [0]
FIRED = [False]      # whether the injected line fault of the last run_traced call was actually raised (it may have been swallowed by the library)


def install_hook():
    global _HOOK_INSTALLED
    if not _HOOK_INSTALLED:
        sys.addaudithook(_audit)
        _HOOK_INSTALLED = True


def run_traced(fn, target: str, pkg_dir: str, fault_at: int | None = None, fault_cls=InjectedFault, trace: bool = True):
    """run fn() counting line events in frames whose code lives under pkg_dir; raise InjectedFault when the counter reaches fault_at.
    Returns (exception or None, number of line events, open log for `target`)."""
    global _OPEN_LOG, _TARGET
    install_hook()
    _OPEN_LOG = []
    _TARGET = os.path.abspath(target)
    _EVENT_NO[0] = 0
    FIRED[0] = False
    pkg_dir = os.path.abspath(pkg_dir) + os.sep

    def local(frame, event, arg):
        if event == "line":
            _EVENT_NO[0] += 1
            if fault_at is not None and _EVENT_NO[0] == fault_at:
                FIRED[0] = True
                cls = fault_cls
                if issubclass(cls, StopIteration) and frame.f_code.co_flags & 0x2A0:
                    # inside a generator / coroutine frame a StopIteration raised by *code* becomes RuntimeError (PEP 479); one raised by a trace function
                    # at a line event is not converted and simply ends the generator — an artefact of the injection, not a fault that can occur.  An
                    # ordinary error is injected there instead.
                    cls = InjectedFault
                raise cls(f"injected at line event {fault_at}: {os.path.basename(frame.f_code.co_filename)}:{frame.f_lineno}")
        return local

    def tracer(frame, event, arg):
        if event == "call" and frame.f_code.co_filename.startswith(pkg_dir):
            return local
        return None

    exc = None
    old = sys.gettrace()
    if trace:
        sys.settrace(tracer)
        threading.settrace(tracer)      # threads the library starts (worker pools) are traced and can be faulted too
    try:
        try:
            fn()
        except BaseException as e:  # noqa: BLE001
            exc = e
    finally:
        sys.settrace(old)
        threading.settrace(None)
    log = _OPEN_LOG
    _OPEN_LOG = None
    _TARGET = None
    return exc, _EVENT_NO[0], log


def touches(log):
    """the events of a log that can modify the target"""
    return [e for e in log if "w" in e[1]]


def reads(log):
    return [e for e in log if "w" not in e[1]]
