"""Fault injection at every executed line of the library (sys.settrace) and observation of every open() of a target file (audit hook)."""
from __future__ import annotations

import os
import sys
import threading

PKG_DIR = None


class InjectedFault(Exception):
    pass


_OPEN_LOG: list | None = None
_TARGET: str | None = None
_HOOK_INSTALLED = False


def _audit(event, args):
    if event == "open" and _OPEN_LOG is not None and _TARGET is not None:
        try:
            path = args[0]
            if isinstance(path, (str, bytes, os.PathLike)) and os.path.abspath(os.fsdecode(path)) == _TARGET:
                mode = args[1] if len(args) > 1 and args[1] is not None else "r"
                _OPEN_LOG.append(("open", mode, _EVENT_NO[0]))
        except Exception:
            pass


_EVENT_NO = [0]


def install_hook():
    global _HOOK_INSTALLED
    if not _HOOK_INSTALLED:
        sys.addaudithook(_audit)
        _HOOK_INSTALLED = True


def run_traced(fn, target: str, pkg_dir: str, fault_at: int | None = None):
    """run fn() counting line events in frames whose code lives under pkg_dir; raise InjectedFault when the counter reaches fault_at.
    Returns (exception or None, number of line events, open log for `target`)."""
    global _OPEN_LOG, _TARGET
    install_hook()
    _OPEN_LOG = []
    _TARGET = os.path.abspath(target)
    _EVENT_NO[0] = 0
    pkg_dir = os.path.abspath(pkg_dir) + os.sep

    def local(frame, event, arg):
        if event == "line":
            _EVENT_NO[0] += 1
            if fault_at is not None and _EVENT_NO[0] == fault_at:
                raise InjectedFault(f"injected at line event {fault_at}: {os.path.basename(frame.f_code.co_filename)}:{frame.f_lineno}")
        return local

    def tracer(frame, event, arg):
        if event == "call" and frame.f_code.co_filename.startswith(pkg_dir):
            return local
        return None

    exc = None
    old = sys.gettrace()
    sys.settrace(tracer)
    try:
        try:
            fn()
        except BaseException as e:  # noqa: BLE001
            exc = e
    finally:
        sys.settrace(old)
    log = _OPEN_LOG
    _OPEN_LOG = None
    _TARGET = None
    return exc, _EVENT_NO[0], log
