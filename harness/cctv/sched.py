"""Deterministic two-thread schedules over real library calls.

The interference injection of C12 runs a complete foreign call between two lines of another call (overlaps that nest: the inner call begins and ends inside
the outer one).  Threads also overlap *without* nesting: A begins, B begins, A ends, B ends.  `staggered` produces exactly that schedule, for chosen points:
thread A runs until its k1-th line event inside the library and waits; thread B then runs until its k2-th and waits (or finishes, or blocks on a lock A
holds); A runs to completion; B resumes and completes.  Line events are counted in frames whose code lives under `pkg_prefix`."""
from __future__ import annotations

import os
import sys
import threading


_PKG_CACHE: dict = {}


def _in_pkg(filename: str, pkg: str) -> bool:
    key = (filename, pkg)
    r = _PKG_CACHE.get(key)
    if r is None:
        r = _PKG_CACHE[key] = os.path.realpath(filename).startswith(pkg)
    return r


class _Runner:
    def __init__(self, fn, stop_at, pkg_prefix):
        self.fn, self.stop_at, self.pkg = fn, stop_at, pkg_prefix
        self.count = 0
        self.paused = threading.Event()
        self.go = threading.Event()
        self.done = threading.Event()
        self.result = None
        self.reached = False
        self.thread = threading.Thread(target=self._main, daemon=True)

    def _local(self, frame, event, arg):
        if event == "line":
            self.count += 1
            if self.stop_at is not None and self.count == self.stop_at:
                self.reached = True
                self.paused.set()
                self.go.wait(10)
        return self._local

    def _global(self, frame, event, arg):
        if event == "call" and _in_pkg(frame.f_code.co_filename, self.pkg):
            return self._local
        return None

    def _main(self):
        sys.settrace(self._global)
        try:
            try:
                self.result = self.fn()
            except BaseException as e:  # noqa: BLE001
                self.result = "X " + type(e).__name__ + ": " + str(e)[:120]
        finally:
            sys.settrace(None)
            self.done.set()
            self.paused.set()


def count_events(fn, pkg_prefix: str) -> tuple:
    """(result, number of library line events) of fn run alone in a thread of its own"""
    r = _Runner(fn, None, pkg_prefix)
    r.thread.start()
    r.thread.join(120)
    return r.result, r.count


def staggered(fn_a, fn_b, k1: int, k2: int, pkg_prefix: str) -> tuple:
    """A: ...k1 | B: ...k2 | A: rest | B: rest.   Returns (result_a, result_b, a_reached_k1, b_reached_k2)."""
    a = _Runner(fn_a, k1, pkg_prefix)
    b = _Runner(fn_b, k2, pkg_prefix)
    a.thread.start()
    a.paused.wait(60)
    b.thread.start()
    b.paused.wait(1.0)          # b pauses at k2, finishes, or blocks on a lock a holds: after a real switch the scheduler would return to a as well
    a.go.set()
    a.thread.join(0.5)
    # (if a is still running it may be blocked on a lock that b holds at its stopping point: as after a real switch, b goes on)
    b.go.set()
    a.thread.join(120)
    b.thread.join(120)
    return a.result, b.result, a.reached, b.reached
