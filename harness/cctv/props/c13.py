"""C13 — failures are fail-closed and use the documented error families."""
from __future__ import annotations

import copy
import datetime

from .. import envgen, gen, mdgen, proto, schema
from ..framework import Case, Check
from .c03 import root_pair, directed_pair
from .c05 import deleg_case
from .c15 import nonstring_inputs, entry_inputs

RULE = ("every public validator and verifier with every argument position given every kind of Python value (27 kinds incl. bytes, bytearray, "
        "tuple, set, object, complex, key objects, timedelta), random JSON values, and valid arguments mutated at every JSON path (deletion, "
        "33 replacement values incl. Infinity/NaN/10^400, dict-as-list ...); plus single-fault inputs for the four named error mappings. "
        "non-trivial = the call got past the first top-level type test of its first argument; distinct by (function, arguments)")

THEOREMS = ["validators_families", "verifySignable_families", "verifyDelegation_families", "verifyRoot_families", "class_insufficient_sigs",
            "class_unknown_role", "class_version_mismatch", "class_type_mismatch", "intLimit_accept_implies", "intLimit_same_on_wf", "intLimit_families", "refused_payload_outcomes"]

VALIDATORS = ["hex_string", "hex_key", "signable", "natural_int", "string", "list_of_hex_keys", "utc_isoformat", "gpg_fingerprint", "gpg_signature",
              "signature", "any_signature", "delegation", "delegations", "delegating_metadata", "byteslike", "expiration_distance", "key"]
PREDICATES = ["hex_string", "hex_signature", "hex_key", "signable", "gpg_fingerprint", "gpg_signature", "signature"]

ALLOWED = {
    "check": {"OK", "E ArgError"},
    "is": {"T", "F"},
    "vsig": {"OK", "E ArgError", "E InvalidSignature"},
    "vgpg": {"OK", "E ArgError", "E InvalidSignature"},
    "vsignable": {"OK", "E ArgError", "E SignatureError"},
    "vdeleg": {"OK", "E ArgError", "E SignatureError", "E UnknownRoleError", "E MetadataVerificationError"},
    "vroot": {"OK", "E ArgError", "E SignatureError", "E MetadataVerificationError"},
    "sign": {"V", "E ArgError"},
}


def kinds(rng):
    k = gen.key(1)
    ks = [v for v, _ in nonstring_inputs(rng)]
    ks += [proto.KeyObj(False, k.pub), proto.KeyObj(True, k.seed), datetime.timedelta(days=1), datetime.timedelta(0), "x", "", k.hex, {"a": 1}, [k.hex],
           float("inf"), float("-inf"), 10**400, -1, 2**64, 1.0, "2020-01-01T00:00:00Z"]
    ks += near_envelopes()
    return ks


def near_envelopes():
    """two entries, a signature map, but the other member is not "signed" / is absent / is spelled differently"""
    k = gen.key(1)
    md = gen.root_md([k], 1, [k], 1)
    return [{"signatures": {}, "payload": md}, {"signatures": {k.hex: gen.raw_entry(k, gen.oracle_bytes(md))}, "Signed": md}, {"signatures": {}, "signed ": 1},
            {"signatures": {}}, {"signed": md}, {"signatures": {}, "signed": md, "x": None}, {"signatures": None, "signed": md}, {"signature": {}, "signed": md}]


def run(ck: Check) -> None:
    rng = ck.rng
    cases = []
    K = kinds(rng)
    # validators x kinds, validators x random JSON
    for name in VALIDATORS:
        for v in K:
            cases.append(Case("check", [name, v], tag="validator-kind"))
        for _ in range(ck.n(40, 12)):
            cases.append(Case("check", [name, gen.rand_json(rng, 3, [15])], tag="validator-json"))
    for name in PREDICATES:
        for v in K:
            cases.append(Case("is", [name, v], tag="predicate-kind"))
        for _ in range(ck.n(40, 12)):
            cases.append(Case("is", [name, gen.rand_json(rng, 3, [15])], tag="predicate-json"))
    # structured validators with path mutations
    dels = {"root": gen.delegation([gen.key(1), gen.key(2)], 2), "key_mgr": gen.delegation([gen.key(3)], 1)}
    for m, label in mdgen.mutations(rng, dels, per_path=6, max_total=300):
        cases.append(Case("check", ["delegations", m], tag="delegations-mutated"))
    for m, label in mdgen.mutations(rng, dels["root"], per_path=8, max_total=200):
        cases.append(Case("check", ["delegation", m], tag="delegation-mutated"))
    for v, t in entry_inputs(rng):
        for name in ("signature", "gpg_signature", "any_signature"):
            cases.append(Case("check", [name, v], tag="entry"))
    # single-signature primitives
    k = gen.key(1)
    data = b"payload"
    good_sig = k.sign(data).hex()
    hdr = gen.GPG_HDR_TYPICAL
    gentry = gen.gpg_entry(k, data, hdr)
    for v in K:
        cases.append(Case("vsig", [v, proto.KeyObj(False, k.pub), data], tag="vsig-arg0"))
        cases.append(Case("vsig", [good_sig, v, data], tag="vsig-arg1"))
        cases.append(Case("vsig", [good_sig, proto.KeyObj(False, k.pub), v], tag="vsig-arg2"))
        cases.append(Case("vgpg", [v, k.hex, data], tag="vgpg-arg0"))
        cases.append(Case("vgpg", [gentry, v, data], tag="vgpg-arg1"))
        cases.append(Case("vgpg", [gentry, k.hex, v], tag="vgpg-arg2"))
    cases.append(Case("vsig", [good_sig, proto.KeyObj(False, k.pub), data], tag="vsig-valid"))
    cases.append(Case("vsig", [good_sig, proto.KeyObj(False, k.pub), data + b"x"], tag="vsig-invalid"))
    cases.append(Case("vgpg", [gentry, k.hex, data], tag="vgpg-valid"))
    cases.append(Case("vgpg", [gentry, k.hex, bytearray(data)], tag="vgpg-valid-bytearray"))
    cases.append(Case("vgpg", [gentry, k.hex, data + b"x"], tag="vgpg-invalid"))
    for v, t in entry_inputs(rng):
        cases.append(Case("vgpg", [v, k.hex, data], tag="vgpg-entry"))
    # verify_signable: each argument position
    for i in range(ck.n(200, 50)):
        gpg = bool(i % 2)
        c = envgen.signable_case(rng, gpg)
        env, auth = c["env"], c["auth"]
        for v in rng.sample(K, 6):
            cases.append(Case("vsignable", [v, auth, 1, gpg], tag="vsignable-arg0", group=i))
            cases.append(Case("vsignable", [env, v, 1, gpg], tag="vsignable-arg1", group=i))
            if not isinstance(v, proto.Opaque) and not isinstance(v, (bytes, bytearray, tuple, proto.KeyObj, datetime.timedelta)):
                cases.append(Case("vsignable", [env, auth, v, gpg], tag="vsignable-arg2", group=i))
        muts = mdgen.mutations(rng, env, per_path=1, max_total=30)
        for m, label in rng.sample(muts, min(8, len(muts))):
            cases.append(Case("vsignable", [m, auth, 1, gpg], tag="vsignable-mutated", group=i))
        cases.append(Case("vsignable", [env, auth, 1, rng.choice([1, 2, "yes", [0], 1.5]) if gpg else rng.choice([0, "", None, [], 0.0])], tag="vsignable-truthy-flag", group=i))
        if auth:
            a2 = list(auth)
            a2[rng.randrange(len(a2))] = rng.choice([None, 5, "zz", a2[0].upper(), [a2[0]], a2[0][:-1]])
            cases.append(Case("vsignable", [env, a2, 1, gpg], tag="vsignable-badkeylist", group=i))
    # verify_delegation / verify_root: path mutations of either argument and kinds
    for i in range(ck.n(150, 40)):
        gpg = bool(i % 2)
        role, u, t = deleg_case(rng, gpg)
        for which, doc in ((1, u), (2, t)):
            muts = mdgen.mutations(rng, doc, per_path=1, max_total=50)
            for m, label in rng.sample(muts, min(6, len(muts))):
                args = [role, u, t, gpg]
                args[which] = m
                cases.append(Case("vdeleg", args, tag="vdeleg-mutated-arg%d" % which, group=1000 + i))
        # mode flags that are == to True / False without being the bool objects pass the flag check; the outcome families still hold
        cases.append(Case("vdeleg", [role, u, t, (1 if gpg else 0) if i % 4 < 2 else (1.0 if gpg else 0.0)], tag="vdeleg-flag-equal-to-bool", group=1000 + i))
        for v in rng.sample(K, 3):
            cases.append(Case("vdeleg", [role, v, t, gpg], tag="vdeleg-arg1", group=1000 + i))
            cases.append(Case("vdeleg", [role, u, v, gpg], tag="vdeleg-arg2", group=1000 + i))
            cases.append(Case("vdeleg", [v, u, t, gpg], tag="vdeleg-arg0", group=1000 + i))
        a, b = root_pair(rng)
        for which, doc in ((0, a), (1, b)):
            muts = mdgen.mutations(rng, doc, per_path=1, max_total=50)
            for m, label in rng.sample(muts, min(6, len(muts))):
                args = [a, b]
                args[which] = m
                cases.append(Case("vroot", args, tag="vroot-mutated-arg%d" % which, group=2000 + i))
        for v in rng.sample(K, 2):
            cases.append(Case("vroot", [v, b], tag="vroot-arg0", group=2000 + i))
            cases.append(Case("vroot", [a, v], tag="vroot-arg1", group=2000 + i))
    for i in range(ck.n(300, 80)):
        t_, u_, tag_ = directed_pair(rng)
        cases.append(Case("vroot", [t_, u_], tag="vroot-directed", group=3000 + i))
    # near-envelopes in every envelope position of every verifier (and the signer's)
    k1 = gen.key(1)
    good_root = gen.sign_env(gen.envelope(gen.root_md([k1], 1, [k1], 1, version=1)), [k1], True, rng)
    next_root = gen.sign_env(gen.envelope(gen.root_md([k1], 1, [k1], 1, version=2)), [k1], True, rng)
    for ne in near_envelopes():
        for gpg in (False, True):
            cases.append(Case("vsignable", [ne, [k1.hex], 1, gpg], tag="near-envelope", group=9000))
            cases.append(Case("vdeleg", ["root", ne, good_root, gpg], tag="near-envelope", group=9000))
            cases.append(Case("vdeleg", ["root", next_root, ne, gpg], tag="near-envelope", group=9000))
        cases.append(Case("vroot", [ne, next_root], tag="near-envelope", group=9000))
        cases.append(Case("vroot", [good_root, ne], tag="near-envelope", group=9000))
        cases.append(Case("check", ["delegating_metadata", ne], tag="near-envelope", group=9000))
        cases.append(Case("check", ["signable", ne], tag="near-envelope", group=9000))
        cases.append(Case("sign", [ne, proto.KeyObj(True, k1.seed)], tag="near-envelope", group=9000))
    res = ck.run_cases(cases, "corr:all-validators-and-verifiers/outcome-class")
    for r in res:
        ck.oracle_checks += 1
        allowed = ALLOWED[r.case.op]
        if r.impl not in ("E ArgError", "F") or r.case.tag.endswith(("mutated", "json", "entry")) or "mutated" in r.case.tag:
            ck.nontrivial_add(hash(repr([proto.enc(a) if not isinstance(a, str) else a for a in r.case.args if not isinstance(a, proto.Opaque)]) + r.case.op))
        if (r.impl if not r.impl.startswith("V ") else "V") not in allowed:
            ck.violation("a validator/verifier left its documented outcome families (internal error escaped, or wrong family)",
                         {"call": r.case.op, "args": [(proto.enc(a)[:700] if not isinstance(a, proto.Opaque) else repr(a)) if not (isinstance(a, str) and r.case.op in ('check', 'is') and a is r.case.args[0]) else a for a in r.case.args],
                          "impl": r.impl, "class_of_input": r.case.tag}, f"family:{r.case.op}:{r.impl}:{r.case.tag}")
    # the four named mappings on single-fault inputs
    named = []
    for i in range(ck.n(60, 20)):
        ks = [gen.key(j) for j in rng.sample(range(8), 2)]
        t = gen.envelope(gen.root_md(ks, 2, [gen.key(8)], 1, version=3))
        km = gen.sign_env(gen.envelope(gen.delegating_md("key_mgr", {"pkg_mgr": gen.delegation([gen.key(9)], 1)})), [gen.key(8)], False)
        named.append((Case("vdeleg", ["key_mgr", gen.envelope(km["signed"]), t, False], tag="named:insufficient"), "E SignatureError"))
        named.append((Case("vdeleg", ["nobody", gen.sign_env(gen.envelope({"a": 1}), [gen.key(8)], False), t, False], tag="named:unknown-role"), "E UnknownRoleError"))
        named.append((Case("vdeleg", ["root", km, t, False], tag="named:type-mismatch"), "E MetadataVerificationError"))
        nr = gen.sign_env(gen.envelope(gen.root_md(ks, 2, [gen.key(8)], 1, version=rng.choice([3, 5, 2]))), ks, True)
        named.append((Case("vroot", [t, nr], tag="named:version"), "E MetadataVerificationError"))
        nr2 = gen.sign_env(gen.envelope(gen.root_md(ks, 2, [gen.key(8)], 1, version=4)), ks[:1], True)
        named.append((Case("vroot", [t, nr2], tag="named:root-insufficient"), "E SignatureError"))
        # enough signatures for the trusted root's rule, too few for the rule the new root declares for itself (a rotation that adds keys / raises the threshold)
        more = ks + [gen.key(j) for j in range(8, 10)]
        nr3 = gen.sign_env(gen.envelope(gen.root_md(more, rng.choice([3, 4]), [gen.key(8)], 1, version=4)), ks, True)
        named.append((Case("vroot", [t, nr3], tag="named:root-own-rule-insufficient"), "E SignatureError"))
        nr4 = gen.sign_env(gen.envelope(gen.root_md([gen.key(10), gen.key(11)], 1, [gen.key(8)], 1, version=4)), [gen.key(10)], True)
        named.append((Case("vroot", [t, nr4], tag="named:root-trusted-rule-insufficient"), "E SignatureError"))
        named.append((Case("vsignable", [gen.sign_env(gen.envelope([1, 2]), ks[:1], False), [k.hex for k in ks], 2, False], tag="named:signable-insufficient"), "E SignatureError"))
    # payloads holding an integer beyond the interpreter's conversion limit (in-memory only: no file can carry one): the serializer's ValueError is an
    # argument error, raised once the checks that come before serialization have passed — an undelegated role or a type mismatch is still reported as such
    # (Model/IntLimit.lean; theorems intLimit_families, refused_payload_outcomes)
    huge = 10 ** 4300
    kk = [gen.key(1), gen.key(2)]
    tmd = gen.envelope(gen.delegating_md("root", {"key_mgr": gen.delegation(kk, 1), "root": gen.delegation(kk, 1)}, version=1))
    for pl in ({"n": huge}, [1, [huge]], {"a": {"b": [-huge]}}, huge):
        e_ = {"signatures": {kk[0].hex: {"signature": "ab" * 64}}, "signed": pl}
        named.append((Case("vsignable", [e_, [kk[0].hex], 1, False], tag="named:huge-int-payload"), "E ArgError"))
        named.append((Case("vsignable", [e_, [kk[0].hex], 1, True], tag="named:huge-int-payload"), "E ArgError"))
        named.append((Case("vdeleg", ["key_mgr", e_, tmd, False], tag="named:huge-int-payload"), "E ArgError"))
        named.append((Case("vdeleg", ["nobody", e_, tmd, False], tag="named:huge-int-payload-unknown-role"), "E UnknownRoleError"))
        named.append((Case("sign", [{"signatures": {}, "signed": pl}, proto.KeyObj(True, kk[0].seed)], tag="named:huge-int-payload"), "E ArgError"))
    huge_root = gen.root_md(kk, 1, [gen.key(3)], 1, version=2)
    huge_root["note"] = huge
    named.append((Case("vroot", [tmd, gen.envelope(huge_root)], tag="named:huge-int-payload"), "E ArgError"))
    huge_root3 = dict(huge_root, version=3)
    named.append((Case("vroot", [tmd, gen.envelope(huge_root3)], tag="named:huge-int-payload-version"), "E MetadataVerificationError"))
    typed = gen.delegating_md("root", {}, version=1)
    typed["note"] = huge
    named.append((Case("vdeleg", ["key_mgr", gen.envelope(typed), tmd, False], tag="named:huge-int-payload-type-mismatch"), "E MetadataVerificationError"))
    # inputs no protocol can carry to the model — a payload that contains itself — run on the implementation alone: still one of the documented families
    from .. import impl
    cyc = {"a": [1, 2]}
    cyc["a"].append(cyc)
    cl = [1]
    cl.append({"back": cl})
    for pl in (cyc, cl, {"x": {"y": cyc}}):
        e_ = {"signatures": {kk[0].hex: {"signature": "ab" * 64}}, "signed": pl}
        for op_, args_ in (("vsignable", [e_, [kk[0].hex], 1, False]), ("vsignable", [e_, [kk[0].hex], 1, True]), ("vdeleg", ["key_mgr", e_, tmd, False])):
            with impl.quiet_stdout():
                out_ = impl._run(op_, args_)
            ck.evaluations += 1
            ck.oracle_checks += 1
            ck.count("self-containing-payload:" + out_[:24])
            if out_ not in ("E ArgError", "E SignatureError"):
                ck.violation("a verifier given a payload that contains itself ended outside the documented error families", {"call": op_, "impl": out_}, f"family:{op_}:{out_}:self-containing")
    # a call whose diagnostics cannot be printed (broken pipe / full device), then the same call on a healthy stdout: the second terminates with its usual verdict
    e_ = gen.sign_env(gen.envelope({"a": 1}), kk[:1], False)
    e_["signatures"]["junk"] = "x"
    e_["signatures"][gen.key(7).hex] = {"signature": "00" * 64}
    for mode in ("broken:pipe", "broken:full", "broken:closed"):
        first = impl.run_case("vsignable", [e_, [kk[0].hex], 1, False], mode)
        second = impl.run_case("vsignable", [e_, [kk[0].hex], 1, False], "utf-8")
        ck.evaluations += 2
        ck.oracle_checks += 1
        ck.count("after-broken-stdout:" + second[:20])
        if second != "OK":
            ck.violation("after a call whose diagnostics could not be printed, the same call on a healthy standard output does not return its usual verdict (does not terminate / fails)",
                         {"stdout_of_first_call": mode, "first": first, "second": second}, f"after-broken-stdout:{second}")
            break
    # the same named cases with warnings promoted to errors (-W error / PYTHONWARNINGS=error / pytest filterwarnings): advice to the caller is no error family
    import copy as _copy
    for c_, want_ in list(named):
        c2 = Case(c_.op, c_.args, tag=c_.tag + "+Werror", enc="utf-8+Werror")
        named.append((c2, want_))
    for gpg_ in (False, True):
        rk = [gen.key(1)]
        rt = gen.envelope(gen.root_md(rk, 1, [gen.key(3)], 1, version=2))
        ru = gen.sign_env(gen.envelope(gen.root_md(rk, 1, [gen.key(3)], 1, version=2)), rk, gpg_)
        named.append((Case("vdeleg", ["root", ru, rt, gpg_], tag="named:role-root-on-root+Werror", enc="utf-8+Werror"), "OK"))
    res = ck.run_cases([n[0] for n in named], "corr:named-error-mappings/outcome-class")
    for (c, want), r in zip(named, res):
        ck.oracle_checks += 1
        ck.nontrivial_add(("named", c.tag, proto.enc(c.args[1])[:200]))
        if r.impl != want:
            ck.violation("a named rejection reason is reported with the wrong error class", {"case": c.tag, "impl": r.impl, "documented": want,
                         "args": [proto.enc(a)[:600] if not isinstance(a, str) else a for a in c.args]}, f"named:{c.tag}:{r.impl}")
