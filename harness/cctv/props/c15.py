"""C15 — leaf format validators decide exact grammars; one spelling per key."""
from __future__ import annotations

import re

from .. import gen, proto
from ..framework import Case, Check

RULE = ("strings built from valid hex strings of every boundary length with one position replaced by a code point "
        "(all code points below U+0300 plus a seeded sample of the rest; exhaustive over all 0x110000 in the thorough tier), "
        "case / whitespace / prefix / non-ASCII-digit variants, every non-str kind, and signature-entry dicts over the "
        "field-name set with valid and invalid field values; non-trivial = the value reaches past the first type test "
        "(a str for string validators, a dict for entry validators); distinct by (validator, value)")

THEOREMS = ["checkHexString_iff", "checkHexKey_iff", "isHexSignature_eq", "checkGpgFingerprint_iff", "checkSignature_iff", "checkGpgSignature_iff", "distinct_keys_distinct_bytes", "keylist_nodup_bytes", "pred_agrees"]

HEX = "0123456789abcdef"


def is_lower_hex(s, n=None):
    return isinstance(s, str) and len(s) > 0 and len(s) % 2 == 0 and all(c in HEX for c in s) and (n is None or len(s) == n)


def o_gpg_sig(d):
    if not isinstance(d, dict):
        return False
    ks = sorted(d.keys())
    if ks not in (["other_headers", "signature"], ["other_headers", "see_also", "signature"]):
        return False
    return is_lower_hex(d["other_headers"]) and is_lower_hex(d["signature"], 128) and ("see_also" not in d or is_lower_hex(d["see_also"], 40))


def o_signature(d):
    if not isinstance(d, dict):
        return False
    if list(d.keys()) == ["signature"]:
        return is_lower_hex(d["signature"], 128)
    return o_gpg_sig(d)


ORACLE = {
    "hex_string": lambda v: is_lower_hex(v),
    "hex_key": lambda v: is_lower_hex(v, 64),
    "hex_signature": lambda v: is_lower_hex(v, 128),
    "gpg_fingerprint": lambda v: is_lower_hex(v, 40),
    "gpg_signature": o_gpg_sig,
    "signature": o_signature,
    "any_signature": lambda v: o_signature(v) or o_gpg_sig(v),
    "list_of_hex_keys": lambda v: isinstance(v, list) and all(is_lower_hex(k, 64) for k in v) and len(set(v)) == len(v),
}
HAS_IS = ["hex_string", "hex_key", "hex_signature", "gpg_fingerprint", "gpg_signature", "signature"]
HAS_CHECK = ["hex_string", "hex_key", "gpg_fingerprint", "gpg_signature", "signature", "any_signature", "list_of_hex_keys"]
STRING_VALIDATORS = ["hex_string", "hex_key", "hex_signature", "gpg_fingerprint"]

SPECIAL_CP = [0, 9, 10, 11, 12, 13, 0x1c, 0x1f, 32, 0x2f, 0x30, 0x39, 0x3a, 0x40, 0x41, 0x46, 0x47, 0x60, 0x61, 0x66, 0x67, 0x7f, 0x85, 0xa0, 0xaa, 0xb2,
              0xb5, 0xe9, 0x130, 0x131, 0x17f, 0x660, 0x669, 0x6f0, 0x966, 0x1680, 0x2000, 0x2028, 0x2029, 0x202f, 0x205f, 0x2070, 0x2160, 0x3000,
              0xd800, 0xdbff, 0xdc00, 0xdfff, 0xfeff, 0xff10, 0xff19, 0xff21, 0xff41, 0xff46, 0xfffe, 0xffff, 0x10000, 0x1d7ce, 0x1d7ff, 0x10ffff]


def rand_hex(rng, n):
    return "".join(rng.choice(HEX) for _ in range(n))


def string_inputs(ck: Check):
    rng = ck.rng
    out = []
    lens = [0, 1, 2, 3, 4, 38, 39, 40, 41, 42, 62, 63, 64, 65, 66, 126, 127, 128, 129, 130, 256]
    for n in lens:
        s = rand_hex(rng, n)
        out.append((s, "len%d" % n))
        if n:
            out.append((s.upper() if s.upper() != s else "A" + s[1:], "upper"))
            i = rng.randrange(n)
            out.append((s[:i] + s[i].upper() + s[i + 1:] if s[i].upper() != s[i] else s[:i] + "F" + s[i + 1:], "one-upper"))
            for w in [" ", "\t", "\n", "\r", "\x0b", "\x0c", "\x1c", "\x85", "\xa0", " ", "　"]:
                out.append((w + s, "ws-lead"))
                out.append((s + w, "ws-trail"))
                out.append((s[: 2 * (n // 4)] + w + s[2 * (n // 4):], "ws-between-pairs"))
                out.append((s[:1] + w + s[1:], "ws-inside-pair"))
                if n >= 2:
                    out.append((s[:-1] + w, "ws-replacing-last"))   # same length, whitespace instead of a digit
                    out.append((w + s[1:], "ws-replacing-first"))
                    out.append((s[:-2] + w + w, "ws-replacing-pair"))
            out.append(("0x" + s, "0x-prefix"))
            out.append(("0x" + s[2:], "0x-inplace"))
            out.append((s.replace("0", "０").replace("1", "١") if ("0" in s or "1" in s) else "٣" + s[1:], "nonascii-digit"))
            out.append((s[:-1], "odd"))
            out.append((s + "g", "non-hex-letter"))
            out.append((s[:-1] + "g", "non-hex-letter-inplace"))
            out.append((s + "\x00", "nul"))
            out.append((s[:-1] + "\x00", "nul-inplace"))
            out.append(("-" + s[1:], "minus"))
            out.append(("+" + s[1:], "plus"))
            out.append((s[:-1] + "_", "underscore"))
    return out


def nonstring_inputs(rng):
    k = rand_hex(rng, 64)
    return [
        (k.encode(), "bytes64"), (bytearray(k.encode()), "bytearray64"), (bytes(32), "bytes32"), (b"", "bytes0"), (None, "none"), (0, "int"), (1, "int"), (True, "bool"),
        (1.5, "float"), (float("nan"), "nan"), (list(k), "list-of-chars"), ([k], "list1"), (tuple(k), "tuple"), ({k: 1}, "dict"), ({}, "dict0"), ([], "list0"),
        (list(rand_hex(rng, 40)), "list40"), ({str(i): 1 for i in range(40)}, "dict40"), (tuple(rand_hex(rng, 40)), "tuple40"), (bytes(40), "bytes40"),
        (list(rand_hex(rng, 128)), "list128"), (int(k, 16), "bigint"), (proto.Opaque(0), "object"), (proto.Opaque(1), "set"), (proto.Opaque(2), "complex"),
        (proto.Opaque(6), "range"), (proto.Opaque(11), "memoryview"),
    ]


def entry_inputs(rng):
    sig, hdr, fp = rand_hex(rng, 128), rand_hex(rng, rng.choice([2, 70, 72])), rand_hex(rng, 40)
    good = {"signature": [sig], "other_headers": [hdr, "00"], "see_also": [fp]}
    bad = {
        "signature": [sig[:-2], sig + "00", sig.upper() if sig.upper() != sig else "A" + sig[1:], " " + sig[1:], sig[:-1] + " ", "", None, 5, [sig], {"signature": sig}],
        "other_headers": ["", "0", "abc", "AB", "zz", " 00", "00 ", None, 7, ["00"], hdr + "0"],
        "see_also": ["", fp[:-2], fp + "00", fp.upper() if fp.upper() != fp else "A" + fp[1:], None, 9, [fp], list(fp), " " + fp[1:]],
    }
    fields = ["signature", "other_headers", "see_also"]
    out = []
    for mask in range(8):
        present = [f for i, f in enumerate(fields) if mask >> i & 1]
        d = {f: rng.choice(good[f]) for f in present}
        out.append((dict(d), "shape-%d" % mask))
        lst = list(d.items())
        rng.shuffle(lst)
        out.append((dict(lst), "shape-%d-shuffled" % mask))
        for f in present:
            for b in bad[f]:
                e = dict(d)
                e[f] = b
                out.append((e, "bad-" + f))
        for extra in ["extra", "Signature", "signature ", "keyid", ""]:
            e = dict(d)
            e[extra] = rng.choice(["x", sig, None])
            out.append((e, "extra-field"))
    out += [({}, "empty"), ([], "list"), (None, "none"), ("x", "str"), (sig, "sig-str"), ([["signature", sig]], "pairs"), (proto.Opaque(0), "object"),
            (("signature", sig), "tuple")]
    return out


def run(ck: Check) -> None:
    rng = ck.rng
    cases = []

    def add(name, v, tag):
        if name in HAS_IS:
            cases.append(Case("is", [name, v], tag=tag, meta={"v": name}))
        if name in HAS_CHECK:
            cases.append(Case("check", [name, v], tag=tag, meta={"v": name}))

    for s, tag in string_inputs(ck):
        for name in STRING_VALIDATORS:
            add(name, s, tag)
    # one code point substituted into an otherwise valid string
    cps = list(range(0x300)) + SPECIAL_CP
    if ck.thorough:
        cps = list(range(0x110000))
        ck.exhaustive = True
    else:
        cps += [rng.randrange(0x300, 0x110000) for _ in range(2500)]
    base2 = "a0"
    for cp in cps:
        c = chr(cp)
        cases.append(Case("is", ["hex_string", c + base2[1]], tag="cp-first"))
        cases.append(Case("is", ["hex_string", base2[0] + c], tag="cp-second"))
    for cp in (cps if not ck.thorough else list(range(0x300)) + SPECIAL_CP):
        c = chr(cp)
        k = rand_hex(rng, 64)
        i = rng.choice([0, 1, 31, 62, 63])
        cases.append(Case("is", ["hex_key", k[:i] + c + k[i + 1:]], tag="cp-in-key"))
        cases.append(Case("check", ["gpg_fingerprint", k[:39] + c], tag="cp-in-fingerprint"))
    for v, tag in nonstring_inputs(rng):
        for name in HAS_CHECK + ["hex_signature"]:
            add(name, v, "kind-" + tag)
    for _ in range(ck.n(6, 2)):
        for v, tag in entry_inputs(rng):
            for name in ["signature", "gpg_signature", "any_signature"]:
                add(name, v, "entry-" + tag)
    # key lists
    for _ in range(ck.n(300, 80)):
        n = rng.randint(0, 5)
        ks = [gen.key(rng.randrange(8)).hex for _ in range(n)]
        r = rng.random()
        tag = "keys"
        if r < 0.25 and ks:
            ks[rng.randrange(len(ks))] = rng.choice([ks[0].upper(), " " + ks[0], ks[0][:-2], ks[0] + "00", None, 5, [ks[0]]])
            tag = "keys-bad-element"
        elif r < 0.4 and ks:
            ks.append(ks[0])
            tag = "keys-duplicate"
        v = ks if rng.random() < 0.9 else tuple(ks)
        add("list_of_hex_keys", v, tag)

    res = ck.run_cases(cases, "corr:leaf-validators/outcome")
    by_input = {}
    for r in res:
        name, v = r.case.args
        want = ORACLE[name](v)
        ck.oracle_checks += 1
        if r.case.op == "is":
            got = {"T": True, "F": False}.get(r.impl)
        else:
            got = True if r.impl == "OK" else (False if r.impl == "E ArgError" else None)
        sig = f"{r.case.op}:{name}:{r.case.tag}"
        if got is None:
            ck.violation("validator left its documented outcomes (True/False; return/TypeError/ValueError)", {"validator": name, "op": r.case.op, "value": proto.enc(v)[:300], "impl": r.impl}, sig)
        elif got != want:
            ck.violation("validator disagrees with the exact grammar", {"validator": name, "op": r.case.op, "value": proto.enc(v)[:300], "impl": r.impl, "grammar_says": want}, sig)
        key = (name, proto.enc(v))
        by_input.setdefault(key, {})[r.case.op] = got
        if isinstance(v, (str, dict)) or (name == "list_of_hex_keys" and isinstance(v, list)):
            ck.nontrivial_add((name, proto.enc(v)))
    for (name, ev), d in by_input.items():
        if "is" in d and "check" in d:
            ck.oracle_checks += 1
            if d["is"] != d["check"]:
                ck.violation("predicate form and raising form disagree", {"validator": name, "value": ev[:300], "is": d["is"], "check_accepts": d["check"]}, "pred-vs-raiser:" + name)
    # distinct accepted key strings denote distinct bytes: accepted spellings are canonical
    for (name, ev), d in by_input.items():
        if name == "hex_key" and d.get("is"):
            s = proto.dec(ev)
            ck.oracle_checks += 1
            try:
                canonical = isinstance(s, str) and bytes.fromhex(s).hex() == s      # an accepted value of another kind is a second spelling too
            except (ValueError, TypeError):
                canonical = False
            if not canonical:
                ck.violation("an accepted key string is not the canonical spelling of its bytes", {"value": ev[:300]}, "spelling")
