"""C12 — verification is pure: no argument mutation, no state carried across calls."""
from __future__ import annotations

import copy
import hashlib
import os
import subprocess
import sys
import threading

from .. import envgen, gen, mdgen, proto, schema
from ..framework import Case, Check
from .c03 import root_pair
from .c05 import deleg_case

RULE = ("a shared pool of keys, payloads, envelopes (same key / same signature / different payload variants) and trusted metadata; seeded histories of "
        "30-200 validator and verifier calls on the *same objects* (never copies), repeated and reordered; after every call a deep structural snapshot "
        "(values, types, key order, identity of every container) of every argument is compared with the one taken before, and the verdict with the "
        "model's single-call verdict; wrap-then-mutate at every JSON path in both directions; threads over shared trusted metadata; the same calls in a "
        "fresh process and under other stdout encodings / hash seeds.  non-trivial = a call whose arguments passed the first type check; distinct by (call, arguments)")

THEOREMS = ["history_independent", "verifier_is_function_of_values", "wrap_result_independent"]


def snapshot(v, seen=None):
    """structure + identities: any in-place change of an argument (value, order, or replaced container) shows"""
    if isinstance(v, dict):
        return ("d", id(v), tuple((k, snapshot(x)) for k, x in v.items()))
    if isinstance(v, list):
        return ("l", id(v), tuple(snapshot(x) for x in v))
    if isinstance(v, float):
        return ("f", repr(v))
    return (type(v).__name__, v if not isinstance(v, (bytearray,)) else bytes(v))


def boolify(rng, env):
    """spell some thresholds / versions of 1 as the bool True (accepted everywhere an int >= 1 is): a validator that 'normalises' what it
    vetted would rewrite them in place"""
    sg = env.get("signed") if isinstance(env, dict) else None
    if not isinstance(sg, dict):
        return env
    if sg.get("version") == 1 and rng.random() < 0.5:
        sg["version"] = True
    for d in (sg.get("delegations") or {}).values() if isinstance(sg.get("delegations"), dict) else []:
        if isinstance(d, dict) and d.get("threshold") == 1 and rng.random() < 0.7:
            d["threshold"] = True
    return env


def build_pool(rng):
    """objects shared by all calls of a history"""
    pool = {"envs": [], "trusted": [], "roots": [], "values": []}
    for i in range(10):
        gpg = bool(i % 2)
        c = envgen.signable_case(rng, gpg)
        pool["envs"].append((c["env"], c["auth"], gpg))
        # related input: same signature entries, different payload
        other = {"signatures": c["env"]["signatures"], "signed": {"changed": i}}        # shares the entries *object*
        pool["envs"].append((other, c["auth"], gpg))
        # related input: same payload, same key ids, signature *values* corrupted (a damaged copy of the same document, seen before or after the good one)
        dam = {"signatures": {}, "signed": c["env"]["signed"]}
        for kk_, ee_ in c["env"]["signatures"].items():
            if isinstance(ee_, dict) and isinstance(ee_.get("signature"), str) and len(ee_["signature"]) == 128:
                sg_ = ee_["signature"]
                ee_ = {**ee_, "signature": sg_[:-1] + ("0" if sg_[-1] != "0" else "1")}
            dam["signatures"][kk_] = ee_
        pool["envs"].insert(len(pool["envs"]) - 2, (dam, c["auth"], gpg))
    for gpg in (False, True):
        # entries whose diagnostics would echo printable non-ASCII text: the verdict may not depend on what stdout can encode
        c = envgen.signable_case(rng, gpg, states=["raw_valid" if not gpg else "gpg_valid", "nonascii_value", "nonascii_value"], npool=3)
        pool["envs"].append((c["env"], c["auth"] or [gen.key(0).hex], gpg))
    for i in range(6):
        role, u, t = deleg_case(rng, bool(i % 2))
        if i % 3 == 0:
            boolify(rng, t)
        pool["trusted"].append((role, u, t, bool(i % 2)))
    for i in range(6):
        t, u = root_pair(rng)
        if i % 2 == 0 and isinstance(u.get("signatures"), dict):
            # well-formed entries that can never count in the root check (raw-format, mis-spelled key ids): nobody may tidy them away in the caller's object
            data_ = gen.oracle_bytes(u["signed"])
            u["signatures"][gen.key(8).hex] = gen.raw_entry(gen.key(8), data_)
            u["signatures"][gen.key(9).hex.upper()] = gen.gpg_entry(gen.key(9), data_, gen.GPG_HDR_TYPICAL)
        if i % 3 == 0:
            boolify(rng, t)         # the trusted root only: the untrusted one's signatures cover its exact bytes
        pool["roots"].append((t, u))
    for i in range(10):
        pool["values"].append(gen.rand_json(rng, 3, [15]))
    return pool


def rand_call(rng, pool):
    r = rng.random()
    if r < 0.06:
        # the key helpers on the very values the verifiers are about to meet: a key id that authorizes signatures, read as a public key, as a private key
        # (any 32 bytes are a seed), as bytes — calls on related inputs that must leave later verdicts alone
        env, auth, gpg = rng.choice(pool["envs"])
        keys_ = [k for k in list(auth) + list(env["signatures"]) if isinstance(k, str) and len(k) == 64 and all(c in "0123456789abcdef" for c in k)]
        if keys_:
            hx = rng.choice(keys_)
            fn_ = rng.choice(["priv_from_hex", "pub_from_hex", "priv_from_bytes", "pub_from_bytes"])
            return ("key", [fn_, hx if fn_.endswith("hex") else bytes.fromhex(hx)])
    if 0.06 <= r < 0.12:
        # the single-signature primitives on payloads held in mutable buffers (bytearray): the buffer is the caller's and stays as it is
        k_ = gen.key(rng.randrange(4))
        data = pool.setdefault("buffers", [bytearray(b"payload-%d" % j * 3) for j in range(3)])[rng.randrange(3)]
        if rng.random() < 0.5:
            return ("vgpg", [gen.gpg_entry(k_, bytes(data), gen.GPG_HDR_TYPICAL), k_.hex, data])
        return ("vsig", [k_.sign(bytes(data)).hex(), proto.KeyObj(False, k_.pub), data])
    if r < 0.35:
        env, auth, gpg = rng.choice(pool["envs"])
        return ("vsignable", [env, auth, rng.choice([1, 1, 2, 3]), gpg])
    if r < 0.55:
        role, u, t, gpg = rng.choice(pool["trusted"])
        if rng.random() < 0.3:
            u = rng.choice(pool["envs"])[0]
        return ("vdeleg", [role, u, t, gpg])
    if r < 0.7:
        t, u = rng.choice(pool["roots"])
        if rng.random() < 0.3:
            u = rng.choice(pool["roots"])[1]
        return ("vroot", [t, u])
    if r < 0.85:
        name = rng.choice(["delegating_metadata", "signable", "delegations", "any_signature", "hex_key", "list_of_hex_keys"])
        src = rng.choice(pool["trusted"])[2] if rng.random() < 0.5 else rng.choice(pool["envs"])[0]
        v = src if name in ("delegating_metadata", "signable") else (src["signed"].get("delegations", {}) if isinstance(src.get("signed"), dict) and name == "delegations" else rng.choice(pool["values"]))
        return ("check", [name, v])
    name = rng.choice(["signable", "signature", "gpg_signature", "hex_key"])
    env = rng.choice(pool["envs"])[0]
    vals = list(env["signatures"].values()) + [env]
    return ("is", [name, rng.choice(vals)])


def process_settings() -> dict:
    """interpreter- and process-wide settings a library call has no business leaving changed (each can change what a *later* call does: recursion allowance,
    integer / text conversions, where relative names point, what printing does ...)"""
    import decimal, locale, signal, warnings
    out = {"recursion-limit": sys.getrecursionlimit(), "int-max-str-digits": sys.get_int_max_str_digits(), "cwd": os.getcwd(), "locale": locale.setlocale(locale.LC_ALL),
           "stdout": id(sys.stdout), "stderr": id(sys.stderr), "excepthook": id(sys.excepthook), "threading-excepthook": id(threading.excepthook),
           "decimal-precision": decimal.getcontext().prec, "warnings-filters": len(warnings.filters), "sys.path": tuple(sys.path), "environ": tuple(sorted(os.environ.items())),
           "sigint": repr(signal.getsignal(signal.SIGINT)), "sigterm": repr(signal.getsignal(signal.SIGTERM)), "sigpipe": repr(signal.getsignal(signal.SIGPIPE)),
           "trace": id(sys.gettrace()), "profile": id(sys.getprofile()), "thread-stack-size": threading.stack_size(), "default-timeout": __import__("socket").getdefaulttimeout()}
    um = os.umask(0)
    os.umask(um)
    out["umask"] = um
    return out


def settings_unchanged(ck, before: dict, where: str) -> bool:
    now = process_settings()
    diff = {k: [str(before[k])[:80], str(now[k])[:80]] for k in before if before[k] != now[k]}
    ck.oracle_checks += 1
    if diff:
        ck.violation("library calls left a process-wide interpreter setting changed (state carried across calls: a later call can behave differently because of it)",
                     {"after": where, "changed": diff}, "process-setting-left-changed:" + ",".join(sorted(diff)))
        return False
    return True


def direct(impl, op, args, enc="utf-8"):
    """call the library on the very objects given (no copies)"""
    with impl.quiet_stdout(enc):
        return impl._run(op, args)


def run(ck: Check) -> None:
    from .. import impl

    rng = ck.rng
    settings0 = process_settings()
    ck.correspondences.add("corr:api-histories/verdict-per-call")
    nh = ck.n(12, 4)
    all_lines, all_impl, all_calls, all_call_args = [], [], [], []
    for h in range(nh):
        pool = build_pool(rng)
        calls = []
        for j in range(0, min(len(pool["envs"]), 12), 3):
            dam_, good_ = pool["envs"][j], pool["envs"][j + 1]
            if dam_[0].get("signed") is good_[0].get("signed"):
                for e_, a_, g_ in (dam_, good_, dam_, good_):
                    calls.append(("vsignable", [e_, a_, 1, g_]))
        calls += [rand_call(rng, pool) for _ in range(ck.n(200, 60))]
        calls += [calls[i] for i in rng.sample(range(len(calls)), 15)]          # repeats
        for op, args in calls:
            before = [snapshot(a) for a in args]
            line = impl.enc_case(op, args)
            out = direct(impl, op, args, enc=rng.choice(["utf-8", "ascii", "utf-8", "broken:none"]))
            after = [snapshot(a) for a in args]
            ck.evaluations += 1
            ck.oracle_checks += 1
            if before != after:
                idx = [i for i, (x, y) in enumerate(zip(before, after)) if x != y]
                ck.violation("a validator / verifier modified an object passed to it", {"call": op, "argument_positions": idx, "request": line[:1200]}, f"mutated:{op}:{args[0] if op in ('check','is') else ''}:arg{idx}")
            all_lines.append(line)
            all_impl.append(out)
            all_calls.append((h, op))
            all_call_args.append(args)
            if not out.startswith(("E ArgError", "F")):
                ck.nontrivial_add(hashlib.sha1(line.encode()).digest())
    model = ck.driver.run(all_lines, [h for h, _ in all_calls])
    from ..framework import answers_agree
    all_args = []
    for line, i, m, (h, op) in zip(all_lines, all_impl, model, all_calls):
        ck.count("op:" + op)
        if not answers_agree(i, m) and i.startswith("E ") and m.startswith("E ") and op in ("vroot", "vdeleg"):
            acc = schema.acceptable_outcomes(op, all_call_args[len(all_args)])
            if acc is not None and i in acc and m in acc:
                ck.benign += 1
                all_args.append(None)
                continue
        all_args.append(None)
        if not answers_agree(i, m):
            ck.mismatch_total += 1
            kk = f"history:{op}:impl={i[:30]}:model={m[:30]}"
            ck.mismatch_kinds[kk] = ck.mismatch_kinds.get(kk, 0) + 1
            if len(ck.mismatches) < 10:
                ck.mismatches.append({"corr": "corr:api-histories/verdict-per-call", "line": line[:1500], "impl": i[:200], "model": m[:200], "tag": op, "meta": {"history": h}, "stdout_encoding": "mixed"})
            ck.oracle_checks += 1
    # identical calls in one history must give identical verdicts (no state carried across calls)
    seen = {}
    for line, i in zip(all_lines, all_impl):
        ck.oracle_checks += 1
        if line in seen and seen[line] != i:
            ck.violation("the same call gave different verdicts at different points of a history", {"request": line[:1200], "first": seen[line][:100], "later": i[:100]}, "history-dependent-verdict")
        seen.setdefault(line, i)

    # the caller edits an object in place between two calls (same object identity, other content) and edits it back: each call is judged on what the
    # object holds at that moment — nothing remembered about the object from the previous call may be reused
    k_ = [gen.key(1), gen.key(2)]
    for i in range(ck.n(60, 20)):
        gpg = bool(i % 2)
        kind = i % 3
        if kind == 0:
            env = gen.sign_env(gen.envelope({"name": "p", "n": [1, 2], "v": {"a": 1}}), k_, gpg, rng)
            call = lambda e=env, g=gpg: direct(impl, "vsignable", [e, [k.hex for k in k_], 2, g])
        elif kind == 1:
            t_ = gen.envelope(gen.delegating_md("root", {"key_mgr": gen.delegation(k_, 2)}))
            env = gen.sign_env(gen.envelope(gen.delegating_md("key_mgr", {}, version=4)), k_, gpg, rng)
            call = lambda e=env, g=gpg, t=t_: direct(impl, "vdeleg", ["key_mgr", e, t, g])
        else:
            t_ = gen.envelope(gen.root_md(k_, 2, [gen.key(9)], 1, version=4))
            env = gen.sign_env(gen.envelope(gen.root_md(k_, 2, [gen.key(9)], 1, version=5)), k_, True, rng)
            call = lambda e=env, t=t_: direct(impl, "vroot", [t, e])
        signed = env["signed"]
        first = call()
        # (1) payload edited in place: the signatures no longer cover it
        edit = rng.choice(["add", "change", "nested"])
        if edit == "add":
            signed["zz_added"] = 1
        elif edit == "change":
            saved = signed.get("expiration", signed.get("name"))
            signed["expiration" if "expiration" in signed else "name"] = "2031-01-01T00:00:00Z" if "expiration" in signed else "q"
        else:
            tgt = signed["delegations"] if "delegations" in signed else signed["v"]
            tgt["zz_nested"] = {"pubkeys": [], "threshold": 1}
        second = call()
        # (2) and edited back
        if edit == "add":
            del signed["zz_added"]
        elif edit == "change":
            signed["expiration" if "expiration" in signed else "name"] = saved
        else:
            del tgt["zz_nested"]
        third = call()
        # (3) signatures removed in place, then restored
        ents = dict(env["signatures"])
        env["signatures"].clear()
        fourth = call()
        env["signatures"].update(ents)
        fifth = call()
        ck.evaluations += 5
        ck.oracle_checks += 1
        ck.count("in-place-edit:" + ["vsignable", "vdeleg", "vroot"][kind] + ":" + edit)
        if not (first == "OK" and second == "E SignatureError" and third == "OK" and fourth == "E SignatureError" and fifth == "OK"):
            ck.violation("a verdict did not follow an in-place edit of the object between two calls (something about the object was remembered from the earlier call)",
                         {"verifier": ["vsignable", "vdeleg", "vroot"][kind], "edit": edit, "mode": "gpg" if gpg or kind == 2 else "raw",
                          "verdicts": {"signed": first, "payload edited in place": second, "edited back": third, "signatures removed in place": fourth, "restored": fifth},
                          "expected": ["OK", "E SignatureError", "OK", "E SignatureError", "OK"]}, f"in-place-edit:{['vsignable', 'vdeleg', 'vroot'][kind]}:{edit}")
            break

    settings_unchanged(ck, settings0, "call histories and in-place edits")
    # wrap-then-mutate, both directions
    for _ in range(ck.n(80, 25)):
        obj = gen.rand_json(rng, 4, [25])
        if not isinstance(obj, (dict, list)) or not obj:
            obj = {"a": [1, {"b": obj}], "c": {"d": [2, 3]}}
        if rng.random() < 0.3:
            obj = (obj, [1, {"k": [2, 3]}], {"t": {"u": 1}})      # a top-level tuple is immutable, what it holds is not
        elif rng.random() < 0.35:
            # containers of other kinds below the top: ordered dicts as json.load(object_pairs_hook=OrderedDict) returns them, default dicts, list and dict
            # subclasses — plain at the top, so that every type check on the payload itself passes
            import collections
            from .. import exotic
            obj = {"plain": obj, "od": collections.OrderedDict([("z", [1, 2]), ("a", {"q": 1})]), "ml": exotic.MyList([1, {"w": [3]}]),
                   "md": exotic.MyDict(k=[1, 2], j={"x": 1}), "dd": collections.defaultdict(list, {"p": [1]})}
        w = impl.signing.wrap_as_signable(obj)
        ck.evaluations += 1
        frozen = copy.deepcopy(w)
        orig = copy.deepcopy(obj)
        for p in sorted([p for p in gen.json_paths(obj) if p], key=len, reverse=True):      # deepest first: parents stay reachable
            try:
                cur = obj
                for q in p[:-1]:
                    cur = cur[q]
                cur[p[-1]] = "MUTATED"
            except Exception:
                continue
            ck.oracle_checks += 1
            if not proto.deep_equal(w, frozen):
                ck.violation("changing the original object after wrapping changed the wrapped envelope (shallow copy)", {"path": [str(x) for x in p], "object": proto.enc(orig)[:600]}, "wrap-aliasing:orig->wrapped")
                break
        obj2 = copy.deepcopy(orig)
        w2 = impl.signing.wrap_as_signable(obj2)
        for p in sorted([p for p in gen.json_paths(w2["signed"]) if p], key=len, reverse=True):
            try:
                cur = w2["signed"]
                for q in p[:-1]:
                    cur = cur[q]
                cur[p[-1]] = "MUTATED"
            except Exception:
                continue
            ck.oracle_checks += 1
            if not proto.deep_equal(obj2, orig):
                ck.violation("changing the wrapped envelope changed the original object (shallow copy)", {"path": [str(x) for x in p], "object": proto.enc(orig)[:600]}, "wrap-aliasing:wrapped->orig")
                break
        ck.nontrivial_add(("wrap", proto.enc(orig)[:200]))

    # threads over shared trusted metadata
    pool = build_pool(rng)
    tcalls = [rand_call(rng, pool) for _ in range(60)]
    tcalls = [c for c in tcalls if c[0] in ("vsignable", "vdeleg", "vroot")]
    seq = [direct(impl, op, args) for op, args in tcalls]
    snaps = [[snapshot(a) for a in args] for _, args in tcalls]
    nthreads, reps = (16, 120) if ck.thorough else (4, 25)
    old_int = sys.getswitchinterval()
    sys.setswitchinterval(1e-6)
    errors = []

    def worker(tid):
        r = __import__("random").Random(tid)
        for _ in range(reps):
            j = r.randrange(len(tcalls))
            op, args = tcalls[j]
            try:
                out = impl._run(op, args)
            except Exception as e:  # noqa: BLE001
                out = "X " + repr(e)
            if out != seq[j]:
                errors.append((j, out))
    import io
    saved = sys.stdout
    sys.stdout = io.StringIO()
    try:
        ths = [threading.Thread(target=worker, args=(t,)) for t in range(nthreads)]
        for t in ths:
            t.start()
        for t in ths:
            t.join()
    finally:
        sys.stdout = saved
        sys.setswitchinterval(old_int)
    ck.evaluations += nthreads * reps
    ck.count("threaded-calls", nthreads * reps)
    ck.oracle_checks += 1
    if errors:
        j, out = errors[0]
        ck.violation("a verdict changed when calls ran concurrently in threads over shared metadata", {"call": tcalls[j][0], "sequential": seq[j], "threaded": out[:200], "request": impl.enc_case(*tcalls[j])[:800]}, f"threads:{tcalls[j][0]}")
    for (op, args), s0 in zip(tcalls, snaps):
        if [snapshot(a) for a in args] != s0:
            ck.violation("arguments were modified during concurrent verification", {"call": op}, f"threads-mutated:{op}")
            break

    settings_unchanged(ck, settings0, "concurrent calls in threads")
    # systematic interference (deterministic, unlike the scheduler above): while call X runs, another complete call Y is executed between *every two
    # lines* X executes inside the library (what a thread switch at that point would amount to).  X's verdict and Y's verdicts must be the sequential ones.
    repo_pkg = os.path.join(os.path.realpath(os.environ.get("CCT_REPO", "/repo")), "conda_content_trust") + os.sep
    vcalls = [c for c in tcalls if c[0] in ("vsignable", "vdeleg", "vroot")]
    okc = [c for c, sq in zip(tcalls, seq) if sq == "OK" and c[0] in ("vsignable", "vdeleg", "vroot")]
    badc = [c for c, sq in zip(tcalls, seq) if sq.startswith("E SignatureError")]
    # two threads verifying the very same objects at once (the commonest way metadata is shared): one accepted call per verifier, built on purpose
    kk_ = [gen.key(1), gen.key(2)]
    d_t = gen.envelope(gen.delegating_md("root", {"key_mgr": gen.delegation(kk_, 2)}))
    d_u = gen.sign_env(gen.envelope(gen.delegating_md("key_mgr", {"pkg_mgr": gen.delegation([gen.key(3)], 1)}, version=4)), kk_, False)
    d_u["signatures"]["junk"] = {"signature": "zz"}
    r_t = gen.envelope(gen.root_md(kk_, 2, [gen.key(9)], 1, version=4))
    r_u = gen.sign_env(gen.envelope(gen.root_md(kk_, 2, [gen.key(9)], 1, version=5)), kk_, True, rng)
    s_e = gen.sign_env(gen.envelope({"a": [1, 2]}), kk_, False)
    s_e["signatures"][gen.key(5).hex] = gen.raw_entry(gen.key(5), b"other")
    directed = [("vdeleg", ["key_mgr", d_u, d_t, False]), ("vroot", [r_t, r_u]), ("vsignable", [s_e, [k.hex for k in kk_], 2, False])]
    # overlaps that do not nest (sched.staggered): call A is stopped after k1 of its steps, call B started and stopped after k2 of its own, A runs to its
    # end, then B — for sampled (k1, k2).  Each call's verdict is the verdict it has alone.  Among the calls: payloads nested far deeper than the
    # recursion allowance left to a call made from deep inside an application's stack (whatever verdict such a call has alone — the serializer gives up on the
    # unchanged tree — it has in every schedule)
    from .. import sched
    def deep_env(depth):
        v = 1
        for _ in range(depth):
            v = [v]
        return {"signatures": {}, "signed": {"deep": v}}
    def from_deep_stack(f, n=900):
        # the call is made from far down an application's call stack: little of the interpreter's recursion allowance is left to it
        return f() if n == 0 else from_deep_stack(f, n - 1)
    deep_calls = [("vsignable", [deep_env(dp), [kk_[0].hex], 1, False]) for dp in (100, 200)]
    stag_pairs = [(deep_calls[0], deep_calls[1]), (directed[2], deep_calls[1]), (directed[0], directed[0]), (directed[1], directed[1]),
                  (directed[2], directed[0]), (deep_calls[1], directed[2])] + [(x, y) for x in okc[:2] for y in badc[:1]]
    # ... and a genuine OpenPGP-signed envelope next to a forgery that carries the genuine one's signature entries over another payload (related inputs: same
    # key, same signature, different payload), in both orders, over a dense grid of stopping points: the forgery is rejected in every schedule
    g_env = gen.sign_env(gen.envelope({"doc": "genuine", "n": 2}), kk_[:1], True)
    f_env = {"signatures": copy.deepcopy(g_env["signatures"]), "signed": {"doc": "forged", "n": 3}}
    g_call, f_call = ("vsignable", [g_env, [kk_[0].hex], 1, True]), ("vsignable", [f_env, [kk_[0].hex], 1, True])
    dense = [(g_call, f_call), (f_call, g_call)]
    stag_pairs = stag_pairs[:6] + dense + stag_pairs[6:]
    nsched = 0
    with impl.quiet_stdout():
        for (xop, xargs), (yop, yargs) in stag_pairs[: (len(stag_pairs) if ck.thorough else 8)]:
            fa = (lambda: from_deep_stack(lambda: impl._run(xop, xargs))) if (xop, xargs) in deep_calls else (lambda: impl._run(xop, xargs))
            fb = (lambda: from_deep_stack(lambda: impl._run(yop, yargs))) if (yop, yargs) in deep_calls else (lambda: impl._run(yop, yargs))
            want_a, na = sched.count_events(fa, repo_pkg)
            want_b, nb = sched.count_events(fb, repo_pkg)
            pts_a = sorted({max(1, int(na * f)) for f in ((0.05, 0.2, 0.4, 0.6, 0.8, 0.95, 1.0) if not ck.thorough else [i / 20 for i in range(1, 21)])})
            pts_b = sorted({max(1, int(nb * f)) for f in ((0.1, 0.5, 0.9) if not ck.thorough else [i / 10 for i in range(1, 11)])})
            if ((xop, xargs), (yop, yargs)) in dense:
                stride = 1 + (na * nb) // (4000 if ck.thorough else 1200)
                pts_a, pts_b = list(range(1, na + 1)), list(range(1, nb + 1, stride))
            if (yop, yargs) in deep_calls:
                # every pair of stopping points (thinned evenly when there are more than 1500)
                stride = 1 + (na * nb) // (1500 if ck.thorough else 500)
                pts_a, pts_b = list(range(1, na + 1)), list(range(1, nb + 1, stride))
            bad = None
            for k1 in pts_a:
                for k2 in pts_b:
                    out_before = (sys.stdout, sys.stderr)
                    got_a, got_b, ra, rb = sched.staggered(fa, fb, k1, k2, repo_pkg)
                    nsched += 1
                    ck.evaluations += 1
                    if (sys.stdout, sys.stderr) != out_before:
                        # two overlapping calls that each "temporarily" redirect output restore it in the wrong order: the process is left writing elsewhere
                        sys.stdout, sys.stderr = out_before
                        bad = (k1, k2, "sys.stdout / sys.stderr left replaced after both calls returned", got_b)
                        break
                    if got_a != want_a or got_b != want_b:
                        bad = (k1, k2, got_a, got_b)
                        break
                if bad:
                    break
            ck.oracle_checks += 1
            if bad:
                ck.violation("a verdict changed when two calls overlapped in threads without nesting (A begins, B begins, A ends, B ends): state shared between calls",
                             {"call_a": xop, "call_b": yop, "a_alone": str(want_a)[:80], "b_alone": str(want_b)[:80], "a_stopped_after_steps": bad[0], "b_stopped_after_steps": bad[1],
                              "a_overlapped": str(bad[2])[:120], "b_overlapped": str(bad[3])[:120],
                              "payload_nesting": "deep, called from a deep stack" if ((xop, xargs) in deep_calls or (yop, yargs) in deep_calls) else "ordinary"}, f"staggered:{xop}:{yop}")
                break
    ck.count("staggered-schedules", nsched)
    settings_unchanged(ck, settings0, "overlapping calls in threads")
    del deep_calls, stag_pairs

    pairs = [(x, x) for x in directed] + [(x, x) for x in okc[:2]]
    for x in (okc[:3] + badc[:3]):
        for y in (badc[:2] + okc[:2]):
            if x is not y:
                pairs.append((x, y))
    injected = 0
    for (xop, xargs), (yop, yargs) in pairs[: (40 if ck.thorough else 10)]:
        want_x = direct(impl, xop, xargs)
        want_y = direct(impl, yop, yargs)
        bad_y = []
        count = [0]

        pending = []

        def other_thread():
            out = impl._run(yop, yargs)
            if out != want_y:
                bad_y.append(out)

        def local_tracer(frame, event, arg):
            if event == "line" and count[0] < 400:
                if pending and pending[-1].is_alive():
                    return local_tracer      # the interfering call is blocked on a lock this call holds: as after a real thread switch, this one goes on
                count[0] += 1
                sys.settrace(None)
                try:
                    # the interfering call runs in a thread of its own, to completion — or until it blocks on a lock held here, in which case the
                    # scheduler would come back to this thread, and so do we
                    th = threading.Thread(target=other_thread, daemon=True)
                    pending.append(th)
                    th.start()
                    th.join(0.25)
                finally:
                    sys.settrace(global_tracer)
            return local_tracer

        def global_tracer(frame, event, arg):
            if event == "call" and os.path.realpath(frame.f_code.co_filename).startswith(repo_pkg):
                return local_tracer
            return None

        with impl.quiet_stdout():
            sys.settrace(global_tracer)
            try:
                got_x = impl._run(xop, xargs)
            finally:
                sys.settrace(None)
        for th in pending[-3:]:
            th.join(5)
        injected += count[0]
        ck.evaluations += 1
        ck.oracle_checks += 1
        if got_x != want_x or bad_y:
            ck.violation("a verdict changed when another call ran between two steps of this one (state shared between calls)",
                         {"call": xop, "alone": want_x, "interleaved": got_x, "interfering_call": yop, "interfering_alone": want_y, "interfering_interleaved": bad_y[:2],
                          "request": impl.enc_case(xop, xargs)[:800]}, f"interleaved:{xop}")
            break
    ck.count("interference-points", injected)
    settings_unchanged(ck, settings0, "interleaved calls")

    # arguments outside the JSON universe (instances of subclasses of dict / list / str / int, tuples, proxies): the outcome of every call, at every point of
    # a history that mixes them (wrapping first, verifying later, and the other way round), equals its outcome as the first call of a fresh process
    from .. import exotic
    labs = exotic.labels()
    env1 = dict(os.environ, PYTHONPATH=os.path.dirname(os.path.dirname(os.path.dirname(os.path.abspath(__file__)))))
    def fresh(lab):
        p_ = subprocess.run([sys.executable, "-m", "cctv.subproc", "exotic", lab], env=env1, cwd="/", stdout=subprocess.PIPE, stderr=subprocess.PIPE, text=True)
        return p_.stdout.strip().split("\t")[-1] if p_.returncode == 0 and p_.stdout.strip() else "X " + p_.stderr[-200:]
    from concurrent.futures import ThreadPoolExecutor
    with ThreadPoolExecutor(max_workers=16) as ex:
        fresh_out = dict(zip(labs, ex.map(fresh, labs)))
    hist = list(labs)
    rng.shuffle(hist)
    hist = [l for l in hist if l.startswith(("verify", "is_signable", "checkformat"))] + [l for l in hist if l.startswith(("wrap", "sign", "serialize"))] + hist
    for pos, lab in enumerate(hist):
        got = exotic.run(lab)
        ck.evaluations += 1
        ck.oracle_checks += 1
        ck.count("exotic:" + lab.split(":")[0] + ":" + got[:12].split(" ")[0])
        if got != fresh_out[lab]:
            ck.violation("the outcome of a call depends on the calls made before it in the same process (arguments that are instances of dict / list / str / int subclasses)",
                         {"call": lab, "position_in_history": pos, "in_history": got, "fresh_process": fresh_out[lab], "history_before": hist[max(0, pos - 8):pos]}, f"history-dependent-exotic:{lab.split(':')[0]}")
            break

    # the same seeded batch of calls in fresh processes under other configurations: identical verdict digests
    env0 = dict(os.environ, PYTHONPATH=os.path.dirname(os.path.dirname(os.path.dirname(os.path.abspath(__file__)))))
    digests = {}
    confs = [dict(), dict(PYTHONHASHSEED="7", PYTHONIOENCODING="ascii"), dict(PYTHONHASHSEED="random", LC_ALL="C", CCTV_PREIMPORT="json,decimal,locale,argparse")]
    envnames = impl.library_env_vars()
    if envnames:
        confs.append({n_: "1" for n_ in envnames})
    for c in confs:
        p = subprocess.run([sys.executable, "-m", "cctv.subproc", "verdicts", str(ck.seed), "150"], env={**env0, **c}, cwd="/", stdout=subprocess.PIPE, stderr=subprocess.PIPE, text=True)
        ck.evaluations += 1
        digests[repr(c)] = p.stdout.strip() or ("failed: " + p.stderr[-200:])
    ck.oracle_checks += 1
    ck.count("fresh-process-runs", len(confs))
    if len(set(digests.values())) != 1:
        ck.violation("verdicts depend on the process configuration (imports, stdout encoding, hash seed, locale, cwd)", {"digests": digests}, "config-dependent")
    import random as _r
    from .. import subproc
    local = subproc.verdict_digest(ck.seed, 150)
    if local not in digests.values():
        ck.violation("verdicts in this long-running process differ from those of a fresh process (state carried across calls)", {"here": local, "fresh": digests}, "process-state")
