"""C18 — in-place signing is all-or-nothing with respect to failures."""
from __future__ import annotations

import copy
import os
import types

from .. import envgen, faults, gen, gpgshim, proto
from ..framework import Check
from .c11 import rand_doc

RULE = ("for each generated repodata document / metadata file: one traced run numbers every executed line of the library before the output file is "
        "opened for writing, then the call is repeated once per such line with an exception injected exactly there (exhaustive per document); plus faults "
        "raised from inside the private key's sign() at each artifact, from the GPG signer, a missing optional dependency, bad keys and malformed inputs. "
        "After every failed call the file must be byte-identical; the sequence of opens of the file must be [read] (failure) or [read, write] (success, the "
        "write coming after the last signature).  non-trivial = a fault point inside the signing loop; distinct by (document, fault point)")

THEOREMS = ["no_write_before_output", "failure_leaves_file", "success_writes_once", "fault_anywhere_before_output", "success_writes_signed_document",
            "gpg_fault_anywhere_before_output", "gpg_failure_leaves_file", "gpg_success_writes_result", "refused_open_leaves_file"]



LINKS: set = set()      # paths that are symbolic links to the real file: signing "in place" goes through the link and leaves it a link


def put(path, data):
    if path in LINKS:
        real = path + ".real"
        if not os.path.islink(path):
            if os.path.lexists(path):
                os.unlink(path)
            os.symlink(real, path)
        with open(real, "wb") as f:
            f.write(data)
    else:
        if os.path.islink(path):
            os.unlink(path)
        with open(path, "wb") as f:
            f.write(data)


def get(path):
    if path in LINKS and not os.path.islink(path):
        return b"<the symbolic link was replaced or removed> " + (open(path, "rb").read() if os.path.exists(path) else b"<missing>")
    return open(path, "rb").read() if os.path.exists(path) else b"<missing>"


class FinalReady:
    """probe for "the result has been fully serialized": patches json.JSONEncoder.encode (which json.dumps and encoder objects go through) and
    notes when a call returns exactly the text of the document that a successful run writes.  Independent of how the library organises its code."""

    def __init__(self):
        import json
        self.json = json
        self.real = json.JSONEncoder.encode
        self.expected = None
        self.ready = False
        self.calls = 0
        self.fail_final = None      # fraction of the whole document's chunks after which the encoder fails (None: never)
        self.fail_fired = False

    def __enter__(self):
        outer = self

        def whole_document(o):
            return isinstance(o, dict) and "signatures" in o and "packages" in o
        def encode(enc_self, o):
            if outer.fail_final is not None and whole_document(o) and type(enc_self).iterencode is iterencode:
                # route the one-shot encoder through the chunked one so that it, too, fails part-way
                return "".join(iterencode(enc_self, o, False))
            r = outer.real(enc_self, o)
            outer.calls += 1
            if outer.expected is not None and r.encode("utf-8", "surrogatepass") == outer.expected:
                outer.ready = True
            return r
        def iterencode(enc_self, o, _one_shot=False):
            chunks = []
            limit = None
            if outer.fail_final is not None and whole_document(o):
                limit = max(1, int(outer.fail_final * (8 * (len(o.get("packages") or {}) + len(o.get("signatures") or {})))))
            for ch in outer.real_iter(enc_self, o, _one_shot and limit is None):
                chunks.append(ch)
                if limit is not None and len(chunks) >= limit:
                    outer.fail_fired = True
                    raise faults.InjectedMemory("out of memory while encoding the document")
                yield ch
            # only once the last chunk has been produced is the result complete (a writer that streams chunks into the file touches it earlier)
            outer.calls += 1
            if outer.expected is not None and "".join(chunks).encode("utf-8", "surrogatepass") == outer.expected:
                outer.ready = True
        self.real_iter = self.json.JSONEncoder.iterencode
        self.json.JSONEncoder.encode = encode
        self.json.JSONEncoder.iterencode = iterencode
        faults.PROBE = lambda: self.ready
        return self

    def __exit__(self, *a):
        self.json.JSONEncoder.encode = self.real
        self.json.JSONEncoder.iterencode = self.real_iter
        faults.PROBE = None
        return False

    def arm(self, expected):
        self.expected, self.ready, self.calls = expected, False, 0
        self.fail_fired = False


def judge(log, after, orig, raised, blind=False):
    """per run: None = fine; otherwise the clause that failed.  The output phase of *this* run begins at its first event that can modify the
    target; it is legitimate only if the final document had been serialized by then.  A fault after a legitimate start is outside the property."""
    t = faults.touches(log)
    if t and not t[0][3] and not blind:
        return "early"
    if raised and after != orig and not t:
        return "modified-unobserved"
    return None


def run(ck: Check) -> None:
    with FinalReady() as probe:
        _run(ck, probe)


def _run(ck: Check, probe) -> None:
    from .. import impl

    rng = ck.rng
    d = impl.scratch_dir()
    pkg = os.path.dirname(impl.common.__file__)
    ck.correspondences.add("corr:in-place-signing/open-sequence+file-bytes")
    ndocs = ck.n(40, 8)
    lines, expect_opens = [], []
    total_points = 0
    for di in range(ndocs):
        doc = rand_doc(rng)
        while len(doc["packages"]) + len(doc.get("packages.conda", {})) < 2:
            doc = rand_doc(rng)
        k = gen.key(rng.randrange(10))
        fn = os.path.join(d, f"c18-{di}.json")
        if di % 4 == 3:
            LINKS.add(fn)           # this document is reached through a symbolic link
        orig = gen.oracle_bytes(doc) if di % 2 else (proto_json(doc))
        def call():
            impl.signing.sign_all_in_repodata(fn, k.seed.hex())
        put(fn, orig)
        probe.arm(None)
        with impl.quiet_stdout():
            exc, nevents, log = faults.run_traced(call, fn, pkg)
        ck.evaluations += 1
        if exc is not None:
            ck.violation("signing a well-formed repodata file failed", {"error": repr(exc)[:300]}, "c18-baseline-failed")
            continue
        signed = get(fn)
        # the same run again, now knowing the result: when is the target first touched, and was the result complete by then?
        put(fn, orig)
        probe.arm(signed)
        with impl.quiet_stdout():
            exc, nevents, log = faults.run_traced(call, fn, pkg)
        ck.oracle_checks += 1
        t = faults.touches(log)
        if exc is not None or get(fn) != signed or not t or not faults.reads(log):
            ck.violation("a repeated run on the same file does not read it, produce the same result and write it", {"events": log, "error": repr(exc)[:200]}, "c18-open-sequence")
            continue
        blind = not probe.ready      # the library does not produce its result through the json encoder: "complete by then" cannot be observed this way
        if blind:
            ck.count("probe-blind")
        elif not t[0][3]:
            ck.violation("the output file was touched (opened for writing / replaced) before the result was fully serialized", {"events": log}, "c18-early-open")
            continue
        write_at = t[0][2]          # line-event number of the first event that can modify the target
        lines.append("signrepofile " + proto.enc(doc) + " " + proto.enc(k.seed.hex()))
        expect_opens.append(signed)
        # a fault at every line event up to there (in a later run the same event number may fall elsewhere, e.g. with caches: each run is judged on its own events)
        points = list(range(1, write_at + 1))
        if not ck.thorough and len(points) > 400:
            points = sorted(rng.sample(points, 400))
        else:
            ck.exhaustive = True
        for p in points:
            put(fn, orig)
            probe.arm(signed)
            # what is raised there: an ordinary error, an interrupt (control-c / SIGINT), memory exhaustion, an exit request — in turn
            fcls = faults.FAULT_CLASSES[(p + di) % len(faults.FAULT_CLASSES)]
            ck.count("fault-class:" + fcls.__name__)
            with impl.quiet_stdout():
                exc, _, log2 = faults.run_traced(call, fn, pkg, fault_at=p, fault_cls=fcls)
            ck.evaluations += 1
            total_points += 1
            ck.oracle_checks += 1
            after = get(fn)
            verdict = judge(log2, after, orig, exc is not None, blind)
            if verdict == "early" or verdict == "modified-unobserved":
                ck.violation("a failure before the output phase left a modified (partially signed / truncated) file, or the output was touched before the result was complete",
                             {"fault": str(exc)[:200], "event": p, "of": write_at, "events": log2, "file_len_before": len(orig), "file_len_after": len(after), "document": proto.enc(doc)[:600]},
                             ("c18-early-open" if verdict == "early" else "c18-modified") + f":{str(exc).split(': ')[-1] if exc else 'none'}")
                break
            if exc is not None and not faults.touches(log2) and after != orig:
                ck.violation("a failed run modified the file", {"fault": str(exc)[:200]}, "c18-modified")
                break
            if exc is None and faults.FIRED[0] and after not in (orig, signed):
                # the injected error was swallowed inside the library (a worker thread, a broad except) and the call "succeeded"
                ck.violation("an error raised while signing was swallowed and a partially signed / different file was written",
                             {"event": p, "events": log2, "file_len_before": len(orig), "file_len_after": len(after), "fully_signed_len": len(signed)}, "c18-partial-output:line-fault")
                break
            if p > write_at // 3:
                ck.nontrivial_add((di, p))
        # a fault inside every call of the serializer (once per artifact, once for the final document): file untouched, and the output file
        # must not be open (truncated) while the result is still being serialized
        real_cs = impl.common.canonserialize
        ncalls = [0]
        def counting(obj):
            ncalls[0] += 1
            return real_cs(obj)
        impl.common.canonserialize = impl.signing.canonserialize = counting
        try:
            put(fn, orig)
            probe.arm(signed)
            with impl.quiet_stdout():
                faults.run_traced(call, fn, pkg)
        finally:
            impl.common.canonserialize = impl.signing.canonserialize = real_cs
        total_ser = ncalls[0]
        for j in range(1, total_ser + 1):
            put(fn, orig)
            cnt = [0]
            def failing_cs(obj, _j=j):
                cnt[0] += 1
                if cnt[0] == _j:
                    raise MemoryError("out of memory while serializing")
                return real_cs(obj)
            impl.common.canonserialize = impl.signing.canonserialize = failing_cs
            probe.arm(signed)
            try:
                with impl.quiet_stdout():
                    exc, _, logs = faults.run_traced(call, fn, pkg)
            finally:
                impl.common.canonserialize = impl.signing.canonserialize = real_cs
            ck.evaluations += 1
            if not isinstance(exc, MemoryError):
                if cnt[0] >= j and get(fn) not in (orig, signed):
                    ck.violation("an error raised while serializing was swallowed and a partially signed / different file was written",
                                 {"serializer_call": j, "of": total_ser, "error": repr(exc)[:120]}, "c18-partial-output:serialize-fault")
                    break
                continue            # the library did not route this serialization through the patched name (nothing was injected), or recovered fully
            ck.oracle_checks += 1
            if get(fn) != orig or faults.touches(logs):
                ck.violation("a failure while serializing (artifact metadata or the final document) left a truncated / modified file: the output was opened before the result was serialized",
                             {"serializer_call": j, "of": total_ser, "opens": logs, "error": repr(exc)[:120]}, "c18-serialize-fault-modified:" + ("final" if j == total_ser else "artifact"))
                break
            ck.nontrivial_add((di, "ser", j))
        # faults raised from inside the key's sign() at the j-th artifact
        nart = len(doc["packages"]) + len(doc.get("packages.conda", {}))
        for j, sign_exc in [(j_, c_) for j_ in range(1, nart + 1) for c_ in (RuntimeError, faults.InjectedInterrupt, faults.InjectedStop)]:
            put(fn, orig)
            calls = [0]
            real = impl.signing.serialize_and_sign

            def failing(obj, key, _j=j, _c=sign_exc):
                calls[0] += 1
                if calls[0] == _j:
                    raise _c("hardware key unplugged")
                return real(obj, key)
            impl.signing.serialize_and_sign = failing
            probe.arm(signed)
            try:
                with impl.quiet_stdout():
                    exc, _, log3 = faults.run_traced(call, fn, pkg)
            finally:
                impl.signing.serialize_and_sign = real
            ck.evaluations += 1
            if not (isinstance(exc, sign_exc) and "unplugged" in str(exc)):
                if calls[0] >= j and get(fn) not in (orig, signed):
                    ck.violation("an error raised while signing the j-th artifact was swallowed and a partially signed file was written",
                                 {"artifact_index": j, "of": nart, "opens": log3, "error": repr(exc)[:120]}, "c18-partial-output:sign-fault")
                    break
                continue            # the library did not go through the patched name (nothing was injected), or recovered fully
            ck.oracle_checks += 1
            if get(fn) != orig or faults.touches(log3):
                ck.violation("an error while signing the j-th artifact left a modified file", {"artifact_index": j, "of": nart, "opens": log3}, "c18-sign-fault-modified")
            ck.nontrivial_add((di, "sign", j))
    # large documents (section sizes at which batching / streaming logic switches, gen.counts_of_interest): the fault-free run may touch the file only once
    # the whole result has been serialized; and a failure *inside the encoder* while the whole document is being serialized (memory exhaustion half-way
    # through — injected in json.JSONEncoder itself, whatever route the library takes to it) leaves the file as it was
    big_counts = [c for c in gen.counts_of_interest() if c >= 2000][: (8 if ck.thorough else 4)]
    for bi, cnt in enumerate(big_counts + [3]):
        doc = {"info": {"subdir": "noarch"}, "packages": {"p%05d.tar.bz2" % j: {"name": "p", "build_number": j} for j in range(cnt)},
               "packages.conda": {"c.conda": {"name": "c"}}, "zz-extra": {"note": ["kept"] * 5}}
        k = gen.key(bi)
        fn = os.path.join(d, "c18-large.json")
        orig = gen.oracle_bytes(doc)
        def call():
            impl.signing.sign_all_in_repodata(fn, k.seed.hex())
        put(fn, orig)
        probe.arm(None)
        with impl.quiet_stdout():
            exc, _, log = faults.run_traced(call, fn, pkg, trace=False)
        ck.evaluations += 1
        if exc is not None:
            ck.violation("signing a well-formed repodata file failed", {"artifacts": cnt, "error": repr(exc)[:300]}, "c18-baseline-failed:large")
            continue
        signed = get(fn)
        put(fn, orig)
        probe.arm(signed)
        with impl.quiet_stdout():
            exc, _, log = faults.run_traced(call, fn, pkg, trace=False)
        ck.oracle_checks += 1
        ck.count("large-document-runs")
        t = faults.touches(log)
        if probe.ready and t and not t[0][3]:
            ck.violation("the output file was touched (opened for writing / replaced) before the result was fully serialized", {"artifacts": cnt, "events": log}, "c18-early-open:large")
            continue
        # the encoder fails half-way through the whole document
        for frac in (0.5, 0.99):
            put(fn, orig)
            probe.arm(signed)
            probe.fail_final = frac
            try:
                with impl.quiet_stdout():
                    exc, _, log = faults.run_traced(call, fn, pkg, trace=False)
            finally:
                fired = probe.fail_fired
                probe.fail_final = None
            ck.evaluations += 1
            if not fired:
                ck.count("encoder-fault:not-reached")
                continue
            ck.oracle_checks += 1
            ck.count("encoder-fault:fired")
            after = get(fn)
            if after not in (orig,) and not (exc is None and after == signed):
                ck.violation("a failure while the whole document was being serialized left a truncated / partially written file",
                             {"artifacts": cnt, "error": repr(exc)[:120], "file_len_before": len(orig), "file_len_after": len(after), "fully_signed_len": len(signed), "events": log},
                             "c18-encoder-fault-modified")
                break
            ck.nontrivial_add(("encoder-fault", cnt, frac))
    ck.count("fault-points", total_points)
    # the step machine of the model: for every fault index before its output phase the file is unchanged and never opened for writing
    # (the executable counterpart of theorem fault_anywhere_before_output), and the fault-free run matches the observed run
    slines = []
    for ln, signed in zip(lines, expect_opens):
        docenc, keyenc = ln[len("signrepofile "):].rsplit(" ", 1)
        fileb = gen.oracle_bytes(proto.dec(docenc))
        slines.append(("ok", fileb, signed, f"signsteps x{fileb.hex()} {keyenc} -"))
    for item in list(slines):
        _, fileb, signed, base = item
        for kf in range(0, 40):
            slines.append(("fault", fileb, signed, base[:-1] + str(kf)))
    answers = ck.driver.run([x[3] for x in slines])
    for (kind, fileb, signed, ln), ans in zip(slines, answers):
        ck.evaluations += 1
        parts = dict(p.split("=", 1) for p in ans.split(" ")[1:] if "=" in p)
        res = ans.split(" ")[0]
        nsteps = int(parts.get("steps", "0"))
        bad = None
        if kind == "ok":
            if not (res == "done" and parts.get("opens") == "rw" and parts.get("file") == signed.hex()):
                bad = "fault-free run of the step machine differs from the observed run (opens r,w; signed bytes)"
        else:
            k = int(ln.rsplit(" ", 1)[1])
            if k < nsteps - 2 and not (res == f"injected:{k}" and "w" not in parts.get("opens", "") and parts.get("file") == fileb.hex()):
                bad = "step machine: a fault before the output phase changed the file or opened it for writing"
        if bad:
            ck.mismatch_total += 1
            ck.mismatch_kinds["step-machine:" + kind] = ck.mismatch_kinds.get("step-machine:" + kind, 0) + 1
            if len(ck.mismatches) < 8:
                ck.mismatches.append({"corr": "corr:in-place-signing/open-sequence+file-bytes", "line": ln[:600], "impl": bad, "model": ans[:300], "tag": kind, "meta": {}, "stdout_encoding": "utf-8"})
    # file bytes of the successful runs vs the model
    for ln, want, got in zip(lines, expect_opens, ck.driver.run(lines)):
        ck.evaluations += 1
        if got != "B " + want.hex():
            ck.mismatch_total += 1
            ck.mismatch_kinds["signed-file-bytes"] = ck.mismatch_kinds.get("signed-file-bytes", 0) + 1
            if len(ck.mismatches) < 5:
                ck.mismatches.append({"corr": "corr:in-place-signing/open-sequence+file-bytes", "line": ln[:800], "impl": "B " + want.hex()[:200], "model": got[:200], "tag": "signed-file", "meta": {}, "stdout_encoding": "utf-8"})
    # malformed inputs and bad keys: the file stays as it was
    fn = os.path.join(d, "c18-bad.json")
    good = gen.oracle_bytes({"packages": {"a": {"n": 1}}, "packages.conda": {"b": {}}})
    bads = [("not-json", b"{", gen.key(1).seed.hex()), ("no-packages", gen.oracle_bytes({"info": 1}), gen.key(1).seed.hex()), ("packages-not-dict", gen.oracle_bytes({"packages": [1]}), gen.key(1).seed.hex()),
            ("conda-not-dict", gen.oracle_bytes({"packages": {"a": 1}, "packages.conda": 5}), gen.key(1).seed.hex()), ("top-list", b"[1]", gen.key(1).seed.hex()),
            ("bad-key-short", good, "ab" * 31), ("bad-key-upper", good, ("AB" * 32)), ("bad-key-kind", good, None), ("bad-key-bytes", good, gen.key(1).seed), ("empty-file", b"", gen.key(1).seed.hex())]
    for name, content, key in bads:
        put(fn, content)
        with impl.quiet_stdout():
            exc, _, log = faults.run_traced(lambda: impl.signing.sign_all_in_repodata(fn, key), fn, pkg)
        ck.evaluations += 1
        ck.oracle_checks += 1
        ck.count("malformed:" + name + ":" + (type(exc).__name__ if exc else "no-error"))
        if exc is None:
            ck.violation("signing malformed input / with a bad key did not fail", {"case": name}, "c18-malformed-accepted:" + name)
        if get(fn) != content:
            ck.violation("a call that failed on malformed input or a bad key modified the file", {"case": name, "error": repr(exc)[:200]}, "c18-malformed-modified:" + name)
        # the model's run on the same malformed input: failed, file untouched, same opens
        if isinstance(key, (str, type(None))):
            ans = ck.driver.run([f"signsteps x{content.hex()} {proto.enc(key)} -"])[0]
            parts = dict(p.split("=", 1) for p in ans.split(" ")[1:] if "=" in p)
            want_opens = ("r" if faults.reads(log) else "") + ("w" if faults.touches(log) else "")
            mclass = ans.split(" ")[0]
            iclass = "failed:" + (impl.classify(exc) if exc else "none")
            if not (mclass == iclass and parts.get("file") == content.hex() and parts.get("opens") == want_opens):
                ck.mismatch_total += 1
                ck.mismatch_kinds["step-machine:malformed:" + name] = 1
                ck.mismatches.append({"corr": "corr:in-place-signing/open-sequence+file-bytes", "line": f"signsteps <{name}>", "impl": f"{iclass} opens={want_opens}", "model": ans[:200], "tag": name, "meta": {}, "stdout_encoding": "utf-8"})
    # the operating system refuses the output (a read-only file, an immutable flag, a quota): the run fails when it tries to open / replace the target,
    # and the target is still there, byte for byte (injected at the audit-hook level, for `open` in a writing mode)
    for name, doc_ in (("small", {"packages": {"a": {"n": 1}, "b": {"n": 2}}, "packages.conda": {"c.conda": {}}}), ("signed-before", {"packages": {"a": {"n": 1}}, "signatures": {"a": {"old": 1}}})):
        content = gen.oracle_bytes(doc_)
        put(fn, content)
        faults.DENY_WRITE[0] = True
        try:
            with impl.quiet_stdout():
                exc, _, log = faults.run_traced(lambda: impl.signing.sign_all_in_repodata(fn, gen.key(1).seed.hex()), fn, pkg)
        finally:
            faults.DENY_WRITE[0] = False
        ck.evaluations += 1
        ck.oracle_checks += 1
        ck.count("output-refused:" + (type(exc).__name__ if exc else "no-error"))
        after_ = get(fn)
        put(fn, content)
        with impl.quiet_stdout():
            impl.signing.sign_all_in_repodata(fn, gen.key(1).seed.hex())
        signed_ = get(fn)
        if (exc is not None and after_ != content) or (exc is None and after_ != signed_):
            # (a tool that replaces the file instead of opening it is not refused and succeeds: then the file must be the fully signed one)
            ck.violation("opening the file for writing was refused (read-only file) and the run did not leave the file as it was (or reported success without having signed it)",
                         {"case": name, "error": repr(exc)[:200], "file_after": after_[:60].decode("latin-1")}, "c18-output-refused-modified")
    # a document the serializer gives up on (nesting far beyond the interpreter's recursion limit, outside the artifact records): the run fails, the file stays
    deep = cur = []
    for _ in range(1300):
        nxt = []
        cur.append(nxt)
        cur = nxt
    import json as _json
    try:
        deep_text = _json.dumps({"info": {"nested": "@@"}, "packages": {"a": {"n": 1}}, "packages.conda": {"b.conda": {}}}).replace('"@@"', "[" * 1300 + "]" * 1300).encode()
        _json.loads(deep_text)
    except RecursionError:
        deep_text = None
    if deep_text is not None:
        put(fn, deep_text)
        with impl.quiet_stdout():
            exc, _, log = faults.run_traced(lambda: impl.signing.sign_all_in_repodata(fn, gen.key(1).seed.hex()), fn, pkg, trace=False)
        ck.evaluations += 1
        ck.oracle_checks += 1
        ck.count("too-deep-document:" + (type(exc).__name__ if exc else "no-error"))
        after = get(fn)
        if exc is not None and after != deep_text:
            ck.violation("signing a document nested beyond what the serializer can handle failed and left a modified (truncated / partially written) file",
                         {"error": repr(exc)[:160], "file_len_before": len(deep_text), "file_len_after": len(after), "events": log}, "c18-too-deep-modified")
    del deep, cur
    # signing from a worker thread (a build farm signs many indexes from a pool): all-or-nothing there too — it succeeds as in the main thread, or fails
    # leaving the file as it was
    import threading as _th
    for name, doc_ in (("thread", {"packages": {"a": {"n": 1}, "b": {"n": 2}}, "packages.conda": {"c.conda": {}}}),):
        content = gen.oracle_bytes(doc_)
        put(fn, content)
        with impl.quiet_stdout():
            impl.signing.sign_all_in_repodata(fn, gen.key(1).seed.hex())
        signed_ = get(fn)
        put(fn, content)
        box = []
        def work():
            try:
                impl.signing.sign_all_in_repodata(fn, gen.key(1).seed.hex())
                box.append(None)
            except BaseException as e:  # noqa: BLE001
                box.append(e)
        with impl.quiet_stdout():
            t_ = _th.Thread(target=work)
            t_.start()
            t_.join(120)
        ck.evaluations += 1
        ck.oracle_checks += 1
        after_ = get(fn)
        exc_ = box[0] if box else TimeoutError("did not finish")
        ck.count("worker-thread:" + (type(exc_).__name__ if exc_ else "signed"))
        if (exc_ is None and after_ != signed_) or (exc_ is not None and after_ != content):
            ck.violation("in-place signing from a worker thread failed and left a modified (truncated) file, or reported success without the signed file",
                         {"error": repr(exc_)[:200], "file_len_before": len(content), "file_len_after": len(after_), "fully_signed_len": len(signed_)}, "c18-worker-thread-modified")
    # leftovers of earlier (crashed) runs next to the file — temporary / partial / backup siblings holding other, well-formed content — change nothing:
    # a failing call leaves the target as it was, a successful one gives the result it gives without them
    sib_doc = gen.oracle_bytes({"packages": {"evil": {"n": 0}}, "signatures": {"evil": {}}})
    def plant():
        for suffix in (".partial", ".tmp", ".bak", ".new", "~", ".swp", ".lock"):
            with open(fn + suffix, "wb") as f:
                f.write(sib_doc)
    def unplant():
        for suffix in (".partial", ".tmp", ".bak", ".new", "~", ".swp", ".lock"):
            if os.path.exists(fn + suffix):
                os.unlink(fn + suffix)
    try:
        for name, content, key in bads[:6]:
            put(fn, content)
            plant()
            with impl.quiet_stdout():
                exc, _, log = faults.run_traced(lambda: impl.signing.sign_all_in_repodata(fn, key), fn, pkg)
            ck.evaluations += 1
            ck.oracle_checks += 1
            if get(fn) != content:
                ck.violation("a failing call modified the file when stale sibling files (partial / temporary / backup) were present", {"case": name, "error": repr(exc)[:200]}, "c18-sibling-modified:" + name)
        put(fn, good)
        unplant()
        with impl.quiet_stdout():
            impl.signing.sign_all_in_repodata(fn, gen.key(1).seed.hex())
        clean_result = get(fn)
        put(fn, good)
        plant()
        with impl.quiet_stdout():
            impl.signing.sign_all_in_repodata(fn, gen.key(1).seed.hex())
        ck.oracle_checks += 1
        if get(fn) != clean_result:
            ck.violation("the result of signing depends on stale sibling files next to the target", {}, "c18-sibling-influence")
    finally:
        unplant()
    # the CLI aborts before touching the file on a bad key
    kf = os.path.join(d, "c18-key.txt")
    for name, text in [("bad", "not a key"), ("short", "ab" * 31), ("empty", "")]:
        put(fn, good)
        open(kf, "w").write(text)
        with impl.quiet_stdout():
            from conda_content_trust import cli as climod
            exc, _, log = faults.run_traced(lambda: climod.cli_sign_artifacts(types.SimpleNamespace(repodata_fname=fn, private_key_fname=kf)), fn, pkg)
        ck.evaluations += 1
        ck.oracle_checks += 1
        if get(fn) != good or faults.touches(log):
            ck.violation("the CLI touched the repodata file although the key file was rejected", {"key_file": name, "opens": log}, "c18-cli-bad-key")
    # GPG path: load, sign in memory, write — faults at every line, from the signer, and a missing optional dependency
    k = gen.key(2)
    fpr = gpgshim.register(k)
    mfn = os.path.join(d, "c18-md.json")
    for mi in range(ck.n(6, 2)):
        md = gen.envelope(gen.root_md([k], 1, [gen.key(3)], 1, version=mi + 1))
        if mi % 2:
            gen.sign_env(md, [gen.key(4)], True)
        orig = gen.oracle_bytes(md) if mi % 2 == 0 else proto_json(md)        # every other file as another tool laid it out (valid JSON, not canonical)
        def gcall():
            impl.root_signing.sign_root_metadata_via_gpg(mfn, fpr)
        open(mfn, "wb").write(orig)
        probe.arm(None)
        with impl.quiet_stdout():
            exc, nevents, log = faults.run_traced(gcall, mfn, pkg)
        gsigned = open(mfn, "rb").read()
        open(mfn, "wb").write(orig)
        probe.arm(gsigned)
        with impl.quiet_stdout():
            exc2, nevents, log = faults.run_traced(gcall, mfn, pkg)
        ck.evaluations += 1
        t = faults.touches(log)
        if exc is not None or exc2 is not None or not t or not faults.reads(log) or open(mfn, "rb").read() != gsigned:
            ck.violation("GPG-path signing of a well-formed file failed or did not read and then write the file", {"error": repr(exc or exc2)[:200], "events": log}, "c18-gpg-baseline")
            continue
        gblind = not probe.ready
        if not gblind and not t[0][3]:
            ck.violation("GPG path: the output file was touched before the result was fully serialized", {"events": log}, "c18-gpg-early-open")
            continue
        write_at = t[0][2]
        for p in range(1, write_at + 1):
            open(mfn, "wb").write(orig)
            probe.arm(gsigned)
            with impl.quiet_stdout():
                exc, _, log2 = faults.run_traced(gcall, mfn, pkg, fault_at=p, fault_cls=faults.FAULT_CLASSES[(p + mi) % len(faults.FAULT_CLASSES)])
            ck.evaluations += 1
            ck.oracle_checks += 1
            after = open(mfn, "rb").read()
            if judge(log2, after, orig, exc is not None, gblind) is not None or (exc is not None and not faults.touches(log2) and after != orig):
                ck.violation("GPG path: a failure before the output phase left a modified file", {"fault": str(exc)[:200], "events": log2}, "c18-gpg-modified")
                break
            ck.nontrivial_add(("gpg", mi, p))
        # the model's step machine of the GPG path on the same file, with what the signer returned: fault-free run = observed result; a fault at
        # any step before the output phase leaves the file alone (executable counterpart of gpg_fault_anywhere_before_output)
        hdr_ = gpgshim.hashed_headers(fpr)
        oh_, sg_, q_ = hdr_.hex(), k.sign(gen.gpg_digest(gen.oracle_bytes(md["signed"]), hdr_)).hex(), k.hex
        head = f"gpg steps t {proto.enc(oh_)} {proto.enc(sg_)} {proto.enc(q_)} x{orig.hex()} {proto.enc(fpr)} "
        glines = [head + "-"] + [head + str(kf) for kf in range(0, 12)]
        for ln, ans in zip(glines, ck.driver.run(glines)):
            ck.evaluations += 1
            parts = dict(p.split("=", 1) for p in ans.split(" ")[1:] if "=" in p)
            res = ans.split(" ")[0]
            bad = None
            if ln.endswith(" -"):
                if not (res == "done" and parts.get("opens") == "rw" and parts.get("file") == gsigned.hex()):
                    bad = "fault-free run of the GPG step machine differs from the observed run"
            else:
                kf = int(ln.rsplit(" ", 1)[1])
                nsteps = int(parts.get("steps", "0"))
                if kf < nsteps - 2 and not (res == f"injected:{kf}" and "w" not in parts.get("opens", "") and parts.get("file") == orig.hex()):
                    bad = "GPG step machine: a fault before the output phase changed the file or opened it for writing"
            if bad:
                ck.mismatch_total += 1
                ck.mismatch_kinds["gpg-step-machine"] = ck.mismatch_kinds.get("gpg-step-machine", 0) + 1
                if len(ck.mismatches) < 12:
                    ck.mismatches.append({"corr": "corr:in-place-signing/open-sequence+file-bytes", "line": ln[:600], "impl": bad, "model": ans[:300], "tag": "gpg-steps", "meta": {}, "stdout_encoding": "utf-8"})
        for label, setup in (("signer-error", lambda: gpgshim.FAIL_NEXT.append(ValueError("gpg: signing failed: No secret key"))),
                             ("signer-oserror", lambda: gpgshim.FAIL_NEXT.append(OSError("gpg not found"))),
                             ("unknown-fingerprint", None), ("no-dependency", None), ("bad-fingerprint", None),
                             ("fingerprint-list", None), ("fingerprint-list-trailing-comma", None), ("fingerprint-list-spaces", None)):
            open(mfn, "wb").write(orig)
            f = fpr
            if setup:
                setup()
            if label == "unknown-fingerprint":
                f = "00" * 20
            if label == "bad-fingerprint":
                f = "XYZ"
            if label == "fingerprint-list":                 # one argument is one fingerprint: "a,b" is malformed as a whole, nothing is signed
                f = fpr + "," + "00" * 20
            if label == "fingerprint-list-trailing-comma":
                f = fpr + ","
            if label == "fingerprint-list-spaces":
                f = fpr + " " + "XYZ"
            if label == "no-dependency":
                impl.root_signing.SSLIB_AVAILABLE = False
            try:
                with impl.quiet_stdout():
                    exc, _, log3 = faults.run_traced(lambda: impl.root_signing.sign_root_metadata_via_gpg(mfn, f), mfn, pkg)
            finally:
                impl.root_signing.SSLIB_AVAILABLE = True
                gpgshim.FAIL_NEXT.clear()
            ck.evaluations += 1
            ck.oracle_checks += 1
            ck.count("gpg-fault:" + label + ":" + (type(exc).__name__ if exc else "no-error"))
            if exc is None:
                ck.violation("GPG path did not fail although the signer / dependency failed", {"case": label}, "c18-gpg-fault-ignored:" + label)
            if open(mfn, "rb").read() != orig or faults.touches(log3):
                ck.violation("GPG path: a failed call modified the file", {"case": label, "opens": log3}, "c18-gpg-fault-modified:" + label)
            if label != "signer-oserror":
                canned = ("n", "n", "n") if label in ("signer-error", "unknown-fingerprint") else (proto.enc(oh_), proto.enc(sg_), proto.enc(q_))
                ln = f"gpg steps {'f' if label == 'no-dependency' else 't'} {canned[0]} {canned[1]} {canned[2]} x{orig.hex()} {proto.enc(f)} -"
                ans = ck.driver.run([ln])[0]
                parts = dict(p.split("=", 1) for p in ans.split(" ")[1:] if "=" in p)
                iclass = "failed:" + (impl.classify(exc) if exc else "none")
                # (which error class a failing request gets is not the property's business; that it fails, with the file read at most and untouched, is)
                if not (ans.split(" ")[0].startswith("failed:") and iclass != "failed:none" and parts.get("file") == orig.hex() and "w" not in parts.get("opens", "")):
                    ck.mismatch_total += 1
                    ck.mismatch_kinds["gpg-step-machine:" + label] = 1
                    ck.mismatches.append({"corr": "corr:in-place-signing/open-sequence+file-bytes", "line": ln[:400], "impl": iclass, "model": ans[:200], "tag": "gpg-" + label, "meta": {}, "stdout_encoding": "utf-8"})


def proto_json(doc) -> bytes:
    """a non-canonical spelling of the same document (so 'unchanged' is distinguishable from 're-written canonically')"""
    import json
    return json.dumps(doc, indent=None, sort_keys=False, ensure_ascii=False).encode("utf-8", "surrogatepass")
