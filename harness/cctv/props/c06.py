"""C06 — the declared metadata type is bound to the role by signed content alone."""
from __future__ import annotations

import copy

from .. import envgen, gen, proto, schema
from ..framework import Case, Check
from .c05 import deleg_case

RULE = ("validly signed delegating metadata of type T presented for role R (R != T and R == T), with every class of attacker-added entry in "
        "the unsigned signature map (junk keys/values, malformed entries, entries by unauthorized keys); for every accepted / rejected envelope "
        "of the C01/C05 generators also the stripped envelope (only counting signatures kept) and the envelope plus junk, on all three "
        "verifiers; non-trivial = the envelope carries at least one counting signature; distinct by (verifier, envelope variant)")

THEOREMS = ["type_mismatch_never_accepted", "accept_implies_stripped_accept", "unsigned_part_cannot_help", "verifySignable_counting_only"]


def run(ck: Check) -> None:
    rng = ck.rng
    cases, info = [], []
    g = 0
    # (a) type vs role with manipulations of the unsigned part
    for i in range(ck.n(600, 120)):
        gpg = bool(i % 2)
        T = rng.choice(["root", "key_mgr"])
        R = rng.choice(["root", "key_mgr", "pkg_mgr"])
        ks = [gen.key(j) for j in rng.sample(range(8), rng.randint(1, 3))]
        thr = rng.randint(1, len(ks))
        trusted = gen.envelope(gen.delegating_md("root", {R: gen.delegation(ks, thr), "zz": gen.delegation([gen.key(9)], 1)}, version=2))
        signed = gen.delegating_md(T, {"root": gen.delegation(ks, 1)}, version=rng.randint(1, 3))
        if i % 4 == 1:
            signed["delegations"] = {}          # delegating metadata that delegates nothing (the builder's default) is still typed
        if i % 3 == 0:
            # any well-formed metadata is typed, whatever its dates say: expiry before / equal to the timestamp, far past, far future, odd-but-accepted spellings
            ts, ex = rng.choice([("2020-07-13T05:46:45Z", "2020-07-13T05:46:45Z"), ("2021-01-01T00:00:00Z", "2020-01-01T00:00:00Z"), ("9999-12-31T23:59:59Z", "0001-01-01T00:00:00Z"),
                                 ("2020-1-1T1:1:1Z", "2019-1-1T1:1:1Z"), ("2020-02-29T12:00:00Z", "2000-02-29T00:00:00Z")])
            signed["timestamp"], signed["expiration"] = ts, ex
        # every shape the schema allows is typed: optional members absent (version without timestamp, timestamp without version for non-root),
        # unknown extra members, members in another order, numbers spelled as bools
        shape = i % 8
        if shape == 2:
            signed.pop("timestamp", None)
        elif shape == 4 and T != "root":
            signed.pop("version", None)
        elif shape == 7:
            # text the schema leaves free — the spec-version string, the names of delegated roles — holding lone surrogates, NUL, astral characters: still
            # well-formed delegating metadata, so its declared type is still bound to the role
            signed["metadata_spec_version"] = rng.choice(["\ud800", "0.6.0\udfff", "\x00", "\U0001f600", "é"])
            signed.setdefault("delegations", {})[rng.choice(["\ud800role", "r\udc00", "\x00", "\U0001f511"])] = gen.delegation([gen.key(9)], 1)
        elif shape == 5:
            signed[rng.choice(["note", "extra", "Type", "é"])] = rng.choice([None, 1, "x", [], {"a": 1}])
        elif shape == 6:
            if signed.get("version") == 1:
                signed["version"] = True
            items = list(signed.items())
            rng.shuffle(items)
            signed = dict(items)
        ck.count("typed-shape:%d" % shape)
        u = gen.sign_env(gen.envelope(signed), ks, gpg, rng)
        variants = [("plain", u)]
        for _ in range(3):
            v = copy.deepcopy(u)
            for _ in range(rng.randint(1, 2)):
                k, x = gen.junk_entry(rng)
                v["signatures"][k] = x
            variants.append(("junk", v))
        v = copy.deepcopy(u)
        v["signatures"]["junk"] = "x"
        variants.append(("junk-str", v))
        v = copy.deepcopy(u)
        v["signatures"][gen.key(9).hex] = {"signature": "00" * 63}
        variants.append(("malformed-entry", v))
        for name, v in variants:
            g += 1
            cases.append(Case("vdeleg", [R, v, trusted, gpg], tag="type-" + ("match" if T == R else "mismatch") + ":" + name, group=g))
            info.append(("type", T, R))
    # (b) strip / add-junk pairs on the C01 and C05 generators
    base = []
    for i in range(ck.n(500, 110)):
        gpg = bool(i % 2)
        if i % 3 == 0:
            role, u, t = deleg_case(rng, gpg)
            if not schema.o_delegating_md(t) or role not in t["signed"]["delegations"]:
                continue
            d = t["signed"]["delegations"][role]
            base.append(("vdeleg", u, d["pubkeys"], d["threshold"], gpg, lambda e, role=role, t=t, gpg=gpg: [role, e, t, gpg]))
        else:
            c = envgen.signable_case(rng, gpg, ck.dist)
            cnt = len(envgen.counting_keys(c["env"], c["auth"], gpg))
            thr = rng.choice(envgen.thresholds_for(rng, cnt, len(c["auth"])))
            base.append(("vsignable", c["env"], c["auth"], thr, gpg, lambda e, a=c["auth"], thr=thr, gpg=gpg: [e, a, thr, gpg]))
    # directed: crowded signature maps (dozens to hundreds of entries that never count) next to fewer valid authorized signatures than required
    import hashlib as _h
    for N in (21, 25, 70, 300):
        for gpg in (False, True):
            ks_ = [gen.key(1), gen.key(2)]
            env_ = gen.envelope({"crowded": N})
            for j in range(N):
                env_["signatures"][_h.sha256(b"c06-%d" % j).hexdigest() if j % 2 else "junk-%d" % j] = ({"signature": "00" * 64} if j % 2 else "x")
            gen.sign_env(env_, ks_[:1], gpg, rng)
            base.append(("vsignable", env_, [k.hex for k in ks_], 2, gpg, lambda e, a=[k.hex for k in ks_], gpg=gpg: [e, a, 2, gpg]))
    # root pairs
    for i in range(ck.n(120, 30)):
        ks = [gen.key(j) for j in rng.sample(range(8), rng.randint(1, 3))]
        t = gen.envelope(gen.root_md(ks, rng.randint(1, len(ks)), [gen.key(9)], 1, version=1))
        nk = ks if rng.random() < 0.6 else [gen.key(j) for j in rng.sample(range(8), 2)]
        u = gen.envelope(gen.root_md(nk, rng.randint(1, len(nk)), [gen.key(9)], 1, version=2))
        signers = list({k.hex: k for k in rng.sample(ks, rng.randint(0, len(ks))) + rng.sample(nk, rng.randint(0, len(nk)))}.values())
        gen.sign_env(u, signers, True, rng)
        allkeys = list(dict.fromkeys([k.hex for k in ks + nk]))
        base.append(("vroot", u, allkeys, 1, True, lambda e, t=t: [t, e]))
    for op, env, auth, thr, gpg, mk in base:
        g += 1
        stripped = envgen.strip_env(env, auth, gpg)
        junked = copy.deepcopy(env)
        for _ in range(rng.randint(1, 3)):
            k, x = gen.junk_entry(rng)
            if k not in junked["signatures"]:
                junked["signatures"][k] = x
        for name, e in (("orig", env), ("stripped", stripped), ("junked", junked)):
            cases.append(Case(op, mk(e), tag=f"{op}:{name}", group=g))
            info.append(("pair", g, name))
    res = ck.run_cases(cases, "corr:verifiers-unsigned-part/outcome-class")
    groups = {}
    for r, inf in zip(res, info):
        ck.oracle_checks += 1
        if inf[0] == "type":
            _, T, R = inf
            ck.nontrivial_add(("type", r.case.group))
            if T != R and r.impl == "OK":
                ck.violation("metadata whose signed portion is well-formed delegating metadata of another type was accepted for the role",
                             {"role": R, "declared_type": T, "variant": r.case.tag, "untrusted": proto.enc(r.case.args[1])[:1500], "trusted": proto.enc(r.case.args[2])[:800]},
                             f"type-mismatch-accepted:{r.case.tag.split(':')[1]}")
            if T == R and r.impl != "OK":
                ck.violation("properly signed delegating metadata declaring the role as its type was rejected",
                             {"role": R, "variant": r.case.tag, "impl": r.impl, "untrusted": proto.enc(r.case.args[1])[:1500]}, f"type-match-rejected:{r.impl}:{r.case.tag.split(':')[1]}")
        else:
            groups.setdefault(inf[1], {})[inf[2]] = r
    for gid, d in groups.items():
        o, s, j = d["orig"], d["stripped"], d["junked"]
        if o.impl == "OK":
            ck.nontrivial_add(("pair", gid))
        if o.impl == "OK" and s.impl != "OK":
            ck.violation("an accepted envelope is rejected once only its valid authorized signatures are kept: acceptance depended on the unsigned part",
                         {"verifier": o.case.op, "original": proto.enc(o.case.args[1 if o.case.op != 'vsignable' else 0])[:1500], "stripped_outcome": s.impl}, f"strip:{o.case.op}:{s.impl}")
        if o.impl != "OK" and j.impl == "OK":
            ck.violation("adding non-counting entries to the signature map turned a rejection into an acceptance",
                         {"verifier": o.case.op, "original_outcome": o.impl, "junked": proto.enc(j.case.args[1 if j.case.op != 'vsignable' else 0])[:1500]}, f"junk-helped:{o.case.op}")
        # (verify_root demands a well-formed envelope, signature values included, so junk may legitimately turn
        #  its acceptance into an argument error: C03 "both are well-formed root-type metadata")
        if o.impl == "OK" and j.impl != "OK" and o.case.op != "vroot":
            ck.violation("adding non-counting entries to the signature map turned an acceptance into a rejection",
                         {"verifier": o.case.op, "junked_outcome": j.impl, "junked": proto.enc(j.case.args[1 if j.case.op != 'vsignable' else 0])[:1500]}, f"junk-hurt:{o.case.op}:{j.impl}")
