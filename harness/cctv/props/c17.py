"""C17 — CLI exit status and output reflect the library's verdict."""
from __future__ import annotations

import copy
import os
import subprocess
import sys
import tomllib
from concurrent.futures import ThreadPoolExecutor

from .. import envgen, gen, proto, schema
from ..framework import Check

RULE = ("pairs of files (valid root chains in OpenPGP mode, valid delegations, every rejection class: version skip / replay, insufficient or foreign "
        "signatures, undelegated role, type mismatch; malformed metadata; not JSON; missing files; wrong argument counts) run as real processes through "
        "each of the three entry points (console script regenerated from the current pyproject.toml, python -m conda_content_trust, python -m "
        "conda_content_trust.cli); sign-artifacts with good / bad / decorated key files and good / bad repodata; gpg-sign without its optional "
        "dependency; gpg-sign and gpg-key-lookup with the dependency stood in for by a signer with outputs fixed per case (fingerprint spellings, raising signer, "
        "unknown key, broken / missing / re-laid-out files); the interactive modify-metadata editor driven by scripts of typed lines on stdin (choices, keys, thresholds, early end of input).  Observables: exit status, success line on stdout, file bytes.  non-trivial = a run whose files both parse; distinct by (entry point, files)")

THEOREMS = ["exit_zero_iff", "verify_codes", "sign_zero_only_if_signed", "sign_bad_key_untouched", "gpg_sign_zero_iff_signed", "gpg_commands_need_dependency", "gpg_sign_end_to_end", "editLoop_writes", "edit_session_files", "rejected_nonzero_any_stdout", "absent_stdout_same_status", "failing_stdout_status", "edit_open_and_save", "edit_two_signers"]

REPO = os.environ.get("CCT_REPO", "/repo")
ENTRY_POINTS = ["script", "modulePkg", "moduleCli"]


def make_console_script(d: str) -> str:
    """the wrapper pip generates for [project.scripts], rebuilt from the *current* pyproject.toml"""
    with open(os.path.join(REPO, "pyproject.toml"), "rb") as f:
        target = tomllib.load(f)["project"]["scripts"]["conda-content-trust"]
    mod, func = target.split(":")
    path = os.path.join(d, "conda-content-trust")
    with open(path, "w") as f:
        f.write(f"#!{sys.executable}\n# -*- coding: utf-8 -*-\nimport re\nimport sys\nfrom {mod} import {func.split('.')[0]}\n"
                f"if __name__ == '__main__':\n    sys.argv[0] = re.sub(r'(-script\\.pyw|\\.exe)?$', '', sys.argv[0])\n    sys.exit({func}())\n")
    os.chmod(path, 0o755)
    return path


SITECUSTOM = os.path.join(os.path.dirname(os.path.dirname(os.path.dirname(os.path.abspath(__file__)))), "sitecustom")


def run_ep(ep: str, script: str, args: list[str], cwd: str, ioenc: str = "utf-8", canned: dict | None = None):
    env = dict(os.environ, PYTHONPATH=REPO, PYTHONDONTWRITEBYTECODE="1", PYTHONIOENCODING=ioenc)
    env.pop("CCTV_GPG_CANNED", None)
    if env.get("COVERAGE_PROCESS_START"):
        env["PYTHONPATH"] = REPO + os.pathsep + SITECUSTOM
    if canned is not None:
        # the optional dependency stood in for by a signer with fixed outputs (harness/sitecustom/sitecustomize.py)
        import json as _json
        env["PYTHONPATH"] = REPO + os.pathsep + SITECUSTOM
        env["CCTV_GPG_CANNED"] = _json.dumps(canned)
    if ep == "script":
        cmd = [sys.executable, script] + args
    elif ep == "modulePkg":
        cmd = [sys.executable, "-m", "conda_content_trust"] + args
    else:
        cmd = [sys.executable, "-m", "conda_content_trust.cli"] + args
    p = subprocess.run(cmd, env=env, cwd=cwd, stdout=subprocess.PIPE, stderr=subprocess.PIPE, timeout=120)
    return p.returncode, p.stdout.decode("utf-8", "replace"), p.stderr.decode("utf-8", "replace")


KINDS = ["root-ok", "deleg-ok", "root-skip", "root-replay", "root-unsigned", "root-foreign", "root-raw-sigs", "deleg-unsigned",
         "deleg-foreign", "unknown-role", "type-mismatch", "malformed-untrusted", "malformed-trusted", "not-json", "missing-untrusted", "missing-trusted",
         "no-type", "payload-not-md", "root-junk-sig", "deleg-gpg-sigs", "deleg-ok-unicode-role", "nonroot-trusted-vs-root-offer", "root-ok-bom", "root-ok-dup-members",
         "typeless-signed-for-role", "empty-type-signed-for-role", "typeless-signed-as-root", "root-pair-reversed"]


def verify_pairs(rng, n):
    """(label, trusted bytes | None, untrusted bytes | None)"""
    out = []
    shift = rng.randrange(len(KINDS))
    for i in range(n):
        ks = [gen.key(j) for j in rng.sample(range(8), rng.randint(1, 3))]
        thr = rng.randint(1, len(ks))
        km = [gen.key(8)]
        root1 = gen.envelope(gen.root_md(ks, thr, km, 1, version=rng.choice([1, 4])))
        v = root1["signed"]["version"]
        kind = KINDS[(i + shift) % len(KINDS)]
        t, u = root1, None
        if kind == "root-pair-reversed":
            # a genuine, properly chained pair given the wrong way round: the newer root as the trusted one, its predecessor as the offer — a rollback
            newer = gen.envelope(gen.root_md(ks, thr, km, 1, version=v + 1))
            gen.sign_env(newer, ks, True, rng)
            older = copy.deepcopy(root1)
            gen.sign_env(older, ks, True, rng)
            t, u = newer, older
        elif kind.startswith("root"):
            nv = {"root-skip": v + 2, "root-replay": v}.get(kind, v + 1)
            u = gen.envelope(gen.root_md(ks, thr, km, 1, version=nv))
            if kind in ("root-ok", "root-skip", "root-replay", "root-junk-sig", "root-ok-bom", "root-ok-dup-members"):
                gen.sign_env(u, ks[:thr], True, rng)
            if kind == "root-junk-sig":
                u["signatures"]["junk"] = "x"
            if kind == "root-foreign":
                gen.sign_env(u, [gen.key(9)], True, rng)
            if kind == "root-raw-sigs":
                gen.sign_env(u, ks, False)
        elif kind in ("deleg-ok", "deleg-unsigned", "deleg-foreign"):
            u = gen.envelope(gen.delegating_md("key_mgr", {"pkg_mgr": gen.delegation([gen.key(9)], 1)}))
            if kind == "deleg-ok":
                gen.sign_env(u, km, False)
            if kind == "deleg-foreign":
                gen.sign_env(u, [gen.key(7)] if gen.key(7) not in km else [gen.key(6)], False)
        elif kind == "nonroot-trusted-vs-root-offer":
            # a root file offered against trusted metadata that is not root metadata but does delegate a role called "root" to the signers:
            # the root-chain check applies (and fails), not the plain delegation check
            t = gen.envelope(gen.delegating_md("key_mgr", {"root": gen.delegation(ks, thr), "pkg_mgr": gen.delegation(km, 1)}, version=1))
            u = gen.envelope(gen.root_md(ks, thr, km, 1, version=rng.choice([1, 2])))
            gen.sign_env(u, ks, False)       # raw signatures: what a plain delegation check would be satisfied with
        elif kind == "deleg-gpg-sigs":
            # non-root metadata carrying only OpenPGP-mode signatures by the authorized keys: the library's delegation check (raw mode) rejects it
            u = gen.envelope(gen.delegating_md("key_mgr", {"pkg_mgr": gen.delegation([gen.key(9)], 1)}))
            gen.sign_env(u, km, True, rng)
        elif kind == "deleg-ok-unicode-role":
            # an accepted file whose declared type is not encodable on every stdout: success must still be reported with status 0
            role = rng.choice(["caf\u00e9", "\ud800x", "\u65e5\u672c", "r\u00f4le\U0001f511"])
            t = gen.envelope(gen.delegating_md("root", {"root": gen.delegation(ks, thr), "key_mgr": gen.delegation(km, 1), role: gen.delegation(km, 1)}, version=1))
            u = gen.sign_env(gen.envelope({"type": role, "payload": [1, 2]}), km, False)
        elif kind == "unknown-role":
            u = gen.sign_env(gen.envelope({"type": "pkg_mgr", "x": 1}), km, False)
        elif kind == "type-mismatch":
            t = gen.envelope(gen.delegating_md("root", {"root": gen.delegation(ks, thr), "key_mgr": gen.delegation(km, 1), "other": gen.delegation(km, 1)}, version=1))
            u = gen.sign_env(gen.envelope({"type": "other", "payload": [1, 2]}), [gen.key(7)], False)
        elif kind == "malformed-untrusted":
            u = gen.envelope(gen.root_md(ks, thr, km, 1, version=v + 1))
            u["signed"]["delegations"]["root"]["threshold"] = rng.choice([0, "1", None, 1.5])
            gen.sign_env(u, ks[:thr], True, rng)
        elif kind == "malformed-trusted":
            t = copy.deepcopy(root1)
            del t["signed"]["expiration"]
            u = gen.sign_env(gen.envelope(gen.root_md(ks, thr, km, 1, version=v + 1)), ks[:thr], True, rng)
        elif kind == "no-type":
            u = rng.choice([{"signatures": {}, "signed": {"x": 1}}, {"signatures": {}}, [1, 2], "str", {"signed": [1]}, {"signatures": {}, "signed": {"type": 5}}])
        elif kind in ("typeless-signed-for-role", "empty-type-signed-for-role"):
            # content that declares no type (or an empty one), properly signed by the keys of a delegated role and stored under that role's customary
            # file name: only the *declared* type selects a role, so there is nothing to accept it as
            body = {"delegations": {}, "note": "no type here"} if kind.startswith("typeless") else {"type": "", "delegations": {}}
            u = gen.sign_env(gen.envelope(body), km, False)
        elif kind == "typeless-signed-as-root":
            u = gen.envelope({k_: v_ for k_, v_ in gen.root_md(ks, thr, km, 1, version=v + 1).items() if k_ != "type"})
            gen.sign_env(u, ks, True, rng)
        elif kind == "payload-not-md":
            u = gen.sign_env(gen.envelope({"type": "key_mgr", "not": "delegating metadata"}), km, False)
        tb = None if kind == "missing-trusted" else gen.oracle_bytes(t)
        ub = None if kind == "missing-untrusted" else (b"{not json" if kind == "not-json" else gen.oracle_bytes(u))
        if kind == "root-ok-bom":           # files saved by an editor that writes a UTF-8 signature: same JSON, same verdict
            tb, ub = b"\xef\xbb\xbf" + tb, b"\xef\xbb\xbf" + ub
        if kind == "root-ok-dup-members":   # a member name given twice: the last one counts (as json.load has it), for the tool as for the library
            ub = ub.replace(b'{\n  "signatures"', b'{\n  "signatures": {"x": 1},\n  "signatures"', 1)
            tb = tb.replace(b'"type": "root"', b'"type": "key_mgr",\n    "type": "root"', 1)
        if kind == "not-json" and rng.random() < 0.5:
            tb, ub = b"\xff\xfe", gen.oracle_bytes(root1)
        out.append((kind, tb, ub, t, u))
    return out


def library_accepts(t, u) -> bool:
    """the verdict the property refers to: root-chain check when the untrusted file declares type root, else delegation check for its declared type"""
    try:
        ty = u["signed"]["type"]
    except Exception:
        return False
    if ty == "root":
        return schema.spec_verify_root(t, u) == {"OK"}
    if not isinstance(ty, str):
        return False
    return schema.spec_verify_delegation_set(ty, u, t, False) == {"OK"}


def run(ck: Check) -> None:
    rng = ck.rng
    from .. import impl

    d = os.path.join(impl.scratch_dir(), "cli")
    os.makedirs(d, exist_ok=True)
    script = make_console_script(d)
    pairs = verify_pairs(rng, (4 if ck.thorough else 1) * len(KINDS))      # every kind in every run
    jobs = []
    lines = []
    for i, (kind, tb, ub, t, u) in enumerate(pairs):
        # files named the way channels name them (N.root.json, root.json, key_mgr.json, <role>.json) or neutrally: names never decide anything
        pd = os.path.join(d, f"pair{i}")
        os.makedirs(pd, exist_ok=True)
        tv = t["signed"].get("version", 1) if isinstance(t, dict) and isinstance(t.get("signed"), dict) else 1
        tname = rng.choice([f"{tv}.root.json", "root.json", f"t{i}.json", "trusted.json"])
        if kind in ("typeless-signed-for-role", "empty-type-signed-for-role", "deleg-unsigned", "deleg-foreign", "unknown-role", "type-mismatch", "payload-not-md"):
            uname = rng.choice(["key_mgr.json", "key_mgr.json", "1.key_mgr.json", "pkg_mgr.json"])
        elif kind == "typeless-signed-as-root" or kind.startswith("root-"):
            uname = rng.choice([f"{tv + 1}.root.json", "root.json", f"u{i}.json"]) if kind != "root-ok-bom" else f"u{i}.json"
        else:
            uname = rng.choice([f"u{i}.json", "key_mgr.json", "untrusted.json"])
        if uname == tname:
            uname = "new." + uname
        ck.count("verify-file-name:" + ("role-like" if not uname.startswith(("u", "new.u")) else "neutral"))
        tf, uf = os.path.join(pd, tname), os.path.join(pd, uname)
        for fn, b in ((tf, tb), (uf, ub)):
            if b is not None:
                with open(fn, "wb") as f:
                    f.write(b)
            elif os.path.exists(fn):
                os.unlink(fn)
        lines.append("cli verify " + ("x" + tb.hex() if tb is not None else "-") + " " + ("x" + ub.hex() if ub is not None else "-"))
        for ep in ENTRY_POINTS:
            jobs.append((i, ep, ["verify-metadata", tf, uf], "utf-8"))
            if kind == "deleg-ok-unicode-role":
                jobs.append((i, ep, ["verify-metadata", tf, uf], "ascii"))      # the same run on a stdout that cannot encode the role name
    # argument-count errors
    for ep in ENTRY_POINTS:
        jobs.append((-1, ep, ["verify-metadata", os.path.join(d, "pair0", "no-second-file.json")], "utf-8"))
        jobs.append((-2, ep, [], "utf-8"))
        jobs.append((-3, ep, ["no-such-subcommand"], "utf-8"))
    model = ck.driver.run(lines, list(range(len(lines))))
    with ThreadPoolExecutor(max_workers=16) as ex:
        outs = list(ex.map(lambda j: run_ep(j[1], script, j[2], d, j[3]), jobs))
    ck.correspondences.add("corr:cli-verify-metadata/exit-status+success-line")
    for (i, ep, args, _enc), (rc, out, err) in zip(jobs, outs):
        ck.evaluations += 1
        if i < 0:
            ck.oracle_checks += 1
            ck.count(f"usage:{ep}:exit{rc}")
            if rc == 0:
                ck.violation("a usage error exits with status zero", {"entry_point": ep, "args": args}, f"usage-zero:{ep}")
            continue
        kind, tb, ub, t, u = pairs[i]
        m = model[i]
        ck.count(f"verify:{kind}:exit{rc}")
        low = out.lower()
        success_line = (any(w in low for w in ("success", "verified", "trusted", "valid")) and not any(w in low for w in ("fail", "error", "invalid", "not ", "abort")))
        want_accept = (tb is not None and ub is not None and kind != "not-json" and library_accepts(t, u))
        if tb is not None and ub is not None and kind != "not-json":
            ck.nontrivial_add((ep, i))
        ck.oracle_checks += 1
        if (rc == 0) != want_accept or success_line != want_accept:
            ck.violation("verify-metadata: exit status / success report does not reflect the library's verdict",
                         {"entry_point": ep, "case": kind, "exit_status": rc, "reports_success": success_line, "library_accepts": want_accept,
                          "stderr_tail": err[-300:], "trusted": (tb or b"<missing>")[:600].decode("latin-1"), "untrusted": (ub or b"<missing>")[:600].decode("latin-1")},
                         f"cli-verify:{ep}:{kind}:exit{rc}:accepts={want_accept}")
        # correspondence with the model's exit status (exact code) and success flag
        mexit = int(m.split("exit=")[1]) if "exit=" in m else -1
        msucc = " success " in m
        if mexit != rc or msucc != success_line:
            ck.mismatch_total += 1
            kk = f"cli-verify:{ep}:{kind}:impl={rc}:model={mexit}"
            ck.mismatch_kinds[kk] = ck.mismatch_kinds.get(kk, 0) + 1
            if len(ck.mismatches) < 12:
                ck.mismatches.append({"corr": "corr:cli-verify-metadata/exit-status+success-line", "line": lines[i][:1500], "impl": f"exit={rc} success={success_line}", "model": m,
                                      "tag": ep + ":" + kind, "meta": {"stderr": err[-200:]}, "stdout_encoding": "utf-8"})
        if len(ck.samples) < 6:
            ck.samples.append({"entry_point": ep, "case": kind, "exit_status": rc, "reports_success": success_line, "model": m})

    # the same verdicts under other process conditions and other spellings of the file names
    by_kind = {}
    for i, (kind, tb, ub, t, u) in enumerate(pairs):
        by_kind.setdefault(kind, (i, tb, ub, t, u))
    def run_cond(ep, args, cond):
        """cond: how standard output is wired — a pipe whose reader has gone away (buffered / unbuffered), /dev/full, closed at start-up"""
        env = dict(os.environ, PYTHONPATH=REPO, PYTHONDONTWRITEBYTECODE="1", PYTHONIOENCODING="utf-8")
        if cond.endswith("unbuffered"):
            env["PYTHONUNBUFFERED"] = "1"
        cmd = [sys.executable] + ([script] if ep == "script" else ["-m", "conda_content_trust" if ep == "modulePkg" else "conda_content_trust.cli"]) + args
        if cond.startswith("pipe-gone"):
            r_, w_ = os.pipe()
            os.close(r_)
            try:
                p = subprocess.run(cmd, env=env, cwd=d, stdout=w_, stderr=subprocess.PIPE, timeout=120)
            finally:
                os.close(w_)
        elif cond.startswith("dev-full"):
            if not os.path.exists("/dev/full"):
                return 1, "no /dev/full here"
            with open("/dev/full", "wb") as f:
                p = subprocess.run(cmd, env=env, cwd=d, stdout=f, stderr=subprocess.PIPE, timeout=120)
        else:   # closed at start-up: the interpreter has no standard output object
            p = subprocess.run(["/bin/sh", "-c", 'exec "$@" >&-', "sh"] + cmd, env=env, cwd=d, stderr=subprocess.PIPE, timeout=120)
        return p.returncode, p.stderr.decode("utf-8", "replace")
    cjobs = []
    for kind in ("root-unsigned", "deleg-unsigned", "root-skip", "type-mismatch", "unknown-role", "root-foreign", "root-ok", "deleg-ok", "missing-untrusted", "not-json"):
        if kind not in by_kind:
            continue
        i, tb, ub, t, u = by_kind[kind]
        pd = os.path.join(d, f"cond-{kind}")
        os.makedirs(pd, exist_ok=True)
        for nm, b in (("t.json", tb), ("u.json", ub)):
            if b is not None:
                open(os.path.join(pd, nm), "wb").write(b)
            elif os.path.exists(os.path.join(pd, nm)):
                os.unlink(os.path.join(pd, nm))
        accepted_kind = kind in ("root-ok", "deleg-ok")
        for ep in (ENTRY_POINTS if not accepted_kind else ENTRY_POINTS[:1]):
            for cond in ("pipe-gone-unbuffered", "pipe-gone", "dev-full-unbuffered", "dev-full", "closed"):
                cjobs.append((kind, ep, cond, ["verify-metadata", os.path.join(pd, "t.json"), os.path.join(pd, "u.json")], i))
    with ThreadPoolExecutor(max_workers=16) as ex:
        couts = list(ex.map(lambda j: run_cond(j[1], j[3], j[2]), cjobs))
    # the model of the command under each standard-output state (Model/Cli.lean: cliVerifyUnder; theorems rejected_nonzero_any_stdout, absent_stdout_same_status)
    state_of = lambda cond: "absent" if cond == "closed" else "failing"
    mlines = ["cli verifyio " + state_of(j[2]) + lines[j[4]][len("cli verify"):] for j in cjobs]
    manswers = ck.driver.run(mlines, [j[4] for j in cjobs])
    ck.correspondences.add("corr:cli-verify-metadata/exit-status-under-stdout-conditions")
    for (kind, ep, cond, args, _i), (rc, err), m_, ml in zip(cjobs, couts, manswers, mlines):
        ck.evaluations += 1
        ck.oracle_checks += 1
        ck.count(f"verify-stdout-{cond}:exit{rc}")
        mexit = int(m_.split("exit=")[1]) if "exit=" in m_ else -1
        mnormal = int(model[_i].split("exit=")[1]) if "exit=" in model[_i] else -1
        # where the report goes (stdout or stderr) is the tool's business: on a stdout that cannot take text the status is the one the model gives for a
        # failing report, or the ordinary one (theorem failing_stdout_status: 1 or the status reported otherwise)
        # ... and a tool whose report itself fails on such a stdout (exit 1 from a traceback) is as good: what the model is compared on here is the class of
        # the status (zero / non-zero) of *rejected* pairs — rejected_nonzero_any_stdout; for accepted pairs nothing can be reported and nothing is demanded
        if (mexit != 0 or mnormal != 0) and rc == 0:
            ck.mismatch_total += 1
            kk = f"cli-verify-stdout:{cond}:{kind}:impl={rc}:model={mexit}"
            ck.mismatch_kinds[kk] = ck.mismatch_kinds.get(kk, 0) + 1
            if len(ck.mismatches) < 12:
                ck.mismatches.append({"corr": "corr:cli-verify-metadata/exit-status-under-stdout-conditions", "line": ml[:1200], "impl": f"exit={rc}", "model": m_, "tag": ep + ":" + kind + ":" + cond,
                                      "meta": {"stderr": err[-200:]}, "stdout_encoding": "utf-8"})
        if kind in ("root-ok", "deleg-ok"):
            continue
        if rc == 0:
            ck.violation("verify-metadata: a rejected pair exits with status zero when standard output cannot take the report",
                         {"entry_point": ep, "case": kind, "stdout": cond, "stderr_tail": err[-300:]}, f"cli-verify-stdout:{cond}:{kind}")
    # file names that reach a file through a symbolic link and '..' (the kernel's reading: the parent of the link's *target*), next to a decoy of the same
    # name with the opposite verdict where a textual reading would look; and harmless respellings ('./', '//', 'x/../' through a real directory)
    if "root-ok" in by_kind and "root-unsigned" in by_kind:
        good, bad = by_kind["root-ok"], by_kind["root-unsigned"]
        pjobs = []
        for label, named, decoy, want in (("named-rejected-decoy-accepted", bad, good, False), ("named-accepted-decoy-rejected", good, bad, True)):
            base = os.path.join(d, "paths-" + label)
            real = os.path.join(base, "elsewhere", "inner")
            os.makedirs(real, exist_ok=True)
            os.makedirs(os.path.join(base, "here", "sub"), exist_ok=True)
            lnk = os.path.join(base, "here", "link")
            if not os.path.islink(lnk):
                os.symlink(real, lnk)
            for dirn, (i, tb, ub, t, u) in ((os.path.join(base, "elsewhere"), named), (os.path.join(base, "here"), decoy)):
                open(os.path.join(dirn, "t.json"), "wb").write(tb)
                open(os.path.join(dirn, "u.json"), "wb").write(ub)
            for ep in ENTRY_POINTS:
                pjobs.append((label, ep, "symlink-dotdot", ["verify-metadata", os.path.join(lnk, "..", "t.json"), os.path.join(lnk, "..", "u.json")], os.path.join(base, "here"), want))
                pjobs.append((label, ep, "symlink-dotdot-relative", ["verify-metadata", "link/../t.json", "link/../u.json"], os.path.join(base, "here"), want))
                pjobs.append((label, ep, "respelled", ["verify-metadata", ".//sub/..//t.json", "sub/./../u.json"], os.path.join(base, "elsewhere" if False else "here"), not want))
        # names beginning with characters that option parsers give a meaning to ('@' response files, '+'), taken literally; next to each sits a bystander
        # without the prefix that lists the names of the pair with the opposite verdict, one per line — what a response-file reading would pick up
        for label, named, decoy, want in (("named-rejected", bad, good, False), ("named-accepted", good, bad, True)):
            base = os.path.join(d, "prefix-" + label)
            os.makedirs(base, exist_ok=True)
            for pre in ("@", "+", "@@"):
                for nm, b in (("t.json", named[1]), ("u.json", named[2])):
                    open(os.path.join(base, pre + nm), "wb").write(b)
            for nm, b in (("decoy-t.json", decoy[1]), ("decoy-u.json", decoy[2])):
                open(os.path.join(base, nm), "wb").write(b)
            open(os.path.join(base, "t.json"), "w").write("decoy-t.json\n")
            open(os.path.join(base, "u.json"), "w").write("decoy-u.json\n")
            for ep in ENTRY_POINTS:
                for pre in ("@", "+", "@@"):
                    pjobs.append((label, ep, "prefix-" + pre, ["verify-metadata", pre + "t.json", pre + "u.json"], base, want))
        with ThreadPoolExecutor(max_workers=16) as ex:
            pouts = list(ex.map(lambda j: run_ep(j[1], script, j[3], j[4]), pjobs))
        for (label, ep, spelling, args, cwd_, want), (rc, out, err) in zip(pjobs, pouts):
            ck.evaluations += 1
            ck.oracle_checks += 1
            ck.count(f"verify-path-{spelling}:exit{rc}")
            if (rc == 0) != want:
                ck.violation("verify-metadata: the verdict reported is not the library's verdict on the files named (names through a symbolic link and '..' / respelled names)",
                             {"entry_point": ep, "case": label, "spelling": spelling, "args": args[1:], "exit_status": rc, "library_accepts_named_file": want, "stderr_tail": err[-200:]},
                             f"cli-verify-path:{spelling}:{label}")

    # what the files' *permissions* are, and a file called "-", mean nothing: the verdict is the library's verdict on the content of the files named
    if "root-ok" in by_kind and "root-unsigned" in by_kind and "deleg-ok" in by_kind:
        mjobs = []
        for kind_, want in (("root-ok", True), ("deleg-ok", True), ("root-unsigned", False)):
            i_, tb_, ub_, t_, u_ = by_kind[kind_]
            for mi, (mt, mu) in enumerate([(0o664, 0o644), (0o666, 0o666), (0o444, 0o444), (0o600, 0o640), (0o777, 0o755)]):
                pd = os.path.join(d, f"modes-{kind_}-{mi}")
                os.makedirs(pd, exist_ok=True)
                for nm, b, md in (("t.json", tb_, mt), ("u.json", ub_, mu)):
                    pth = os.path.join(pd, nm)
                    if os.path.exists(pth):
                        os.chmod(pth, 0o644)
                    open(pth, "wb").write(b)
                    os.chmod(pth, md)
                mjobs.append((kind_, ENTRY_POINTS[mi % len(ENTRY_POINTS)], "modes-%o-%o" % (mt, mu), ["verify-metadata", os.path.join(pd, "t.json"), os.path.join(pd, "u.json")], pd, want, None))
        # a file literally named "-" (in the working directory), while standard input offers the opposite pair's content
        for label, named, other, want in (("dash-rejected", by_kind["root-unsigned"], by_kind["root-ok"], False), ("dash-accepted", by_kind["root-ok"], by_kind["root-unsigned"], True)):
            pd = os.path.join(d, "dash-" + label)
            os.makedirs(pd, exist_ok=True)
            open(os.path.join(pd, "t.json"), "wb").write(named[1])
            open(os.path.join(pd, "-"), "wb").write(named[2])
            for ep in ENTRY_POINTS:
                mjobs.append((label, ep, "file-named-dash", ["verify-metadata", "t.json", "-"], pd, want, other[2]))
        def run_in(j):
            env = dict(os.environ, PYTHONPATH=REPO, PYTHONDONTWRITEBYTECODE="1", PYTHONIOENCODING="utf-8")
            cmd = [sys.executable] + ([script] if j[1] == "script" else ["-m", "conda_content_trust" if j[1] == "modulePkg" else "conda_content_trust.cli"]) + j[3]
            p = subprocess.run(cmd, env=env, cwd=j[4], input=j[6] if j[6] is not None else b"", stdout=subprocess.PIPE, stderr=subprocess.PIPE, timeout=120)
            return p.returncode, p.stderr.decode("utf-8", "replace")
        with ThreadPoolExecutor(max_workers=16) as ex:
            mouts = list(ex.map(run_in, mjobs))
        for (label, ep, what, args, _cwd, want, _inp), (rc, err) in zip(mjobs, mouts):
            ck.evaluations += 1
            ck.oracle_checks += 1
            ck.count(f"verify-{what.split('-')[0]}:exit{rc}")
            if (rc == 0) != want:
                ck.violation("verify-metadata: the verdict reported is not the library's verdict on the content of the files named (file permissions / a file named '-' must not matter)",
                             {"entry_point": ep, "case": label, "condition": what, "exit_status": rc, "library_accepts_named_files": want, "stderr_tail": err[-200:]}, f"cli-verify-cond:{what}:{label}")

    # signing subcommands exit zero only if they actually signed
    k = gen.key(3)
    good_doc = {"packages": {"a-1.0-0.tar.bz2": {"name": "a", "version": "1.0"}}, "packages.conda": {"b.conda": {"name": "b"}}}
    keyfiles = [("good", k.seed.hex()), ("good-newline", k.seed.hex() + "\n"), ("good-upper-spaces", "  " + k.seed.hex().upper() + " \n"),
                ("bad-short", k.seed.hex()[:-2]), ("bad-empty", ""), ("bad-text", "not a key\n"), ("bad-inner-space", k.seed.hex()[:10] + " " + k.seed.hex()[10:]),
                ("bad-65", k.seed.hex() + "0"), ("missing", None)]
    docs = [("good-doc", gen.oracle_bytes(good_doc)), ("no-packages", gen.oracle_bytes({"info": {}})), ("not-json", b"{"), ("missing-doc", None)]
    sjobs, slines = [], []
    n = 0
    for kname, ktext in keyfiles:
        for dname, dbytes in docs:
            if not ck.thorough and dname != "good-doc" and kname not in ("good", "bad-text"):
                continue
            for ep in (ENTRY_POINTS if (kname in ("good", "bad-text", "bad-short") and dname == "good-doc") or ck.thorough else ["modulePkg"]):
                # file names as they occur in channels: plain, with brackets / spaces / wildcards / non-ASCII (taken literally, never as patterns)
                shape = ["r{n}.json", "repodata[{n}].json", "repo data {n}.json", "r{n}[noarch].json", "r\u00e9po{n}.json", "r{n}?.json"][n % 6]
                rf, kf = os.path.join(d, shape.format(n=n)), os.path.join(d, f"k{n}.txt")
                n += 1
                if dbytes is not None:
                    open(rf, "wb").write(dbytes)
                if ktext is not None:
                    open(kf, "w").write(ktext)
                sjobs.append((ep, kname, dname, rf, kf, dbytes))
                slines.append("cli sign " + ("x" + dbytes.hex() if dbytes is not None else "-") + " " + ("s" + proto.codes(ktext) if ktext is not None else "-"))
    smodel = ck.driver.run(slines)
    with ThreadPoolExecutor(max_workers=16) as ex:
        souts = list(ex.map(lambda j: run_ep(j[0], script, ["sign-artifacts", j[3], j[4]], d), sjobs))
    ck.correspondences.add("corr:cli-sign-artifacts/exit-status+file")
    for (ep, kname, dname, rf, kf, dbytes), (rc, out, err), m, ln in zip(sjobs, souts, smodel, slines):
        ck.evaluations += 1
        ck.oracle_checks += 1
        ck.count(f"sign:{kname}:{dname}:exit{rc}")
        after = open(rf, "rb").read() if os.path.exists(rf) else None
        signed_ok = False
        if after is not None and dname == "good-doc":
            try:
                import json
                o = json.loads(after)
                signed_ok = set(o.get("signatures", {})) == {"a-1.0-0.tar.bz2", "b.conda"} and all(list(v) == [k.hex] for v in o["signatures"].values())
            except Exception:
                signed_ok = False
        if rc == 0 and not signed_ok:
            ck.violation("sign-artifacts exited with status zero without having signed", {"entry_point": ep, "key_file": kname, "repodata": dname, "stdout": out[-200:]}, f"cli-sign-zero-unsigned:{kname}:{dname}")
        if rc != 0 and after != dbytes:
            ck.violation("sign-artifacts failed but modified the repodata file", {"entry_point": ep, "key_file": kname, "repodata": dname}, f"cli-sign-failed-modified:{kname}:{dname}")
        if kname.startswith("good") and dname == "good-doc" and (rc != 0 or not signed_ok):
            ck.violation("sign-artifacts with a valid key file did not sign", {"entry_point": ep, "key_file": kname, "exit": rc, "stderr": err[-300:]}, f"cli-sign-good-failed:{kname}")
        mexit = int(m.split("exit=")[1].split(" ")[0]) if "exit=" in m else -1
        mfile = m.split("file=")[1] if "file=" in m else "?"
        if (mexit == 0) != (rc == 0) or (mfile != "-" and after is not None and mfile != after.hex()) or (mfile == "-" and after is not None):
            ck.mismatch_total += 1
            kk = f"cli-sign:{kname}:{dname}:impl={rc}:model={mexit}"
            ck.mismatch_kinds[kk] = ck.mismatch_kinds.get(kk, 0) + 1
            if len(ck.mismatches) < 12:
                ck.mismatches.append({"corr": "corr:cli-sign-artifacts/exit-status+file", "line": ln[:800], "impl": f"exit={rc}", "model": m[:300], "tag": kname + ":" + dname, "meta": {"stderr": err[-200:]}, "stdout_encoding": "utf-8"})
    # sign-artifacts started from a terminal (standard input is a pty) with an operator who types "n" / nothing at whatever the tool might ask: exit status
    # zero only if it actually signed
    import pty
    for typed in (b"n\n", b"\n", b"no\n", b"y\n"):
        rf, kf = os.path.join(d, "tty-repodata.json"), os.path.join(d, "tty-key.txt")
        open(rf, "wb").write(gen.oracle_bytes(good_doc))
        open(kf, "w").write(k.seed.hex())
        try:
            master, slave = pty.openpty()
        except OSError:
            ck.count("sign-from-terminal:no-pty-available")
            break
        try:
            os.write(master, typed)
            env = dict(os.environ, PYTHONPATH=REPO, PYTHONDONTWRITEBYTECODE="1", PYTHONIOENCODING="utf-8")
            p = subprocess.run([sys.executable, "-m", "conda_content_trust", "sign-artifacts", rf, kf], env=env, cwd=d, stdin=slave, stdout=subprocess.PIPE, stderr=subprocess.PIPE, timeout=120)
        finally:
            os.close(master); os.close(slave)
        ck.evaluations += 1
        ck.oracle_checks += 1
        ck.count(f"sign-from-terminal:exit{p.returncode}")
        try:
            import json as _json
            o = _json.loads(open(rf, "rb").read())
            signed_ok = set(o.get("signatures", {})) == {"a-1.0-0.tar.bz2", "b.conda"}
        except Exception:  # noqa: BLE001
            signed_ok = False
        if p.returncode == 0 and not signed_ok:
            ck.violation("sign-artifacts exited with status zero without having signed", {"stdin": "a terminal; typed " + repr(typed), "stdout": p.stdout.decode("utf-8", "replace")[-200:]}, "cli-sign-zero-unsigned:terminal")
            break
    # leftovers of a killed run next to the repodata file (lock / temporary / partial / backup files): sign-artifacts signs all the same, or says it did not
    rf, kf = os.path.join(d, "stale-repodata.json"), os.path.join(d, "stale-key.txt")
    open(kf, "w").write(k.seed.hex())
    for suffix in (".lock", ".tmp", ".partial", ".signing-progress", "~"):
        open(rf, "wb").write(gen.oracle_bytes(good_doc))
        with open(rf + suffix, "wb") as f:
            f.write(b"{}")
        rc, out, err = run_ep("modulePkg", script, ["sign-artifacts", rf, kf], d)
        os.unlink(rf + suffix) if os.path.exists(rf + suffix) else None
        ck.evaluations += 1
        ck.oracle_checks += 1
        ck.count(f"sign-with-stale-sibling:exit{rc}")
        try:
            import json as _json
            o = _json.loads(open(rf, "rb").read())
            signed_ok = set(o.get("signatures", {})) == {"a-1.0-0.tar.bz2", "b.conda"}
        except Exception:  # noqa: BLE001
            signed_ok = False
        if rc == 0 and not signed_ok:
            ck.violation("sign-artifacts exited with status zero without having signed", {"stale_sibling": suffix, "stdout": out[-200:]}, "cli-sign-zero-unsigned:stale-sibling")
            break
    # gpg-sign without its optional dependency: must not exit zero, must not touch the file
    gf = os.path.join(d, "gpgsign.json")
    gb = gen.oracle_bytes(gen.envelope(gen.root_md([k], 1, [k], 1)))
    open(gf, "wb").write(gb)
    for ep in ENTRY_POINTS:
        rc, out, err = run_ep(ep, script, ["gpg-sign", "f075dd2f6f4cb3bd76134bbb81b6ca16ef9cd589", gf], d)
        ck.evaluations += 1
        ck.oracle_checks += 1
        ck.count(f"gpg-sign-no-dependency:exit{rc}")
        if rc == 0 or open(gf, "rb").read() != gb:
            ck.violation("gpg-sign without the optional dependency exited zero or modified the file", {"entry_point": ep, "exit": rc}, f"cli-gpg-sign:{ep}:exit{rc}")

    # gpg-sign / gpg-key-lookup with the dependency present (signer outputs fixed per case): status zero iff the file was signed, and then the
    # file is exactly what the library's GPG path produces; any failure leaves the file as it was
    from .. import jsontext
    import random as _random
    FPR = "f075dd2f6f4cb3bd76134bbb81b6ca16ef9cd589"
    spellings = [FPR, FPR.upper(), "F075 DD2F 6F4C B3BD 7613  4BBB 81B6 CA16 EF9C D589", " " + FPR + "\n", "f075\xa0dd2f6f4cb3bd76134bbb81b6ca16ef9cd589", "\u2003" + FPR.upper()]
    bad_fprs = [FPR[:-1], FPR + "0", "0x" + FPR, FPR[:-1] + "g", "", "\uff26" + FPR[1:]]
    gjobs, glines = [], []
    for gi in range(ck.n(30, 10)):
        sk = gen.key(rng.randrange(10))
        payload = gen.root_md([sk], 1, [gen.key(7)], 1, version=gi + 1) if gi % 2 else envgen.payload(rng)
        env0 = gen.envelope(payload)
        if rng.random() < 0.5:
            gen.sign_env(env0, [gen.key(rng.randrange(10))], rng.random() < 0.5, rng)
        hdr = gen.rand_hdr(rng)
        oh, sg, q = hdr.hex(), sk.sign(gen.gpg_digest(gen.oracle_bytes(payload), hdr)).hex(), sk.hex
        kind = ["good", "good", "good", "bad-fpr", "signer-raises", "no-key", "file-not-json", "file-missing", "file-not-envelope", "relaid"][gi % 10]
        fb = gen.oracle_bytes(env0)
        fpr = rng.choice(spellings)
        canned = {"oh": oh, "sg": sg, "q": q}
        if kind == "bad-fpr":
            fpr = rng.choice(bad_fprs)
        elif kind == "signer-raises":
            canned = {"oh": None, "sg": None, "q": q}
        elif kind == "no-key":
            canned = {"oh": oh, "sg": sg, "q": None}
        elif kind == "file-not-json":
            fb = b"{ not json"
        elif kind == "file-missing":
            fb = None
        elif kind == "file-not-envelope":
            fb = gen.oracle_bytes({"signed": payload})
        elif kind == "relaid":
            fb = jsontext.rand_text(_random.Random(gi), env0, float_variants=False).encode("utf-8", "surrogatepass")
        ep = ENTRY_POINTS[gi % 3]
        gjobs.append((kind, ep, fb, fpr, canned, env0, sk))
        def tok(v):
            return proto.enc(v) if v is not None else "n"
        glines.append(f"gpg clisign t {tok(canned['oh'])} {tok(canned['sg'])} {tok(canned['q'])} " + ("-" if fb is None else "x" + fb.hex()) + " " + proto.enc(fpr))
        glines.append(f"gpg clilookup t {tok(canned['oh'])} {tok(canned['sg'])} {tok(canned['q'])} " + proto.enc(fpr))
    gmodel = ck.driver.run(glines, list(range(len(glines))))
    ck.correspondences.add("corr:cli-gpg-sign/exit-status+file")
    for gi, (kind, ep, fb, fpr, canned, env0, sk) in enumerate(gjobs):
        gf = os.path.join(d, f"gpgs{gi}.json")
        if fb is None:
            if os.path.exists(gf):
                os.unlink(gf)
        else:
            with open(gf, "wb") as f:
                f.write(fb)
        rc, out, err = run_ep(ep, script, ["gpg-sign", fpr, gf], d, canned=canned)
        after = open(gf, "rb").read() if os.path.exists(gf) else None
        ck.evaluations += 1
        ck.oracle_checks += 1
        ck.count(f"gpg-sign:{kind}:exit{rc}")
        ck.nontrivial_add(("gpg-sign", gi, kind))
        signed_ok = False
        if after is not None:
            try:
                import json as _json
                o = _json.loads(after)
                want = {"signatures": {**env0["signatures"], canned["q"]: {"other_headers": canned["oh"], "signature": canned["sg"]}}, "signed": env0["signed"]}
                signed_ok = after == gen.oracle_bytes(want) and proto.deep_equal(o, want)
            except Exception:
                signed_ok = False
        if rc == 0 and not signed_ok:
            ck.violation("gpg-sign exited with status zero without having signed (entry filed under the key's raw public value, file canonical)", {"entry_point": ep, "case": kind, "fingerprint": fpr}, f"cli-gpg-zero-unsigned:{kind}")
        if rc != 0 and after != fb:
            ck.violation("gpg-sign failed but modified the file", {"entry_point": ep, "case": kind}, f"cli-gpg-failed-modified:{kind}")
        if kind in ("good", "relaid") and rc != 0:
            ck.violation("gpg-sign with a working signer and a well-formed file / fingerprint spelling did not sign", {"entry_point": ep, "fingerprint": fpr, "stderr": err[-300:]}, f"cli-gpg-good-failed:{kind}")
        m = gmodel[2 * gi]
        mexit = int(m.split("exit=")[1].split(" ")[0]) if "exit=" in m else -1
        mfile = m.split("file=")[1] if "file=" in m else "?"
        if mexit != rc or (mfile == "-") != (after is None) or (after is not None and mfile != after.hex()):
            ck.mismatch_total += 1
            kk = f"cli-gpg-sign:{kind}:impl={rc}:model={mexit}"
            ck.mismatch_kinds[kk] = ck.mismatch_kinds.get(kk, 0) + 1
            if len(ck.mismatches) < 12:
                ck.mismatches.append({"corr": "corr:cli-gpg-sign/exit-status+file", "line": glines[2 * gi][:800], "impl": f"exit={rc} file={(after or b'').hex()[:200]}", "model": m[:300], "tag": kind, "meta": {"stderr": err[-200:]}, "stdout_encoding": "utf-8"})
        # key lookup: status and the value printed
        rc2, out2, err2 = run_ep(ep, script, ["gpg-key-lookup", fpr], d, canned=canned)
        ck.evaluations += 1
        m2 = gmodel[2 * gi + 1]
        mexit2 = int(m2.split("exit=")[1].split(" ")[0]) if "exit=" in m2 else -1
        mq = m2.split("q=")[1] if "q=" in m2 else "?"
        printed = out2.strip().split(": ", 1)[1] if (rc2 == 0 and ": " in out2) else None
        want_q = proto.dec(mq) if mq not in ("-", "?") else None
        ck.count(f"gpg-key-lookup:exit{rc2}")
        if mexit2 != rc2 or printed != want_q:
            ck.mismatch_total += 1
            kk = f"cli-gpg-key-lookup:{kind}:impl={rc2}:model={mexit2}"
            ck.mismatch_kinds[kk] = ck.mismatch_kinds.get(kk, 0) + 1
            if len(ck.mismatches) < 12:
                ck.mismatches.append({"corr": "corr:cli-gpg-sign/exit-status+file", "line": glines[2 * gi + 1][:800], "impl": f"exit={rc2} printed={printed}", "model": m2[:300], "tag": "lookup:" + kind, "meta": {"stderr": err2[-200:]}, "stdout_encoding": "utf-8"})

    # control-C while the signer is asked (the passphrase prompt): whatever the tool prints, it has not signed — the status is not zero and the file is as it was
    for gi, ep in enumerate(ENTRY_POINTS):
        sk = gen.key(gi)
        env0 = gen.envelope(gen.root_md([sk], 1, [gen.key(7)], 1, version=gi + 1))
        fb = gen.oracle_bytes(env0)
        gf = os.path.join(d, f"gpgint{gi}.json")
        with open(gf, "wb") as f:
            f.write(fb)
        rc, out, err = run_ep(ep, script, ["gpg-sign", FPR, gf], d, canned={"oh": "04001608", "sg": "ab" * 64, "q": sk.hex, "interrupt": True})
        ck.evaluations += 1
        ck.oracle_checks += 1
        ck.count(f"gpg-sign:interrupted:exit{rc}")
        after = open(gf, "rb").read() if os.path.exists(gf) else None
        if rc == 0 or after != fb:
            ck.violation("gpg-sign was interrupted while the signer was asked and exited with status zero / modified the file", {"entry_point": ep, "exit_status": rc, "file_unchanged": after == fb, "stdout": out[-200:]},
                         "cli-gpg-zero-unsigned:interrupted")
    # the interactive modify-metadata editor against its model (Model/CliEdit.lean): scripts of typed lines on stdin; exit status and every file written
    import subprocess as _sp
    ed_dir = os.path.join(d, "edit")
    os.makedirs(ed_dir, exist_ok=True)
    sk2 = gen.key(4)
    def rand_script(i, has_role):
        if i % 8 == 3 and has_role:
            # directed: a threshold is edited, then two holders sign one after the other, then the result is written — both signatures are in the file
            return ["7", "root", "2", "2", sk2.seed.hex(), "2", gen.key(5).seed.hex(), "0", f"out{i}-two-signers.json"]
        if i % 8 == 5:
            # directed: open and save without any change (whatever is displayed in between is display only)
            return ["0", f"out{i}-unchanged.json"]
        lines, n = [], rng.randint(1, 6)
        for _ in range(n):
            c = rng.choice(["0", "1", "2", "2", "7", "7", "3", "4", "5", "6", "8", "9", "x", "", "12", "-1", " 1 ", "\u0660", "1.0", "07", "+2", "1_0", "\u0667"])
            lines.append(c)
            v = None
            try:
                v = int(c)
            except ValueError:
                pass
            if v == 0:
                lines.append(f"out{i}-{len(lines)}.json")
                break
            if v == 1:
                break
            if v == 2:
                lines.append(rng.choice([sk2.seed.hex(), sk2.seed.hex().upper(), " ".join(sk2.seed.hex()[j:j + 8] for j in range(0, 64, 8)), FPR, FPR.upper(), "F075 DD2F 6F4C B3BD 7613  4BBB 81B6 CA16 EF9C D589",
                                         "not a key", "", sk2.seed.hex()[:-1], "ab" * 20 + "0"]))
            if v == 7:
                lines.append(rng.choice(["root", "key_mgr", "nope", "", "roo"]) if has_role else rng.choice(["root", "x"]))
                if rng.random() < 0.9:
                    lines.append(rng.choice(["2", "1", "0", "-3", "x", "", " 3 ", "\u0663", "1_0", "2.0", "10" * 30]))
        if rng.random() < 0.2 and lines:
            return lines[:rng.randrange(len(lines))]             # the user closes stdin in the middle
        last = None
        try:
            last = int(lines[-2]) if len(lines) >= 2 and lines[-2].strip() in ("0", "\u0660") else (int(lines[-1]) if lines else None)
        except ValueError:
            pass
        if last not in (0, 1) and rng.random() < 0.8:           # most sessions end properly: save or abort
            lines += ["0", f"out{i}-end.json"] if rng.random() < 0.7 else ["1"]
        return lines
    ejobs, elines = [], []
    for ei in range(ck.n(200, 48)):
        kind = rng.choice(["root", "root", "key_mgr", "payload", "not-envelope", "odd-delegations", "not-json", "missing"])
        doc = None
        if kind == "root":
            doc = gen.envelope(gen.root_md([sk2, gen.key(5)], 1, [gen.key(6)], 1, version=ei + 1))
        elif kind == "key_mgr":
            doc = gen.sign_env(gen.envelope(gen.delegating_md("key_mgr", {"pkg_mgr": gen.delegation([gen.key(6)], 1)})), [gen.key(6)], False)
        elif kind == "payload":
            doc = gen.envelope(envgen.payload(rng))
        elif kind == "not-envelope":
            doc = rng.choice([[1, 2], {"signed": {"delegations": {"root": {"threshold": 1}}}}, {"signatures": [], "signed": 1}, "text", None])
        elif kind == "odd-delegations":
            doc = gen.envelope(rng.choice([{"delegations": ["root", "key_mgr"]}, {"delegations": "root and more"}, {"delegations": {"root": 5}}, {"delegations": {"root": {"pubkeys": []}}},
                                           {"delegations": {"root": {"threshold": "1"}}}, {"delegations": None}]))
        fb = None if kind == "missing" else (b"{ nope" if kind == "not-json" else gen.oracle_bytes(doc))
        script_lines = rand_script(ei, kind in ("root", "key_mgr"))
        hdr = gen.rand_hdr(rng)
        signed_part = doc["signed"] if isinstance(doc, dict) and "signed" in doc else None
        canned = {"oh": hdr.hex(), "sg": sk2.sign(gen.gpg_digest(gen.oracle_bytes(signed_part), hdr)).hex(), "q": sk2.hex} if rng.random() < 0.8 else {"oh": None, "sg": None, "q": None}
        ejobs.append((ei, kind, fb, script_lines, canned))
        def tok(v):
            return proto.enc(v) if v is not None else "n"
        elines.append(f"gpg cliedit {'f' if ei % 5 == 0 else 't'} {tok(canned['oh'])} {tok(canned['sg'])} {tok(canned['q'])} " + ("-" if fb is None else "x" + fb.hex()) + " " + proto.enc(script_lines))
    emodel = ck.driver.run(elines, list(range(len(elines))))
    ck.correspondences.add("corr:cli-modify-metadata/exit-status+files-written")
    def run_session(job):
        ei, kind, fb, script_lines, canned = job
        wd = os.path.join(ed_dir, f"w{ei}")
        os.makedirs(wd, exist_ok=True)
        for f_ in os.listdir(wd):
            os.unlink(os.path.join(wd, f_))
        src = os.path.join(wd, "in.json")
        if fb is not None:
            with open(src, "wb") as f:
                f.write(fb)
        import json as _json
        env = dict(os.environ, PYTHONPATH=REPO + os.pathsep + SITECUSTOM, PYTHONDONTWRITEBYTECODE="1", PYTHONIOENCODING="utf-8", CCTV_GPG_CANNED=_json.dumps(canned))
        if ei % 5 == 0:
            env["CCTV_NO_SSLIB"] = "1"          # sessions without the optional dependency
            env.pop("CCTV_GPG_CANNED")
        return _sp.run([sys.executable, "-m", "conda_content_trust", "modify-metadata", src], input=("\n".join(script_lines) + ("\n" if script_lines else "")).encode("utf-8", "surrogatepass"),
                       env=env, cwd=wd, stdout=_sp.PIPE, stderr=_sp.PIPE, timeout=120)
    with ThreadPoolExecutor(max_workers=16) as ex:
        procs = list(ex.map(run_session, ejobs))
    for (ei, kind, fb, script_lines, canned), m, p in zip(ejobs, emodel, procs):
        wd = os.path.join(ed_dir, f"w{ei}")
        src = os.path.join(wd, "in.json")
        ck.evaluations += 1
        ck.count(f"modify-metadata:{kind}:exit{p.returncode}")
        written = {f_: open(os.path.join(wd, f_), "rb").read() for f_ in sorted(os.listdir(wd)) if f_ != "in.json"}
        src_after = open(src, "rb").read() if os.path.exists(src) else None
        mexit = int(m.split("exit=")[1].split(" ")[0]) if "exit=" in m else -1
        mw = {}
        wpart = m.split("writes=")[1] if "writes=" in m else ""
        for item in [x for x in wpart.split(";") if x]:
            nm, hx = item.split(":")
            mw[proto.dec(nm)] = bytes.fromhex(hx)
        ck.nontrivial_add(("edit", ei, kind, tuple(script_lines)))
        ck.oracle_checks += 1
        if src_after != fb:
            ck.violation("modify-metadata changed the file it was asked to read (it writes only where the user says)", {"case": kind, "script": script_lines}, "cli-edit-source-modified")
        if mexit != p.returncode or mw != written:
            ck.mismatch_total += 1
            kk = f"cli-edit:{kind}:impl={p.returncode}:model={mexit}:files={sorted(written)}vs{sorted(mw)}"
            ck.mismatch_kinds[kk] = ck.mismatch_kinds.get(kk, 0) + 1
            if len(ck.mismatches) < 12:
                ck.mismatches.append({"corr": "corr:cli-modify-metadata/exit-status+files-written", "line": elines[ei][:1200], "impl": f"exit={p.returncode} files={ {k: v[:60].hex() for k, v in written.items()} }",
                                      "model": m[:400], "tag": kind, "meta": {"script": script_lines, "stderr": p.stderr.decode("utf-8", "replace")[-300:]}, "stdout_encoding": "utf-8"})
