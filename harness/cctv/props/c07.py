"""C07 — canonical serialization: deterministic, order-independent, injective, frozen."""
from __future__ import annotations

import hashlib
import json
import os
import subprocess
import sys

from .. import gen, jsontext, proto
from ..framework import Case, Check

RULE = ("values from the seeded JSON generator (all string classes incl. isolated lone surrogates, float bit patterns, "
        "big ints, permuted insertion orders), JSON texts in random spellings and malformed neighbours; a case is "
        "non-trivial when its value contains a container or a non-ASCII/escaped string; distinct = distinct canonical bytes")

THEOREMS = ["parse_ser", "ser_injective", "ser_reorder", "ser_ascii", "ser_fixpoint", "reorder_canon", "parsed_roundtrips", "long_integer_literal_rejected", "serPy_total_on_wf", "serPy_refuses_huge_int"]


def nontrivial(v) -> bool:
    if isinstance(v, (dict, list)):
        return len(v) > 0
    if isinstance(v, str):
        return any(not (0x20 <= ord(c) < 0x7F) or c in '"\\' for c in v)
    return isinstance(v, float)


def differs(a, b) -> bool:
    return not proto.deep_equal(a, b)


def mutate_value(rng, v):
    """a JSON value that differs from v (as a JSON value) by one local edit"""
    paths = list(gen.json_paths(v))
    p = rng.choice(paths)
    old = gen.get_path(v, p)
    cands = [None, True, False, 0, 1, 1.0, -0.0, 0.0, "", "a", [], {}, [old], {"a": old}, "1", "null"]
    if isinstance(old, str):
        cands += [old + "a", old + "́", old.upper(), old + " ", "\ud800" + old[:0]]
    if isinstance(old, int) and not isinstance(old, bool):
        cands += [old + 1, float(old) if abs(old) < 2**53 else old - 1, str(old), bool(old)]
    if isinstance(old, float):
        cands += [int(old) if old == old and abs(old) < 1e15 else 7, repr(old)]
    if isinstance(old, list):
        cands += [old + [None], old[::-1] if len(old) > 1 and differs(old, old[::-1]) else old + [1], tuple()]
    if isinstance(old, dict):
        cands += [{**old, "zz": 1}, {k.upper(): x for k, x in old.items()}]
    new = rng.choice(cands)
    if isinstance(new, tuple):
        new = list(new)
    w = gen.set_path(v, p, new)
    return w if differs(v, w) else None


def run(ck: Check) -> None:
    rng = ck.rng
    n = ck.n(6000, 1200)
    depth = 8 if ck.thorough else 5
    stats = ck.dist
    values = []
    for i in range(n):
        budget = [rng.choice([5, 20, 60, 200 if ck.thorough else 60])]
        values.append(gen.rand_json(rng, depth=rng.randint(0, depth), budget=budget, wf=(i % 10 != 0), stats=stats))
    # corpus: published sample + shipped fixtures
    corpus = [{"k1": "v1", "k2": [1, 2, {"a": None}], "é": "\U0001f600\ud800", "f": [1e22, -0.0, float("nan")]},
              {"signatures": {"k": "ab" * 64}, "signed": {"signatures": {"x": "cd" * 64, "y": {"signature": "ef" * 64}}, "type": "root", "delegations": {}}},
              {"brackets": "[" * 1500, "braces": "{" * 2500 + "}", "mixed": "[{" * 700, "quote-then-slashes": "2.5\" drives, see https://example.org // not a comment",
               "comment-like": "/* x */ // y", "text": '{"a": [1, 2]}', "empty-object-text": "{}", "array-text": "[]"},
              [{"signatures": {"a": "01" * 64}}, {"signed": 1}, {"__class__": "x", "__type__": "y", "$ref": "#", "py/object": "z"}]]
    repo = os.environ.get("CCT_REPO", "/repo")
    for fn in ["tests/testdata/1.root.json", "tests/testdata/2.root.json", "tests/testdata/3.root.json",
               "tests/testdata/key_mgr.json", "tests/testdata/repodata_short_signed_sample.json"]:
        try:
            corpus.append(json.load(open(os.path.join(repo, fn), "rb")))
        except Exception:
            pass
    values = corpus + values

    # 1. serialization bytes: implementation vs model vs independent oracle
    cases = [Case("ser", [v], tag="ser") for v in values]
    res = ck.run_cases(cases, "corr:canonserialize/bytes")
    sers = {}
    for v, r in zip(values, res):
        if not r.impl.startswith("B "):
            if isinstance(v, (dict, list, str, int, float, bool, type(None))):
                ck.violation("canonserialize failed on a JSON value", {"value": proto.enc(v)[:500], "impl": r.impl}, "ser-error")
            continue
        b = bytes.fromhex(r.impl[2:])
        sers[id(v)] = b
        ck.oracle_checks += 1
        try:
            want = gen.oracle_bytes(v)
        except Exception as e:
            ck.notes.append("oracle serializer failed: " + repr(e))
            continue
        if b != want:
            ck.violation("bytes differ from the published canonical format (sorted keys, indent 2, ASCII escapes, UTF-8)",
                         {"value": proto.enc(v)[:800], "impl": b[:300].decode("latin-1"), "published": want[:300].decode("latin-1")}, "format")
        if nontrivial(v):
            ck.nontrivial_add(hashlib.sha1(b).digest())

    # 2. order independence: permuted insertion orders give identical bytes
    perm_vals = [v for v in values if isinstance(v, dict) and len(v) > 1][: (ck.n(1500, 300))]
    perms = [gen.shuffled_copy(rng, v) for v in perm_vals]
    res = ck.run_cases([Case("ser", [p], tag="ser-permuted") for p in perms], "corr:canonserialize/bytes")
    for v, r in zip(perm_vals, res):
        ck.oracle_checks += 1
        if r.impl.startswith("B ") and id(v) in sers and bytes.fromhex(r.impl[2:]) != sers[id(v)]:
            ck.violation("serialization depends on key insertion order", {"value": proto.enc(v)[:800]}, "order")

    # 3. parse(ser v) gives the value back; the serialization is a fixpoint of parse-then-serialize
    wfvals = [v for i, v in enumerate(values) if id(v) in sers and (i < len(corpus) or (i - len(corpus)) % 10 != 0)]
    res = ck.run_cases([Case("parse", [sers[id(v)]], tag="parse-canonical") for v in wfvals], "corr:load_metadata_from_file/value")
    back = []
    for v, r in zip(wfvals, res):
        ck.oracle_checks += 1
        if not r.impl.startswith("V "):
            ck.violation("canonical bytes do not parse", {"value": proto.enc(v)[:800], "impl": r.impl}, "parse-canonical")
            continue
        w = proto.dec(r.impl[2:])
        back.append((v, w))
        if not proto.deep_equal(v, w):
            ck.violation("parsing the canonical bytes does not give the value back", {"value": proto.enc(v)[:800], "parsed": proto.enc(w)[:800]}, "roundtrip")
    # values outside the JSON universe are refused (TypeError), whatever the kind
    for r in ck.run_cases([Case("ser", [x], tag="ser-non-json") for x in [proto.Opaque(0), proto.Opaque(1), proto.Opaque(2), b"x", bytearray(b"x"), proto.KeyObj(False, bytes(32))]],
                          "corr:canonserialize/bytes"):
        ck.oracle_checks += 1
        if r.impl != "E ArgError":
            ck.violation("a value outside the JSON universe was serialized instead of being refused", {"impl": r.impl[:100]}, "ser-non-json")
    # CPython's limit on int -> str conversion (4300 digits) bounds the domain of the serializer: integers of exactly 4300 digits are serialized,
    # one digit more is refused with ValueError wherever in the value it sits (model: serPy; theorems serPy_total_on_wf, serPy_refuses_huge_int)
    lim = []
    for z in (10 ** 4299, 10 ** 4300 - 1, -(10 ** 4300 - 1), 10 ** 4300, -(10 ** 4300), 10 ** 5000 + 7):
        lim += [z, [1, z], {"a": {"b": z}}, {"k": [z, "x"]}]
    for r in ck.run_cases([Case("ser", [x], tag="ser-int-limit") for x in lim], "corr:canonserialize/bytes"):
        ck.oracle_checks += 1
        x = r.case.args[0]
        z = x if isinstance(x, int) else (x[1] if isinstance(x, list) else (x["a"]["b"] if "a" in x else x["k"][0]))
        inside = abs(z) < 10 ** 4300
        if inside and r.impl != "B " + gen.oracle_bytes(x).hex():
            ck.violation("an integer of up to 4300 digits is not serialized to the published format", {"digits": len(str(abs(z))) if inside else ">4300", "impl": r.impl[:60]}, "int-limit-inside")
        if not inside and r.impl != "E ArgError":
            ck.violation("an integer beyond the interpreter's conversion limit was not refused with ValueError", {"impl": r.impl[:60]}, "int-limit-outside")
    res = ck.run_cases([Case("ser", [w], tag="ser-reparsed") for _, w in back], "corr:canonserialize/bytes")
    for (v, w), r in zip(back, res):
        ck.oracle_checks += 1
        if r.impl.startswith("B ") and bytes.fromhex(r.impl[2:]) != sers[id(v)]:
            ck.violation("serialization is not a fixpoint of parse-then-serialize", {"value": proto.enc(v)[:800]}, "fixpoint")

    # 4. injectivity: values that differ never share bytes
    pairs = []
    for v in wfvals[: (ck.n(2500, 600))]:
        w = mutate_value(rng, v)
        if w is not None:
            pairs.append((v, w))
    res = ck.run_cases([Case("ser", [w], tag="ser-mutated") for _, w in pairs], "corr:canonserialize/bytes")
    for (v, w), r in zip(pairs, res):
        ck.oracle_checks += 1
        if r.impl.startswith("B ") and bytes.fromhex(r.impl[2:]) == sers[id(v)]:
            ck.violation("two different JSON values share canonical bytes", {"a": proto.enc(v)[:600], "b": proto.enc(w)[:600]}, "injective")
    # hash collisions across the whole batch (distinct values, same bytes)
    seen = {}
    for v in wfvals:
        b = sers[id(v)]
        if b in seen and not proto.deep_equal(seen[b], v):
            ck.violation("two different JSON values share canonical bytes", {"a": proto.enc(v)[:600], "b": proto.enc(seen[b])[:600]}, "injective")
        seen[b] = v

    # 5. parser correspondence on arbitrary spellings and malformed text
    texts = []
    for v in wfvals[: (ck.n(3000, 700))]:
        t = jsontext.rand_text(rng, v)
        texts.append((t, "text-valid"))
        for _ in range(2):
            texts.append((jsontext.mutate_text(rng, t), "text-mutated"))
    pcases = []
    for t, tag in texts:
        b = t.encode("utf-8", "surrogatepass")
        if rng.random() < 0.03:
            b = b"\xef\xbb\xbf" + b
        if len(b) >= 2 and (b[0] == 0 or b[1] == 0 or (len(b) >= 4 and (b[2] == 0 or b[3] == 0) and False)):
            continue  # UTF-16/32 auto-detection is not modelled
        pcases.append(Case("parse", [b], tag=tag))
    # raw invalid UTF-8 as well
    for _ in range(ck.n(100, 30)):
        pcases.append(Case("parse", [b'"' + bytes(rng.choice([0x80, 0xC0, 0xC2, 0xE0, 0xED, 0xF4, 0xF5, 0xFF, 0xA0, 0x41]) for _ in range(rng.randint(1, 4))) + b'"'], tag="text-bad-utf8"))
    # CPython's limit on int <-> str conversion (4300 digits): integer literals at and beyond it, floats beyond it (no limit)
    for nd in (4299, 4300, 4301, 5000):
        for txt in ("1" + "0" * (nd - 1), "-" + "9" * nd, "[1, " + "7" * nd + "]", '{"a": ' + "3" * nd + "}", "1" * nd + ".5", "1" * nd + "e5", "0" * nd):
            pcases.append(Case("parse", [txt.encode()], tag="text-int-limit"))
    res = ck.run_cases(pcases, "corr:load_metadata_from_file/value")
    for r in res:
        ck.count("parse:" + ("ok" if r.impl.startswith("V") else "rejected"))

    # 6. write_metadata_to_file writes exactly the canonical bytes
    from .. import impl
    import tempfile
    d = impl.scratch_dir()
    for v in wfvals[:200]:
        fn = os.path.join(d, "w.json")
        try:
            impl.common.write_metadata_to_file(v, fn)
            got = open(fn, "rb").read()
        except Exception as e:
            ck.violation("write_metadata_to_file failed", {"value": proto.enc(v)[:500], "error": repr(e)}, "write")
            continue
        ck.oracle_checks += 1
        ck.evaluations += 1
        if got != gen.oracle_bytes(v):
            ck.violation("file written is not the canonical serialization", {"value": proto.enc(v)[:500]}, "write")

    # 6b. the byte string that is *signed* is that same function of the value: whatever route a value takes to the signer (serialize_and_sign, sign_signable on a
    # wrapped payload, an artifact record inside a repodata file) and in whatever order its members — at any depth — were inserted or stored, the signature is
    # the one over the published canonical bytes
    from .c11 import order_to_depth
    sk = gen.key(4)
    priv = impl.common.PrivateKey.from_bytes(sk.seed)
    dictvals = [v for v in wfvals if isinstance(v, dict) and any(isinstance(x, (dict, list)) and x for x in v.values())][: ck.n(200, 40)]
    dictvals.append({"build": "0", "depends": [{"name": "b", "extra": {"z": 1, "a": 2}}], "meta": {"z": {"y": 0, "b": 1}, "m": 1, "a": [1, {"q": 1, "b": 2}]}, "name": "p"})
    import json as _json
    for v in dictvals:
        want_sig = sk.sign(gen.oracle_bytes(v)).hex()
        layouts = {"sorted-outer-1": order_to_depth(v, 1), "sorted-outer-2": order_to_depth(v, 2), "reverse": order_to_depth(v, 0), "shuffled": gen.shuffled_copy(rng, v)}
        got = {}
        try:
            with impl.quiet_stdout():
                for name, w in layouts.items():
                    got["serialize_and_sign:" + name] = impl.signing.serialize_and_sign(w, priv)
                    env = impl.signing.wrap_as_signable(w)
                    impl.signing.sign_signable(env, priv)
                    got["sign_signable:" + name] = env["signatures"][sk.hex]["signature"]
                doc = {"info": {}, "packages": {"l-%d.tar.bz2" % j: w for j, w in enumerate(layouts.values())}, "packages.conda": {"c.conda": layouts["sorted-outer-1"]}}
                fn = os.path.join(d, "signed-bytes.json")
                with open(fn, "w", encoding="ascii") as f:
                    _json.dump(doc, f)          # member order as given, no sorting
                impl.signing.sign_all_in_repodata(fn, sk.seed.hex())
                out = _json.load(open(fn, "rb"))
                for art, ent in out.get("signatures", {}).items():
                    got["sign_all_in_repodata:" + art] = (ent.get(sk.hex) or {}).get("signature")
        except Exception as e:  # noqa: BLE001
            ck.violation("signing a JSON value failed", {"value": proto.enc(v)[:600], "error": repr(e)[:200]}, "signed-bytes-failed")
            continue
        ck.evaluations += len(got)
        ck.oracle_checks += 1
        bad = sorted(k_ for k_, s_ in got.items() if s_ != want_sig)
        if bad or len(got) != 2 * len(layouts) + len(layouts) + 1:
            ck.violation("the bytes that get signed are not the canonical serialization of the value (they depend on the route to the signer or on member order at some depth)",
                         {"value": proto.enc(v)[:800], "routes_with_other_bytes": bad[:8]}, "signed-bytes:" + (bad[0].split(":")[0] if bad else "missing"))
            break

    # 6c. a function of the value *alone*: not of what the process serialized — or failed to serialize — before.  Requests that fail part-way (a value
    # outside the JSON universe deep inside, after output has begun: a cycle, a non-JSON kind, an integer beyond the interpreter's digit limit,
    # nesting beyond the recursion limit, members indexed by strings and numbers at once) are each followed by requests whose bytes are known.
    def _poisons():
        cyc = {"a": [1, 2, {"b": "x" * 70}]}
        cyc["a"][2]["self"] = cyc
        yield "cycle", cyc
        cl = [1, "two"]
        cl.append(cl)
        yield "cyclic-list", {"k": cl}
        yield "non-json-inside", {"a": "x" * 100, "b": [1, 2, {1, 2}]}
        yield "bytes-inside", {"a": ["y" * 50, b"raw"]}
        yield "huge-int-inside", {"a": 1, "b": [2, 10 ** 5000]}
        deep = cur = {"top": "t" * 40}
        for _ in range(100000):
            nxt = {}
            cur["d"] = nxt
            cur = nxt
        yield "too-deep", deep
        yield "mixed-indexes", {"a": {"x": 1, 2: 3}, "b": 1}
        class Boom(Exception):
            pass
        class Evil(dict):
            def items(self):
                raise Boom("members unavailable")
        yield "failing-container", {"a": "z" * 30, "b": Evil(q=1)}
    known = [v for v in wfvals if nontrivial(v)][:6] or wfvals[:6]
    for label, bad in _poisons():
        ck.count("history:failed-request:" + label)
        outcomes = []
        for route in ("canonserialize", "serialize_and_sign", "write_metadata_to_file"):
            try:
                with impl.quiet_stdout():
                    if route == "canonserialize":
                        impl.common.canonserialize(bad)
                    elif route == "serialize_and_sign":
                        impl.signing.serialize_and_sign(bad, priv)
                    else:
                        impl.common.write_metadata_to_file(bad, os.path.join(d, "poison.json"))
                outcomes.append("returned")
            except BaseException as e:  # noqa: BLE001 — whatever the failed request does is not judged here, only what follows it
                if isinstance(e, (KeyboardInterrupt, impl.CallTimeout)):
                    raise
                outcomes.append(type(e).__name__)
            for v in known[:3]:
                ck.evaluations += 1
                ck.oracle_checks += 1
                try:
                    with impl.quiet_stdout():
                        got = impl.common.canonserialize(v)
                        sig = impl.signing.serialize_and_sign(v, priv)
                except Exception as e:  # noqa: BLE001
                    got, sig = repr(e), None
                if got != sers[id(v)] or sig != sk.sign(sers[id(v)]).hex():
                    ck.violation("canonical bytes of a value depend on what the process was asked to serialize before (a request that failed part-way precedes)",
                                 {"failed_request": label, "route": route, "value": proto.enc(v)[:500], "bytes_now": (got[:200].decode("latin-1") if isinstance(got, bytes) else got)},
                                 "history:" + label)
                    break
        del bad

    # 7. configurations: hash seed, locale, timezone, cwd (fresh processes; digest of a seeded batch must not move)
    confs = [dict(PYTHONHASHSEED="0"), dict(PYTHONHASHSEED="1", LC_ALL="C", TZ="Pacific/Kiritimati"),
             dict(PYTHONHASHSEED="random", LC_ALL="C.UTF-8", PYTHONIOENCODING="ascii", CWD="/")]
    if ck.thorough:
        confs += [dict(PYTHONHASHSEED=str(k), LC_ALL=l, TZ=z) for k in (2, 3) for l in ("C", "C.UTF-8") for z in ("UTC", "Asia/Kolkata")]
    # whatever environment variables the library's source mentions are part of the configuration space: one run with all of them switched on
    names = impl.library_env_vars()
    if names:
        for val in ("1", "true", "yes"):
            confs.append({n_: val for n_ in names})
        ck.count("env-vars-read-by-the-library", len(names))
    digests = set()
    for c in confs:
        env = dict(os.environ)
        cwd = c.pop("CWD", None)
        env.update(c)
        env["PYTHONPATH"] = os.path.dirname(os.path.dirname(os.path.dirname(os.path.abspath(__file__))))
        p = subprocess.run([sys.executable, "-m", "cctv.subproc", "serdigest", str(ck.seed), "300"], env=env, cwd=cwd or impl.scratch_dir(),
                           stdout=subprocess.PIPE, stderr=subprocess.PIPE, text=True)
        ck.evaluations += 1
        if p.returncode != 0:
            ck.notes.append("config subprocess failed: " + p.stderr[-300:])
            continue
        digests.add(p.stdout.strip())
        ck.count("config-runs")
    ck.oracle_checks += 1
    if len(digests) > 1:
        ck.violation("canonical bytes depend on interpreter configuration (hash seed / locale / timezone / cwd)", {"digests": sorted(digests)}, "config")
