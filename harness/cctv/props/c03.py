"""C03 — a root update is accepted iff version+1 and signed per the old and the new root rules."""
from __future__ import annotations

import copy

from .. import envgen, gen, mdgen, proto, schema
from ..framework import Case, Check

RULE = ("pairs (trusted root, offered root) over a key pool with rotations and threshold changes; signer subsets chosen so that exactly one, both "
        "or neither of the two rules (trusted root's, offered root's own) is met; versions v-1, v, v+1, v+2, bool, float, 2^53, huge; declared "
        "types root/key_mgr/other/missing; missing root delegation on either side; raw-only signatures; path mutations of either argument. "
        "non-trivial = both arguments are well-formed root metadata; distinct by pair")

THEOREMS = ["verifyRoot_iff", "trusted_rule_needed", "own_rule_needed", "version_mismatch_error"]


def root_pair(rng):
    pool = list(range(8))
    old_keys = [gen.key(i) for i in rng.sample(pool, rng.randint(1, 4))]
    old_thr = rng.randint(1, len(old_keys))
    v = rng.choice([1, 1, 2, 5, 41, 2**53 - 1, 2**53, 10**30])
    trusted = gen.envelope(gen.root_md(old_keys, old_thr, [gen.key(9)], 1, version=v))
    r = rng.random()
    if r < 0.35:
        new_keys = list(old_keys)
    elif r < 0.7:
        keep = rng.sample(old_keys, rng.randint(0, len(old_keys)))
        fresh = [gen.key(i) for i in rng.sample(pool, rng.randint(0, 3)) if gen.key(i) not in old_keys]
        new_keys = keep + [k for k in fresh if k not in keep] or [gen.key(pool[0])]
    else:
        new_keys = [gen.key(i) for i in rng.sample(pool, rng.randint(1, 4))]
    new_thr = rng.randint(1, len(new_keys) + (1 if rng.random() < 0.1 else 0))
    dv = rng.choice([1] * 10 + [0, 2, -1, 3])
    nv = v + dv
    u = gen.envelope(gen.root_md(new_keys, new_thr, [gen.key(9)], rng.randint(1, 2), version=nv))
    SPECS = ["0.6.0", "0.1.0", "1.0.0", "2.0.0", "17.3.9", "2", "x", "", "0.6.0-rc1", "\u0662.0"]
    if rng.random() < 0.3:
        u["signed"]["metadata_spec_version"] = rng.choice(SPECS)         # any string is a spec version; acceptance does not depend on it
    if rng.random() < 0.15:
        trusted["signed"]["metadata_spec_version"] = rng.choice(SPECS)
    if rng.random() < 0.06:
        # trusted metadata that is well formed, delegates a role called "root" to these keys and carries a version — but is not root metadata
        trusted = gen.envelope(gen.delegating_md("key_mgr", {"root": gen.delegation(old_keys, old_thr), "pkg_mgr": gen.delegation([gen.key(9)], 1)}, version=v))
    # signer sets around both thresholds
    so = rng.sample(old_keys, max(0, min(len(old_keys), old_thr + rng.choice([-1, 0, 0, 0, 1]))))
    sn = rng.sample(new_keys, max(0, min(len(new_keys), new_thr + rng.choice([-1, 0, 0, 0, 1]))))
    signers = list({k.hex: k for k in so + sn}.values())
    mode = rng.random()
    if mode < 0.85:
        gen.sign_env(u, signers, True, rng)
    elif mode < 0.93:
        gen.sign_env(u, signers, False)            # raw signatures must not satisfy the OpenPGP-mode check
    else:
        data = gen.oracle_bytes(u["signed"])
        for k in signers:
            st = rng.choice(gen.ENTRY_STATES)
            e = gen.make_entry(rng, st, k, data, True, gen.key(9))
            if e:
                u["signatures"][e[0]] = e[1]
    if rng.random() < 0.15:
        k, x = gen.junk_entry(rng)
        u["signatures"].setdefault(k, x)
    return trusted, u


def directed_pair(rng):
    """key-set relation (same / superset / subset / overlap / disjoint) x which of the two rules the signer set meets, chosen explicitly"""
    pool = [gen.key(i) for i in rng.sample(range(10), 8)]
    rel = rng.choice(["same", "superset", "subset", "overlap", "disjoint"])
    old = pool[: rng.randint(1, 3)]
    fresh = pool[4: 4 + rng.randint(1, 3)]
    if rel == "same":
        new = list(old)
    elif rel == "superset":
        new = old + fresh
    elif rel == "subset":
        old = pool[:3]
        new = old[: rng.randint(1, 2)]
    elif rel == "overlap":
        new = old[:1] + fresh
    else:
        new = fresh
    old_thr = rng.randint(1, len(old))
    new_thr = rng.randint(1, len(new))
    want_old, want_new = rng.choice([(True, True), (True, False), (False, True), (False, False), (True, True)])
    v = rng.choice([1, 2, 9])
    t = gen.envelope(gen.root_md(old, old_thr, [gen.key(9)], 1, version=v))
    u = gen.envelope(gen.root_md(new, new_thr, [gen.key(9)], 1, version=v + 1))
    old_only = [k for k in old if k not in new]
    new_only = [k for k in new if k not in old]
    both = [k for k in old if k in new]
    # choose signers: as many as possible from the side that must be met, as few as possible from the other
    signers = []
    def take(ks, n):
        return ks[:max(0, n)]
    if want_old and want_new:
        signers = take(old, old_thr) + take(new, new_thr)
    elif want_old:
        signers = take(old_only + both, old_thr)
        signers = [k for k in signers]          # may incidentally meet the new rule; the oracle decides
    elif want_new:
        signers = take(new_only + both, new_thr)
    else:
        signers = take(old_only, old_thr - 1) + take(new_only, new_thr - 1)
    if not want_old:
        # keep the number of *trusted* signers below the trusted threshold, but add enough untrusted ones to reach max(threshold)
        trusted_signers = [k for k in signers if k in old][: old_thr - 1]
        others = [k for k in signers if k not in old] + [k for k in new_only if k not in signers]
        signers = trusted_signers + others
    signers = list({k.hex: k for k in signers}.values())
    gen.sign_env(u, signers, True, rng)
    return t, u, f"directed:{rel}:old={want_old}:new={want_new}"


def variants(rng, t, u):
    """single semantic edits of a pair"""
    out = []
    r = rng.random()
    if r < 0.08:
        which = rng.choice([0, 1])
        x = copy.deepcopy([t, u][which])
        x["signed"]["type"] = rng.choice(["key_mgr", "other", "Root", ""])
        if rng.random() < 0.3:
            del x["signed"]["type"]
        out.append(((x, u) if which == 0 else (t, x), "type"))
    elif r < 0.16:
        which = rng.choice([0, 1])
        x = copy.deepcopy([t, u][which])
        del x["signed"]["delegations"]["root"]
        out.append(((x, u) if which == 0 else (t, x), "no-root-delegation"))
    elif r < 0.26:
        which = rng.choice([0, 1])
        x = copy.deepcopy([t, u][which])
        v = x["signed"]["version"]
        x["signed"]["version"] = rng.choice([float(v) if v < 2**60 else 1.0, True, float(2**53), 0, -1, str(v), None, float("inf"), v + 0.5 if v < 2**52 else 1.5])
        out.append(((x, u) if which == 0 else (t, x), "version-kind"))
    elif r < 0.3:
        x = copy.deepcopy(t)
        x["signed"]["version"] = float(2**53)
        x["signatures"] = {}
        ks = [k for k in (gen.key(i) for i in range(10)) if k.hex in x["signed"]["delegations"]["root"]["pubkeys"]]
        gen.sign_env(x, ks, True, rng)
        out.append(((x, copy.deepcopy(x)), "float-self-successor"))
    elif r < 0.38:
        which = rng.choice([0, 1])
        muts = mdgen.mutations(rng, [t, u][which], per_path=1, max_total=60)
        m, label = rng.choice(muts)
        out.append(((m, u) if which == 0 else (t, m), "mutated"))
    elif r < 0.42:
        out.append(((rng.choice([None, [], "x", 5, proto.Opaque(0)]), u), "trusted-kind"))
        out.append(((t, rng.choice([None, [], "x", 5, proto.Opaque(0)])), "untrusted-kind"))
    return out


def run(ck: Check) -> None:
    rng = ck.rng
    cases = []
    for i in range(ck.n(3500, 600)):
        if i % 3 == 0:
            t, u, tag = directed_pair(rng)
            cases.append(Case("vroot", [t, u], tag=tag.split(":old")[0], group=i, meta={"scenario": tag}))
            continue
        t, u = root_pair(rng)
        vs = variants(rng, t, u)
        if not vs:
            vs = [((t, u), "pair")]
        for (a, b), tag in vs:
            cases.append(Case("vroot", [a, b], tag=tag, group=i))
    res = ck.run_cases(cases, "corr:verify_root/outcome-class")
    for r in res:
        t, u = r.case.args
        if isinstance(t, proto.Opaque) or isinstance(u, proto.Opaque):
            continue
        ck.oracle_checks += 1
        want = schema.spec_verify_root(t, u)
        ck.count("spec:" + ",".join(sorted(want)))
        if "E ArgError" not in want:
            ck.nontrivial_add(r.case.group)
        if "OK" not in want and "E ArgError" not in want and r.case.group % 2 == 0:
            # the same offer when the verifier's diagnostics cannot be printed (stdout full / closed): still not accepted
            from .. import impl
            for mode in ("broken:full", "broken:closed"):
                ck.evaluations += 1
                if impl.run_case("vroot", [t, u], mode) == "OK":
                    ck.violation("offered root accepted, when the diagnostics could not be printed, although it is not (version+1 and signed per both root rules)",
                                 {"trusted": proto.enc(t)[:1500], "offered": proto.enc(u)[:1500], "stdout": mode, "spec": sorted(want)}, f"root:OK-broken-stdout:{r.case.tag}")
                    break
        if r.impl not in want:
            if r.impl == "OK":
                clause = "offered root accepted although it is not (version+1 and signed per both the trusted root's and its own root rule)"
            elif want == {"OK"}:
                clause = "a correctly chained and signed root update is rejected"
            else:
                clause = "wrong error class for the rejection reason"
            ck.violation(clause, {"trusted": proto.enc(t)[:1500], "offered": proto.enc(u)[:1500], "impl": r.impl, "spec": sorted(want), "edit": r.case.tag},
                         f"root:{r.impl}:want={','.join(sorted(want))}:{r.case.tag}")
