"""C05 — the delegation check uses exactly the named role's keys and threshold."""
from __future__ import annotations

from .. import envgen, gen, mdgen, proto, schema
from ..framework import Case, Check

RULE = ("trusted metadata with 1-4 roles holding overlapping / disjoint key sets and different thresholds; role argument ranging over present, "
        "absent and near-miss names; untrusted envelopes that are arbitrary payloads or delegating metadata (matching / mismatching type) "
        "carrying their own generous delegations; signer subsets around each role's threshold; both modes; malformed trusted metadata. "
        "non-trivial = trusted metadata well-formed and >= 2 roles or a signed envelope; distinct by (role, untrusted, trusted, mode)")

THEOREMS = ["verifyDelegation_iff", "other_roles_irrelevant", "unknown_role", "only_keys_of_named_role_count"]

ROLE_NAMES = ["key_mgr", "pkg_mgr", "root", "Key_mgr", "key_mgr ", "key_mgr.json", "", "é", "x",
              # any string names a role: text that formatting, path or shell machinery would read something into is just a name
              "pkg_mgr_{subdir}", "{0}", "{", "}", "{{}}", "%s", "%(role)s", "100%", "$HOME", "conda-forge/pkg_mgr", "..", ".", "a\\b", "nul\x00byte", "*", "~"]


def deleg_case(rng, gpg: bool):
    nroles = rng.randint(1, 4)
    names = rng.sample(ROLE_NAMES, nroles)
    dels = {}
    pool = list(range(8))
    for nm in names:
        ks = [gen.key(i) for i in rng.sample(pool, rng.randint(1, 3))]
        dels[nm] = gen.delegation(ks, rng.randint(1, len(ks) + (1 if rng.random() < 0.15 else 0)))
    trusted = gen.envelope(gen.delegating_md(rng.choice(["root", "key_mgr"]), dels, version=rng.randint(1, 4)))
    r = rng.random()
    role = rng.choice(names) if r < 0.75 else rng.choice(ROLE_NAMES)
    # untrusted: arbitrary payload or delegating metadata of some type, with its own generous delegations
    own = {n: gen.delegation([gen.key(i) for i in range(8)], 1) for n in ROLE_NAMES[:3]}
    r = rng.random()
    if r < 0.4:
        signed = envgen.payload(rng)
    elif r < 0.75:
        signed = gen.delegating_md(role if role in ("root", "key_mgr") else "key_mgr", own)
    else:
        signed = gen.delegating_md(rng.choice(["root", "key_mgr"]), own)
    if isinstance(signed, dict) and "delegations" in signed and rng.random() < 0.3:
        # a payload that resembles delegating metadata without being it (one member outside its grammar, missing, of another kind): an arbitrary JSON
        # payload like any other — signed for the role it is accepted, whatever the resemblance (and whatever type it declares)
        muts = [m_ for m_, lab in mdgen.mutations(rng, gen.envelope(signed), per_path=1, max_total=60) if isinstance(m_, dict) and lab.split(":")[1].startswith("signed.")]
        if muts:
            cand = rng.choice(muts).get("signed")
            if not schema.o_signed_part(cand):
                signed = cand
    if isinstance(signed, dict) and "metadata_spec_version" in signed and rng.random() < 0.3:
        signed["metadata_spec_version"] = rng.choice(["0.1.0", "1.0.0", "2.0.0", "17.3.9", "x", ""])       # any string; acceptance does not depend on it
    u = gen.envelope(signed)
    # signers: chosen around the named role's threshold, or the keys of another role / of the untrusted metadata itself
    target = dels.get(role)
    r = rng.random()
    if target is not None and r < 0.7:
        ks = [k for k in (gen.key(i) for i in pool) if k.hex in target["pubkeys"]]
        n = max(0, min(len(ks), target["threshold"] + rng.choice([-1, 0, 0, 1])))
        signers = rng.sample(ks, n)
    elif r < 0.85 and len(names) > 1:
        other = dels[rng.choice([n for n in names if n != role] or names)]
        signers = [k for k in (gen.key(i) for i in pool) if k.hex in other["pubkeys"]]
    else:
        signers = [gen.key(i) for i in rng.sample(pool, rng.randint(0, 4))]
    gen.sign_env(u, signers, gpg, rng)
    if rng.random() < 0.2:
        k, v = gen.junk_entry(rng)
        u["signatures"][k] = v
    return role, u, trusted


def near_miss_case(rng, gpg: bool):
    """the role asked for is a near miss of a delegated role, and the envelope is properly signed by that delegated role's keys"""
    real = rng.choice(["key_mgr", "pkg_mgr", "root", "channeler"])
    uni = None
    if rng.random() < 0.3:
        # names that differ only by Unicode normalization form, compatibility mapping or case folding are different names
        real, uni = rng.choice([("caf\u00e9", "cafe\u0301"), ("cafe\u0301", "caf\u00e9"), ("\u212b", "\u00c5"), ("\uff52oot", "root"), ("root", "\uff52oot"),
                                ("stra\u00dfe", "strasse"), ("\u01c6", "d\u017e"), ("key_mgr\u200b", "key_mgr"), ("\u1e9b\u0323", "\u1e61\u0323")])
    ks = [gen.key(i) for i in rng.sample(range(8), rng.randint(1, 2))]
    dels = {real: gen.delegation(ks, len(ks)), "zz": gen.delegation([gen.key(9)], 1)}
    trusted = gen.envelope(gen.delegating_md(rng.choice(["root", "key_mgr"]), dels))
    asked = rng.choice([real + ".json", real.upper(), real.capitalize(), real + " ", " " + real, real[:-1], real + "s", real.replace("_", "-"), real + "\n", real + "/", "./" + real, real + ".JSON"])
    if uni is not None:
        asked = uni
    u = gen.sign_env(gen.envelope(envgen.payload(rng) if rng.random() < 0.7 else {"type": asked, "x": 1}), ks, gpg, rng)
    return asked, u, trusted


def run(ck: Check) -> None:
    rng = ck.rng
    cases = []
    for i in range(ck.n(400, 70)):
        gpg = bool(i % 2)
        role, u, t = near_miss_case(rng, gpg)
        cases.append(Case("vdeleg", [role, u, t, gpg], tag="near-miss-role", group=100000 + i))
    # directed: the role asked for is "root", the trusted metadata is root metadata delegating root, the untrusted metadata is root metadata too — of the same,
    # the next, an earlier or a far later version, with its own (met or unmet) root rule: a *delegation* check looks at the trusted rule and the type, nothing else
    for i in range(ck.n(120, 24)):
        gpg = bool(i % 2)
        ks = [gen.key(j) for j in rng.sample(range(8), rng.randint(1, 3))]
        v = rng.choice([1, 2, 7])
        t = gen.envelope(gen.root_md(ks, len(ks), [gen.key(9)], 1, version=v))
        own_keys = rng.choice([ks, [gen.key(8)], ks + [gen.key(8)]])
        u = gen.envelope(gen.root_md(own_keys, rng.choice([1, len(own_keys)]), [gen.key(9)], 1, version=rng.choice([v, v, v + 1, max(1, v - 1), v + 5])))
        gen.sign_env(u, ks if i % 3 else ks[:-1], gpg, rng)
        cases.append(Case("vdeleg", ["root", u, t, gpg], tag="role-root-on-root-metadata", group=200000 + i))
    # directed: delegating metadata of exactly the role asked for, signed by the role's threshold, with stray entries in its unsigned signature map (a
    # placeholder for a co-signer, an entry in another layout, a truncated one): accepted — only the checker for *trusted* metadata and verify_root look at those
    for i in range(ck.n(120, 24)):
        gpg = bool(i % 2)
        ks = [gen.key(j) for j in rng.sample(range(8), rng.randint(1, 3))]
        role = rng.choice(["key_mgr", "root"])
        t = gen.envelope(gen.delegating_md("root", {role: gen.delegation(ks, len(ks)), "other": gen.delegation([gen.key(9)], 1)}, version=2))
        u = gen.sign_env(gen.envelope(gen.delegating_md(role, {"pkg_mgr": gen.delegation([gen.key(8)], 1)}, version=rng.choice([1, 3]))), ks, gpg, rng)
        for _ in range(rng.randint(1, 3)):
            k_, v_ = gen.junk_entry(rng)
            u["signatures"].setdefault(k_, v_)
        u["signatures"][gen.key(10).hex] = rng.choice(["ab" * 64, {"signature": "ab" * 63}, None, {"sig": "x"}])
        cases.append(Case("vdeleg", [role, u, t, gpg], tag="typed-metadata-with-stray-entries", group=300000 + i))
    for i in range(ck.n(3000, 500)):
        gpg = bool(i % 2)
        role, u, t = deleg_case(rng, gpg)
        tag = "deleg"
        r = rng.random()
        if r < 0.12:
            muts = mdgen.mutations(rng, t, per_path=1, max_total=40)
            t, label = rng.choice(muts)
            tag = "trusted-mutated"
        elif r < 0.16:
            role = rng.choice([None, 5, ["key_mgr"], b"key_mgr", proto.Opaque(0)])
            tag = "role-kind"
        elif r < 0.2:
            gpg = rng.choice([None, "yes", 2, 1, 0, 1.0, [], proto.Opaque(0)])
            tag = "gpg-kind"
        cases.append(Case("vdeleg", [role, u, t, gpg], tag=tag, group=i, enc=rng.choice(["utf-8", "utf-8", "ascii", "utf-8+Werror", "broken:none"])))
    res = ck.run_cases(cases, "corr:verify_delegation/outcome-class")
    for r in res:
        role, u, t, gpg = r.case.args
        if r.case.tag in ("role-kind", "gpg-kind") and not isinstance(gpg, (bool, int)):
            continue
        if isinstance(gpg, float) or isinstance(u, proto.Opaque):
            continue
        ck.oracle_checks += 1
        want = schema.spec_verify_delegation_set(role, u, t, gpg)
        ck.count("spec:" + ",".join(sorted(want)))
        if schema.o_delegating_md(t) and (len(t["signed"]["delegations"]) > 1 or u["signatures"]):
            ck.nontrivial_add(r.case.group)
        if r.impl not in want:
            if r.impl == "OK":
                clause = "accepted although the named role's keys/threshold in the trusted metadata are not met (or the role is not delegated, or the type does not match)"
            elif want == {"OK"}:
                clause = "metadata properly signed for the role under well-formed trusted metadata is rejected"
            else:
                clause = "wrong error class for the rejection reason (unknown role / signature / type mismatch / argument)"
            ck.violation(clause, {"role": proto.enc(role) if not isinstance(role, proto.Opaque) else repr(role), "untrusted": proto.enc(u)[:1500],
                                  "trusted": proto.enc(t)[:1500], "gpg": repr(gpg), "impl": r.impl, "spec": sorted(want)},
                         f"deleg:{r.impl}:want={','.join(sorted(want))}:{r.case.tag}")
