"""C16 — metadata constructors emit only well-formed, faithful metadata."""
from __future__ import annotations

import copy
import datetime as dt

from .. import gen, gpgshim, mdgen, proto, schema
from ..framework import Case, Check

RULE = ("argument tuples for build_delegating_metadata / build_root_metadata: valid ones over key sets, thresholds, versions (1, 2^70, True), given and "
        "defaulted timestamps under an injected clock (leap days, year ends, 0001/9998, sub-second readings), and each argument corrupted in turn "
        "(every kind, Infinity/NaN/0/-1/floats, bad timestamps, duplicate keys, malformed delegations); results compared with the model, fed to the "
        "checker, and root results signed and chained through verify_root.  non-trivial = a call that returns metadata; distinct by arguments")

THEOREMS = ["build_ok_wellformed", "build_err_is_argerror", "build_ok_fields", "buildRoot_delegates_both", "default_times"]

CLOCKS = [dt.datetime(2020, 7, 13, 5, 46, 45, 123456), dt.datetime(2020, 2, 29, 23, 59, 59, 999999), dt.datetime(2019, 12, 31, 23, 59, 59), dt.datetime(2023, 3, 1, 0, 0, 0),
          dt.datetime(1, 1, 1, 0, 0, 0), dt.datetime(9998, 6, 1, 23, 59, 59), dt.datetime(2024, 2, 28, 12, 0, 1), dt.datetime(2100, 2, 28, 1, 2, 3), dt.datetime(999, 5, 5, 5, 5, 5)]

BAD = [dt.timedelta(days=365), dt.timedelta(0), dt.timedelta.max, dt.timedelta(days=365 * 8000), dt.timedelta(days=-1), dt.timedelta(microseconds=1), None, True, 0, -1, 1.0, 1.5, float("inf"), float("nan"), "", "x", "1", [], {}, ["ab" * 32], {"root": 1}, b"x", (1, 2), proto.Opaque(0), 10**400, "2020-13-01T00:00:00Z", "2020-01-01"]


def parse_utc(s):
    return dt.datetime.strptime(s, "%Y-%m-%dT%H:%M:%SZ")


def run(ck: Check) -> None:
    rng = ck.rng
    cases = []
    for i in range(ck.n(2500, 600)):
        a = rng.choice(CLOCKS)
        b = a      # one instant for the whole call: how many times (and in which order) the library reads the clock is its own business
        ks = [gen.key(j) for j in rng.sample(range(8), rng.randint(0, 3))]
        kk = [gen.key(j) for j in rng.sample(range(8), rng.randint(0, 2))]
        if i % 2 == 0:
            p = {"metadata_type": rng.choice(["root", "key_mgr", "key_mgr", "channeler", "", "é", "key_mgr.json", "root.json", "x.JSON", " root", "Root", "root\n", "pkg_mgr/", "../root"])}
            if rng.random() < 0.8:
                p["delegations"] = {n: gen.delegation(rng.sample(ks, len(ks)) or [gen.key(9)], rng.choice([1, 2, True, 2**70])) for n in rng.sample(["root", "key_mgr", "x", "é", "conda-forge/pkg_mgr", "..", "", "a\\b", "pkg_{subdir}", "nul\x00"], rng.randint(0, 3))}
            if rng.random() < 0.7:
                p["version"] = rng.choice([1, 2, 17, 2**70, True])
            if rng.random() < 0.5:
                p["timestamp"] = rng.choice(mdgen.TIMESTAMPS_GOOD)
            if rng.random() < 0.5:
                p["expiration"] = rng.choice(mdgen.TIMESTAMPS_GOOD)
            which = "delegating"
        else:
            p = {"root_version": rng.choice([1, 2, 3, 2**70, True]), "root_pubkeys": [k.hex for k in ks], "root_threshold": rng.choice([1, 2, max(1, len(ks))]),
                 "key_mgr_pubkeys": [k.hex for k in kk], "key_mgr_threshold": rng.choice([1, 2])}
            if rng.random() < 0.4:
                p["root_timestamp"] = rng.choice(mdgen.TIMESTAMPS_GOOD)
            if rng.random() < 0.4:
                p["root_expiration"] = rng.choice(mdgen.TIMESTAMPS_GOOD)
            which = "root"
        tag = "valid"
        if rng.random() < 0.45:
            k = rng.choice(list(p.keys()))
            r = rng.random()
            if r < 0.6:
                p[k] = rng.choice(BAD)
            elif isinstance(p[k], list) and p[k] and rng.random() < 0.5:
                # one key in another spelling of the same bytes (upper / mixed case, surrounding or inner whitespace, 0x prefix): refused, never re-spelled
                j = rng.randrange(len(p[k]))
                p[k] = p[k][:j] + [rng.choice(gen.alt_spellings(p[k][j]))] + p[k][j + 1:]
                tag = "alt-spelling:" + k
            elif isinstance(p[k], list) and p[k]:
                p[k] = p[k] + [rng.choice([p[k][0], p[k][0].upper(), "zz" * 32, 5])]
            elif isinstance(p[k], dict) and p[k] and rng.random() < 0.3 and any(isinstance(d_, dict) and d_.get("pubkeys") for d_ in p[k].values()):
                p[k] = copy.deepcopy(p[k])
                d_ = rng.choice([d_ for d_ in p[k].values() if isinstance(d_, dict) and d_.get("pubkeys")])
                j = rng.randrange(len(d_["pubkeys"]))
                d_["pubkeys"][j] = rng.choice(gen.alt_spellings(d_["pubkeys"][j]))
                tag = "alt-spelling:" + k
            elif isinstance(p[k], dict) and p[k]:
                muts = mdgen.mutations(rng, p[k], per_path=1, max_total=25)
                p[k] = rng.choice(muts)[0]
            else:
                p[k] = rng.choice(BAD)
            tag = tag if tag.startswith("alt-spelling") else "corrupted:" + k
        if any(isinstance(v, (bytes, tuple)) for v in p.values() if not isinstance(v, proto.Opaque)):
            pass
        cases.append(Case("build", [which, a, b, p], tag=tag, group=i))
    # directed: every argument of both builders given every corrupting value in turn (not sampled), for each kind of metadata type — an argument that is
    # optional for one kind of metadata is not thereby optional for another (a root needs its version whichever builder makes it)
    a0 = CLOCKS[0]
    kk0 = [gen.key(1).hex, gen.key(2).hex]
    gi = 100000
    for typ in ("root", "key_mgr", "channeler"):
        basep = {"metadata_type": typ, "delegations": {"root": {"pubkeys": list(kk0), "threshold": 1}}, "version": 3, "timestamp": "2020-07-13T05:46:45Z", "expiration": "2031-07-13T05:46:45Z"}
        for k_ in ("delegations", "version", "timestamp", "expiration", "metadata_type"):
            for bad in BAD:
                p = dict(basep)
                p[k_] = bad
                gi += 1
                cases.append(Case("build", ["delegating", a0, a0, p], tag="corrupted:" + k_, group=gi))
    basep = {"root_version": 2, "root_pubkeys": list(kk0), "root_threshold": 1, "key_mgr_pubkeys": [gen.key(3).hex], "key_mgr_threshold": 1}
    for k_ in list(basep) + ["root_timestamp", "root_expiration"]:
        for bad in BAD:
            p = dict(basep)
            p[k_] = bad
            gi += 1
            cases.append(Case("build", ["root", a0, a0, p], tag="corrupted:" + k_, group=gi))
    res = ck.run_cases(cases, "corr:metadata-builders/value")
    roots = []
    to_checker = []
    for r in res:
        which, a, b, p = r.case.args
        ck.oracle_checks += 1
        if r.impl.startswith("E "):
            if r.impl != "E ArgError":
                ck.violation("a metadata builder failed with something other than an argument error", {"which": which, "params": {k: repr(v)[:100] for k, v in p.items()}, "impl": r.impl}, f"builder-error:{r.impl}:{r.case.tag}")
            if r.case.tag == "valid":
                ck.violation("a metadata builder rejected valid arguments", {"which": which, "params": {k: repr(v)[:100] for k, v in p.items()}, "impl": r.impl}, f"builder-rejects-valid:{which}")
            continue
        md = proto.dec(r.impl[2:])
        ck.nontrivial_add(proto.enc(md)[:300])
        if r.case.tag.startswith("alt-spelling"):
            ck.violation("a metadata builder accepted a key given in a non-canonical spelling (the result cannot both pass the checker and carry the delegations verbatim)",
                         {"which": which, "params": {k: repr(v)[:200] for k, v in p.items()}, "result": proto.enc(md)[:600]}, f"builder-accepts-alt-spelling:{which}")
        typ = p.get("metadata_type", "root")
        wrapped = {"signatures": {}, "signed": md}
        problems = []
        if typ in ("root", "key_mgr") and not schema.o_delegating_md(wrapped):
            problems.append("result does not pass the delegating-metadata schema")
        if typ in ("root", "key_mgr"):
            to_checker.append((wrapped, which, p))
        if md.get("metadata_spec_version") != "0.6.0":
            problems.append("wrong specification version")
        if not proto.deep_equal(md.get("type"), typ):
            problems.append("type not carried verbatim")
        ver = p.get("version", p.get("root_version", 1))
        if not proto.deep_equal(md.get("version"), ver):
            problems.append("version not carried verbatim")
        if which == "delegating":
            if not proto.deep_equal(md.get("delegations"), p.get("delegations") if p.get("delegations") is not None else {}):
                problems.append("delegations not carried verbatim")
        else:
            want = {"root": {"pubkeys": p["root_pubkeys"], "threshold": p["root_threshold"]}, "key_mgr": {"pubkeys": p["key_mgr_pubkeys"], "threshold": p["key_mgr_threshold"]}}
            if not proto.deep_equal(md.get("delegations"), want):
                problems.append("root metadata does not delegate exactly root and key_mgr with the given keys and thresholds")
        tsk, exk = ("timestamp", "expiration") if which == "delegating" else ("root_timestamp", "root_expiration")
        if p.get(tsk) is not None and not proto.deep_equal(md.get("timestamp"), p[tsk]):
            problems.append("timestamp not carried verbatim")
        if p.get(exk) is not None and not proto.deep_equal(md.get("expiration"), p[exk]):
            problems.append("expiration not carried verbatim")
        if set(md.keys()) != {"type", "version", "metadata_spec_version", "timestamp", "expiration", "delegations"}:
            problems.append("unexpected field set")
        if p.get(tsk) is None and p.get(exk) is None:
            try:
                t0, t1 = parse_utc(md["timestamp"]), parse_utc(md["expiration"])
                delta = t1 - t0
                if not (dt.timedelta(days=365) - dt.timedelta(seconds=62) <= delta <= dt.timedelta(days=365) + dt.timedelta(seconds=62)) or delta <= dt.timedelta(0):
                    problems.append(f"default expiration is not about one year after the timestamp ({delta})")
                if md["timestamp"] not in (a.replace(microsecond=0).isoformat() + "Z", b.replace(microsecond=0).isoformat() + "Z"):
                    problems.append("default timestamp is not the current UTC time in canonical form")
            except Exception as e:
                problems.append("default timestamps do not parse: " + repr(e))
        for pr in problems:
            ck.violation("metadata builder: " + pr, {"which": which, "params": {k: repr(v)[:120] for k, v in p.items()}, "result": proto.enc(md)[:800]}, f"builder:{pr[:40]}:{which}")
        if which == "root" and not problems and isinstance(ver, int) and not isinstance(ver, bool) and ver < 2**60 and p["root_pubkeys"]:
            roots.append((p, md))
    # what the builders return, once wrapped, passes the library's own checker (not only the schema as this harness reads it)
    for (wrapped, which, p), r in zip(to_checker, ck.run_cases([Case("check", ["delegating_metadata", w]) for w, _, _ in to_checker], "corr:checker-on-built-metadata/outcome-class")):
        ck.oracle_checks += 1
        if r.impl != "OK":
            ck.violation("metadata builder: the result, once wrapped, is rejected by the delegating-metadata checker",
                         {"which": which, "params": {k: repr(v)[:120] for k, v in p.items()}, "result": proto.enc(wrapped)[:800], "checker": r.impl}, f"builder:checker-rejects-result:{which}")
    # histories: what a call returns depends on its arguments only — editing an earlier result (or the arguments afterwards) does not leak into later results
    from .. import impl
    import copy as _copy
    mc = impl.metadata_construction
    for hi in range(6):
        ks_ = [gen.key(j).hex for j in range(2)]
        try:
            with impl.quiet_stdout():
                first = mc.build_delegating_metadata("key_mgr") if hi % 2 == 0 else mc.build_delegating_metadata(metadata_type="key_mgr", version=3)
                first["delegations"]["pkg_mgr"] = {"pubkeys": list(ks_), "threshold": 1}       # the caller goes on editing its draft
                first["extra"] = 1
                second = mc.build_delegating_metadata("key_mgr") if hi % 2 == 0 else mc.build_delegating_metadata(metadata_type="key_mgr", version=3)
                dels = {"root": {"pubkeys": list(ks_), "threshold": 1}}
                third = mc.build_delegating_metadata("root", delegations=dels, version=1)
                frozen = _copy.deepcopy(third)
                fourth = mc.build_delegating_metadata("root", delegations=_copy.deepcopy(frozen["delegations"]), version=1)
                r1 = mc.build_root_metadata(1, list(ks_), 1, list(ks_), 1)
                r1["delegations"]["root"]["pubkeys"].append("ff" * 32)
                r2 = mc.build_root_metadata(1, list(ks_), 1, list(ks_), 1)
        except Exception as e:  # noqa: BLE001
            ck.violation("metadata builder: a plain call with valid arguments failed", {"error": repr(e)[:200]}, "builder:history-failed")
            continue
        ck.oracle_checks += 1
        ck.evaluations += 1
        strip = lambda m: {k: v for k, v in m.items() if k not in ("timestamp", "expiration")}
        if second.get("delegations") != {} or "extra" in second:
            ck.violation("metadata builder: a draft built without delegations carries what was added to an *earlier* draft (state shared between calls)",
                         {"second_result": proto.enc(second)[:600]}, "builder:history-leak:delegating")
        if strip(fourth) != strip(frozen):
            ck.violation("metadata builder: equal arguments gave different metadata at different points of a history", {}, "builder:history-dependent")
        if r2["delegations"]["root"]["pubkeys"] != ks_:
            ck.violation("metadata builder: root metadata carries keys appended to an earlier result", {"result": proto.enc(r2)[:600]}, "builder:history-leak:root")
    # root metadata built this way, once threshold-signed, verifies as successor of the previous version and can authorize its own successor
    vcases = []
    for p, md in roots[: (ck.n(60, 20))]:
        ks = [k for k in (gen.key(j) for j in range(10)) if k.hex in p["root_pubkeys"]]
        thr = p["root_threshold"]
        if thr > len(ks):
            continue
        chain = [gen.envelope(md)]
        for step in (1, 2):
            p2 = dict(p)
            p2["root_version"] = p["root_version"] + step
            with impl.quiet_stdout():
                nxt = impl.run_case("build", ["root", CLOCKS[0], CLOCKS[0], p2])
            if not nxt.startswith("V "):
                break
            env = gen.sign_env(gen.envelope(proto.dec(nxt[2:])), ks[:thr], True)
            chain.append(env)
        for t, u in zip(chain, chain[1:]):
            vcases.append(Case("vroot", [t, u], tag="built-root-chain"))
    for r in ck.run_cases(vcases, "corr:verify_root/outcome-class"):
        ck.oracle_checks += 1
        if r.impl != "OK":
            ck.violation("root metadata built by the library and threshold-signed does not verify as successor of the previous version", {"impl": r.impl, "trusted": proto.enc(r.case.args[0])[:600], "offered": proto.enc(r.case.args[1])[:600]}, f"built-root-chain:{r.impl}")
