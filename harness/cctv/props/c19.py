"""C19 — key material round-trips losslessly and matches RFC 8032."""
from __future__ import annotations

import hashlib
import os

from .. import gen, proto
from ..framework import Case, Check

RULE = ("32-byte seeds (RFC 8032 section 7.1 vectors, all-zero / all-ones, seeded random) and messages of length 0..1000 crossing SHA-512 block "
        "boundaries: the library's derived public key, the hex under which sign_signable files its entry and the signature bytes vs the Lean "
        "transcription of RFC 8032; every conversion path among bytes / hex / key objects; key files; equivalence laws; malformed encodings "
        "(every wrong length around 32/64, case, whitespace, every other kind).  non-trivial = a seed/message pair; distinct by (seed, message)")

THEOREMS = ["hex_roundtrip", "bytes_roundtrip", "from_hex_to_hex", "from_hex_rejects", "from_bytes_rejects_length", "equivalence_laws", "signing_key_hex", "keyfiles_roundtrip", "keyfiles_reject_length", "reference_strict"]

# RFC 8032 section 7.1 (secret key, public key, message, signature)
RFC8032 = [
    ("9d61b19deffd5a60ba844af492ec2cc44449c5697b326919703bac031cae7f60", "d75a980182b10ab7d54bfed3c964073a0ee172f3daa62325af021a68f707511a", "",
     "e5564300c360ac729086e2cc806e828a84877f1eb8e5d974d873e065224901555fb8821590a33bacc61e39701cf9b46bd25bf5f0595bbe24655141438e7a100b"),
    ("4ccd089b28ff96da9db6c346ec114e0f5b8a319f35aba624da8cf6ed4fb8a6fb", "3d4017c3e843895a92b70aa74d1b7ebc9c982ccf2ec4968cc0cd55f12af4660c", "72",
     "92a009a9f0d4cab8720e820b5f642540a2b27b5416503f8fb3762223ebdb69da085ac1e43e15996e458f3613d0f11d8c387b2eaeb4302aeeb00d291612bb0c00"),
    ("c5aa8df43f9f837bedb7442f31dcb7b166d38535076f094b85ce3a2e0b4458f7", "fc51cd8e6218a1a38da47ed00230f0580816ed13ba3303ac5deb911548908025", "af82",
     "6291d657deec24024827e69c3abe01a30ce548a284743a445e3680d7db5ac3ac18ff9b538d16f290ae67f760984dc6594a7c15e9716ed28dc027beceea1ec40a"),
]


def run(ck: Check) -> None:
    rng = ck.rng
    from .. import impl

    P, Pub = impl.common.PrivateKey, impl.common.PublicKey
    seeds = [bytes.fromhex(v[0]) for v in RFC8032] + [bytes(32), b"\xff" * 32, b"\x01" * 32]
    seeds += [bytes([0]) + bytes(rng.getrandbits(8) for _ in range(31)), bytes([0, 0]) + bytes(rng.getrandbits(8) for _ in range(30)), bytes([0x0f]) + b"\xaa" * 31,
              bytes(rng.getrandbits(8) for _ in range(31)) + bytes([0]), b"\x80" + bytes(31)]
    for _ in range(3000):                       # a seed whose *public key* starts with a zero byte (1 in 256)
        s0 = bytes(rng.getrandbits(8) for _ in range(32))
        if gen.ed25519.Ed25519PrivateKey.from_private_bytes(s0).public_key().public_bytes(gen.serialization.Encoding.Raw, gen.serialization.PublicFormat.Raw)[0] == 0:
            seeds.append(s0)
            break
    seeds += [bytes(rng.getrandbits(8) for _ in range(32)) for _ in range(ck.n(300, 40))]
    lines, expect = [], []
    ck.correspondences.add("corr:ed25519-vs-rfc8032-reference/bytes")
    for i, seed in enumerate(seeds):
        msgs = [b"", b"a", bytes(rng.getrandbits(8) for _ in range(rng.choice([1, 31, 32, 63, 64, 95, 96, 111, 112, 127, 128, 129, 255, 256, 1000])))]
        if i < 3:
            msgs.insert(0, bytes.fromhex(RFC8032[i][2]))
        try:
            k = P.from_bytes(seed)
            pub = Pub.to_bytes(k.public_key())
            env = impl.signing.wrap_as_signable({"m": i})
            impl.signing.sign_signable(env, k)
            data = impl.common.canonserialize(env["signed"])
            (filed_hex, entry), = env["signatures"].items()
            to_hex = Pub.to_hex(k.public_key())
        except Exception as e:  # noqa: BLE001
            ck.violation("deriving / signing with a valid 32-byte seed failed", {"seed": seed.hex(), "error": repr(e)[:200]}, "seed-failed:" + type(e).__name__)
            continue
        ck.oracle_checks += 1
        if i < 3 and pub.hex() != RFC8032[i][1]:
            ck.violation("public key derived by the library differs from the RFC 8032 test vector", {"seed": seed.hex(), "derived": pub.hex(), "rfc": RFC8032[i][1]}, "rfc-vector-pub")
        lines.append("prim pub x" + seed.hex())
        expect.append(("pub", seed, b"", "B " + pub.hex()))
        # the hex under which sign_signable files the entry, and the signature it stores
        ck.oracle_checks += 1
        if filed_hex != pub.hex() or to_hex != pub.hex():
            ck.violation("the hex under which a signature is filed is not the hex of the derived public key", {"seed": seed.hex(), "filed": filed_hex, "pub": pub.hex()}, "filed-hex")
        lines.append(f"prim sign x{seed.hex()} x{data.hex()}")
        expect.append(("sign", seed, data, "B " + entry["signature"]))
        for m in msgs[:2 if not ck.thorough else 4]:
            sig = k.sign(m)
            if i < 3 and m == bytes.fromhex(RFC8032[i][2]):
                ck.oracle_checks += 1
                if sig.hex() != RFC8032[i][3]:
                    ck.violation("signature produced by the library differs from the RFC 8032 test vector", {"seed": seed.hex()}, "rfc-vector-sig")
            lines.append(f"prim sign x{seed.hex()} x{m.hex()}")
            expect.append(("sign", seed, m, "B " + sig.hex()))
            lines.append(f"prim verify x{pub.hex()} x{m.hex()} x{sig.hex()}")
            expect.append(("verify", seed, m, "T"))
            bad = bytearray(sig)
            bad[rng.randrange(64)] ^= 1 << rng.randrange(8)
            lines.append(f"prim verify x{pub.hex()} x{m.hex()} x{bytes(bad).hex()}")
            expect.append(("verify-bad", seed, m, "F"))
            # the scalar half of the signature plus the group order (the classic second encoding of "the same" signature): RFC 8032 demands S < L, the
            # reference refuses it (Ref/Laws.lean: ref_verify_rejects_unreduced_scalar) — the library's verdict, whatever it is, is compared with the reference's
            L_ = 2 ** 252 + 27742317777372353535851937790883648493
            s2 = int.from_bytes(sig[32:], "little") + L_
            if s2 < 2 ** 256:
                sig2 = sig[:32] + s2.to_bytes(32, "little")
                try:
                    k.public_key().verify(sig2, m)
                    lib = "T"
                except Exception:  # noqa: BLE001
                    lib = "F"
                lines.append(f"prim verify x{pub.hex()} x{m.hex()} x{sig2.hex()}")
                expect.append(("verify-scalar-plus-order", seed, m, lib))
            ck.nontrivial_add((seed, m))
    # SHA-256 / digest construction
    for _ in range(60):
        m = bytes(rng.getrandbits(8) for _ in range(rng.choice([0, 1, 55, 56, 63, 64, 65, 119, 120, 200])))
        lines.append("prim sha256 x" + m.hex())
        expect.append(("sha256", b"", m, "B " + hashlib.sha256(m).hexdigest()))
    model = ck.driver.run(lines)
    for ln, (kind, seed, m, want), got in zip(lines, expect, model):
        ck.evaluations += 1
        ck.count("prim:" + kind)
        if got != want:
            ck.mismatch_total += 1
            ck.mismatch_kinds["prim:" + kind] = ck.mismatch_kinds.get("prim:" + kind, 0) + 1
            if len(ck.mismatches) < 10:
                ck.mismatches.append({"corr": "corr:ed25519-vs-rfc8032-reference/bytes", "line": ln[:600], "impl": want[:300], "model": got[:300], "tag": kind, "meta": {}, "stdout_encoding": "utf-8"})
            if kind in ("pub", "sign", "verify"):
                ck.violation("the library's key derivation / signature differs from what RFC 8032 defines for this seed (Lean transcription of RFC 8032 section 5.1)",
                             {"what": kind, "seed": seed.hex(), "message": m.hex()[:200], "library": want[:200], "rfc8032_reference": got[:200]}, "rfc8032:" + kind)
    # conversions, equivalence, malformed encodings: model vs implementation
    cases = []
    for seed in seeds[:40]:
        kp, pubb = proto.KeyObj(True, seed), P.from_bytes(seed).public_key()
        kpub = proto.KeyObj(False, Pub.to_bytes(pubb))
        cases += [Case("key", ["priv_from_bytes", seed], tag="conv"), Case("key", ["pub_from_bytes", kpub.raw], tag="conv"),
                  Case("key", ["priv_from_bytes", bytearray(seed)], tag="conv"),
                  Case("key", ["priv_from_hex", seed.hex()], tag="conv"), Case("key", ["pub_from_hex", kpub.raw.hex()], tag="conv"),
                  Case("key", ["priv_to_bytes", kp], tag="conv"), Case("key", ["pub_to_bytes", kpub], tag="conv"),
                  Case("key", ["priv_to_hex", kp], tag="conv"), Case("key", ["pub_to_hex", kpub], tag="conv"), Case("key", ["public_of", kp], tag="conv"),
                  Case("key", ["priv_equiv", kp, kp], tag="equiv"), Case("key", ["pub_equiv", kpub, kpub], tag="equiv"),
                  Case("key", ["priv_equiv", kp, proto.KeyObj(True, seeds[0])], tag="equiv"), Case("key", ["priv_equiv", proto.KeyObj(True, seeds[0]), kp], tag="equiv"),
                  Case("key", ["pub_equiv", kpub, proto.KeyObj(False, seeds[1])], tag="equiv"), Case("key", ["priv_equiv", kp, kpub], tag="equiv-kinds"),
                  Case("key", ["pub_equiv", kpub, kp], tag="equiv-kinds"), Case("key", ["pub_equiv", kp, kpub], tag="equiv-kinds")]
    # one 32-byte value read as a private key and as a public key, in both orders, repeatedly: each reading gives a key of the kind asked for
    for seed in seeds[:6]:
        hx = seed.hex()
        for order in (("priv_from_hex", "pub_from_hex", "priv_from_hex", "pub_from_hex"), ("pub_from_bytes", "priv_from_bytes", "pub_from_bytes")):
            for fn_ in order:
                cases.append(Case("key", [fn_, hx if fn_.endswith("hex") else seed], tag="conv-same-value-both-kinds"))
        seed2 = bytes(reversed(seed))
        cases += [Case("key", ["pub_from_hex", seed2.hex()], tag="conv-same-value-both-kinds"), Case("key", ["priv_from_hex", seed2.hex()], tag="conv-same-value-both-kinds"),
                  Case("key", ["priv_to_hex", proto.KeyObj(True, seed2)], tag="conv-same-value-both-kinds"), Case("key", ["public_of", proto.KeyObj(True, seed2)], tag="conv-same-value-both-kinds")]
    s0 = seeds[3 % len(seeds)]
    for n in [0, 1, 16, 31, 33, 64]:
        cases += [Case("key", ["priv_from_bytes", bytes(n)], tag="bad-length"), Case("key", ["pub_from_bytes", bytes(n)], tag="bad-length")]
    # wrong lengths in the shapes other tools use for the same key: OpenPGP's native point format (0x40 prefix), SEC1-style prefixes, DER / PEM wrappers,
    # seed || public key (64 bytes), a trailing newline
    pub_raw = Pub.to_bytes(P.from_bytes(s0).public_key())
    for wrapped in [b"\x40" + pub_raw, b"\x04" + pub_raw, b"\x00" + pub_raw, pub_raw + b"\n", bytes.fromhex("302a300506032b6570032100") + pub_raw, s0 + pub_raw, b"\x40" + s0,
                    s0 + b"\n", pub_raw[:31], pub_raw.hex().encode()]:
        cases += [Case("key", ["priv_from_bytes", wrapped], tag="bad-length"), Case("key", ["pub_from_bytes", wrapped], tag="bad-length"),
                  Case("key", ["pub_from_bytes", bytearray(wrapped)], tag="bad-length")]
    h = seeds[6].hex()
    for bad in [h.upper() if h.upper() != h else "A" + h[1:], h[:-2], h + "00", " " + h[1:], h[:-1] + " ", h[:-1], "0x" + h[2:], "", None, 5, seeds[6], [h], proto.Opaque(0),
                h + "\n", " " + h, h + " ", "\t" + h, h[:32] + " " + h[32:], " ".join(h[i:i + 4] for i in range(0, 64, 4)), h + "\r\n", "0x" + h, h[:-1] + h[-1].upper() if h[-1].isalpha() else h[:-1] + "F"]:
        cases += [Case("key", ["priv_from_hex", bad], tag="bad-hex"), Case("key", ["pub_from_hex", bad], tag="bad-hex")]
    for bad in [None, 5, "x" * 32, list(range(32)), tuple(range(32)), proto.Opaque(0), h]:
        cases += [Case("key", ["priv_from_bytes", bad], tag="bad-kind"), Case("key", ["pub_from_bytes", bad], tag="bad-kind")]
    # ... and objects that look like keys without being ed25519 keys: keys of other algorithms (Ed448, X25519, P-256), stand-ins offering the same methods
    foreign = [proto.Opaque(t) for t in proto.FOREIGN_KEY_TAGS]
    for bad in [None, "x", 5, seeds[6], proto.Opaque(0)] + foreign:
        cases += [Case("key", ["priv_equiv", proto.KeyObj(True, seeds[6]), bad], tag="equiv-bad-kind"), Case("check", ["key", bad], tag="checkformat_key"),
                  Case("key", ["pub_equiv", bad, proto.KeyObj(False, Pub.to_bytes(P.from_bytes(seeds[6]).public_key()))], tag="equiv-bad-kind")]
    for bad in foreign:
        cases += [Case("sign", [{"signatures": {}, "signed": {"a": 1}}, bad], tag="bad-kind-sign")]
    # a key object of the other kind: a private key where a public one is converted (and the other way round) is refused, never converted — least of all to its seed
    kp_, kpub_ = proto.KeyObj(True, seeds[6]), proto.KeyObj(False, Pub.to_bytes(P.from_bytes(seeds[6]).public_key()))
    for fn_, arg_ in (("pub_to_bytes", kp_), ("pub_to_hex", kp_), ("priv_to_bytes", kpub_), ("priv_to_hex", kpub_)):
        cases.append(Case("key", [fn_, arg_], tag="other-kind-of-key"))
    # the same non-key object in both positions is no more a pair of equivalent keys than two different ones
    for same in [None, "x", h, seeds[6], 5, (1, 2)]:
        cases += [Case("key", ["priv_equiv", same, same], tag="bad-kind-equiv-same-object"), Case("key", ["pub_equiv", same, same], tag="bad-kind-equiv-same-object")]
    res = ck.run_cases(cases, "corr:key-helpers/value")
    for r in res:
        ck.oracle_checks += 1
        if r.case.tag.startswith("bad") and r.impl != "E ArgError":
            ck.violation("a malformed key encoding was not rejected with an argument error", {"call": r.case.args[0], "arg": proto.enc(r.case.args[1])[:200] if not isinstance(r.case.args[1], proto.Opaque) else "object()", "impl": r.impl}, f"malformed:{r.case.args[0]}:{r.impl}")
        if r.case.tag == "conv-same-value-both-kinds" and r.case.args[0].split("_")[1] == "from" and not r.impl.startswith("V P" if r.case.args[0].startswith("priv") else "V K"):
            ck.violation("reading a 32-byte value as a key of one kind gave a key of the other kind (or failed) after the same value had been read as the other kind",
                         {"call": r.case.args[0], "value": proto.enc(r.case.args[1])[:140], "impl": r.impl[:80]}, f"conversion-kind:{r.case.args[0]}")
        if r.case.tag == "other-kind-of-key" and r.impl.startswith("V "):
            ck.violation("a conversion meant for one kind of key accepted a key object of the other kind", {"call": r.case.args[0], "returned": r.impl[:30] + "..."}, f"other-kind:{r.case.args[0]}")
        if r.case.tag == "equiv-kinds" and r.impl not in ("F", "E AttributeError"):
            ck.violation("keys of different kinds reported equivalent", {"impl": r.impl}, "equiv-kinds")
    # conversion compositions return the same value (implementation-side oracle)
    for seed in seeds[:60]:
        ck.oracle_checks += 1
        try:
            k = P.from_bytes(seed)
            pk = k.public_key()
            pb = Pub.to_bytes(pk)
            ok = (P.to_bytes(P.from_hex(P.to_hex(P.from_bytes(seed)))) == seed and Pub.to_bytes(Pub.from_hex(Pub.to_hex(Pub.from_bytes(pb)))) == pb
                  and P.to_hex(k) == seed.hex() and Pub.to_hex(pk) == pb.hex() and P.is_equivalent_to(k, P.from_hex(seed.hex())) is True
                  and Pub.is_equivalent_to(pk, Pub.from_bytes(pb)) is True and Pub.is_equivalent_to(Pub.from_bytes(pb), pk) is True)
        except Exception as e:  # noqa: BLE001
            ok = False
            ck.notes.append("conversion raised: " + repr(e)[:120])
        if not ok:
            ck.violation("a conversion path among bytes / hex / key objects does not return the same value", {"seed": seed.hex()}, "conversion-roundtrip")
    # conversions never modify what they are given: a caller's bytearray holds the same bytes afterwards, and converting it again gives the same key
    for seed in seeds[:8]:
        ck.oracle_checks += 1
        ck.evaluations += 1
        try:
            ba = bytearray(seed)
            k1 = P.from_bytes(ba)
            same_after = bytes(ba) == seed
            k2 = P.from_bytes(ba)
            ok = same_after and bytes(ba) == seed and P.to_bytes(k1) == seed and P.to_bytes(k2) == seed
        except Exception as e:  # noqa: BLE001
            ok = False
            ck.notes.append("conversion from bytearray raised: " + repr(e)[:120])
        if not ok:
            ck.violation("converting a key from a caller's bytearray changed the caller's buffer, or converting the same buffer again gives another key",
                         {"seed": seed.hex(), "buffer_after": bytes(ba).hex()}, "conversion-mutates-argument")
            break
    # key files
    d = impl.scratch_dir()
    os.environ["CCTV_KEYDIR"] = "elsewhere"
    cwd0 = os.getcwd()
    os.chdir(d)
    os.makedirs(os.path.join(d, "~"), exist_ok=True)
    try:
        for nm in ["key$CCTV_KEYDIR", "${CCTV_KEYDIR}key", "~/k", "k%CCTV_KEYDIR%", "$HOME-k"]:
            # relative names with characters a shell (not this library) would expand: written and read back under the name as given
            ck.count("keyfiles:literal-name")
            try:
                priv, pub = impl.metadata_construction.gen_and_write_keys(nm)
                p2, pub2 = impl.common.keyfiles_to_keys(nm)
                same = P.to_bytes(priv) == P.to_bytes(p2) and Pub.to_bytes(pub) == Pub.to_bytes(pub2) and os.path.exists(os.path.join(d, nm + ".pri"))
            except Exception as e:  # noqa: BLE001
                same = False
            ck.oracle_checks += 1
            ck.evaluations += 1
            if not same:
                ck.violation("keys written under a name containing '$' / '~' / '%' do not load back under that name (or were not written where the name says)",
                             {"name": nm}, "keyfiles-name-expanded")
    finally:
        os.chdir(cwd0)
    written = {}
    for i in range(20):
        # names are reused (later rounds write over the files of earlier ones) and take the shapes people give key files: dotted, versioned, spaced, non-ASCII
        name = os.path.join(d, ["keytest0", "root.v2", "key_mgr.2024", "a.b.c", "pkg mgr", "cl\u00e9", "root.v1", ".hidden", "name.pri", "UPPER.Key"][i % 10])
        prior = "fresh"
        if i % 3 == 1:
            # files of that name already exist and are longer (a hex-encoded key file, as the CLI reads) or shorter
            prior = rng.choice(["hex-65", "long", "short", "empty"])
            content = {"hex-65": os.urandom(32).hex().encode() + b"\n", "long": os.urandom(100), "short": b"abc", "empty": b""}[prior]
            for ext in (".pri", ".pub"):
                with open(name + ext, "wb") as f:
                    f.write(content)
        ck.count("keyfiles:" + prior)
        try:
            priv, pub = impl.metadata_construction.gen_and_write_keys(name)
            p2, pub2 = impl.common.keyfiles_to_keys(name)
        except Exception as e:  # noqa: BLE001
            ck.oracle_checks += 1
            ck.evaluations += 1
            ck.violation("keys written to key files do not load back (writing or loading raised)", {"prior_files": prior, "error": repr(e)[:200]}, "keyfiles-raised:" + type(e).__name__)
            continue
        ck.oracle_checks += 1
        ck.evaluations += 1
        if not (P.is_equivalent_to(priv, p2) and Pub.is_equivalent_to(pub, pub2) and Pub.to_bytes(p2.public_key()) == Pub.to_bytes(pub2)
                and open(name + ".pri", "rb").read() == P.to_bytes(priv) and open(name + ".pub", "rb").read() == Pub.to_bytes(pub)):
            ck.violation("keys written to key files do not load back as equivalent keys", {"name": name}, "keyfiles")
        written[name] = Pub.to_bytes(pub)
    # key files that hold anything but exactly 32 bytes (a good key followed by a newline or by a second key, a hex-encoded key, a truncated file) are
    # refused when loaded as keys (theorem keyfiles_reject_length), and read back byte for byte by the raw reader
    good_priv, good_pub = gen.key(3).seed, gen.key(3).pub
    for which in ("pri", "pub", "both"):
        for label, mk in [("newline", lambda b: b + b"\n"), ("crlf", lambda b: b + b"\r\n"), ("two-keys", lambda b: b + b), ("hex", lambda b: b.hex().encode()), ("hex-newline", lambda b: b.hex().encode() + b"\n"),
                          ("short-31", lambda b: b[:31]), ("empty", lambda b: b""), ("nul-padded", lambda b: b + b"\x00"), ("long-96", lambda b: b + os.urandom(64)), ("leading-space", lambda b: b" " + b)]:
            name = os.path.join(d, "lenkey")
            contents = {"pri": mk(good_priv) if which in ("pri", "both") else good_priv, "pub": mk(good_pub) if which in ("pub", "both") else good_pub}
            for ext, c in contents.items():
                with open(name + "." + ext, "wb") as f:
                    f.write(c)
            ck.evaluations += 1
            ck.oracle_checks += 1
            ck.count("keyfiles:wrong-length")
            try:
                got = impl.common.keyfiles_to_keys(name)
                outcome = "accepted"
            except (TypeError, ValueError):
                outcome = "refused"
            except Exception as e:  # noqa: BLE001
                outcome = "raised " + type(e).__name__
            if outcome != "refused":
                ck.violation("a key file that does not hold exactly 32 bytes was not refused with an argument error when loaded as a key (a longer file was truncated, or a shorter one padded)",
                             {"file": which, "content": label, "lengths": {k: len(v) for k, v in contents.items()}, "outcome": outcome}, f"keyfiles-wrong-length:{outcome}:{label}")
            try:
                raw = impl.common.keyfiles_to_bytes(name)
                if tuple(raw) != (contents["pri"], contents["pub"]):
                    ck.violation("keyfiles_to_bytes does not return the files' contents", {"file": which, "content": label, "returned_lengths": [len(x) for x in raw]}, f"keyfiles-bytes-differ:{label}")
            except (TypeError, ValueError):
                pass        # refusing a wrong-length file already at this level is as good
            except Exception as e:  # noqa: BLE001
                ck.violation("keyfiles_to_bytes failed with something other than an argument error on readable files", {"error": repr(e)[:200]}, "keyfiles-bytes-raised")
    # key pairs written under different names do not disturb each other
    for name, pb in written.items():
        ck.oracle_checks += 1
        try:
            _, pub3 = impl.common.keyfiles_to_keys(name)
            same = Pub.to_bytes(pub3) == pb
        except Exception:  # noqa: BLE001
            same = False
        if not same:
            ck.violation("a key pair written under one name was disturbed by key pairs written under other names", {"name": os.path.basename(name)}, "keyfiles-collide")
