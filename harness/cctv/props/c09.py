"""C09 — sign-then-verify round trip, signer binding, determinism, order independence."""
from __future__ import annotations

import copy
import itertools

from .. import envgen, gen, proto
from ..framework import Case, Check
from .c07 import mutate_value

RULE = ("payloads from the JSON generator (incl. tuples at top level, non-ASCII, floats, deep nesting) x 1-5 signing keys: wrap, then sign in two "
        "different orders, re-sign, sign pre-populated envelopes; every intermediate envelope compared with the model and with an independent "
        "ed25519 signer; verdicts for every threshold 1..n+1 under full and partial authorization; post-signing edits at random JSON paths. "
        "non-trivial = >= 2 signers; distinct by (payload, signer order)")

THEOREMS = ["sign_ok", "sign_idempotent", "sign_commute", "own_entry_counts", "threshold_boundary", "edit_invalidates_or_forgery", "wrap_sign_verify", "concurrent_signers", "concurrent_eq_sequential", "copying_signers_lose_entry", "inPlace_step_frame"]


def run(ck: Check) -> None:
    rng = ck.rng
    n = ck.n(400, 90)
    from .. import impl

    for i in range(n):
        payload = envgen.payload(rng) if i % 3 else gen.rand_json(rng, 4, [30])
        if i % 17 == 0:
            payload = (1, "a", [2.5])
        if i % 13 == 7:
            # a string is a payload like any other — also when its text happens to be JSON, a number, or looks like a file name
            payload = rng.choice(["{}", "[]", '{"depends": []}', "[1, 2]", " {}", "null", "123", '"quoted"', "repodata.json", "{", "[" * 1200])
        if i % 11 == 5:
            # a payload that itself looks like an envelope (signed or not): wrapping nests it, it is not passed through
            inner = gen.envelope(envgen.payload(rng))
            if rng.random() < 0.6:
                gen.sign_env(inner, [gen.key(rng.randrange(10))], False, rng)
            if rng.random() < 0.3:
                inner["signed"] = {"signatures": {}, "signed": 1}
            payload = inner
        ks = [gen.key(j) for j in rng.sample(range(10), rng.randint(1, 5))]
        # wrap
        r = ck.run_cases([Case("wrap", [payload], tag="wrap", group=i)], "corr:wrap_as_signable/value")[0]
        if not r.impl.startswith("V "):
            ck.violation("wrapping a JSON payload failed", {"payload": proto.enc(payload)[:600], "impl": r.impl}, "wrap-failed")
            continue
        env0 = proto.dec(r.impl[2:])
        ck.oracle_checks += 1
        if not (isinstance(env0, dict) and set(env0) == {"signatures", "signed"} and env0["signatures"] == {} and proto.deep_equal(env0["signed"], payload)):
            ck.violation("the wrapped envelope does not carry the payload unchanged with an empty signature map", {"payload": proto.enc(payload)[:600], "envelope": proto.enc(env0)[:800]}, "wrap-shape")
            continue
        # wrapping copies: later changes to the caller's object do not reach the envelope
        if isinstance(payload, (dict, list)) and payload:
            live = copy.deepcopy(payload)
            w = impl.signing.wrap_as_signable(live)
            frozen = copy.deepcopy(w)
            for pth in sorted([q for q in gen.json_paths(live) if q], key=len, reverse=True)[:6]:
                try:
                    cur = live
                    for q in pth[:-1]:
                        cur = cur[q]
                    cur[pth[-1]] = "CHANGED-AFTER-WRAPPING"
                except Exception:
                    continue
            ck.oracle_checks += 1
            if not proto.deep_equal(w, frozen):
                ck.violation("the wrapped envelope does not carry its own copy of the payload (changing the caller's object afterwards changed the envelope)",
                             {"payload": proto.enc(payload)[:600]}, "wrap-aliasing")
        if rng.random() < 0.3:   # pre-populated envelope: foreign entries must survive
            env0["signatures"][gen.key(11).hex] = gen.raw_entry(gen.key(11), b"other")
            env0["signatures"]["junk"] = "x"
        if i % 9 == 4:   # a crowded envelope: the new signers' entries land behind dozens of strangers' entries and must count all the same
            import hashlib as _h
            for j in range(40):
                env0["signatures"][_h.sha256(b"stranger%d" % j).hexdigest()] = {"signature": "00" * 64}
        data = gen.oracle_bytes(payload)
        order1 = list(ks)
        order2 = list(ks)
        rng.shuffle(order2)
        finals = []
        for order in (order1, order2):
            env = copy.deepcopy(env0)
            for k in order:
                before = copy.deepcopy(env)
                res = ck.run_cases([Case("sign", [env, proto.KeyObj(True, k.seed)], tag="sign", group=i)], "corr:sign_signable/envelope")[0]
                if not res.impl.startswith("V "):
                    ck.violation("signing a signable envelope failed", {"envelope": proto.enc(env)[:800], "impl": res.impl}, "sign-failed")
                    break
                env = proto.dec(res.impl[2:])
                ck.oracle_checks += 1
                want = copy.deepcopy(before)
                want["signatures"][k.hex] = gen.raw_entry(k, data)      # independent signer; Ed25519 is deterministic
                if not proto.deep_equal(env, want):
                    ck.violation("sign_signable did not (only) file a valid signature over the canonical payload bytes under the hex of the signer's public key",
                                 {"before": proto.enc(before)[:800], "after": proto.enc(env)[:800], "signer": k.hex}, "sign-entry")
            finals.append(env)
        if len(finals) == 2:
            ck.oracle_checks += 1
            if not proto.deep_equal(finals[0], finals[1]):
                ck.violation("signing by several keys in different orders yields different envelopes", {"a": proto.enc(finals[0])[:800], "b": proto.enc(finals[1])[:800]}, "order")
            env = finals[0]
            # idempotence
            again = ck.run_cases([Case("sign", [env, proto.KeyObj(True, ks[0].seed)], tag="re-sign", group=i)], "corr:sign_signable/envelope")[0]
            ck.oracle_checks += 1
            if again.impl.startswith("V ") and not proto.deep_equal(proto.dec(again.impl[2:]), env):
                ck.violation("signing again with the same key changed the envelope", {"envelope": proto.enc(env)[:800]}, "idempotent")
            # threshold boundary under full / partial authorization
            vcases = []
            nk = len(ks)
            auth_full = [k.hex for k in ks] + [gen.key(12).hex]
            for t in range(1, nk + 2):
                vcases.append((Case("vsignable", [env, auth_full, t, False], tag="boundary-full", group=i), "OK" if t <= nk else "E SignatureError"))
            sub = ks[: rng.randint(0, nk)]
            for t in range(1, len(sub) + 2):
                vcases.append((Case("vsignable", [env, [k.hex for k in sub], t, False], tag="boundary-subset", group=i), "OK" if t <= len(sub) else "E SignatureError"))
            # a signer named several times in the authorized list is still one signer
            dup = [k.hex for k in ks] + [ks[0].hex, ks[0].hex] + ([ks[-1].hex] if nk > 1 else [])
            rng.shuffle(dup)
            vcases.append((Case("vsignable", [env, dup, nk, False], tag="boundary-dup-authorized", group=i), "OK"))
            vcases.append((Case("vsignable", [env, dup, nk + 1, False], tag="boundary-dup-authorized", group=i), "E SignatureError"))
            res = ck.run_cases([c for c, _ in vcases], "corr:verify_signable/outcome-class")
            for (c, want), r2 in zip(vcases, res):
                ck.oracle_checks += 1
                if r2.impl != want:
                    ck.violation("library-signed envelope: wrong verdict at the threshold boundary", {"envelope": proto.enc(env)[:800], "authorized": c.args[1], "threshold": c.args[2], "impl": r2.impl, "expected": want},
                                 f"boundary:{c.tag}:{r2.impl}")
            # any later change of the payload makes every signature stop counting
            for _ in range(2):
                edited = mutate_value(rng, env["signed"] if not isinstance(env["signed"], tuple) else list(env["signed"]))
                if edited is None:
                    continue
                e2 = {"signatures": copy.deepcopy(env["signatures"]), "signed": edited}
                r3 = ck.run_cases([Case("vsignable", [e2, auth_full, 1, False], tag="edited", group=i)], "corr:verify_signable/outcome-class")[0]
                ck.oracle_checks += 1
                if r3.impl != "E SignatureError":
                    ck.violation("signatures still count after the payload's JSON value was changed", {"original": proto.enc(env["signed"])[:500], "edited": proto.enc(edited)[:500], "impl": r3.impl}, "edit-still-verifies")
            # re-signing after the payload changed: what the library's signing function produces must verify (C02), old entries of others stop counting
            edited = mutate_value(rng, env["signed"] if not isinstance(env["signed"], tuple) else list(env["signed"]))
            if edited is not None:
                e3 = {"signatures": copy.deepcopy(env["signatures"]), "signed": edited}
                rs = ck.run_cases([Case("sign", [e3, proto.KeyObj(True, ks[0].seed)], tag="re-sign-after-edit", group=i)], "corr:sign_signable/envelope")[0]
                if rs.impl.startswith("V "):
                    e4 = proto.dec(rs.impl[2:])
                    rv = ck.run_cases([Case("vsignable", [e4, [ks[0].hex], 1, False], tag="re-signed-verifies", group=i),
                                       Case("vsignable", [e4, [k.hex for k in ks], 2, False], tag="re-signed-others-stale", group=i)], "corr:verify_signable/outcome-class")
                    ck.oracle_checks += 2
                    if rv[0].impl != "OK":
                        ck.violation("an envelope re-signed by the library after its payload changed does not verify under the signer's key", {"edited": proto.enc(edited)[:500], "impl": rv[0].impl}, "re-sign-after-edit")
                    if rv[1].impl != "E SignatureError":
                        ck.violation("signatures made before the payload changed still count after one signer re-signed", {"impl": rv[1].impl}, "stale-signatures-count")
            if nk >= 2:
                ck.nontrivial_add((proto.enc(payload)[:200], tuple(k.idx for k in order2)))
    # payloads whose canonical serialization ends exactly on a buffer / hash-block / length-field boundary (and on the boundaries the current source names:
    # gen.sizes_of_interest): every one round-trips — what the library signs, the library verifies, and it is the signature RFC 8032 defines over the
    # canonical bytes.  (Implementation and independent signer only; the sizes are directed, not sampled.)
    sk = gen.key(3)
    priv = impl.common.PrivateKey.from_bytes(sk.seed)
    for nbytes in gen.sizes_of_interest():
        payload = gen.sized_payload(nbytes)
        data = gen.oracle_bytes(payload)
        ck.count("sized-roundtrip")
        ck.evaluations += 1
        ck.oracle_checks += 1
        try:
            with impl.quiet_stdout():
                env = impl.signing.wrap_as_signable(payload)
                impl.signing.sign_signable(env, priv)
                sig = (env["signatures"].get(sk.hex) or {}).get("signature")
                direct = impl.signing.serialize_and_sign(payload, priv)
                try:
                    impl.authentication.verify_signable(env, [sk.hex], 1)
                    verdict = "OK"
                except Exception as e:  # noqa: BLE001
                    verdict = impl.classify(e)
                try:
                    impl.authentication.verify_signature(sk.sign(data).hex(), impl.common.PublicKey.from_hex(sk.hex), data)
                    prim = "OK"
                except Exception as e:  # noqa: BLE001
                    prim = impl.classify(e)
        except Exception as e:  # noqa: BLE001
            ck.violation("wrapping and signing a JSON payload failed", {"canonical_size": len(data), "error": repr(e)[:200]}, "sized:failed")
            continue
        want = sk.sign(data).hex()
        if sig != want or direct != want or verdict != "OK" or prim != "OK":
            ck.violation("a payload of a particular canonical size does not round-trip: the library's signature is not the ed25519 signature over the canonical bytes, or does not verify",
                         {"canonical_size": len(data), "signature_is_rfc8032_over_canonical_bytes": sig == want, "serialize_and_sign_same": direct == want,
                          "verify_signable": verdict, "verify_signature_of_reference_signature": prim}, "sized:roundtrip")
            break
    # "touches only the signer's own entry", observed directly: the envelope and its signature map are dict subclasses that log every modifying operation;
    # after sign_signable the log may hold stores under the signer's own key id only — no deletion, pop, clear, re-insertion of other entries (not even
    # transiently: another thread may be looking), and no replacement of the whole map
    class WatchDict(dict):
        log = None
        def _note(self, what, key=None):
            if self.log is not None:
                self.log.append((self.name, what, key))
        def __setitem__(self, k, v): self._note("store", k); dict.__setitem__(self, k, v)
        def __delitem__(self, k): self._note("delete", k); dict.__delitem__(self, k)
        def pop(self, k, *d): self._note("delete", k); return dict.pop(self, k, *d)
        def popitem(self): self._note("delete", "<popitem>"); return dict.popitem(self)
        def clear(self): self._note("delete", "<clear>"); dict.clear(self)
        def setdefault(self, k, d=None):
            if k not in self: self._note("store", k)
            return dict.setdefault(self, k, d)
        def update(self, *a, **kw):
            for k in dict(*a, **kw): self._note("store", k)
            dict.update(self, *a, **kw)
        def __ior__(self, other):
            for k in dict(other): self._note("store", k)
            return dict.__ior__(self, other)
    for j in range(6):
        kk = gen.key(j)
        pk = impl.common.PrivateKey.from_bytes(kk.seed)
        payload = {"name": "watched", "n": j}
        data = gen.oracle_bytes(payload)
        log = []
        sigs = WatchDict({gen.key(8).hex: gen.raw_entry(gen.key(8), data), "junk": "x", gen.key(9).hex: {"signature": "00" * 64}})
        older = None
        if j % 3 == 1:
            sigs[kk.hex] = {"signature": "11" * 64}          # the signer's own earlier entry, about to be replaced
        elif j % 3 == 2:
            # the signer's earlier entry in another shape (an OpenPGP entry with a note, an annotated one), the very dict object also sitting in an older
            # envelope (a shallow copy of the map): signing replaces the entry in *this* map by a fresh raw entry and leaves the older envelope's alone
            shared = rng.choice([{"other_headers": "04001608", "signature": "22" * 64, "see_also": "ab" * 20}, {"signature": "33" * 64, "comment": "first try"}])
            sigs[kk.hex] = shared
            older = {"signatures": dict(sigs), "signed": {"older": True}}
            older_before = copy.deepcopy(older)
        env = WatchDict({"signatures": sigs, "signed": payload})
        sigs.name, env.name = "signatures", "envelope"
        sigs.log = env.log = log
        ck.evaluations += 1
        ck.oracle_checks += 1
        try:
            with impl.quiet_stdout():
                impl.signing.sign_signable(env, pk)
        except Exception as e:  # noqa: BLE001
            ck.violation("signing a signable envelope failed", {"error": repr(e)[:200], "envelope_kind": "dict subclass"}, "sign-failed:watched")
            continue
        if older is not None and not proto.deep_equal(older, older_before):
            ck.violation("sign_signable changed an entry object in place: an older envelope that shares the entry (shallow copy of the map) was altered",
                         {"older_entry_now": proto.enc(older["signatures"].get(kk.hex))[:200]}, "sign-alters-shared-entry")
            break
        foreign = [(n, w, proto.label(k)) for (n, w, k) in log if not (n == "signatures" and w == "store" and k == kk.hex)]
        if foreign or env["signatures"].get(kk.hex) != gen.raw_entry(kk, data):
            ck.violation("sign_signable modified more than the signer's own entry of the signature map (other entries were removed / re-inserted, or the whole map replaced — visible to a concurrent reader or signer)",
                         {"signer": kk.hex, "modifying_operations": [list(x) for x in log][:12]}, "sign-touches-others")
            break
    # two signers at work on one envelope at the same time (threads; every sampled schedule in which the two calls overlap without nesting, and with nesting):
    # each touches its own entry only, so both entries are there afterwards and are the ones sequential signing gives
    import os as _os
    from .. import sched
    repo_pkg = _os.path.join(_os.path.realpath(_os.environ.get("CCT_REPO", "/repo")), "conda_content_trust") + _os.sep
    ka, kb = gen.key(5), gen.key(6)
    pa, pb = impl.common.PrivateKey.from_bytes(ka.seed), impl.common.PrivateKey.from_bytes(kb.seed)
    payload = {"name": "shared", "n": [1, 2, {"x": 1.5}]}
    data = gen.oracle_bytes(payload)
    ref = {"signatures": {ka.hex: gen.raw_entry(ka, data), kb.hex: gen.raw_entry(kb, data), "junk": "x"}, "signed": payload}
    _, na = sched.count_events(lambda: impl.signing.sign_signable({"signatures": {}, "signed": payload}, pa), repo_pkg)
    nsched = 0
    with impl.quiet_stdout():
        for k1 in range(1, na + 1):
            for k2 in sorted({1, max(1, na // 2), na}):
                env = {"signatures": {"junk": "x"}, "signed": copy.deepcopy(payload)}
                ra, rb, _, _ = sched.staggered(lambda: impl.signing.sign_signable(env, pa), lambda: impl.signing.sign_signable(env, pb), k1, k2, repo_pkg)
                nsched += 1
                ck.evaluations += 1
                ck.oracle_checks += 1
                if ra is not None or rb is not None:
                    ck.violation("two signers signing one envelope concurrently: a call that succeeds alone failed", {"first": str(ra)[:120], "second": str(rb)[:120],
                                 "first_signer_stopped_after_steps": k1, "second_signer_stopped_after_steps": k2}, "concurrent-signers-failed")
                    break
                if not proto.deep_equal(env, ref):
                    ck.violation("two signers signing one envelope concurrently: a signer's call touched more than its own entry (an entry is missing or altered afterwards)",
                                 {"first_signer_stopped_after_steps": k1, "second_signer_stopped_after_steps": k2, "entries_present": sorted(env["signatures"]),
                                  "entries_expected": sorted(ref["signatures"])}, "concurrent-signers")
                    break
            else:
                continue
            break
    ck.count("staggered-signing-schedules", nsched)
    # wrong kinds of key
    bad = [Case("sign", [gen.envelope({"a": 1}), x], tag="sign-bad-key") for x in [None, "ab" * 32, b"\x01" * 32, 5, proto.Opaque(0)]]
    bad += [Case("sign", [x, proto.KeyObj(True, gen.key(1).seed)], tag="sign-bad-envelope") for x in [None, {"signed": 1}, {"signatures": [], "signed": 1}, [], "x", {"signatures": {}, "signed": 1, "extra": 2}]]
    bad += [Case("wrap", [x], tag="wrap-bad-kind") for x in [b"x", bytearray(b"x"), proto.Opaque(0), proto.Opaque(1), proto.Opaque(2)]]
    for r in ck.run_cases(bad, "corr:signing-argument-errors/outcome-class"):
        ck.oracle_checks += 1
        if r.impl != "E ArgError":
            ck.violation("signing helpers accepted a value of the wrong kind", {"call": r.case.op, "impl": r.impl, "tag": r.case.tag}, f"sign-arg:{r.case.tag}:{r.impl}")
