"""C10 — OpenPGP-wrapped signatures follow RFC 4880 v4 and interoperate with GnuPG."""
from __future__ import annotations

import copy
import os
import struct

from .. import envgen, gen, gpgshim, proto
from ..framework import Case, Check

RULE = ("verify_gpg_signature on harness-made OpenPGP-shape entries (payloads of 0-300 bytes, hashed headers of 1-300 bytes, 10 keys) and on every "
        "single-bit and structural corruption of payload, headers, signature and key; digests vs the model's SHA-256; signatures freshly produced by the "
        "GnuPG binary (fresh ed25519 keys + the repository's test keys) over generated metadata, transcribed by the library's own GPG signing path "
        "through a stand-in for securesystemslib, then verified and corrupted; the library's GPG signing path (dict / file / sign_via_gpg / fetch_keyval) vs its model with the signer's outputs "
        "fixed per case (valid / malformed / raising signer, fingerprint spellings, non-signable envelopes, broken files, missing dependency).  non-trivial = a valid entry or a single-fault corruption of one; distinct by entry")

THEOREMS = ["verifyGpg_iff", "gpgDigest_def", "digestInput_injective", "change_rejected_or_collision", "counts_gpg_iff", "gpg_path_interoperates", "gpg_path_needs_dependency"]


def corruptions(rng, entry, key_hex, data):
    """single-fault variants: (entry, key, data, label)"""
    out = []
    h = bytearray.fromhex(entry["other_headers"])
    for _ in range(3):
        b = bytearray(h)
        b[rng.randrange(len(b))] ^= 1 << rng.randrange(8)
        out.append(({**entry, "other_headers": bytes(b).hex()}, key_hex, data, "header-bitflip"))
    out.append(({**entry, "other_headers": (bytes(h) + b"\x00").hex()}, key_hex, data, "header-extended"))
    if len(h) > 1:
        out.append(({**entry, "other_headers": bytes(h[:-1]).hex()}, key_hex, data, "header-truncated"))
    s = bytearray.fromhex(entry["signature"])
    for _ in range(3):
        b = bytearray(s)
        b[rng.randrange(64)] ^= 1 << rng.randrange(8)
        out.append(({**entry, "signature": bytes(b).hex()}, key_hex, data, "signature-bitflip"))
    out.append(({**entry, "signature": bytes(s[32:] + s[:32]).hex()}, key_hex, data, "signature-halves-swapped"))
    if data:
        d = bytearray(data)
        d[rng.randrange(len(d))] ^= 1 << rng.randrange(8)
        out.append((entry, key_hex, bytes(d), "payload-bitflip"))
    out.append((entry, key_hex, data + b"\x00", "payload-extended"))
    out.append((entry, key_hex, data + bytes(h[:1]), "payload-takes-header-byte"))   # boundary between payload and headers
    k = bytearray.fromhex(key_hex)
    k[rng.randrange(32)] ^= 1 << rng.randrange(8)
    out.append((entry, bytes(k).hex(), data, "key-bitflip"))
    out.append((entry, gen.key(13).hex, data, "other-key"))
    return out


def run(ck: Check) -> None:
    rng = ck.rng
    from .. import impl

    cases, want = [], []
    for i in range(ck.n(250, 60)):
        k = gen.key(rng.randrange(10))
        data = bytes(rng.getrandbits(8) for _ in range(rng.choice([0, 1, 17, 64, 300]))) if i % 2 else gen.oracle_bytes(envgen.payload(rng))
        hdr = gen.rand_hdr(rng) if i % 3 else gen.GPG_HDR_TYPICAL
        e = gen.gpg_entry(k, data, hdr, see_also=("ab" * 20 if i % 5 == 0 else None))
        cases.append(Case("vgpg", [e, k.hex, data], tag="valid", group=i))
        want.append("OK")
        cases.append(Case("vgpg", [e, k.hex, bytearray(data)], tag="valid-bytearray", group=i))
        want.append("OK")
        for e2, k2, d2, label in corruptions(rng, e, k.hex, data):
            cases.append(Case("vgpg", [e2, k2, d2], tag=label, group=i))
            want.append("E InvalidSignature")
        # digest construction variants an implementation might use instead: each must be rejected
        for label, dg in (("no-trailer", data + hdr), ("little-endian-length", data + hdr + b"\x04\xff" + struct.pack("<I", len(hdr))),
                          ("headers-first", hdr + data + b"\x04\xff" + struct.pack(">I", len(hdr))), ("16-bit-length", data + hdr + b"\x04\xff" + struct.pack(">H", len(hdr)))):
            import hashlib
            if dg == data + hdr + b"\x04\xff" + struct.pack(">I", len(hdr)):
                continue    # coincides with the RFC construction for this input (e.g. empty payload)
            sig = k.sign(hashlib.sha256(dg).digest()).hex()
            cases.append(Case("vgpg", [{"other_headers": hdr.hex(), "signature": sig}, k.hex, data], tag="wrong-digest-" + label, group=i))
            want.append("E InvalidSignature")
        sig512 = k.sign(hashlib.sha512(data + hdr + b"\x04\xff" + struct.pack(">I", len(hdr))).digest()).hex()
        cases.append(Case("vgpg", [{"other_headers": hdr.hex(), "signature": sig512}, k.hex, data], tag="wrong-digest-sha512", group=i))
        want.append("E InvalidSignature")
        cases.append(Case("vgpg", [gen.raw_entry(k, data) | {"other_headers": hdr.hex()}, k.hex, data], tag="raw-signature-in-gpg-shape", group=i))
        want.append("E InvalidSignature")
    # the rule does not look inside the hashed headers: whatever their first octet says about versions (3, 5, 6 ...), the trailer is 04 ff and a 32-bit length
    for v0 in (0, 1, 2, 3, 5, 6, 0x7F, 0x80, 0xFF):
        for hdr in (bytes([v0]) + gen.GPG_HDR_TYPICAL[1:], bytes([v0]), bytes([v0]) + bytes(rng.getrandbits(8) for _ in range(rng.choice([5, 34, 300])))):
            k = gen.key(rng.randrange(10))
            data = gen.oracle_bytes(envgen.payload(rng))
            cases.append(Case("vgpg", [gen.gpg_entry(k, data, hdr), k.hex, data], tag="valid-first-octet", group=900 + v0))
            want.append("OK")
    # entries as GnuPG really emits them — a well-formed hashed area whose subpackets use every length form (long notations, policy URIs), labelled with a
    # see_also fingerprint that matches the issuer subpacket or does not — over payloads whose length sits on buffer / hash-block / length-field boundaries
    sizes = gen.sizes_of_interest()
    big = [n for n in sizes if n > 9000]
    for i in range(ck.n(500, 120)):
        k = gen.key(rng.randrange(10))
        n = rng.choice(big) if (i % 6 == 0 and big) else rng.choice([x for x in sizes if x <= 9000] + [0, 1, 17, 300])
        data = bytes([rng.getrandbits(8)]) * n if i % 2 else bytes(rng.getrandbits(8) for _ in range(min(n, 64))) + b"\x00" * max(0, n - 64)
        hdr = gen.realistic_hdr(rng)
        fp = hdr[9:29].hex() if (hdr[7:9] == b"\x21\x04" and i % 3) else "ab" * 20
        e = gen.gpg_entry(k, data, hdr, see_also=(fp if i % 4 else None))
        ck.count("realistic-header:" + ("boundary-payload" if n in sizes else "payload"))
        cases.append(Case("vgpg", [e, k.hex, data], tag="valid-realistic", group=1000 + i))
        want.append("OK")
        cases.append(Case("vgpg", [e, k.hex, data + b"\x00"], tag="payload-extended", group=1000 + i))
        want.append("E InvalidSignature")
        if n:
            cases.append(Case("vgpg", [e, k.hex, data[:-1]], tag="payload-shortened", group=1000 + i))
            want.append("E InvalidSignature")
    # hashed areas of every length on a buffer / length-field boundary (notation data and policy URIs can be long; the 16-bit count inside the area says
    # nothing about how much was hashed — the rule hashes the entry's header bytes, all of them, and their 32-bit length)
    for j, n in enumerate(x for x in gen.sizes_of_interest() if 255 <= x <= 140000):
        if not ck.thorough and j % 2 and n not in (32768, 65535, 65536, 65537):
            continue
        body = bytes([rng.getrandbits(8)]) * (n - 6)
        hdr = bytes([4, 0, 22, 8]) + struct.pack(">H", (n - 6) & 0xFFFF) + body
        k = gen.key(j % 10)
        data = gen.oracle_bytes({"long-header": n})
        e = gen.gpg_entry(k, data, hdr)
        cases.append(Case("vgpg", [e, k.hex, data], tag="valid-long-header", group=1700 + j))
        want.append("OK")
        cases.append(Case("vgpg", [{**e, "other_headers": e["other_headers"][:-2]}, k.hex, data], tag="long-header-shortened", group=1700 + j))
        want.append("E InvalidSignature")
    # the scalar half of a valid signature plus the group order: not a valid signature (RFC 8032: S < L), rejected like any other corruption
    L_ = 2 ** 252 + 27742317777372353535851937790883648493
    nplus = 0
    for j in range(200):
        k = gen.key(j % 10)
        data = gen.oracle_bytes({"scalar-plus-order": j})
        e = gen.gpg_entry(k, data, gen.GPG_HDR_TYPICAL)
        sb = bytes.fromhex(e["signature"])
        s2 = int.from_bytes(sb[32:], "little") + L_
        if s2 >= 2 ** 256:
            continue
        cases.append(Case("vgpg", [{**e, "signature": (sb[:32] + s2.to_bytes(32, "little")).hex()}, k.hex, data], tag="scalar-plus-order", group=1900 + j))
        want.append("E InvalidSignature")
        nplus += 1
        if nplus >= 12:
            break
    # directed: hashed areas stating lifetimes that are long over / not yet begun / zero, plainly and marked critical (gpg --default-sig-expire,
    # --ask-sig-expire, faked clocks): the library documents that it disregards OpenPGP expiry, so each is valid like any other well-signed entry
    fpr = b"\x04" + bytes(range(20))
    for j, (created, life, typ) in enumerate([(1594619205, 1, 3), (1594619205, 86400, 0x83), (1, 1, 3), (0xFFFFFF00, 60, 3), (1594619205, 0, 3), (1594619205, 0xFFFFFFFF, 3),
                                              (1594619205, 1, 9), (1594619205, 1, 0x89), (0, 0, 3)]):
        for order in (0, 1):
            subs = [gen._subpacket(33, fpr), gen._subpacket(2, struct.pack(">I", created)), gen._subpacket(typ, struct.pack(">I", life))]
            if order:
                subs = [subs[2], subs[0], subs[1]]
            area = b"".join(subs)
            hdr = bytes([4, 0, 22, 8]) + struct.pack(">H", len(area)) + area
            k = gen.key(j % 10)
            data = gen.oracle_bytes({"directed": j})
            cases.append(Case("vgpg", [gen.gpg_entry(k, data, hdr), k.hex, data], tag="valid-stated-lifetime", group=1500 + j))
            want.append("OK")
    # signatures whose first octet(s) are zero, presented as an OpenPGP MPI would carry them (leading zero octets dropped): not 64 bytes, not a signature
    found = 0
    for j in range(4000):
        k = gen.key(j % 10)
        data = b"lz%d" % j
        hdr = gen.GPG_HDR_TYPICAL
        e = gen.gpg_entry(k, data, hdr)
        if e["signature"].startswith("00"):
            cases.append(Case("vgpg", [e, k.hex, data], tag="valid-leading-zero", group=900 + found))
            want.append("OK")
            cases.append(Case("vgpg", [{**e, "signature": e["signature"][2:]}, k.hex, data], tag="leading-zero-octet-dropped", group=900 + found))
            want.append("E ArgError")
            cases.append(Case("vgpg", [{**e, "signature": e["signature"][2:] + "00"}, k.hex, data], tag="leading-zero-octet-moved-to-end", group=900 + found))
            want.append("E InvalidSignature")
            found += 1
            if found >= (6 if ck.thorough else 2):
                break
    # keys and signature points of small order (no seed derives them, GnuPG never emits them): valid exactly when the primitive says so, like any other key
    from cryptography.hazmat.primitives.asymmetric import ed25519 as _ed
    small = [bytes([1]) + bytes(31), bytes.fromhex("ecffffffffffffffffffffffffffffffffffffffffffffffffffffffffffff7f"), bytes(32), bytes(31) + bytes([0x80]),
             bytes.fromhex("26e8958fc2b227b045c3f489f2ef98f0d5dfac05d3c63339b13802886d53fc05"), bytes.fromhex("c7176a703d4dd84fba3c0b760d10670f2a2053fa2c39ccc64ec7fd7792ac037a")]
    nso = 0
    for A in small:
        for R in small:
            for j in range(3 if ck.thorough else 1):
                data = b"so%d" % (j + rng.randrange(50))
                hdr = gen.GPG_HDR_TYPICAL
                sig = R + bytes(32)
                try:
                    _ed.Ed25519PublicKey.from_public_bytes(A).verify(sig, gen.gpg_digest(data, hdr))
                    ok = True
                except Exception:  # noqa: BLE001
                    ok = False
                cases.append(Case("vgpg", [{"other_headers": hdr.hex(), "signature": sig.hex()}, A.hex(), data], tag="small-order-" + ("valid" if ok else "invalid"), group=950 + nso))
                want.append("OK" if ok else "E InvalidSignature")
                nso += 1
    res = ck.run_cases(cases, "corr:verify_gpg_signature/outcome-class")
    for r, w in zip(res, want):
        ck.oracle_checks += 1
        ck.nontrivial_add(proto.enc(r.case.args[0])[:400] + r.case.tag)
        if r.impl != w:
            ck.violation("verify_gpg_signature accepted a changed payload / header / signature / key or a digest built differently from RFC 4880 v4" if r.impl == "OK"
                         else "verify_gpg_signature rejected a signature valid over SHA-256(payload || hashed headers || 04 ff || be32(len headers))",
                         {"case": r.case.tag, "impl": r.impl, "expected": w, "entry": proto.enc(r.case.args[0])[:500], "key": r.case.args[1], "payload_hex": bytes(r.case.args[2]).hex()[:300]},
                         f"gpg:{r.case.tag}:{r.impl}")
    # OpenPGP mode counts OpenPGP entries only: an envelope whose authorized signers left raw-format entries (valid as such) is not accepted
    rcases = []
    for i in range(ck.n(60, 12)):
        ks_ = [gen.key(j) for j in rng.sample(range(10), rng.randint(1, 3))]
        env_ = gen.sign_env(gen.envelope(envgen.payload(rng)), ks_, False)
        rcases.append(Case("vsignable", [env_, [k.hex for k in ks_], 1, True], tag="raw-entries-in-openpgp-mode", group=7000 + i))
        mixed = gen.sign_env(copy.deepcopy(env_), ks_[:1], True, rng)          # one proper OpenPGP entry: counts once
        rcases.append(Case("vsignable", [mixed, [k.hex for k in ks_], 2, True], tag="raw-entries-in-openpgp-mode", group=7000 + i))
    for r in ck.run_cases(rcases, "corr:verify_signable/outcome-class"):
        ck.oracle_checks += 1
        if r.impl != "E SignatureError":
            ck.violation("in OpenPGP mode an entry that is not an OpenPGP signature over SHA-256(payload || headers || 04 ff || length) was counted",
                         {"envelope": proto.enc(r.case.args[0])[:800], "impl": r.impl}, "gpg:raw-entry-counted")
    # digests: model's SHA-256 over the model's input construction vs hashlib over the RFC's
    lines, exp = [], []
    for _ in range(80):
        d = bytes(rng.getrandbits(8) for _ in range(rng.choice([0, 3, 64, 200])))
        h = gen.rand_hdr(rng)
        lines.append(f"prim digest x{d.hex()} x{h.hex()}")
        exp.append("B " + gen.gpg_digest(d, h).hex())
    for ln, w, got in zip(lines, exp, ck.driver.run(lines)):
        ck.evaluations += 1
        if got != w:
            ck.mismatch_total += 1
            ck.mismatch_kinds["digest"] = ck.mismatch_kinds.get("digest", 0) + 1
            ck.mismatches.append({"corr": "corr:gpg-digest/bytes", "line": ln[:300], "impl": w, "model": got, "tag": "digest", "meta": {}, "stdout_encoding": "utf-8"})
    ck.correspondences.add("corr:gpg-digest/bytes")

    # the library's GPG signing path against its model (CCT/Model/RootSigning.lean): the signer's outputs are fixed per case
    gcases = []
    FPR = "f075dd2f6f4cb3bd76134bbb81b6ca16ef9cd589"
    fprs_bad = [FPR.upper(), FPR[:-1], FPR + "0", " " + FPR, FPR[:4] + " " + FPR[4:], FPR[:-1] + "g", "", None, 5, FPR.encode(), [FPR], proto.Opaque(0)]
    fprs_fetch = [FPR.upper(), "F075 DD2F 6F4C B3BD 7613  4BBB 81B6 CA16 EF9C D589", "f075\xa0dd2f6f4cb3bd76134bbb81b6ca16ef9cd589", FPR[:-1], FPR + "\n", "\uff26" + FPR[1:],
                  "\u0130" + FPR[1:], None, 5, FPR.encode(), bytearray(FPR.encode()), [FPR], proto.Opaque(0), ""]
    for i in range(ck.n(120, 40)):
        k = gen.key(rng.randrange(10))
        payload = envgen.payload(rng)
        env = gen.envelope(payload)
        if rng.random() < 0.6:
            gen.sign_env(env, [gen.key(j) for j in rng.sample(range(10), rng.randint(1, 3))], rng.random() < 0.5, rng)
        hdr = gen.rand_hdr(rng)
        data = gen.oracle_bytes(payload)
        oh, sg, q = hdr.hex(), k.sign(gen.gpg_digest(data, hdr)).hex(), k.hex
        r = rng.random()
        if r < 0.15:
            oh, sg, q = rng.choice([(None, sg, q), (oh, None, q), (oh, sg, None), (None, None, None)])      # a signer that fails; never one that returns malformed values
        elif r < 0.25 and env["signatures"]:
            q = next(iter(env["signatures"]))         # the signer's key already has an entry: replaced, others untouched
        sslib = rng.random() > 0.1
        fpr = FPR if rng.random() < 0.7 else rng.choice(fprs_bad)
        e2 = env
        r = rng.random()
        if r < 0.25:
            e2 = rng.choice([{"signatures": {}}, {"signed": payload}, {"signatures": [], "signed": payload}, {"signatures": {}, "signed": payload, "x": 1}, [], None, "env", 5,
                             proto.Opaque(1), {"signatures": None, "signed": payload}])
        gcases.append(Case("gpg", ["dict", sslib, oh, sg, q, e2, fpr], tag="gpg-path:dict", group=5000 + i))
        # file level: canonical / re-laid-out / broken files
        import random as _random
        from .. import jsontext
        fb = rng.choice([gen.oracle_bytes(env), jsontext.rand_text(_random.Random(i), env, float_variants=False).encode("utf-8", "surrogatepass"), b"{", b"", None, gen.oracle_bytes({"signed": 1}), b"[1, 2]"]) if rng.random() < 0.5 else gen.oracle_bytes(env)
        gcases.append(Case("gpg", ["file", sslib, oh, sg, q, fb, fpr if not isinstance(fpr, proto.Opaque) else FPR], tag="gpg-path:file", group=5000 + i))
        dv = rng.choice([data, bytearray(data), b"", data.decode("utf-8", "replace"), None, 5, [1], proto.Opaque(2)]) if rng.random() < 0.4 else data
        gcases.append(Case("gpg", ["via", sslib, oh, sg, q, dv, fpr, rng.random() < 0.5], tag="gpg-path:sign_via_gpg", group=5000 + i))
        gcases.append(Case("gpg", ["fetch", sslib, oh, sg, q, FPR if rng.random() < 0.3 else rng.choice(fprs_fetch)], tag="gpg-path:fetch_keyval", group=5000 + i))
    for r in ck.run_cases(gcases, "corr:gpg-signing-path/value-or-error-class"):
        ck.nontrivial_add(("gpgpath", r.case.tag, r.impl[:60], proto.enc(r.case.args[5])[:80] if not isinstance(r.case.args[5], (bytes, type(None))) else len(r.case.args[5] or b"")))
        # property-level oracle on the successful dict-level runs: entry filed under q, transcribed as {other_headers, signature}, nothing else touched
        if r.case.args[0] == "dict" and r.impl.startswith("V "):
            ck.oracle_checks += 1
            _fn, _sl, oh, sg, q, e2, fpr = r.case.args
            got = proto.dec(r.impl[2:])
            want = {"signatures": {**e2["signatures"], q: {"other_headers": oh, "signature": sg}}, "signed": e2["signed"]}
            if not proto.deep_equal(got, want):
                ck.violation("the GPG signing path does not file exactly {other_headers, signature} under the key's raw public value, leaving the rest of the envelope as it was",
                             {"request": impl.enc_case("gpg", r.case.args)[:800], "result": r.impl[:600]}, "gpg-path-transcription")

    # GnuPG interoperability through the library's own GPG signing path
    if not gpgshim.gpg_available():
        ck.notes.append("gpg binary not available: interoperability run skipped")
        return
    try:
        fprs = gpgshim.gpg_setup(3 if ck.thorough else 1, os.path.join(os.environ.get("CCT_REPO", "/repo"), "tests", "testdata"))
    except Exception as e:
        ck.notes.append("gpg setup failed: " + repr(e)[:200])
        return
    ck.count("gnupg-keys", len(fprs))
    icases, iwant = [], []
    d = impl.scratch_dir()
    for i in range(ck.n(40, 8)):
        md = gen.root_md([gen.key(1)], 1, [gen.key(2)], 1, version=i + 1) if i % 2 else envgen.payload(rng)
        env = gen.envelope(md)
        signers = rng.sample(fprs, rng.randint(1, len(fprs)))
        try:
            if i % 3 == 0:
                fn = os.path.join(d, "gpgsign.json")
                impl.common.write_metadata_to_file(env, fn)
                for f in signers:
                    impl.root_signing.sign_root_metadata_via_gpg(fn, f)
                env = impl.common.load_metadata_from_file(fn)
            else:
                for f in signers:
                    impl.root_signing.sign_root_metadata_dict_via_gpg(env, f)
        except Exception as e:  # noqa: BLE001
            ck.violation("the library's GPG signing path failed with a GnuPG-backed signer", {"error": repr(e)[:300]}, "gpg-sign-failed:" + type(e).__name__)
            continue
        ck.count("gnupg-signatures", len(signers))
        qs = [gpgshim.GPG_KEYS[f] for f in signers]
        ck.oracle_checks += 1
        if sorted(env["signatures"].keys()) != sorted(qs):
            ck.violation("GnuPG signatures are not filed under the keys' raw public values", {"filed": sorted(env["signatures"]), "q": sorted(qs)}, "gpg-filed-under")
            continue
        icases.append(Case("vsignable", [env, qs, len(qs), True], tag="gnupg-valid", group=1000 + i))
        iwant.append("OK")
        icases.append(Case("vsignable", [env, qs, len(qs), False], tag="gnupg-in-raw-mode", group=1000 + i))
        iwant.append("E SignatureError")
        data = gen.oracle_bytes(env["signed"])
        q0 = qs[0]
        for e2, k2, d2, label in corruptions(rng, env["signatures"][q0], q0, data)[:8]:
            icases.append(Case("vgpg", [e2, k2, d2], tag="gnupg-" + label, group=1000 + i))
            iwant.append("E InvalidSignature")
        icases.append(Case("vgpg", [env["signatures"][q0], q0, data], tag="gnupg-entry-valid", group=1000 + i))
        iwant.append("OK")
    res = ck.run_cases(icases, "corr:gnupg-interop/outcome-class")
    for r, w in zip(res, iwant):
        ck.oracle_checks += 1
        ck.nontrivial_add(("gnupg", r.case.group, r.case.tag, proto.enc(r.case.args[0])[:200]))
        if r.impl != w:
            ck.violation("a detached signature produced by GnuPG and transcribed by the library's GPG path is not accepted" if w == "OK"
                         else "a corrupted / wrong-mode GnuPG signature is accepted", {"case": r.case.tag, "impl": r.impl, "expected": w}, f"gnupg:{r.case.tag}:{r.impl}")
    # the GPG file path, directed (shared with C08): the fresh entry counts whatever the signer's earlier entry looked like; never a signature beside a payload it was not made over
    from .. import gpgdirected, impl as _impl
    gpgdirected.run(ck, _impl, _impl.scratch_dir())
