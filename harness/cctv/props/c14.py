"""C14 — the delegating-metadata checker enforces exactly the documented schema."""
from __future__ import annotations

from .. import envgen, gen, mdgen, proto, schema
from ..framework import Case, Check

RULE = ("valid delegating-metadata documents (both types, 0-3 keys per role, optional fields, extra fields, signed and unsigned, "
        "timestamps from the strptime boundary catalogue) and every mutation of each at every JSON path: deletion, replacement by "
        "33 other values (all kinds, Infinity/NaN/10^400/bool), key-string and timestamp near-misses, duplicated list elements, "
        "extra fields, dict-as-list; non-trivial = a document whose envelope shape is intact (reaches the field checks); distinct by document")

THEOREMS = ["checker_iff_schema", "required_field_removed", "accepted_never_internal", "signature_indexes_irrelevant"]


def run(ck: Check) -> None:
    rng = ck.rng
    docs = mdgen.valid_docs(rng, ck.n(60, 14))
    cases = []
    # what the checker accepts is a fixed schema, not something earlier calls in the process can widen: the builders (and the other entry points) are first
    # used with type names outside the supported set, then documents declaring exactly those types are checked
    from .. import impl, mined
    other_types = ["pkg_mgr", "channeler", "x", "root.json", "Root", "key_mgr.json", ""] + [t_ for t_ in mined.strs() if isinstance(t_, str)][:6]
    with impl.quiet_stdout():
        for ty in other_types:
            for f in (lambda: impl.metadata_construction.build_delegating_metadata(ty), lambda: impl.metadata_construction.build_delegating_metadata(metadata_type=ty, delegations={}, version=1),
                      lambda: impl.signing.wrap_as_signable({"type": ty}), lambda: impl.common.checkformat_delegating_metadata(gen.set_path(docs[0], ("signed", "type"), ty))):
                try:
                    f()
                except Exception:  # noqa: BLE001 — the outcome of these priming calls is judged elsewhere (C16); here only what they leave behind matters
                    pass
    for d in docs[:4]:
        for ty in other_types:
            cases.append(Case("check", ["delegating_metadata", gen.set_path(d, ("signed", "type"), ty)], tag="type-outside-supported-set-after-builder-use", meta={"label": "type:" + ty}))
    for d in docs:
        cases.append(Case("check", ["delegating_metadata", d], tag="valid"))
        for m, label in mdgen.mutations(rng, d, per_path=4 if ck.thorough else 2, max_total=900 if ck.thorough else 260):
            ck.count("mut:" + label.split(":")[0])
            cases.append(Case("check", ["delegating_metadata", m], tag=label.split(":")[0], meta={"label": label}))
    for t in mdgen.TIMESTAMPS_GOOD + mdgen.TIMESTAMPS_BAD:
        cases.append(Case("check", ["utc_isoformat", t], tag="utc"))
    res = ck.run_cases(cases, "corr:checkformat_delegating_metadata/outcome-class")
    accepted = []
    for r in res:
        name, v = r.case.args
        ck.oracle_checks += 1
        want = schema.o_delegating_md(v) if name == "delegating_metadata" else schema.wf_utc(v)
        got = True if r.impl == "OK" else (False if r.impl == "E ArgError" else None)
        if schema.o_signable(v) if name == "delegating_metadata" else isinstance(v, str):
            ck.nontrivial_add(proto.enc(v))
        if got is None:
            ck.violation("checker failed with an internal error instead of accepting or raising TypeError/ValueError",
                         {"validator": name, "value": proto.enc(v)[:1500], "impl": r.impl, "mutation": r.case.meta.get("label")}, f"internal:{r.impl}:{r.case.meta.get('label','')}")
        elif got != want:
            ck.violation("checker accepts something outside the documented schema" if got else "checker rejects a document that satisfies the documented schema",
                         {"validator": name, "value": proto.enc(v)[:1500], "impl": r.impl, "schema_says": want, "mutation": r.case.meta.get("label")},
                         f"schema:{'accepts' if got else 'rejects'}:{r.case.meta.get('label', r.case.tag)}")
        if got and name == "delegating_metadata":
            accepted.append(v)
    # the verifiers never run into an internal error on anything the checker accepts (as trusted metadata)
    vcases = []
    for t in accepted[: (ck.n(400, 120))]:
        roles = list(t["signed"]["delegations"].keys())[:2] + ["absent"]
        for role in roles:
            u = gen.envelope({"x": 1})
            d = t["signed"]["delegations"].get(role)
            if d and d["pubkeys"]:
                ks = [k for k in (gen.key(i) for i in range(10)) if k.hex in d["pubkeys"]]
                gen.sign_env(u, ks, False)
            vcases.append(Case("vdeleg", [role, u, t, False], tag="accepted-as-trusted"))
        if t["signed"]["type"] == "root":
            vcases.append(Case("vroot", [t, t], tag="accepted-root-pair"))
        # ... and verify_root on *any* two documents the checker accepts (root or not, with or without a version), in both positions
        other = accepted[(len(vcases) * 7) % len(accepted)]
        vcases.append(Case("vroot", [t, other], tag="accepted-any-pair"))
        vcases.append(Case("vroot", [other, t], tag="accepted-any-pair"))
    res = ck.run_cases(vcases, "corr:verifiers-on-accepted-metadata/outcome-class")
    for r in res:
        ck.oracle_checks += 1
        if r.impl not in ("OK", "E ArgError", "E SignatureError", "E UnknownRoleError", "E MetadataVerificationError"):
            ck.violation("a verifier ran into an internal error on metadata the checker accepts",
                         {"request": r.case.op, "args": [proto.enc(a)[:800] if not isinstance(a, str) else a for a in r.case.args], "impl": r.impl}, f"verifier-internal:{r.impl}")
        if r.case.tag == "accepted-as-trusted":
            want = schema.spec_verify_delegation(*r.case.args)
            if r.impl != want and want == "OK":
                ck.violation("properly signed metadata is rejected under trusted metadata the checker accepts",
                             {"role": r.case.args[0], "trusted": proto.enc(r.case.args[2])[:1200], "impl": r.impl}, f"accepted-then-rejected:{r.impl}")
